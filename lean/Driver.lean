/-
Line-protocol driver of the model: one JSON object per line in, one per line out.
Imports the executable model only (core Lean + Lean.Data.Json), so it links as a native binary.
-/
import Lean.Data.Json
import GontainerModel.Model.Runner
import GontainerModel.Model.Decode
import GontainerModel.Model.Emit
import GontainerModel.Model.Runtime
import GontainerModel.Model.History
open Lean GM

namespace Drv

def jstr (j : Json) (k : String) : String := (j.getObjValAs? String k).toOption.getD ""
def jarr (j : Json) (k : String) : Array Json := ((j.getObjVal? k).toOption.bind (·.getArr?.toOption)).getD #[]
def jopt (j : Json) (k : String) : Option Json :=
  match j.getObjVal? k with
  | .ok .null => none
  | .ok v => some v
  | .error _ => none
def joptS (j : Json) (k : String) : Option String := (jopt j k).bind (·.getStr?.toOption)
def joptB (j : Json) (k : String) : Option Bool := (jopt j k).bind (·.getBool?.toOption)

def strList (l : List String) : Json := Json.arr (l.map Json.str).toArray
def charsJ (l : List Char) : Json := Json.str (String.ofList l)

def valOfJson (j : Json) : Val :=
  let v := jstr j "v"
  match jstr j "t" with
  | "null" => .null
  | "bool" => .bool ((j.getObjValAs? Bool "v").toOption.getD false)
  | "int" => .int (v.toInt?.getD 0)
  | "uint" => .uint (v.toNat?.getD 0)
  | "float" => .float v
  | "str" => .str v
  | _ => .other v

def valToJson : Val → Json
  | .null => Json.mkObj [("t", "null")]
  | .bool b => Json.mkObj [("t", "bool"), ("v", Json.bool b)]
  | .int i => Json.mkObj [("t", "int"), ("v", toString i)]
  | .uint n => Json.mkObj [("t", "uint"), ("v", toString n)]
  | .float r => Json.mkObj [("t", "float"), ("v", r)]
  | .str s => Json.mkObj [("t", "str"), ("v", s)]
  | .other t => Json.mkObj [("t", "other"), ("v", t)]

/-- nodes for the unmarshaler model: scalars tagged like values, `{"t":"list","v":[…]}`, `{"t":"dict","v":[[k,node],…]}` -/
def node1OfJson (j : Json) : Decode.Node1 :=
  match jstr j "t" with
  | "list" => .list (((j.getObjVal? "v").toOption.bind (·.getArr?.toOption)).getD #[] |>.toList.map valOfJson')
  | "dict" => .dict (((j.getObjVal? "v").toOption.bind (·.getArr?.toOption)).getD #[] |>.toList.filterMap fun p =>
      match p.getArr? with
      | .ok #[Json.str k, _] => some k
      | _ => none)
  | _ => .v (valOfJson j)
where
  valOfJson' (j : Json) : Val :=
    match jstr j "t" with
    | "list" => .other "[]interface {}"
    | "dict" => .other "map[string]interface {}"
    | _ => valOfJson j

def nodeOfJson (j : Json) : Decode.Node :=
  match jstr j "t" with
  | "list" => .list (((j.getObjVal? "v").toOption.bind (·.getArr?.toOption)).getD #[] |>.toList.map node1OfJson)
  | "dict" => .dict (((j.getObjVal? "v").toOption.bind (·.getArr?.toOption)).getD #[] |>.toList.filterMap fun p =>
      match p.getArr? with
      | .ok #[Json.str k, v] => some (k, node1OfJson v)
      | _ => none)
  | _ => .v (valOfJson j)

def pairList (a : Array Json) : List (String × String) :=
  a.toList.filterMap fun p => match p.getArr? with
    | .ok #[Json.str k, Json.str v] => some (k, v)
    | _ => none

def valMap (a : Array Json) : AMap Val :=
  a.toList.filterMap fun p => match p.getArr? with
    | .ok #[Json.str k, v] => some (k, valOfJson v)
    | _ => none

def scopeOfJson (s : Option String) : Option Input.Scope :=
  match s with
  | some "shared" => some .shared
  | some "contextual" => some .contextual
  | some "non_shared" => some .nonShared
  | _ => none

def serviceOfJson (j : Json) : Input.Service :=
  { getter := joptS j "getter", mustGetter := joptB j "must_getter", type := joptS j "type",
    value := joptS j "value", constructor := joptS j "constructor",
    args := (jarr j "args").toList.map valOfJson,
    calls := (jarr j "calls").toList.map fun c =>
      { method := jstr c "method", args := (jarr c "args").toList.map valOfJson,
        immutable := (c.getObjValAs? Bool "immutable").toOption.getD false },
    fields := valMap (jarr j "fields"),
    tags := (jarr j "tags").toList.map fun t => { name := jstr t "name", priority := (jstr t "priority").toInt?.getD 0 },
    scope := scopeOfJson (joptS j "scope"), todo := joptB j "todo" }

def inputOfJson (j : Json) : Input.Input :=
  let m := (j.getObjVal? "meta").toOption.getD Json.null
  { version := joptS j "version",
    mt := { pkg := joptS m "pkg", containerType := joptS m "container_type",
            containerConstructor := joptS m "container_constructor",
            defaultMustGetter := joptB m "default_must_getter",
            imports := pairList (jarr m "imports"), functions := pairList (jarr m "functions") },
    params := valMap (jarr j "params"),
    services := (jarr j "services").toList.filterMap fun p => match p.getArr? with
      | .ok #[Json.str k, v] => some (k, serviceOfJson v)
      | _ => none,
    decorators := (jarr j "decorators").toList.map fun d =>
      { tag := jstr d "tag", decorator := jstr d "decorator", args := (jarr d "args").toList.map valOfJson } }

def optJ (o : Option String) : Json := match o with | some s => Json.str s | none => Json.null
def optBJ (o : Option Bool) : Json := match o with | some s => Json.bool s | none => Json.null
def pairsJ (l : List (String × String)) : Json := Json.arr (l.map fun (a, b) => Json.arr #[Json.str a, Json.str b]).toArray
def valMapJ (m : AMap Val) : Json := Json.arr ((AMap.sorted m).map fun (k, v) => Json.arr #[Json.str k, valToJson v]).toArray
def strMapJ (m : AMap String) : Json := pairsJ (AMap.sorted m)
def scopeJ : Option Input.Scope → Json
  | none => Json.null
  | some .shared => "shared"
  | some .contextual => "contextual"
  | some .nonShared => "non_shared"

def inputToJson (i : Input.Input) : Json :=
  Json.mkObj [
    ("version", optJ i.version),
    ("meta", Json.mkObj [("pkg", optJ i.mt.pkg), ("container_type", optJ i.mt.containerType),
      ("container_constructor", optJ i.mt.containerConstructor), ("default_must_getter", optBJ i.mt.defaultMustGetter),
      ("imports", strMapJ i.mt.imports), ("functions", strMapJ i.mt.functions)]),
    ("params", valMapJ i.params),
    ("services", Json.arr ((AMap.sorted i.services).map fun (k, s) => Json.arr #[Json.str k, Json.mkObj [
      ("getter", optJ s.getter), ("must_getter", optBJ s.mustGetter), ("type", optJ s.type), ("value", optJ s.value),
      ("constructor", optJ s.constructor), ("args", Json.arr (s.args.map valToJson).toArray),
      ("calls", Json.arr (s.calls.map fun c => Json.mkObj [("method", c.method),
          ("args", Json.arr (c.args.map valToJson).toArray), ("immutable", Json.bool c.immutable)]).toArray),
      ("fields", valMapJ s.fields),
      ("tags", Json.arr (s.tags.map fun t => Json.mkObj [("name", t.name), ("priority", toString t.priority)]).toArray),
      ("scope", scopeJ s.scope), ("todo", optBJ s.todo)]]).toArray),
    ("decorators", Json.arr (i.decorators.map fun d => Json.mkObj [("tag", d.tag), ("decorator", d.decorator),
      ("args", Json.arr (d.args.map valToJson).toArray)]).toArray)]

def argJ (a : Output.Arg) : Json :=
  Json.mkObj [("code", a.code), ("raw", valToJson a.raw), ("dp", strList a.depParams),
    ("ds", strList a.depServices), ("dt", strList a.depTags)]
def argsJ (l : List Output.Arg) : Json := Json.arr (l.map argJ).toArray

def outScopeJ : Output.Scope → String
  | .default => "default" | .shared => "shared" | .contextual => "contextual" | .nonShared => "non_shared"

def outputToJson (o : Output.Output) : Json :=
  Json.mkObj [
    ("meta", Json.mkObj [("pkg", o.mt.pkg), ("containerType", o.mt.containerType), ("containerConstructor", o.mt.containerConstructor)]),
    ("params", Json.arr (o.params.map fun p => Json.mkObj [("name", p.name), ("code", p.code), ("raw", valToJson p.raw),
        ("dependsOn", strList p.dependsOn)]).toArray),
    ("services", Json.arr (o.services.map fun s => Json.mkObj [
      ("name", s.name), ("getter", s.getter), ("mustGetter", Json.bool s.mustGetter), ("type", s.type), ("value", s.value),
      ("constructor", s.constructor), ("args", argsJ s.args),
      ("calls", Json.arr (s.calls.map fun c => Json.mkObj [("method", c.method), ("args", argsJ c.args), ("immutable", Json.bool c.immutable)]).toArray),
      ("fields", Json.arr (s.fields.map fun f => Json.mkObj [("name", f.name), ("value", argJ f.value)]).toArray),
      ("tags", Json.arr (s.tags.map fun t => Json.mkObj [("name", t.name), ("priority", toString t.priority)]).toArray),
      ("scope", outScopeJ s.scope), ("todo", Json.bool s.todo)]).toArray),
    ("decorators", Json.arr (o.decorators.map fun d => Json.mkObj [("tag", d.tag), ("decorator", d.decorator),
      ("args", argsJ d.args), ("raw", d.raw)]).toArray)]

def reByName (n : String) : Option (Re × String) :=
  match n with
  | "token_regexTokenRef" => some (Rx.yamlToken, "full")
  | "token_regexSimpleFn" => some (Rx.simpleFn, "full")
  | "input_regexDecoratorsTag" => some (Rx.decoratorTag, "full")
  | "input_regexDecoratorMethod" => some (Rx.goFunc, "full")
  | "input_regexpMetaPkg" => some (Rx.goToken, "full")
  | "input_regexpMetaContainerType" => some (Rx.goToken, "full")
  | "input_regexpMetaContainerConstructor" => some (Rx.goToken, "full")
  | "input_regexMetaImport" => some (Rx.import_, "full")
  | "input_regexMetaImportAlias" => some (Rx.yamlToken, "full")
  | "input_regexMetaFn" => some (Rx.goToken, "full")
  | "input_regexMetaGoFn" => some (Rx.goFunc, "full")
  | "input_regexParamName" => some (Rx.yamlToken, "full")
  | "input_regexServiceName" => some (Rx.yamlToken, "full")
  | "input_regexServiceGetter" => some (Rx.goToken, "full")
  | "input_regexServiceType" => some (Rx.serviceType, "full")
  | "input_regexServiceValue" => some (Rx.serviceValue, "full")
  | "input_regexServiceConstructor" => some (Rx.goFunc, "full")
  | "input_regexServiceCallName" => some (Rx.goToken, "full")
  | "input_regexServiceFieldName" => some (Rx.goToken, "full")
  | "input_regexServiceTag" => some (Rx.yamlToken, "full")
  | "compiler_regexDecoratorMethod" => some (Rx.goFunc, "full")
  | "compiler_regexMetaGoFn" => some (Rx.goFunc, "full")
  | "compiler_regexServiceType" => some (Rx.serviceType, "full")
  | "compiler_regexServiceConstructor" => some (Rx.goFunc, "full")
  | "resolver_servicePrefixRegex" => some (Re.cls [(64, 64)], "prefix")
  | "resolver_serviceRegex" => some (Rx.argService, "full")
  | "resolver_taggedPrefixRegex" => some (Rx.prefixTagged, "prefix")
  | "resolver_taggedRegex" => some (Rx.argTagged, "full")
  | "resolver_valuePrefixRegex" => some (Rx.prefixValue, "prefix")
  | "resolver_valueRegex" => some (Rx.argValue, "full")
  | "syntax_regexServiceValue" => some (Rx.serviceValue, "full")
  | _ => none

def tokenJ (t : Token.Token) : Json :=
  Json.mkObj [("kind", match t.kind with | .str => "str" | .ref => "ref" | .fn => "fn"),
    ("raw", t.raw), ("dependsOn", strList t.dependsOn), ("code", t.code)]

def fnDefs (j : Json) : List Token.FnDef :=
  (jarr j "functions").toList.filterMap fun f => match f.getArr? with
    | .ok #[Json.str a, Json.str b, Json.str c] => some { name := a, goImport := b, goFn := c }
    | _ => none

def primJ : Val → Json
  | .null => Json.mkObj [("k", "nil")]
  | .bool b => Json.mkObj [("k", "bool"), ("v", Json.bool b)]
  | .int i => Json.mkObj [("k", "int"), ("v", toString i)]
  | .uint n => Json.mkObj [("k", "uint64"), ("v", toString n)]
  | .float r => Json.mkObj [("k", "float64"), ("v", r)]
  | .str s => Json.mkObj [("k", "string"), ("v", s)]
  | .other t => Json.mkObj [("k", t)]

/-- `fx.Desc` of a runtime value, reading the heap as it is now -/
def descRV (heap : List (Nat × Runtime.Obj)) : Nat → Runtime.RV → Json
  | 0, _ => Json.mkObj [("k", "fuel")]
  | f+1, v =>
    let sl := fun (l : List Runtime.RV) => Json.mkObj [("k", "slice"), ("v", Json.arr (l.map (descRV heap f)).toArray)]
    let objJ := fun (ptr : Bool) (serial : Nat) (o : Runtime.Obj) =>
      Json.mkObj ([("k", Json.str "obj"), ("ptr", Json.bool ptr), ("serial", Json.num serial), ("ctor", Json.str o.ctor),
        ("args", sl o.args),
        ("log", Json.arr (o.log.map fun (m, as) => Json.mkObj [("m", m), ("args", sl as)]).toArray)] ++
        (match o.f1 with | some .nil => [] | some (.prim .null) => [] | some x => [("F1", descRV heap f x)] | none => []) ++
        (match o.f2 with | some .nil => [] | some (.prim .null) => [] | some x => [("F2", descRV heap f x)] | none => []) ++
        (match o.prev with | some x => [("prev", descRV heap f x)] | none => []))
    match v with
    | .nil => Json.mkObj [("k", "nil")]
    | .prim p => primJ p
    | .nilobj => Json.mkObj [("k", "nilobj")]
    | .container => Json.mkObj [("k", "container"), ("same", true)]
    | .slice l => sl l
    | .anon ptr ctor => objJ ptr 0 { ctor := ctor, args := [] }
    | .ref ptr n => match heap.lookup n with
      | some o => objJ ptr (if o.ctor == "" then 0 else n) o     -- objects not made by a fixture constructor are anonymous
      | none => Json.mkObj [("k", "dangling")]

def rtResult (st : Runtime.St) (r : Except String Runtime.RV) : Json :=
  match r with
  | .ok v => Json.mkObj [("ok", descRV st.heap 40 v)]
  | .error e => Json.mkObj [("err", e)]

def specVal (st : Runtime.St) (spec : Json) : Runtime.St × Runtime.RV :=
  match jstr spec "k" with
  | "str" => (st, .prim (.str (jstr spec "v")))
  | "int" => (st, .prim (.int ((spec.getObjValAs? Int "v").toOption.getD 0)))
  | "obj" =>
    let inner : Runtime.RV := match spec.getObjVal? "v" with
      | .ok (Json.str s) => .prim (.str s)
      | .ok (Json.num n) => .prim (.float (toString n.mantissa))
      | _ => .nil
    let (st', n) := Runtime.alloc st { ctor := "probe/fx.NewA", args := [.prim (.str "override"), inner] }
    (st', .ref true n)
  | _ => (st, .nil)

def rtScript (p0 : Runtime.Prog) (ops : List Json) : List Json :=
  let F := Runtime.fuel
  (ops.foldl (fun (acc : List (String × String) × Runtime.St × List Json) op =>
    let (env, st, out) := acc
    -- the environment is the only part of the program a script can change (setenv / unsetenv between two calls)
    let p : Runtime.Prog := { p0 with env := env }
    let a := (op.getArr?.toOption.getD #[]).toList
    let s := fun (i : Nat) => ((a[i]?).bind (·.getStr?.toOption)).getD ""
    if s 0 == "setenv" then ((s 1, s 2) :: env.filter (·.1 != s 1), st, out ++ [Json.mkObj [("ok", "env")]])
    else if s 0 == "unsetenv" then (env.filter (·.1 != s 1), st, out ++ [Json.mkObj [("ok", "env")]])
    else
    let r : Runtime.St × List Json := match s 0 with
    -- the calls a program can make go through `Runtime.stepOp`, the step function the history theorems are about
    | "get" =>
      let (st', r) := Runtime.stepOp F p st (.get (s 1))
      (st', out ++ [rtResult st' r])
    | "newctx" => ((Runtime.stepOp F p st (.newCtx (s 1))).1, out ++ [Json.mkObj [("ok", "ctx")]])
    | "getctx" =>
      let (st', r) := Runtime.stepOp F p st (.getCtx (s 1) (s 2))
      (st', out ++ [rtResult st' r])
    | "tagged" =>
      let (st', r) := Runtime.stepOp F p st (.tagged (s 1))
      (st', out ++ [rtResult st' r])
    | "taggedctx" =>
      let (st', r) := Runtime.stepOp F p st (.taggedCtx (s 1) (s 2))
      (st', out ++ [rtResult st' r])
    | "param" =>
      let (st', r) := Runtime.stepOp F p st (.param (s 1))
      (st', out ++ [rtResult st' r])
    | "ovparam" =>
      let (st', v) := specVal st ((a[2]?).getD Json.null)
      ({ st' with ovParams := (s 1, v) :: st'.ovParams.filter (·.1 != s 1), pcache := st'.pcache.filter (·.1 != s 1) },
        out ++ [Json.mkObj [("ok", "overridden")]])
    | "ovservice" =>
      let (st', v) := specVal st ((a[2]?).getD Json.null)
      ({ st' with ovServices := (s 1, v) :: st'.ovServices.filter (·.1 != s 1), shared := st'.shared.filter (·.1 != s 1) },
        out ++ [Json.mkObj [("ok", "overridden")]])
    | "call" =>
      -- a generated getter method: G / GInContext / MustG / MustGInContext (Must* only when declared)
      let m := s 1
      let hit := p.out.services.findSome? fun sv =>
        if sv.getter = "" then none
        else if m = sv.getter then some (sv.name, false, false)
        else if m = sv.getter ++ "InContext" then some (sv.name, true, false)
        else if sv.mustGetter && m = "Must" ++ sv.getter then some (sv.name, false, true)
        else if sv.mustGetter && m = "Must" ++ sv.getter ++ "InContext" then some (sv.name, true, true)
        else none
      match hit with
      | none => (st, out ++ [Json.mkObj [("nomethod", m)]])
      | some (n, inCtx, must) =>
        let (st'', r) := Runtime.stepOp F p st (if inCtx then .getCtx (s 2) n else .get n)
        match r, must with
        | .error e, true => (st'', out ++ [Json.mkObj [("panic", e)]])
        | r, _ => (st'', out ++ [rtResult st'' r])
    | "evallog" => (st, out ++ [Json.mkObj [("ok", strList st.evalLog)]])
    | "taggedorder" => (st, out ++ [Json.mkObj [("ok", strList (Runtime.taggedOrder p.out (s 1)))]])
    | o => (st, out ++ [Json.mkObj [("badop", o)]])
    (env, r.1, r.2)) (p0.env, ({} : Runtime.St), [])).2.2

def handle (j : Json) : Json :=
  match jstr j "op" with
  | "ping" => Json.mkObj [("pong", true)]
  | "chunks" =>
    match Chunk.chunksE (jstr j "s").toList with
    | .ok cs => Json.mkObj [("ok", Json.arr (cs.map charsJ).toArray)]
    | .error b => Json.mkObj [("err", "not closed token: " ++ Val.quoteStr (String.ofList b))]
  | "quote" => Json.mkObj [("ok", Val.quoteStr (jstr j "s"))]
  | "decodeNode" =>
    let n := nodeOfJson ((j.getObjVal? "node").toOption.getD Json.null)
    -- a null node never reaches a custom unmarshaler: yaml.v3 leaves the Go zero value
    if n == .v .null then
      match jstr j "kind" with
      | "tag" => Json.mkObj [("ok", Json.mkObj [("name", ""), ("priority", Json.num (0 : Int))])]
      | "call" => Json.mkObj [("ok", Json.mkObj [("method", ""), ("args", Json.arr #[]), ("immutable", false)])]
      | _ => Json.mkObj [("ok", "invalid (0)")]
    else
    match jstr j "kind" with
    | "tag" => match Decode.decodeTag n with
      | .ok t => Json.mkObj [("ok", Json.mkObj [("name", t.name), ("priority", Json.num t.priority)])]
      | .error e => Json.mkObj [("err", e)]
    | "call" => match Decode.decodeCall n with
      | .ok c => Json.mkObj [("ok", Json.mkObj [("method", c.method), ("args", Json.arr (c.args.map valToJson).toArray), ("immutable", c.immutable)])]
      | .error e => Json.mkObj [("err", e)]
    | "scope" => match Decode.decodeScope n with
      | .ok sc => Json.mkObj [("ok", match sc with | .shared => "shared" | .contextual => "contextual" | .nonShared => "non_shared")]
      | .error e => Json.mkObj [("err", e)]
    | _ => Json.mkObj [("err", "unknown kind")]
  | "linkerVersion" =>
    let given := match j.getObjVal? "given" with
      | .ok (.str g) => some g
      | _ => none
    Json.mkObj [("errs", strList (Semver.validateVersion (Semver.normalizeBuild (jstr j "linker")) given))]
  | "normalizeBuild" => Json.mkObj [("ok", Semver.normalizeBuild (jstr j "linker"))]
  | "mainInfo" =>
    -- main.go: defaults (from the Go build info) + linker values ↦ version info and build-info line
    let d := (j.getObjVal? "defaults").toOption.getD Json.null
    let dflt : Semver.Info := { gitVersion := jstr d "gitVersion", gitCommit := jstr d "gitCommit", treeState := jstr d "treeState",
                                buildDate := jstr d "buildDate", builtBy := jstr d "builtBy" }
    let i := Semver.applyLinker dflt (jstr j "Version") (jstr j "Commit") (jstr j "Dirty") (jstr j "Date") (jstr j "BuiltBy")
    Json.mkObj [("gitVersion", i.gitVersion), ("gitCommit", i.gitCommit), ("treeState", i.treeState), ("buildDate", i.buildDate),
                ("builtBy", i.builtBy), ("buildInfo", Semver.buildInfo i)]
  | "unquote" =>
    match GoQuote.unquote (jstr j "s").toList with
    | some v => Json.mkObj [("ok", String.ofList v)]
    | none => Json.mkObj [("err", "invalid")]
  | "export" => Json.mkObj [("ok", (valOfJson ((j.getObjVal? "v").toOption.getD Json.null)).goExport)]
  | "cast" => Json.mkObj [("ok", (valOfJson ((j.getObjVal? "v").toOption.getD Json.null)).castToString)]
  | "mapkeys" =>
    let ks := (jarr j "keys").toList.filterMap (·.getStr?.toOption)
    Json.mkObj [("ok", strList (AMap.keys (ks.map fun k => (k, ()))))]
  | "sanitize" => Json.mkObj [("ok", Imports.sanitize (jstr j "s"))]
  | "re" =>
    match reByName (jstr j "name") with
    | none => Json.mkObj [("err", "unknown regex")]
    | some (r, kind) =>
      let w := (jstr j "s").toList
      if kind == "prefix" then
        Json.mkObj [("match", Json.bool (Re.acceptsPrefix r w)), ("prefixOnly", true)]
      else
        match Re.captures r w with
        | none => Json.mkObj [("match", false), ("accepts", Json.bool (Re.accepts r w))]
        | some cs => Json.mkObj [("match", true), ("accepts", Json.bool (Re.accepts r w)),
            ("groups", Json.arr (cs.map fun (n, v) => Json.arr #[Json.str n, charsJ v]).toArray)]
  | "tokenize" =>
    -- like the shipped container: functions registered in the given order
    match Token.tokenize (fnDefs j) {} (jstr j "s") with
    | (_, .error es) => Json.mkObj [("errs", strList es)]
    | (st, .ok ts) =>
      match Token.goCode ts with
      | .error e => Json.mkObj [("errs", strList [e])]
      | .ok c => Json.mkObj [("ok", Json.arr (ts.map tokenJ).toArray), ("code", c), ("imports", pairsJ (Imports.importsList st))]
  | "alias" =>
    let (st, errs) := (pairList (jarr j "prefixes")).foldl (fun (acc : Imports.St × Errs) (a, p) =>
      let (s, e) := Imports.registerPrefix acc.1 a p
      (s, acc.2 ++ e)) (({} : Imports.St), [])
    let (st', names) := ((jarr j "seq").toList.filterMap (·.getStr?.toOption)).foldl
      (fun (acc : Imports.St × List String) s => let (st, a) := Imports.alias acc.1 s; (st, acc.2 ++ [a])) (st, [])
    Json.mkObj [("names", strList names), ("imports", pairsJ (Imports.importsList st')), ("errs", strList errs)]
  | "merge" =>
    -- inputs: decoded documents (JSON), merged left to right
    let docs := (jarr j "inputs").toList.map inputOfJson
    let start := if (j.getObjValAs? Bool "defaults").toOption.getD false then Input.defaults else {}
    Json.mkObj [("ok", inputToJson (docs.foldl Input.merge start))]
  | "compile" =>
    let i := inputOfJson ((j.getObjVal? "input").toOption.getD Json.null)
    match Compile.compile (jstr j "version") i with
    | .error es => Json.mkObj [("errs", strList es)]
    | .ok (o, st) =>
      let g := Output.buildGraph o
      Json.mkObj [("errs", strList []), ("output", outputToJson o), ("imports", pairsJ (Imports.importsList st)),
        ("scope", strList (Output.validateScopes o)), ("cyclic", Json.bool (Output.hasCycle o)),
        ("params", strList (Output.validateParamsExist o)), ("services", strList (Output.validateServicesExist o)),
        ("onCycle", strList ((g.nodes.filter (Graph.onCycle g)).map Output.Node.id)),
        ("reachOk", Json.bool (g.nodes.all fun n => (Graph.reach g n).isSome))]
  | "cyclecheck" =>
    let i := inputOfJson ((j.getObjVal? "input").toOption.getD Json.null)
    match Compile.compile (jstr j "version") i with
    | .error es => Json.mkObj [("errs", strList es)]
    | .ok (o, _) =>
      let g := Output.buildGraph o
      let cycles := (jarr j "cycles").toList.map fun c => (c.getArr?.toOption.getD #[]).toList.filterMap (·.getStr?.toOption)
      let idOf := fun (s : String) => (g.nodes.find? (·.id == s)).getD (.tag ("<unknown node " ++ s ++ ">"))
      Json.mkObj [("valid", Json.arr (cycles.map fun c => Json.bool (Graph.isCycle g (c.map idOf))).toArray)]
  | "run" =>
    let fl := (j.getObjVal? "flags").toOption.getD Json.null
    let gb := fun (k : String) => (fl.getObjValAs? Bool k).toOption.getD false
    let globT := (j.getObjVal? "glob").toOption.getD Json.null
    let cleanT := (j.getObjVal? "clean").toOption.getD Json.null
    let readT := (j.getObjVal? "read").toOption.getD Json.null
    let buildJ := (j.getObjVal? "build").toOption.getD Json.null
    let strs := fun (a : Array Json) => a.toList.filterMap (·.getStr?.toOption)
    let w : Runner.World :=
      { flags := { quiet := gb "quiet", stub := gb "stub", ignoreParams := gb "ignoreParams", ignoreServices := gb "ignoreServices" },
        patterns := strs (jarr j "patterns"), outPath := jstr j "out", version := jstr j "version",
        glob := fun p => match globT.getObjVal? p with
          | .ok g => match g.getObjVal? "ok" with
            | .ok (Json.arr a) => .ok (strs a)
            | _ => .error (jstr g "err")
          | .error _ => .ok [],
        clean := fun s => (cleanT.getObjValAs? String s).toOption.getD s,
        read := fun f => match readT.getObjVal? f with
          | .ok r => match r.getObjVal? "ok" with
            | .ok i => .ok (inputOfJson i)
            | .error _ => .error (strs (jarr r "errs"))
          | .error _ => .error ["<no read result supplied>"],
        build := fun _ _ => match buildJ.getObjVal? "ok" with
          | .ok (Json.str t) => .ok t
          | _ => match strs (jarr buildJ "err") with
            | e :: es => .error (e, es)
            | [] => .error ("<no build result supplied>", []),
        write := fun _ _ => joptS j "write" }
    let ce := strs (jarr j "cycles")
    let r := Runner.run w (fun _ => ce)
    Json.mkObj [("exit", Json.num r.exit), ("printed", strList r.printed), ("errors", strList r.errors),
      ("file", match r.file with | .untouched => Json.str "untouched" | .wrote _ t => Json.mkObj [("wrote", t)])]
  | "emit" =>
    let i := inputOfJson ((j.getObjVal? "input").toOption.getD Json.null)
    match Compile.compile (jstr j "version") i with
    | .error es => Json.mkObj [("errs", strList es)]
    | .ok (o, _) =>
      Json.mkObj [("ok", Json.arr ((Emit.constructorBody o).map fun st => Json.arr #[Json.str st.fn, strList st.args]).toArray)]
  | "rt" =>
    let i := inputOfJson ((j.getObjVal? "input").toOption.getD Json.null)
    match Compile.compile (jstr j "version") i with
    | .error es => Json.mkObj [("errs", strList es)]
    | .ok (o, st) =>
      -- the template builder aliases its own imports after compilation; user imports are all in `st`
      let p : Runtime.Prog :=
        { out := o, imports := st.imports.map fun (path, a) => (a, path),
          fns := (Compile.compileMeta i {}).2.2.1, env := pairList (jarr j "env") }
      Json.mkObj [("results", Json.arr (rtScript p (jarr j "ops").toList).toArray)]
  | "version" =>
    Json.mkObj [("errs", strList (Semver.validateVersion (jstr j "build") (joptS j "given")))]
  | "decodeVersion" =>
    match Semver.decodeVersion (jstr j "s") with
    | .ok v => Json.mkObj [("ok", v)]
    | .error e => Json.mkObj [("err", e)]
  | op => Json.mkObj [("badop", op)]

partial def loop (hIn : IO.FS.Stream) (hOut : IO.FS.Stream) : IO Unit := do
  let line ← hIn.getLine
  if line.isEmpty then return ()
  if line.trimAscii.isEmpty then loop hIn hOut else
  let resp := match Json.parse line with
    | .ok j => handle j
    | .error e => Json.mkObj [("badreq", e)]
  hOut.putStrLn resp.compress
  hOut.flush
  loop hIn hOut

end Drv
