import GontainerModel.Props.C08
#print axioms GM.C08.perm_invariant_keys
#print axioms GM.C08.perm_invariant_iterate
#print axioms GM.C08.perm_invariant_mergeMap
#print axioms GM.C08.perm_invariant_imports
#print axioms GM.C08.perm_invariant_decorateImport
#print axioms GM.C08.perm_invariant_processed
#print axioms GM.C08.perm_invariant_scope_table
#print axioms GM.C08.sites_covered
#print axioms GM.C08.sort_sites_pinned
#print axioms GM.C08.no_ambient_inputs
#print axioms GM.C08.key_order_params
#print axioms GM.C08.key_order_services
#print axioms GM.C08.key_order_meta
#print axioms GM.C08.key_order_validate
