import GontainerModel.Props.C20
#print axioms GM.C20.reachable_inv
#print axioms GM.C20.at_most_once
#print axioms GM.C20.cached_then_hit
#print axioms GM.C20.cache_monotone
#print axioms GM.C20.helpers_stateless
#print axioms GM.C20.lib_get_protocol
#print axioms GM.C20.lib_get_caches
#print axioms GM.C20.lib_get_stages
#print axioms GM.C20.lib_getParam_protocol
#print axioms GM.C20.lib_version_pinned
#print axioms GM.C20.multi_reachable_inv
#print axioms GM.C20.at_most_once_each
#print axioms GM.C20.instances_never_shared
