import GontainerModel.Props.C13
#print axioms GM.C13.must_getter_table
#print axioms GM.C13.getter_error_iff
#print axioms GM.C13.no_getter_no_methods
#print axioms GM.C13.method_set
#print axioms GM.C13.meta_defaults
#print axioms GM.C13.default_type
#print axioms GM.C13.reserved_is_container_api
#print axioms GM.C13.template_method_forms
#print axioms GM.C13.methods_never_collide
