import GontainerModel.Props.C01
#print axioms GM.C01.emitted_service_api_exists
#print axioms GM.C01.emitted_container_api_exists
#print axioms GM.C01.emitted_pkg_symbols_exist
#print axioms GM.C01.scope_setter_total
#print axioms GM.C01.getter_error_path_typed
#print axioms GM.C01.init_interface_implemented
#print axioms GM.C01.reserved_getters_cover
#print axioms GM.C01.no_package_vars
