import GontainerModel.Props.C05
#print axioms GM.C05.scope_errors_graph
#print axioms GM.C05.scope_errors_exact
#print axioms GM.C05.scope_accept_iff
#print axioms GM.C05.resolved_scope
#print axioms GM.C05.scope_keyword_mapping
#print axioms GM.C05.shared_once
#print axioms GM.C05.contextual_once_per_bag
#print axioms GM.C05.default_scope_documented
#print axioms GM.C05.shared_first_get_caches
#print axioms GM.C05.shared_once_per_container
#print axioms GM.C05.contextual_once_per_context
#print axioms GM.C05.contexts_are_separate
#print axioms GM.C05.plain_get_has_fresh_bag
#print axioms GM.C05.shared_once_for_acyclic
#print axioms GM.C05.contextual_once_for_acyclic
#print axioms GM.C05.demoHist_kind
