import GontainerModel.Props.C15
#print axioms GM.C15.builtins_declared
#print axioms GM.C15.todo_param_errors
#print axioms GM.C15.todo_service_errors
#print axioms GM.C15.override_param_visible
#print axioms GM.C15.override_service_visible
#print axioms GM.C15.params_lazy
#print axioms GM.C15.param_cached
#print axioms GM.C15.param_first_use
#print axioms GM.C15.param_evaluated_at_most_once
#print axioms GM.C15.getParam_frame
#print axioms GM.C15.cached_param_answers
#print axioms GM.C15.self_todo_wiring
