import GontainerModel.Props.C09
#print axioms GM.C09.merge_assoc
#print axioms GM.C09.merge_empty_left
#print axioms GM.C09.merge_empty_right
#print axioms GM.C09.equiv_sorted_services
#print axioms GM.C09.rule_scalar
#print axioms GM.C09.rule_map
#print axioms GM.C09.rule_args
#print axioms GM.C09.rule_lists
#print axioms GM.C09.rule_services
#print axioms GM.C09.split_map
#print axioms GM.C09.split_service
#print axioms GM.C09.split_decorators
#print axioms GM.C09.readAll_append
#print axioms GM.C09.files_read_in_documented_order
#print axioms GM.C09.read_order_spelled_out
#print axioms GM.C09.byte_order_examples
