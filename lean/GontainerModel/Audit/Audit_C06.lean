import GontainerModel.Props.C06
#print axioms GM.C06.params_exist_exact
#print axioms GM.C06.services_exist_exact
#print axioms GM.C06.params_report_count
#print axioms GM.C06.todo_service_declared
#print axioms GM.C06.wiring_pinned
#print axioms GM.C06.accepted_service_refs_resolve
#print axioms GM.C06.accepted_param_refs_resolve
#print axioms GM.C06.compiled_service_refs_declared
#print axioms GM.C06.compiled_param_refs_declared
#print axioms GM.C06.pattern_deps_all_refs
