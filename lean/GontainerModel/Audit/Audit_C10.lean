import GontainerModel.Props.C10
#print axioms GM.C10.exit_zero_iff_written
#print axioms GM.C10.failure_leaves_output
#print axioms GM.C10.exit_is_0_or_1
#print axioms GM.C10.error_list
#print axioms GM.C10.end_line_count
#print axioms GM.C10.read_failure_exits
#print axioms GM.C10.unreadable_input_fails
#print axioms GM.C10.glob_error_fails
#print axioms GM.C10.nothing_processed_fails
#print axioms GM.C10.duplicate_match_fails
#print axioms GM.C10.quiet_same_effects
#print axioms GM.C10.steps_pinned
