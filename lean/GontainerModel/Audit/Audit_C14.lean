import GontainerModel.Props.C14
#print axioms GM.C14.resolve_order_independent
#print axioms GM.C14.resolve_hit
#print axioms GM.C14.resolve_miss
#print axioms GM.C14.alias_fresh
#print axioms GM.C14.alias_memo
#print axioms GM.C14.sanitize_forms
#print axioms GM.C14.pin_import_regex
#print axioms GM.C14.local_names_distinct
#print axioms GM.C14.import_block_distinct
#print axioms GM.C14.same_name_iff_same_package
