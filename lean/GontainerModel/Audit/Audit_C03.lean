import GontainerModel.Props.C03
#print axioms GM.C03.chunks_ok_iff_even
#print axioms GM.C03.chunks_flatten
#print axioms GM.C03.chunks_shape
#print axioms GM.C03.pin_regexTokenRef
#print axioms GM.C03.pin_regexSimpleFn
#print axioms GM.C03.factories_pinned
#print axioms GM.C03.tokenizer_pinned
#print axioms GM.C03.escape_roundtrip
#print axioms GM.C03.literal_roundtrip
#print axioms GM.C03.literal_ascii
#print axioms GM.C03.single_chunk_preserves_type
#print axioms GM.C03.multi_chunk_concatenates
#print axioms GM.C03.fn_error_names_token
#print axioms GM.C03.cast_table
