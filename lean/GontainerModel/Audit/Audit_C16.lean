import GontainerModel.Props.C16
#print axioms GM.C16.flags_narrow
#print axioms GM.C16.accept_iff_rest_ignored
#print axioms GM.C16.flags_only_in_validation
#print axioms GM.C16.accepted_output_flag_independent
#print axioms GM.C16.flag_wiring
