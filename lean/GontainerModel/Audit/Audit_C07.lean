import GontainerModel.Props.C07
#print axioms GM.C07.reach_exact
#print axioms GM.C07.reach_always_answers
#print axioms GM.C07.cyclic_exact
#print axioms GM.C07.graph_faithful
#print axioms GM.C07.cyclic_documented
#print axioms GM.C07.cycles_accept_iff
#print axioms GM.C07.reported_cycle_is_cycle
#print axioms GM.C07.edges_exact
#print axioms GM.C07.param_eval_terminates_partial
#print axioms GM.C07.param_eval_terminates_acyclic
#print axioms GM.C07.rank_le_nodes
#print axioms GM.C07.compiled_params_recorded
#print axioms GM.C07.param_eval_terminates
