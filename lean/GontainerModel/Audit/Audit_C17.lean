import GontainerModel.Props.C17
#print axioms GM.C17.stub_same_surface
#print axioms GM.C17.stub_same_types
#print axioms GM.C17.stub_bodies_panic
#print axioms GM.C17.stub_init_same
#print axioms GM.C17.stub_constraint
#print axioms GM.C17.stub_has_no_helpers
#print axioms GM.C17.verdict_mode_independent_partial
#print axioms GM.C17.exit_mode_independent_partial
