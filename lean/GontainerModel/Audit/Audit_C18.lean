import GontainerModel.Props.C18
#print axioms GM.C18.gate_table
#print axioms GM.C18.gate_ignores_patch_pre_build
#print axioms GM.C18.gate_skipped
#print axioms GM.C18.validate_is_gate
#print axioms GM.C18.decode_rejects_v_prefix
#print axioms GM.C18.pin_main_handed
#print axioms GM.C18.linker_v_stripped
#print axioms GM.C18.linker_gate
#print axioms GM.C18.linker_non_semver
#print axioms GM.C18.linker_version_alone
#print axioms GM.C18.linker_version_default
#print axioms GM.C18.buildInfo_starts_with_version
#print axioms GM.C18.buildInfo_plain
