import GontainerModel.Props.C18
#print axioms GM.C18.gate_table
#print axioms GM.C18.gate_ignores_patch_pre_build
#print axioms GM.C18.gate_skipped
#print axioms GM.C18.validate_is_gate
#print axioms GM.C18.decode_rejects_v_prefix
