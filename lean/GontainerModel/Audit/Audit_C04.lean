import GontainerModel.Props.C04
#print axioms GM.C04.tagged_exact
#print axioms GM.C04.tagged_mem
#print axioms GM.C04.tagged_sorted
#print axioms GM.C04.decorators_in_declaration_order
#print axioms GM.C04.decorator_order_compiled
#print axioms GM.C04.decorator_order_across_files
#print axioms GM.C04.tags_copied
#print axioms GM.C04.tagged_at_run_time
#print axioms GM.C04.decorators_at_run_time
