import GontainerModel.Props.C19
#print axioms GM.C19.fixpoint_stable
#print axioms GM.C19.shipped_wiring
#print axioms GM.C19.yaml_declares_wiring
#print axioms GM.C19.verbose_steps
