import GontainerModel.Props.C12
#print axioms GM.C12.panic_sites_discharged
#print axioms GM.C12.toExpr_guard
#print axioms GM.C12.goCode_guard
#print axioms GM.C12.verbose_services_are_steps
#print axioms GM.C12.repeat_count_nonneg
#print axioms GM.C12.step_names_pinned
#print axioms GM.C12.loops_bounded
#print axioms GM.C12.self_calls_reviewed
#print axioms GM.C12.run_total
