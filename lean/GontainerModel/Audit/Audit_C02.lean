import GontainerModel.Props.C02
#print axioms GM.C02.chains_pinned
#print axioms GM.C02.resolve_classifies
#print axioms GM.C02.args_order_preserved
#print axioms GM.C02.fields_sorted_by_name
#print axioms GM.C02.calls_order_preserved
#print axioms GM.C02.call_args_preserved
#print axioms GM.C02.service_parts
#print axioms GM.C02.scope_mapping
#print axioms GM.C02.todo_short_circuit
