import GontainerModel.Props.C02
#print axioms GM.C02.chains_pinned
#print axioms GM.C02.resolve_classifies
#print axioms GM.C02.resolve_records_dependency
#print axioms GM.C02.args_order_preserved
#print axioms GM.C02.fields_sorted_by_name
#print axioms GM.C02.calls_order_preserved
#print axioms GM.C02.call_args_preserved
#print axioms GM.C02.service_parts
#print axioms GM.C02.emit_block_shape
#print axioms GM.C02.every_service_registered
#print axioms GM.C02.value_is_evaluated_per_construction
#print axioms GM.C02.pin_scope_setters
#print axioms GM.C02.scope_mapping
#print axioms GM.C02.todo_short_circuit
