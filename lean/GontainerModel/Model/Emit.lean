/-
Model of what `body-constructor.go.tpl` emits into the generated constructor for a compiled `Output`:
the sequence of statements (callee, argument source texts), in order.  Argument texts are the code
strings the compiler produced; everything else is the template's own text.  Whitespace is not modelled
(the correspondence compares with all whitespace removed; gofmt re-flows the text).
-/
import GontainerModel.Model.Output
namespace GM.Emit
open GM GM.Output

structure Stmt where
  fn : String
  args : List String
deriving Repr, DecidableEq, Inhabited

def q (s : String) : String := Val.quoteStr s

/-- the scope setter the template calls (pinned against the regenerated scope → setter table) -/
def scopeSetter : Scope → String
  | .default => "s.SetScopeDefault"
  | .shared => "s.SetScopeShared"
  | .contextual => "s.SetScopeContextual"
  | .nonShared => "s.SetScopeNonShared"

/-- the creation statement of a live service: constructor with its arguments, or a closure returning the value
expression (evaluated at every construction), or a closure returning the zero value of the type -/
def creation (s : Service) : List Stmt :=
  if s.constructor != "" then [⟨"s.SetConstructor", s.constructor :: s.args.map (·.code)⟩]
  else if s.value != "" then
    [⟨"s.SetConstructor", ["func() " ++ (if s.type != "" then s.type else "interface{}") ++ " { return " ++ s.value ++ " }"]⟩]
  else if s.type != "" then [⟨"s.SetConstructor", ["func() (result " ++ s.type ++ ") { return }"]⟩]
  else []

def todoCreation : Stmt :=
  ⟨"s.SetConstructor", ["func() (interface{}, error) { return nil, errors.New(\"service todo\") }"]⟩

/-- one `{ s := newService() … c.OverrideService(name, s) }` block -/
def serviceBlock (s : Service) : List Stmt :=
  (if s.todo then [todoCreation]
   else
     creation s ++
     s.fields.map (fun f => ⟨"s.SetField", [q f.name, f.value.code]⟩) ++
     s.calls.map (fun c => ⟨if c.immutable then "s.AppendWither" else "s.AppendCall", q c.method :: c.args.map (·.code)⟩) ++
     s.tags.map (fun t => ⟨"s.Tag", [q t.name, "int(" ++ toString t.priority ++ ")"]⟩) ++
     [⟨scopeSetter s.scope, []⟩]) ++
  [⟨"c.OverrideService", [q s.name, "s"]⟩]

/-- parameters, then service blocks, then decorators — each in `Output` order -/
def constructorBody (o : Output) : List Stmt :=
  o.params.map (fun p => ⟨"c.OverrideParam", [q p.name, p.code]⟩) ++
  o.services.flatMap serviceBlock ++
  o.decorators.map (fun d => ⟨"c.AddDecorator", q d.tag :: d.decorator :: d.args.map (·.code)⟩)

end GM.Emit
