/-
Model of `internal/cmd` (cmd_build.go, runner_builder.go) and `internal/cmd/runner`:
the five runner steps with their verbose/switchable wrappers, the printer, the error list, the
single file write. External effects are parameters of the `World`: glob results, cleaned paths,
file reads + YAML decoding, the template builder (text/template + gofmt + goimports) and
`os.WriteFile`.
-/
import GontainerModel.Model.Compile
namespace GM.Runner
open GM

structure Flags where
  quiet : Bool := false
  stub : Bool := false
  ignoreParams : Bool := false
  ignoreServices : Bool := false
deriving Repr, DecidableEq, Inhabited

inductive FileEffect where
  | untouched
  | wrote (path : String) (text : String)
deriving Repr, DecidableEq, Inhabited

structure World where
  flags : Flags
  patterns : List String
  outPath : String
  version : String
  /-- `filepath.Glob(pattern)`: raw matches or the error text -/
  glob : String → Except String (List String)
  /-- `filepath.Clean` -/
  clean : String → String
  /-- `os.ReadFile` + `yaml.Unmarshal` of one file: the decoded document, or the per-file errors
  (`could not read the file: …` / `parsing yaml: …`) -/
  read : String → Except Errs Input.Input
  /-- `template.Builder.Build` (templates, gofmt, goimports): the text, or a non-empty error
  (first message, further messages) -/
  build : Output.Output → Bool → Except (String × Errs) String
  /-- `os.WriteFile(filepath.Clean(out), text)`: `none` = written, `some e` = error text, file not modified -/
  write : String → String → Option String

structure Result where
  exit : Nat
  printed : List String        -- stdout, line by line
  errors : Errs                -- the flattened error the command returns (numbered list)
  file : FileEffect
deriving Repr, DecidableEq, Inhabited

def rowWidth : Nat := 60
def checkMark : String := "[✓]"
def xMark : String := "[⨉]"

def dots (n : Nat) : String := String.ofList (List.replicate n '·')

/-- `Printer.PrintAlignedLn(left, right, extra)` under the indentation `ind` -/
def aligned (ind left right extra : String) : String :=
  ind ++ left ++ dots (rowWidth - (left ++ right ++ ind).length) ++ right ++ extra

/-- outcome of a step: lines printed (without the caller's indentation) and errors -/
structure StepOut (σ : Type) where
  lines : List String
  errs : Errs
  st : σ

/-- `StepVerboseSwitchable.Run` around a step called `name`: header, (indented) body, END line -/
def verbose {σ : Type} (ind name : String) (active : Bool) (st : σ) (body : String → StepOut σ) : StepOut σ :=
  let head := aligned ind name "" ""
  if !active then
    { lines := [head, aligned ind (name ++ " END") "ignored" ""], errs := [], st := st }
  else
    let r := body (ind ++ "  ")
    let tail :=
      if r.errs.isEmpty then aligned ind (name ++ " END") checkMark ""
      else
        let l := r.errs.length
        aligned ind (name ++ " END") xMark (if l > 1 then " (" ++ toString l ++ " errors)" else " (" ++ toString l ++ " error)")
    { lines := [head] ++ r.lines ++ [tail], errs := r.errs, st := r.st }

/-- `fmt.Sprintf("%#v", p)` minus the `[]string` prefix: `{"a", "b"}` -/
def goStrings (p : List String) : String := "{" ++ String.intercalate ", " (p.map Val.quoteStr) ++ "}"

structure ReadSt where
  input : Input.Input
  found : Bool
  processed : List (String × List String)     -- file ↦ patterns that matched it (a Go map)

/-- the files of one pattern in processing order (cleaned, sorted), or the glob error -/
def patternFiles (w : World) (p : String) : List String × Errs :=
  match w.glob p with
  | .ok ms => ((ms.map w.clean).mergeSort AMap.strLe, [])
  | .error e => ([], ["pattern: " ++ Val.quoteStr p ++ ": " ++ e])

/-- one file of pattern `p` -/
def readFileStep (w : World) (ind p : String) (acc : List String × Errs × ReadSt) (f : String) :
    List String × Errs × ReadSt :=
  match w.read f with
  | .error es =>
    (acc.1 ++ [ind ++ "   • " ++ f ++ " " ++ xMark], acc.2.1 ++ Errs.pfx ("`" ++ f ++ "`: ") es, acc.2.2)
  | .ok doc =>
    (acc.1 ++ [ind ++ "   • " ++ f ++ " " ++ checkMark], acc.2.1,
      { input := Input.merge acc.2.2.input doc, found := true,
        processed := (f, ((acc.2.2.processed.lookup f).getD []) ++ [p]) :: acc.2.2.processed.filter (·.1 != f) })

/-- one pattern -/
def readPatternStep (w : World) (ind : String) (acc : List String × Errs × ReadSt × Nat) (p : String) :
    List String × Errs × ReadSt × Nat :=
  let pf := patternFiles w p
  let lines := acc.1 ++ [ind ++ toString (acc.2.2.2 + 1) ++ ". " ++ p]
  let lines := if pf.1.isEmpty then lines ++ [ind ++ "   No files"] else lines
  let r := pf.1.foldl (readFileStep w ind p) (lines, acc.2.1 ++ pf.2, acc.2.2.1)
  (r.1, r.2.1, r.2.2, acc.2.2.2 + 1)

/-- files matched by more than one pattern, reported in sorted file order -/
def dupErrs (processed : List (String × List String)) : Errs :=
  (AMap.sorted processed).filterMap fun (f, ps) =>
    if ps.length > 1 then some ("file " ++ Val.quoteStr f ++ " matches more than one pattern: " ++ goStrings ps) else none

/-- `StepReadConfig.Run` -/
def readConfig (w : World) (ind : String) (i0 : Input.Input) : StepOut Input.Input :=
  if w.patterns.isEmpty then
    { lines := [], errs := ["runner.StepReadConfig: missing file patterns"], st := i0 }
  else
    let r := w.patterns.foldl (readPatternStep w ind) ([ind ++ "Patterns"], [], ⟨i0, false, []⟩, 0)
    let errs := if r.2.2.1.found then r.2.1 else r.2.1 ++ ["could not process any files"]
    { lines := r.1, errs := Errs.pfx "runner.StepReadConfig: " (errs ++ dupErrs r.2.2.1.processed), st := r.2.2.1.input }

/-- the four rules of "Validate output" in the wired order, each under its own switch -/
def validateOutput (w : World) (ind : String) (o : Output.Output) (cycleErrs : Errs) : StepOut Unit :=
  let rules : List (String × Bool × Errs) := [
    ("Scope", true, Output.validateScopes o),
    ("Circular dependencies", true, cycleErrs),
    ("Missing parameters", !w.flags.ignoreParams, Output.validateParamsExist o),
    ("Missing services", !w.flags.ignoreServices, Output.validateServicesExist o)]
  rules.foldl (fun (acc : StepOut Unit) (name, active, errs) =>
    let r := verbose ind name active () (fun _ => { lines := [], errs := errs, st := () })
    { lines := acc.lines ++ r.lines, errs := acc.errs ++ r.errs, st := () }) { lines := [], errs := [], st := () }

/-- errors of the four output rules under the flags, in report order -/
def outputErrs (fl : Flags) (o : Output.Output) (cycleErrs : Errs) : Errs :=
  Output.validateScopes o ++ cycleErrs ++
  (if fl.ignoreParams then [] else Output.validateParamsExist o) ++
  (if fl.ignoreServices then [] else Output.validateServicesExist o)

/-- step 5: build, then the single write -/
def codegen (w : World) (o : Output.Output) : List String × Errs × FileEffect :=
  match w.build o w.flags.stub with
  | .error es => (["  Generating source code"], es.1 :: es.2, .untouched)
  | .ok text =>
    let ls := ["  Generating source code", "  Printing to the file `" ++ w.outPath ++ "`"]
    match w.write w.outPath text with
    | none => (ls, [], .wrote w.outPath text)
    | some e => (ls, [e], .untouched)

/-- The steps in the wired order; the first failing step ends the run.
Returns the report lines, the error of the failing step (`[]` = success) and the file effect.
`cycleErrs o` is the diagnostic list of `ValidateCircularDeps` (gonum's cycle enumeration is
external); it is empty iff the dependency graph is acyclic (`Output.hasCycle`). -/
def core (w : World) (cycleErrs : Output.Output → Errs) : List String × Errs × FileEffect :=
  let s1 := verbose "" "Default input" true () (fun _ => { lines := [], errs := [], st := () })
  let s2 := verbose "" "Read config" true Input.defaults (fun ind => readConfig w ind Input.defaults)
  if !s2.errs.isEmpty then (s1.lines ++ s2.lines, s2.errs, .untouched) else
  match Compile.compile w.version s2.st with
  | .error es =>
    let s3 := verbose "" "Compile" true () (fun _ => { lines := [], errs := es, st := () })
    (s1.lines ++ s2.lines ++ s3.lines, es, .untouched)
  | .ok (o, _) =>
    let s3 := verbose "" "Compile" true () (fun _ => { lines := [], errs := [], st := () })
    let s4 := verbose "" "Validate output" true () (fun ind => validateOutput w ind o (cycleErrs o))
    if !s4.errs.isEmpty then (s1.lines ++ s2.lines ++ s3.lines ++ s4.lines, s4.errs, .untouched) else
    let (bodyLines, errs5, file) := codegen w o
    let s5 := verbose "" "Generate code" true () (fun _ => { lines := bodyLines, errs := errs5, st := () })
    (s1.lines ++ s2.lines ++ s3.lines ++ s4.lines ++ s5.lines, errs5, file)

def numbered (errs : Errs) : List String := errs.zipIdx.map fun (e, i) => toString (i + 1) ++ ". " ++ e

/-- `RunE` of the build command + `main`: report, numbered error list, exit status -/
def finish (quiet : Bool) (r : List String × Errs × FileEffect) : Result :=
  let (lines, errs, file) := r
  let printed := if errs.isEmpty then lines else lines ++ ["Errors:"] ++ numbered errs
  { exit := if errs.isEmpty then 0 else 1, printed := if quiet then [] else printed, errors := errs, file := file }

def run (w : World) (cycleErrs : Output.Output → Errs) : Result := finish w.flags.quiet (core w cycleErrs)

end GM.Runner
