/-
The lock/cache protocol of `Container.get` for ALL services and caches at once, as a labelled transition system over an
unbounded set of threads and arbitrary interleavings: one mutex per service id (`serviceLockers[id]`, modelled by its
contract: at most one holder), one cache per scope instance — cache 0 is the container-wide cache of shared services,
cache c+1 the bag of context c — and a global allocation counter that gives every constructed object a fresh serial.
Threads working on different ids interleave freely; threads asking for the same id are serialised by its lock, whichever
cache they use (exactly as in the runtime library: the lock is per id, the cache is chosen by the scope).
-/
namespace GM.RuntimeConcMulti

abbrev Id := Nat
abbrev Cache := Nat

inductive Phase where
  | locked                          -- holds the lock of the id, has not read its cache yet
  | constructing                    -- cache miss: running constructor, fields, calls, decorators
  | built (serial : Option Nat)     -- construction finished (some serial = success, none = error), not yet published
deriving Repr, DecidableEq

structure S where
  crit : Id → Option (Nat × Cache × Phase) := fun _ => none    -- per id: the thread inside the critical section, its cache, its phase
  cache : Cache → Id → Option Nat := fun _ _ => none            -- what each cache holds (the object's serial)
  next : Nat := 1                                                -- allocation counter
  successes : Cache → Id → Nat := fun _ _ => 0                  -- successful constructions per (cache, id)

def upd {β : Type} (f : Nat → β) (k : Nat) (v : β) : Nat → β := fun x => if x = k then v else f x
def upd2 {β : Type} (f : Nat → Nat → β) (a b : Nat) (v : β) : Nat → Nat → β := fun x y => if x = a ∧ y = b then v else f x y

inductive Step : S → S → Prop
  | acquire (s : S) (t : Nat) (c : Cache) (i : Id) : s.crit i = none →
      Step s { s with crit := upd s.crit i (some (t, c, .locked)) }
  | hit (s : S) (t : Nat) (c : Cache) (i : Id) : s.crit i = some (t, c, .locked) → (s.cache c i).isSome →
      Step s { s with crit := upd s.crit i none }
  | miss (s : S) (t : Nat) (c : Cache) (i : Id) : s.crit i = some (t, c, .locked) → s.cache c i = none →
      Step s { s with crit := upd s.crit i (some (t, c, .constructing)) }
  | constructOk (s : S) (t : Nat) (c : Cache) (i : Id) : s.crit i = some (t, c, .constructing) →
      Step s { s with crit := upd s.crit i (some (t, c, .built (some s.next))), next := s.next + 1,
                      successes := upd2 s.successes c i (s.successes c i + 1) }
  | constructFail (s : S) (t : Nat) (c : Cache) (i : Id) : s.crit i = some (t, c, .constructing) →
      Step s { s with crit := upd s.crit i (some (t, c, .built none)) }
  | publish (s : S) (t : Nat) (c : Cache) (i : Id) (n : Nat) : s.crit i = some (t, c, .built (some n)) →
      Step s { s with crit := upd s.crit i none, cache := upd2 s.cache c i (some n) }     -- `cache.set(id, result)`, then unlock
  | fail (s : S) (t : Nat) (c : Cache) (i : Id) : s.crit i = some (t, c, .built none) →
      Step s { s with crit := upd s.crit i none }                                          -- errors are not cached

inductive Reachable : S → Prop
  | init : Reachable {}
  | step {s s'} : Reachable s → Step s s' → Reachable s'

/-- the serial a successful, not yet published construction for (c, i) holds -/
def pendingSerial (s : S) (c : Cache) (i : Id) : Option Nat :=
  match s.crit i with
  | some (_, c', .built (some n)) => if c' = c then some n else none
  | _ => none

/-- somebody is constructing (or has just constructed) for (c, i) -/
def inFlight (s : S) (c : Cache) (i : Id) : Bool :=
  match s.crit i with
  | some (_, c', .constructing) => c' = c
  | some (_, c', .built _) => c' = c
  | _ => false

/-- the instance (c, i) owns: published or about to be -/
def owned (s : S) (c : Cache) (i : Id) : Option Nat := (s.cache c i).or (pendingSerial s c i)

end GM.RuntimeConcMulti
