/-
The lock/cache protocol of `Container.get` for ONE shared service id (the same protocol, on
`paramsLockers`/`cacheParams`, guards a parameter; on a context bag it guards a contextual
service) as a labelled transition system over an unbounded set of threads and arbitrary
interleavings. The per-id mutex is modelled by its contract: at most one holder (`crit`).
-/
namespace GM.RuntimeConc

inductive CPC where
  | locked                  -- holds the per-id lock, has not read the cache yet
  | constructing            -- cache miss: running constructor, fields, calls, decorators
  | built (ok : Bool)       -- construction finished (ok / error), result not yet published
deriving Repr, DecidableEq

structure S where
  crit : Option (Nat × CPC) := none      -- the thread inside the critical section, if any
  cache : Bool := false                   -- the cache holds an instance for this id
  successes : Nat := 0                    -- successful constructions performed so far
  hits : Nat := 0                         -- gets answered from the cache
deriving Repr

inductive Step : S → S → Prop
  | acquire (s : S) (t : Nat) : s.crit = none → Step s { s with crit := some (t, .locked) }
  | hit (s : S) (t : Nat) : s.crit = some (t, .locked) → s.cache = true →
      Step s { s with crit := none, hits := s.hits + 1 }
  | miss (s : S) (t : Nat) : s.crit = some (t, .locked) → s.cache = false →
      Step s { s with crit := some (t, .constructing) }
  | construct (s : S) (t : Nat) (ok : Bool) : s.crit = some (t, .constructing) →
      Step s { s with crit := some (t, .built ok), successes := s.successes + (if ok then 1 else 0) }
  | publish (s : S) (t : Nat) : s.crit = some (t, .built true) →
      Step s { s with crit := none, cache := true }                 -- `cache.set(id, result)` then unlock
  | fail (s : S) (t : Nat) : s.crit = some (t, .built false) →
      Step s { s with crit := none }                                -- errors are not cached

inductive Reachable : S → Prop
  | init : Reachable {}
  | step {s s'} : Reachable s → Step s s' → Reachable s'

def pending (s : S) : Nat := match s.crit with | some (_, .built true) => 1 | _ => 0
def inFlight (s : S) : Bool := match s.crit with | some (_, .constructing) => true | some (_, .built _) => true | _ => false

/-- the invariant: every successful construction is either published in the cache or about to be,
and nobody constructs while the cache is filled -/
def CInv (s : S) : Prop :=
  s.successes = (if s.cache then 1 else 0) + pending s ∧ (inFlight s = true → s.cache = false)

end GM.RuntimeConc
