/-
Go's `%+q` (strconv.QuoteToASCII) as used by `exporter.Export` for strings, and the inverse
direction: the meaning of a Go interpreted string literal (`unquote`).
-/
namespace GM.GoQuote

def hexDigit (n : Nat) : Char :=
  if n < 10 then Char.ofNat (48 + n) else Char.ofNat (87 + n)   -- '0'.. / 'a'..

/-- `k` lower-case hex digits of `n`, most significant first -/
def hexN : Nat → Nat → List Char
  | 0, _ => []
  | k+1, n => hexN k (n / 16) ++ [hexDigit (n % 16)]

def hexVal (c : Char) : Option Nat :=
  let n := c.toNat
  if 48 ≤ n ∧ n ≤ 57 then some (n - 48)
  else if 97 ≤ n ∧ n ≤ 102 then some (n - 87)
  else if 65 ≤ n ∧ n ≤ 70 then some (n - 55)
  else none

/-- value of a list of hex digits (most significant first), `none` if one is not a hex digit -/
def hexValN : List Char → Option Nat
  | [] => some 0
  | cs => cs.foldl (fun acc c => match acc, hexVal c with
      | some a, some d => some (a * 16 + d)
      | _, _ => none) (some 0)

/-- escape of one rune inside `"…"`, ASCII-only mode -/
def quoteChar (c : Char) : List Char :=
  let n := c.toNat
  if c = '"' then ['\\', '"']
  else if c = '\\' then ['\\', '\\']
  else if 32 ≤ n ∧ n < 127 then [c]
  else if n = 7 then ['\\', 'a']
  else if n = 8 then ['\\', 'b']
  else if n = 12 then ['\\', 'f']
  else if n = 10 then ['\\', 'n']
  else if n = 13 then ['\\', 'r']
  else if n = 9 then ['\\', 't']
  else if n = 11 then ['\\', 'v']
  else if n < 32 ∨ n = 127 then '\\' :: 'x' :: hexN 2 n
  else if n < 65536 then '\\' :: 'u' :: hexN 4 n
  else '\\' :: 'U' :: hexN 8 n

def quoteBody (s : List Char) : List Char := s.flatMap quoteChar

/-- `fmt.Sprintf("%+q", s)` -/
def quote (s : List Char) : List Char := '"' :: quoteBody s ++ ['"']

def mkChar (n : Nat) : Option Char :=
  if h : n.isValidChar then some ⟨n.toUInt32, by
    simp [Nat.isValidChar] at h ⊢
    have : n < UInt32.size := by rcases h with h | h <;> simp [UInt32.size] <;> omega
    simpa [UInt32.isValidChar, Nat.toUInt32, UInt32.toNat_ofNat', Nat.mod_eq_of_lt this] using h⟩ else none

/-- body of an interpreted string literal (between the quotes) → its value.
Handles the escapes Go's `%+q` produces plus upper-case hex; octal escapes are not needed
and are rejected. `none` = not a valid literal body (for this fragment). -/
def unquoteBody : List Char → Option (List Char)
  | [] => some []
  | '\\' :: 'x' :: a :: b :: rest =>
    match hexValN [a, b], unquoteBody rest with
    | some n, some r => (mkChar n).map (· :: r)
    | _, _ => none
  | '\\' :: 'u' :: a :: b :: c :: d :: rest =>
    match hexValN [a, b, c, d], unquoteBody rest with
    | some n, some r => (mkChar n).map (· :: r)
    | _, _ => none
  | '\\' :: 'U' :: a :: b :: c :: d :: e :: f :: g :: h :: rest =>
    match hexValN [a, b, c, d, e, f, g, h], unquoteBody rest with
    | some n, some r => (mkChar n).map (· :: r)
    | _, _ => none
  | '\\' :: c :: rest =>
    let v : Option Char :=
      if c = 'a' then some (Char.ofNat 7) else if c = 'b' then some (Char.ofNat 8)
      else if c = 'f' then some (Char.ofNat 12) else if c = 'n' then some '\n'
      else if c = 'r' then some '\r' else if c = 't' then some '\t'
      else if c = 'v' then some (Char.ofNat 11) else if c = '\\' then some '\\'
      else if c = '"' then some '"' else none
    match v, unquoteBody rest with
    | some ch, some r => some (ch :: r)
    | _, _ => none
  | ['\\'] => none
  | c :: rest =>
    if c = '"' ∨ c = '\n' then none else (unquoteBody rest).map (c :: ·)

/-- value of the Go expression `"…"` -/
def unquote (l : List Char) : Option (List Char) :=
  match l with
  | '"' :: rest =>
    if rest.getLast? = some '"' then unquoteBody rest.dropLast else none
  | _ => none

end GM.GoQuote
