/-
Readable, hand-written recognisers of the documented name forms (docs/SERVICES.md, docs/META.md,
docs/PARAMETERS.md), independent of the regular expressions.
-/
import GontainerModel.Model.Regexes
namespace GM.Grammar
open GM

def isLetter (c : Char) : Bool := Rx.letter.mem c
def isAlnum (c : Char) : Bool := Rx.alnum.mem c
def isIdentTail (c : Char) : Bool := Rx.identTail.mem c
def isYamlSep (c : Char) : Bool := Rx.yamlSep.mem c

/-- Go identifier restricted to ASCII: a letter followed by letters, digits, `_` -/
def goToken : List Char → Bool
  | [] => false
  | c :: t => isLetter c && t.all isIdentTail

/-- tail of a YAML name: (optional single separator, alphanumeric)* -/
def yamlTail : List Char → Bool
  | [] => true
  | a :: t =>
    if isAlnum a then yamlTail t
    else if isYamlSep a then
      match t with
      | b :: t' => isAlnum b && yamlTail t'
      | [] => false
    else false

/-- parameter / service / tag / alias name: starts with a letter, ends with a letter or digit, only
letters, digits and single `.`, `-`, `_` separators -/
def yamlToken : List Char → Bool
  | [] => false
  | c :: t => isLetter c && yamlTail t

/-! ### composite forms (docs/SERVICES.md, docs/META.md, docs/DECORATORS.md) -/

def isImportChar (c : Char) : Bool := Rx.importTail.mem c
def isSlash (c : Char) : Bool := Cls.mem [(47, 47)] c
def isSpace (c : Char) : Bool := Rx.space.mem c

/-- (optional single `sep`, then a `body` character)* -/
def sepTail (sep body : Char → Bool) : List Char → Bool
  | [] => true
  | a :: t =>
    if body a then sepTail sep body t
    else if sep a then
      match t with
      | b :: t' => body b && sepTail sep body t'
      | [] => false
    else false

/-- import path without quotes: a letter, then letters, digits, `.`, `_`, `-` and single `/` separators,
not ending in `/` -/
def baseImport : List Char → Bool
  | [] => false
  | c :: t => isLetter c && sepTail isSlash isImportChar t

/-- the text between surrounding double quotes -/
def unquoted : List Char → Option (List Char)
  | '"' :: t => if t.getLast? = some '"' then some t.dropLast else none
  | _ => none

/-- package reference: an import path, bare or in double quotes, or `"."` -/
def import_ (w : List Char) : Bool :=
  baseImport w || (match unquoted w with
    | some m => baseImport m || m == ['.']
    | none => false)

/-- every way of cutting `w` at one of its dots: `(before, after)` -/
def splitsAtDot : List Char → List (List Char × List Char)
  | [] => []
  | c :: t => (if c = '.' then [([], t)] else []) ++ (splitsAtDot t).map fun ab => (c :: ab.1, ab.2)

/-- `P`, optionally qualified by a package reference and a dot -/
def qualified (P : List Char → Bool) (w : List Char) : Bool :=
  P w || (splitsAtDot w).any fun ir => import_ ir.1 && P ir.2

/-- `P`, optionally preceded by the character `c` -/
def optLead (c : Char) (P : List Char → Bool) (w : List Char) : Bool :=
  P w || (match w with
    | a :: r => a == c && P r
    | [] => false)

/-- Go function / constructor: `[package.]Ident` -/
def goFunc : List Char → Bool := qualified goToken

/-- service type: `[*][package.]Ident` -/
def serviceType : List Char → Bool := optLead '*' goFunc

/-- after at least one identifier character: identifier characters, or a dot followed by a letter -/
def dottedTail : List Char → Bool
  | [] => true
  | a :: t =>
    if isIdentTail a then dottedTail t
    else if a == '.' then
      match t with
      | b :: t' => isLetter b && dottedTail t'
      | [] => false
    else false

/-- `Ident(.Ident)*` -/
def dotted : List Char → Bool
  | [] => false
  | c :: t => isLetter c && dottedTail t

/-- the text before a trailing `{}` -/
def beforeBraces (w : List Char) : Option (List Char) :=
  if w.drop (w.length - 2) = ['{', '}'] then some (w.take (w.length - 2)) else none

/-- `P` followed by `{}` -/
def withBraces (P : List Char → Bool) (w : List Char) : Bool :=
  match beforeBraces w with
  | some b => P b
  | none => false

/-- service value: `[&][package.]Ident(.Ident)*` or `[&][package.]Ident{}` -/
def serviceValue (w : List Char) : Bool :=
  optLead '&' (qualified dotted) w || optLead '&' (qualified (withBraces goToken)) w

/-- decorator tag: `*` or a tag name -/
def decoratorTag (w : List Char) : Bool := w == ['*'] || yamlToken w

/-- `@service` -/
def argService : List Char → Bool
  | '@' :: r => yamlToken r
  | _ => false

/-- at least one white-space character (`\s`), then `P` -/
def afterSpaces (P : List Char → Bool) : List Char → Bool
  | [] => false
  | c :: t => isSpace c && (P t || afterSpaces P t)

def keyword (k : List Char) (P : List Char → Bool) (w : List Char) : Bool :=
  k.isPrefixOf w && P (w.drop k.length)

/-- `!tagged <tag>` -/
def argTagged : List Char → Bool := keyword ['!','t','a','g','g','e','d'] (afterSpaces yamlToken)
/-- `!value <service value>` -/
def argValue : List Char → Bool := keyword ['!','v','a','l','u','e'] (afterSpaces serviceValue)

end GM.Grammar
