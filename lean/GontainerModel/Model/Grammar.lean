/-
Readable, hand-written recognisers of the documented name forms (docs/SERVICES.md, docs/META.md,
docs/PARAMETERS.md), independent of the regular expressions.
-/
import GontainerModel.Model.Regexes
namespace GM.Grammar
open GM

def isLetter (c : Char) : Bool := Rx.letter.mem c
def isAlnum (c : Char) : Bool := Rx.alnum.mem c
def isIdentTail (c : Char) : Bool := Rx.identTail.mem c
def isYamlSep (c : Char) : Bool := Rx.yamlSep.mem c

/-- Go identifier restricted to ASCII: a letter followed by letters, digits, `_` -/
def goToken : List Char → Bool
  | [] => false
  | c :: t => isLetter c && t.all isIdentTail

/-- tail of a YAML name: (optional single separator, alphanumeric)* -/
def yamlTail : List Char → Bool
  | [] => true
  | a :: t =>
    if isAlnum a then yamlTail t
    else if isYamlSep a then
      match t with
      | b :: t' => isAlnum b && yamlTail t'
      | [] => false
    else false

/-- parameter / service / tag / alias name: starts with a letter, ends with a letter or digit, only
letters, digits and single `.`, `-`, `_` separators -/
def yamlToken : List Char → Bool
  | [] => false
  | c :: t => isLetter c && yamlTail t

end GM.Grammar
