/-
Model of `internal/pkg/token/chunker.go` (`Chunker.Chunks`) and `token/common.go` (`toExpr`).
Strings are `List Char` (a Go string that came out of yaml.v3 is valid UTF-8, `range s`
iterates its runes).
-/
namespace GM.Chunk

/-- State of the Go loop: finished chunks `r`, flag `opened`, current buffer `buff`. -/
structure St where
  r : List (List Char)
  opened : Bool
  buff : List Char
deriving Repr, DecidableEq

/-- One iteration of `for _, v := range s`. -/
def step (st : St) (c : Char) : St :=
  if c = '%' then
    if st.opened then { r := st.r ++ [st.buff ++ ['%']], opened := false, buff := [] }
    else { r := if st.buff = [] then st.r else st.r ++ [st.buff], opened := true, buff := ['%'] }
  else { st with buff := st.buff ++ [c] }

/-- Code after the loop. `error buff` = the error "not closed token: <buff>". -/
def finishE (st : St) : Except (List Char) (List (List Char)) :=
  if st.opened then .error st.buff
  else .ok (if st.buff = [] then st.r else st.r ++ [st.buff])

def init : St := ⟨[], false, []⟩

/-- `Chunker.Chunks`, with the unclosed buffer as error payload. -/
def chunksE (s : List Char) : Except (List Char) (List (List Char)) :=
  if s = [] then .ok [[]] else finishE (s.foldl step init)

/-- `Chunker.Chunks` with the error forgotten. -/
def chunks (s : List Char) : Option (List (List Char)) :=
  match chunksE s with
  | .ok cs => some cs
  | .error _ => none

/-- `toExpr`: strips the surrounding delimiters; `none` = `("", false)`. -/
def toExpr (e : List Char) : Option (List Char) :=
  match e with
  | [] => none
  | [_] => none
  | c :: rest =>
    if c = '%' ∧ rest.getLast? = some '%' then some rest.dropLast else none

end GM.Chunk
