/-
Model of the custom YAML unmarshalers of `internal/pkg/input` (input_tag.go, input_call.go, input_scope.go):
what yaml.v3 hands them (a decoded node, two levels deep — enough for every shape they inspect) and what they
store or reject.  Errors raised by yaml.v3 itself (node kind cannot be decoded into the Go type asked for)
are the marker `yamlError`; the texts of the unmarshalers' own errors are exact.
-/
import GontainerModel.Model.Input
namespace GM.Decode
open GM GM.Input

/-- inner nodes: a scalar, a sequence of scalars-or-opaque values, or a mapping (only its keys matter here) -/
inductive Node1 where
  | v (x : Val)
  | list (xs : List Val)
  | dict (keys : List String)
deriving Repr, DecidableEq, Inhabited

inductive Node where
  | v (x : Val)
  | list (xs : List Node1)
  | dict (kv : List (String × Node1))
deriving Repr, DecidableEq, Inhabited

/-- Go's `%T` of a decoded value -/
def goTypeOfVal : Val → String
  | .null => "<nil>"
  | .bool _ => "bool"
  | .int _ => "int"
  | .uint _ => "uint64"
  | .float _ => "float64"
  | .str _ => "string"
  | .other t => t

def goType1 : Node1 → String
  | .v x => goTypeOfVal x
  | .list _ => "[]interface {}"
  | .dict _ => "map[string]interface {}"

def goType : Node → String
  | .v x => goTypeOfVal x
  | .list _ => "[]interface {}"
  | .dict _ => "map[string]interface {}"

def yamlError : String := "yaml"

/-- `Tag.UnmarshalYAML` -/
def decodeTag : Node → Except String Tag
  | .v (.str s) => .ok { name := s, priority := 0 }
  | .dict kv =>
    match kv.lookup "name" with
    | none => .error "missing tag name"
    | some (.v (.str n)) =>
      match kv.lookup "priority" with
      | none => .ok { name := n, priority := 0 }
      | some (.v (.int p)) => .ok { name := n, priority := p }
      | some _ => .error "priority must be an int"
    | some _ => .error "name must be an instance of string"
  | n => .error ("unexpected type `" ++ goType n ++ "`")

/-- the element of a call's argument list as the compiler sees it later: scalars as they are, anything else opaque -/
def argOfNode1 : Node1 → Val
  | .v x => x
  | n => .other (goType1 n)

/-- `Call.UnmarshalYAML` (the node must be a sequence: anything else is yaml.v3's error) -/
def decodeCall : Node → Except String Call
  | .list items =>
    if items.length = 0 ∨ items.length > 3 then
      .error ("the object Call must contain 1 - 3 values, " ++ toString items.length ++ " given")
    else
      match items with
      | (.v (.str m)) :: rest =>
        match rest with
        | [] => .ok { method := m, args := [], immutable := false }
        | (.list as) :: rest2 =>
          match rest2 with
          | [] => .ok { method := m, args := as, immutable := false }
          | (.v (.bool b)) :: _ => .ok { method := m, args := as, immutable := b }
          | x :: _ => .error ("third element of the object Call must be a bool, `" ++ goType1 x ++ "` given")
        | x :: _ => .error ("second element of the object Call must be an array, `" ++ goType1 x ++ "` given")
      | x :: _ => .error ("first element of the object Call must be a string, `" ++ goType1 x ++ "` given")
      | [] => .error "unreachable"
  | _ => .error yamlError

/-- the scope keywords (input_scope.go `mapScopeString`) -/
def scopeKeywords : List (String × Scope) :=
  [("shared", .shared), ("contextual", .contextual), ("non_shared", .nonShared)]

/-- the text yaml.v3 stores when a scalar is decoded into a Go `string` (null decodes to the zero value) -/
def scalarText : Val → String
  | .null => ""
  | .str s => s
  | v => v.castToString

/-- `Scope.UnmarshalYAML`: yaml.v3 decodes any scalar into the string asked for; sequences and mappings are its error -/
def decodeScope : Node → Except String Scope
  | .v x =>
    match scopeKeywords.lookup (scalarText x) with
    | some sc => .ok sc
    | none => .error ("invalid value for input.Scope: " ++ Val.quoteStr (scalarText x))
  | _ => .error yamlError

/-- the canonical node of a tag / call (what a configuration writer would write in full) -/
def encodeTag (t : Tag) : Node := .dict [("name", .v (.str t.name)), ("priority", .v (.int t.priority))]
def encodeCall (c : Call) (h : List Val := c.args) : Node :=
  .list [.v (.str c.method), .list h, .v (.bool c.immutable)]

end GM.Decode
