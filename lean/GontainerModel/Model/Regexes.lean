/-
The regular expressions of `internal/pkg/regex/consts.go` and their users, transcribed as `Re`
terms in the shape Go's `regexp/syntax` parser gives them. `Props/Pins.lean` proves by `rfl` that
every term REGENERATED from the compiled expressions of /repo (`Generated/Regex.lean`) equals
the term used here, so the model's matchers run the patterns the code runs.
-/
import GontainerModel.Model.Re
namespace GM.Rx
open GM Re

def letter : Cls := [(65, 90), (97, 122)]
def alnum : Cls := [(48, 57), (65, 90), (97, 122)]
def identTail : Cls := [(48, 57), (65, 90), (95, 95), (97, 122)]
def importTail : Cls := [(45, 46), (48, 57), (65, 90), (95, 95), (97, 122)]
def yamlSep : Cls := [(45, 46), (95, 95)]
def space : Cls := [(9, 10), (12, 13), (32, 32)]
def q : Re := cls [(34, 34)]
def dot : Re := cls [(46, 46)]

/-- `GoToken = [A-Za-z][A-Za-z0-9_]*` -/
def goToken : Re := cat (cls letter) (star (cls identTail))
/-- `YamlToken = [A-Za-z]((\.|-|_)?[A-Za-z0-9])*` -/
def yamlToken : Re := cat (cls letter) (star (cat (opt (cls yamlSep)) (cls alnum)))
def baseImportTail : Re := star (cat (opt (cls [(47, 47)])) (cls importTail))
/-- `BaseImport = [A-Za-z](\/?[A-Z-a-z0-9._-])*` -/
def baseImport : Re := cat (cls letter) baseImportTail
/-- `Import = ((BaseImport)|("BaseImport")|"\.")` -/
def import_ : Re :=
  alt baseImport (alt (cat q (cat (cls letter) (cat baseImportTail q))) (cat q (cat dot q)))
/-- `GoFunc = ((?P<import>Import)\.)?(?P<fn>GoToken)` -/
def goFunc : Re := cat (opt (cat (group "import" import_) dot)) (group "fn" goToken)
/-- `ServiceType = (?P<ptr>\*)?((?P<import>Import)\.)?(?P<type>GoToken)` -/
def serviceType : Re :=
  cat (opt (group "ptr" (cls [(42, 42)]))) (cat (opt (cat (group "import" import_) dot)) (group "type" goToken))
def value1 : Re :=
  group "v1" (cat (opt (group "ptr" (cls [(38, 38)]))) (cat (opt (cat (group "import" import_) dot))
    (group "value" (cat (cls letter) (cat (star (cls identTail)) (star (cat dot (cat (cls letter) (star (cls identTail))))))))))
def value2 : Re :=
  group "v2" (cat (opt (group "ptr2" (cls [(38, 38)]))) (cat (opt (cat (group "import2" import_) dot))
    (cat (group "struct2" goToken) (cat (cls [(123, 123)]) (cls [(125, 125)])))))
/-- `ServiceValue` -/
def serviceValue : Re := alt value1 value2
def decoratorTag : Re := alt (cls [(42, 42)]) yamlToken
def argService : Re := cat (cls [(64, 64)]) (group "service" yamlToken)
def taggedLit : Re := cat (cls [(33, 33)]) (cat (cls [(116, 116)]) (cat (cls [(97, 97)]) (cat (cls [(103, 103)]) (cat (cls [(103, 103)]) (cat (cls [(101, 101)]) (cls [(100, 100)]))))))
def valueLit : Re := cat (cls [(33, 33)]) (cat (cls [(118, 118)]) (cat (cls [(97, 97)]) (cat (cls [(108, 108)]) (cat (cls [(117, 117)]) (cls [(101, 101)])))))
def prefixTagged : Re := cat taggedLit (plus (cls space))
def argTagged : Re := cat taggedLit (cat (plus (cls space)) (group "tag" yamlToken))
def prefixValue : Re := cat valueLit (plus (cls space))
def argValue : Re := cat valueLit (cat (plus (cls space)) (group "argval" serviceValue))
def simpleFn : Re := cat (group "fn" goToken) (cat (cls [(40, 40)]) (cat (group "params" (star anyNotNL)) (cls [(41, 41)])))
def noAlphaNum : Re := cls [(0, 47), (58, 64), (91, 96), (123, 1114111)]

end GM.Rx
