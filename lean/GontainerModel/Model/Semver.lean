/-
Model of the parts of `golang.org/x/mod/semver` the version gate uses (`IsValid`, `Major`,
`MajorMinor`, `Compare` on `vX.Y.0`), and of `input/validators_version.go` + `input_version.go`.
Numbers are unbounded `Nat` (x/mod compares digit strings by length then lexicographically, which
for strings without leading zeros is numeric order).
-/
import GontainerModel.Model.Basic
namespace GM.Semver
open GM

structure Parsed where
  major : Nat
  minor : Nat
  patch : Nat
  pre : List Char      -- including the leading '-', or []
  build : List Char    -- including the leading '+', or []
deriving Repr, DecidableEq, Inhabited

def isDigit (c : Char) : Bool := 48 ≤ c.toNat && c.toNat ≤ 57
def isIdentChar (c : Char) : Bool :=
  isDigit c || (65 ≤ c.toNat && c.toNat ≤ 90) || (97 ≤ c.toNat && c.toNat ≤ 122) || c = '-'

def digitsVal (ds : List Char) : Nat := ds.foldl (fun a c => a * 10 + (c.toNat - 48)) 0

/-- `parseInt`: leading run of digits, no leading zero unless the number is `0` -/
def parseInt (v : List Char) : Option (Nat × List Char) :=
  let ds := v.takeWhile isDigit
  let rest := v.dropWhile isDigit
  if ds.isEmpty then none
  else if ds.head? = some '0' ∧ ds.length ≠ 1 then none
  else some (digitsVal ds, rest)

/-- `isBadNum`: all digits, more than one, leading zero -/
def isBadNum (v : List Char) : Bool := v.all isDigit && v.length > 1 && v.head? = some '0'

/-- dot-separated identifiers, each non-empty, (for prerelease) none a bad number -/
def identsOk (checkNum : Bool) (v : List Char) : Bool :=
  v.all (fun c => isIdentChar c || c = '.') &&
  (v.splitOn '.').all fun id => !id.isEmpty && !(checkNum && isBadNum id)

/-- `parse` of x/mod/semver. -/
def parse (v : List Char) : Option Parsed :=
  match v with
  | 'v' :: v =>
    match parseInt v with
    | none => none
    | some (maj, v) =>
      match v with
      | [] => some ⟨maj, 0, 0, [], []⟩
      | '.' :: v =>
        match parseInt v with
        | none => none
        | some (min, v) =>
          match v with
          | [] => some ⟨maj, min, 0, [], []⟩
          | '.' :: v =>
            match parseInt v with
            | none => none
            | some (pat, v) =>
              -- prerelease: from '-' up to (not including) the first '+'
              let (pre, v) :=
                if v.head? = some '-' then (v.takeWhile (· ≠ '+'), v.dropWhile (· ≠ '+')) else ([], v)
              let (bld, v) := if v.head? = some '+' then (v, []) else ([], v)
              if !(pre.isEmpty || identsOk true (pre.drop 1)) then none
              else if !(bld.isEmpty || identsOk false (bld.drop 1)) then none
              else if !v.isEmpty then none
              else some ⟨maj, min, pat, pre, bld⟩
          | _ => none
      | _ => none
  | _ => none

/-- parse of `"v" ++ s` -/
def parseNoV (s : String) : Option Parsed := parse ('v' :: s.toList)

def isValid (v : String) : Bool := (parse v.toList).isSome

/-- `Version.UnmarshalYAML` on a YAML string scalar `vs`: error text or the stored version -/
def decodeVersion (vs : String) : Except String String :=
  if (parseNoV vs).isSome then .ok vs
  else .error "version must follow the semver scheme, and it must not be prefixed by \"v\", see https://semver.org/"

/-- the validator's decision on parsed versions: `none` = accepted, `some msg` = rejected -/
def gate (b : Parsed) (g : Option Parsed) : Option String :=
  if b.major = 0 then
    match g with
    | some g => if g.major = 0 ∧ g.minor = b.minor then none else some "possibly incompatible versions"
    | none => some "possibly incompatible versions"
  else
    match g with
    | some g =>
      if g.major ≠ b.major then some "incompatible versions"
      else if b.minor < g.minor then some "update Gontainer to use all new features"
      else none
    | none => some "incompatible versions"

/-- `NewVersionValidator(build).ValidateVersion(i)`: `build` is the build version as handed to the
command (no leading `v`), `given` the configuration's version as stored (normally no leading `v`;
one leading `v` is tolerated). -/
def validateVersion (build : String) (given : Option String) : Errs :=
  match given with
  | none => []
  | some g =>
    match parseNoV build with
    | none => []
    | some b =>
      let gP := if g.toList.head? = some 'v' then parse g.toList else parseNoV g
      match gate b gP with
      | none => []
      | some msg => ["version: current: v" ++ build ++ ", given: " ++ g ++ ": " ++ msg]

/-- `main.buildVersion`: the linker-provided version loses one leading `v` iff it starts with `v` and is a
semantic version (x/mod/semver's `IsValid`); anything else is handed on unchanged -/
def normalizeBuild (linker : String) : String :=
  if linker.toList.head? = some 'v' ∧ isValid linker then String.ofList (linker.toList.drop 1) else linker

/-! ### the rest of main.go: the version info and the build-info line -/

/-- the fields of `goversion.Info` main.go touches -/
structure Info where
  gitVersion : String
  gitCommit : String
  treeState : String
  buildDate : String
  builtBy : String
deriving Repr, DecidableEq, Inhabited

/-- the callback of `main.buildVersion` applied to the defaults `d` (what the Go build info provides) and the five values the
linker may inject (`-X main.version=…`, `commit`, `isGitDirty`, `date`, `builtBy`); empty values are ignored, the tree state
only understands `true` / `false`, and the version — injected or default — is normalised -/
def applyLinker (d : Info) (version commit dirty date builtBy : String) : Info :=
  { gitVersion := normalizeBuild (if version != "" then version else d.gitVersion)
    gitCommit := if commit != "" then commit else d.gitCommit
    treeState := if dirty == "true" then "dirty" else if dirty == "false" then "clean" else d.treeState
    buildDate := if date != "" then date else d.buildDate
    builtBy := if builtBy != "" then builtBy else d.builtBy }

/-- `main.buildInfo`: what the header of the generated file shows -/
def buildInfo (i : Info) : String :=
  let r := i.gitVersion
  let r := if i.gitCommit != "unknown" then
      (r ++ " " ++ i.gitCommit) ++ (if i.treeState != "unknown" then "-" ++ i.treeState else "")
    else r
  if i.buildDate != "unknown" then r ++ " (build date " ++ i.buildDate ++ ")" else r

end GM.Semver
