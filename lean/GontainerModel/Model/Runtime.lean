/-
Executable model of the pinned runtime library (`gontainer-helpers/v3/container`) as far as the
properties observe it, running a COMPILED configuration (`Output`) the way the generated
constructor loads it, over the fixture universe of tools/probe (every constructor allocates a fresh
object that records its arguments; withers/decorators allocate an object that remembers its
predecessor; calls append to a log; `!value` expressions denote the fixture's globals).
This whole file is a hand-written model of an external library; it is tied to the real runtime
only by the level-B correspondence (generated code compiled and executed by the probe).
-/
import GontainerModel.Model.Compile
namespace GM.Runtime
open GM

/-- runtime value, as `fx.Desc` shows it -/
inductive RV where
  | nil
  | prim (v : Val)
  | ref (ptr : Bool) (serial : Nat)           -- allocated fixture object (identity = serial)
  | anon (ptr : Bool) (ctor : String)         -- global / literal fixture object (serial 0)
  | nilobj
  | slice (l : List RV)
  | container
deriving Repr, Inhabited

structure Obj where
  ctor : String
  args : List RV
  f1 : Option RV := none
  f2 : Option RV := none
  log : List (String × List RV) := []
  prev : Option RV := none
  /-- package of the object's type when no constructor label tells it (an object written as a struct literal) -/
  pkg : String := ""
deriving Repr, Inhabited

abbrev Bag := List (String × RV)

structure St where
  next : Nat := 1
  heap : List (Nat × Obj) := []
  shared : Bag := []
  pcache : Bag := []
  ovParams : Bag := []
  ovServices : Bag := []
  ctxBags : List (String × Bag) := []
  /-- log of evaluations: `param:<id>` when a parameter provider runs, `ctor:<service>` when a
  service construction succeeds -/
  evalLog : List String := []
deriving Repr, Inhabited

structure Prog where
  out : Output.Output
  imports : List (String × String)            -- local name ↦ import path
  fns : List Token.FnDef
  env : List (String × String)                -- environment variables
deriving Repr, Inhabited

def alloc (st : St) (o : Obj) : St × Nat :=
  ({ st with next := st.next + 1, heap := (st.next, o) :: st.heap }, st.next)

def updObj (st : St) (n : Nat) (f : Obj → Obj) : St :=
  { st with heap := st.heap.map fun (k, o) => if k = n then (k, f o) else (k, o) }

/-- resolve `i1_fx.NewA` to `probe/fx.NewA` through the import table -/
def symbol (p : Prog) (code : String) : String :=
  match code.splitOn "." with
  | [a, s] => match p.imports.lookup a with
    | some path => path ++ "." ++ s
    | none => code
  | _ => code

def stripAmp (s : String) : Bool × String :=
  match s.toList with
  | '&' :: r => (true, String.ofList r)
  | _ => (false, s)

/-- the value of a compiled Go value expression over the fixture universe -/
def goValue (p : Prog) (code : String) : RV :=
  let (amp, body) := stripAmp code
  let brace := body.endsWith "{}"
  let body' := if brace then (body.dropEnd 2).toString else body
  -- `alias.Sym` or `alias.Sym.Field`
  match body'.splitOn "." with
  | [s] =>
    -- a symbol of the generated package itself (`"."` reference): no alias, unlabelled
    if brace then .anon amp "" else .anon (amp || s == "Global") s
  | [a, s] =>
    let path := (p.imports.lookup a).getD a
    if brace then .anon amp ""
    else if s == "ID" then .prim (.str path)
    else .anon (amp || s == "Global") (path ++ "." ++ s)
  | [a, s, f] =>
    let path := (p.imports.lookup a).getD a
    if f == "Ctor" then .prim (.str (path ++ "." ++ s)) else .nil
  | _ => .nil

/-- zero value of a compiled type expression -/
def zeroOf (t : String) : RV :=
  match t.toList with
  | '*' :: _ => .nilobj
  | _ => if t == "interface{}" then .nil else .anon false ""

def svcByName (p : Prog) (n : String) : Option Output.Service := p.out.services.find? (·.name == n)

/-- the declared scope, with `default` resolved like `graphBuilder.warmUpScopes`: contextual iff a
service DECLARED contextual is reachable in the dependency graph, shared otherwise -/
def effScope (p : Prog) (st : St) (n : String) : Output.Scope :=
  if (st.ovServices.lookup n).isSome then .shared else
  match svcByName p n with
  | none => .shared
  | some s =>
    match s.scope with
    | .default =>
      let g := Output.buildGraph p.out
      let deps := (Graph.reachD g (Output.nService n)).filterMap Output.isServiceNode
      if deps.any fun d => (st.ovServices.lookup d).isNone && Output.scopeOf p.out d = .contextual then .contextual else .shared
    | sc => sc

/-- Go literal arguments of a `%fn(…)%` token: string and int literals separated by `, ` -/
def parseGoArgs (s : String) : List Val :=
  if s.trimAscii.isEmpty then [] else
  (s.splitOn ", ").map fun a =>
    match GoQuote.unquote a.trimAscii.toString.toList with
    | some str => .str (String.ofList str)
    | none => match a.trimAscii.toString.toInt? with
      | some i => .int i
      | none => .other a

/-- the runtime helpers of body.go.tpl (`_getEnv`, `_getEnvInt`, `_paramTodo`) and the fixture functions -/
def builtinFn (p : Prog) (fn : String) (args : List Val) : Except String Val :=
  match fn, args with
  | "getEnv", (.str k) :: rest =>
    match p.env.lookup k, rest with
    | some v, _ => .ok (.str v)
    | none, (.str d) :: _ => .ok (.str d)
    | none, _ => .error ("environment variable " ++ Val.quoteStr k ++ " does not exist")
  | "getEnvInt", (.str k) :: rest =>
    match p.env.lookup k, rest with
    | some v, _ => match v.toInt? with
      | some i => .ok (.int i)
      | none => .error ("cannot cast env(" ++ Val.quoteStr k ++ ") to int")
    | none, (.int d) :: _ => .ok (.int d)
    | none, _ => .error ("environment variable " ++ Val.quoteStr k ++ " does not exist")
  | "paramTodo", (.str m) :: _ => .error m
  | "paramTodo", _ => .error "parameter todo"
  | "Fn1", as => .ok (.str ("fn1/" ++ toString as.length))
  | "FnInt", as => .ok (.int (41 + as.length))
  | "FnFail", _ => .error "fnfail"
  -- typed fixture functions: the literal arguments are converted to the parameter types (uint, float64 / Duration, Label)
  | "FnU", [.int a, .int b] => .ok (.str ("u" ++ toString a ++ "/f" ++ toString b))
  | "FnD", [.int d, .str l] => .ok (.str ("d" ++ toString d ++ "/" ++ l))
  | _, _ => .error ("unknown function " ++ fn)

def baseName (goFn : String) : String := (goFn.splitOn ".").getLast?.getD goFn

def builtinCall (p : Prog) (goFn : String) (params : String) : Except String Val :=
  builtinFn p (baseName goFn) (parseGoArgs params)

def rvOfVal : Val → RV
  | .null => .nil
  | v => .prim v

def valOfRV : RV → Val
  | .prim v => v
  | .nil => .null
  | _ => .other "object"

/-- one token of a pattern, given the way parameters are looked up: literal text, a referenced parameter, or a
function call; after the first failure nothing more is evaluated -/
def evalTokStep (gp : St → String → St × Except String RV) (p : Prog)
    (acc : St × List Val × Option String) (t : Token.Token) : St × List Val × Option String :=
  let (st, vals, err) := acc
  if err.isSome then acc else
  match t.sem with
  | .lit x => (st, vals ++ [.str x], none)
  | .ref n =>
    match gp st n with
    | (st', .ok v) => (st', vals ++ [valOfRV v], none)
    | (st', .error e) => (st', vals, some e)
  | .call _ goFn params =>
    match builtinCall p goFn params with
    | .ok v => (st, vals ++ [v], none)
    | .error e => (st, vals, some ("cannot execute " ++ t.raw ++ ": " ++ e))

/-- `resolveDeps`, one argument: the value is appended (nil on error), errors are collected -/
def argsStep (ra : St → Bag → Output.Arg → St × Bag × Except String RV)
    (acc : St × Bag × List RV × List String) (a : Output.Arg) : St × Bag × List RV × List String :=
  let (st, bag, vals, errs) := acc
  match ra st bag a with
  | (st', bag', .ok v) => (st', bag', vals ++ [v], errs)
  | (st', bag', .error e) => (st', bag', vals ++ [.nil], errs ++ [e])

/-- one field assignment on the created object -/
def fieldStep (ra : St → Bag → Output.Arg → St × Bag × Except String RV) (obj : RV)
    (acc : St × Bag × List String) (fl : Output.Field) : St × Bag × List String :=
  let (st, bag, errs) := acc
  match ra st bag fl.value with
  | (st', bag', .error e) => (st', bag', errs ++ [e])
  | (st', bag', .ok v) =>
    match obj with
    | .ref _ n => (updObj st' n fun o => if fl.name == "F1" then { o with f1 := some v } else { o with f2 := some v }, bag', errs)
    | _ =>
      -- a service that is nothing but a type (or whose value is no struct) holds no object a field could be set on: the runtime's
      -- setter sees the boxed nil / value and refuses
      (st', bag', errs ++ ["set field " ++ Val.quoteStr fl.name ++ ": set (*interface {})." ++ Val.quoteStr fl.name ++
        ": expected pointer to struct, *interface {} given"])

/-- one call; a wither replaces the current object -/
def callStep (ras : St → Bag → List Output.Arg → St × Bag × Except String (List RV))
    (acc : St × Bag × RV × List String) (c : Output.Call) : St × Bag × RV × List String :=
  let (st, bag, cur, errs) := acc
  match ras st bag c.args with
  | (st', bag', .error e) => (st', bag', cur, errs ++ [e])
  | (st', bag', .ok vals) =>
    match cur with
    | .ref _ n =>
      if c.immutable then
        -- the wither is a method of the object's type: it labels its result with that type's package
        let path := match (st'.heap.lookup n) with
          | some o => if o.ctor == "" then o.pkg else ((o.ctor.splitOn ".").dropLast |> String.intercalate ".")
          | none => ""
        let (st'', m) := alloc st' { ctor := path ++ "." ++ c.method, args := vals, prev := some cur }
        (st'', bag', .ref true m, errs)
      else (updObj st' n fun o => { o with log := o.log ++ [(c.method, vals)] }, bag', cur, errs)
    | _ => (st', bag', cur, errs ++ ["call on a non-object"])

/-- one decorator of the declaration list: applied iff the service carries its tag; the first error stops -/
def decoStep (ras : St → Bag → List Output.Arg → St × Bag × Except String (List RV)) (p : Prog) (s : Output.Service) (id : String)
    (acc : St × Bag × RV × Option String × Nat) (d : Output.Decorator) : St × Bag × RV × Option String × Nat :=
  let (st, bag, cur, err, i) := acc
  if err.isSome then (st, bag, cur, err, i + 1) else
  if !(s.tags.any (·.name == d.tag)) then (st, bag, cur, err, i + 1) else
  match ras st bag d.args with
  | (st', bag', .error e) => (st', bag', cur, some e, i + 1)
  | (st', bag', .ok vals) =>
    let sym := symbol p d.decorator
    let base : Obj := { ctor := sym, args := [.prim (.str d.tag), .prim (.str id)] ++ vals }
    let o : Obj := match cur with
      | .ref true _ => { base with prev := some cur }
      | .anon true _ => { base with prev := some cur }
      | .nilobj => base
      | _ => { base with f1 := some cur }
    let (st'', m) := alloc st' o
    (st'', bag', .ref true m, none, i + 1)

/-- one carrier of a tag, obtained with `get`; the first error stops -/
def taggedStep (g : St → Bag → String → St × Bag × Except String RV)
    (acc : St × Bag × List RV × Option String) (c : String × Int) : St × Bag × List RV × Option String :=
  let (st, bag, vals, err) := acc
  if err.isSome then acc else
  match g st bag c.1 with
  | (st', bag', .ok v) => (st', bag', vals ++ [v], none)
  | (st', bag', .error e) => (st', bag', vals, some e)

/-- the fixture symbol `name` of some package, or of the generated package itself (no package part) -/
def isFixture (sym name : String) : Bool := sym == name || sym.endsWith ("." ++ name)

/-- creation of the object of a live service: constructor call (arguments resolved first), value expression, or the
zero value of the declared type -/
def createObj (ras : St → Bag → List Output.Arg → St × Bag × Except String (List RV)) (p : Prog) (s : Output.Service)
    (st : St) (bag : Bag) : St × Bag × Except String RV :=
  if s.constructor != "" then
    match ras st bag s.args with
    | (st, bag, .error e) => (st, bag, .error ("constructor args: " ++ e))
    | (st, bag, .ok vals) =>
      let sym := symbol p s.constructor
      if isFixture sym "NewFail" then (st, bag, .error "constructor: boom")
      else
        let (st, n) := alloc st { ctor := sym, args := vals }
        (st, bag, .ok (.ref (!isFixture sym "NewVal") n))
  else if s.value != "" then
    -- the value expression is evaluated at every construction: a struct literal (`&pkg.Obj{}` / `pkg.Obj{}`) is a
    -- fresh object each time (it can then receive fields and calls of its own); other expressions denote what they name
    if s.value.endsWith "{}" then
      let ty := ((stripAmp s.value).2.dropEnd 2).toString
      let pkg := match ty.splitOn "." with
        | [a, _] => (p.imports.lookup a).getD a
        | _ => ""
      let (st, n) := alloc st { ctor := "", args := [], pkg := pkg }
      (st, bag, .ok (.ref (stripAmp s.value).1 n))
    else (st, bag, .ok (goValue p s.value))
  else (st, bag, .ok (zeroOf s.type))

/-- the end of a successful construction: it is logged, and the object is remembered according to the scope -/
def finishGet (sc : Output.Scope) (id : String) (obj : RV) (st : St) (bag : Bag) : St × Bag × Except String RV :=
  let st := { st with evalLog := st.evalLog ++ ["ctor:" ++ id] }
  match sc with
  | .shared => ({ st with shared := (id, obj) :: st.shared }, bag, .ok obj)
  | .contextual => (st, (id, obj) :: bag, .ok obj)
  | _ => (st, bag, .ok obj)

/-- construction of a service that is not cached: todo check, creation, fields, calls, decorators, bookkeeping -/
def getBody (ra : St → Bag → Output.Arg → St × Bag × Except String RV)
    (ras : St → Bag → List Output.Arg → St × Bag × Except String (List RV))
    (p : Prog) (s : Output.Service) (sc : Output.Scope) (id : String) (st : St) (bag : Bag) : St × Bag × Except String RV :=
  if s.todo then (st, bag, .error ("get(" ++ Val.quoteStr id ++ "): constructor: service todo")) else
  -- creation
  let (st, bag, created) := createObj ras p s st bag
  match created with
  | .error e => (st, bag, .error ("get(" ++ Val.quoteStr id ++ "): " ++ e))
  | .ok obj =>
  -- fields, in emitted (sorted) order; all are attempted
  let (st, bag, ferrs) := s.fields.foldl (fieldStep ra obj) (st, bag, [])
  if !ferrs.isEmpty then (st, bag, .error ("get(" ++ Val.quoteStr id ++ "): " ++ String.intercalate "; " ferrs)) else
  -- calls in order; a wither replaces the object; all calls are attempted unless a wither fails
  let (st, bag, obj, cerrs) := s.calls.foldl (callStep ras) (st, bag, obj, [])
  if !cerrs.isEmpty then (st, bag, .error ("get(" ++ Val.quoteStr id ++ "): " ++ String.intercalate "; " cerrs)) else
  -- decorators in declaration order, for the tags the service carries; first error stops
  let (st, bag, obj, derr, _) := p.out.decorators.foldl (decoStep ras p s id) (st, bag, obj, none, 0)
  match derr with
  | some e => (st, bag, .error ("get(" ++ Val.quoteStr id ++ "): " ++ e))
  | none =>
    finishGet sc id obj st bag

mutual

/-- `getParam(id)`: overridden value, cached value, or the provider evaluated now (and cached) -/
def getParam : Nat → Prog → St → String → St × Except String RV
  | 0, _, st, _ => (st, .error "out of fuel")
  | f+1, p, st, id =>
    match st.ovParams.lookup id with
    | some v => (st, .ok v)
    | none =>
    match p.out.params.find? (·.name == id) with
    | none => (st, .error ("getParam(" ++ Val.quoteStr id ++ "): param does not exist"))
    | some prm =>
      match st.pcache.lookup id with
      | some v => (st, .ok v)
      | none =>
        let st := { st with evalLog := st.evalLog ++ ["param:" ++ id] }
        let (st, r) := evalRaw f p st prm.raw
        match r with
        | .ok v => ({ st with pcache := (id, v) :: st.pcache }, .ok v)
        | .error e => (st, .error ("getParam(" ++ Val.quoteStr id ++ "): " ++ e))

/-- value of a primitive or pattern (`%a% b %fn()%`) at run time -/
def evalRaw : Nat → Prog → St → Val → St × Except String RV
  | 0, _, st, _ => (st, .error "out of fuel")
  | f+1, p, st, v =>
    match v with
    | .str s =>
      match (Token.tokenize p.fns {} s).2 with
      | .error es => (st, .error (String.intercalate "; " es))
      | .ok ts =>
        -- evaluate tokens left to right; a failing token aborts (`_concatenateChunks`)
        let (st, vals, err) := ts.foldl (evalTokStep (fun st n => getParam f p st n) p) (st, [], none)
        match err with
        | some e => (st, .error e)
        | none =>
          match vals with
          | [v] => (st, .ok (rvOfVal v))
          | vs => (st, .ok (.prim (.str (String.join (vs.map Val.castToString)))))
    | v => (st, .ok (rvOfVal v))

/-- one dependency argument, by the form the resolver chain gave it -/
def resolveArg : Nat → Prog → St → Bag → Output.Arg → St × Bag × Except String RV
  | 0, _, st, bag, _ => (st, bag, .error "out of fuel")
  | f+1, p, st, bag, a =>
    match Compile.argChain.find? (Compile.supports · a.raw) with
    | some .nonStringPrimitive => (st, bag, .ok (rvOfVal a.raw))
    | some .value =>
      -- code is `dependencyValue(<go expr>)`
      let inner := ((a.code.drop "dependencyValue(".length).dropEnd 1).toString
      (st, bag, .ok (goValue p inner))
    | some .service => get f p st bag (a.depServices.headD "")
    | some .tagged => getTagged f p st bag (a.depTags.headD "")
    | some .gontainerValue => (st, bag, .ok .container)
    | some .pattern =>
      let (st, r) := evalRaw f p st a.raw
      (st, bag, r)
    | none => (st, bag, .error "unsupported argument")

/-- `resolveDeps`: ALL arguments are resolved (left to right), errors joined -/
def resolveArgs : Nat → Prog → St → Bag → List Output.Arg → St × Bag × Except String (List RV)
  | 0, _, st, bag, _ => (st, bag, .error "out of fuel")
  | f+1, p, st, bag, as =>
    let (st, bag, vals, errs) := as.foldl (argsStep (fun st bag a => resolveArg f p st bag a)) (st, bag, [], [])
    if errs.isEmpty then (st, bag, .ok vals) else (st, bag, .error (String.intercalate "; " errs))

/-- `Container.get(id, bag)` -/
def get : Nat → Prog → St → Bag → String → St × Bag × Except String RV
  | 0, _, st, bag, _ => (st, bag, .error "out of fuel")
  | f+1, p, st, bag, id =>
    match st.ovServices.lookup id with
    | some v => (st, bag, .ok v)
    | none =>
    match svcByName p id with
    | none => (st, bag, .error ("get(" ++ Val.quoteStr id ++ "): service does not exist"))
    | some s =>
      let sc := effScope p st id
      let cached : Option RV := match sc with
        | .shared => st.shared.lookup id
        | .contextual => bag.lookup id
        | _ => none
      match cached with
      | some v => (st, bag, .ok v)
      | none =>
      getBody (fun st bag a => resolveArg f p st bag a) (fun st bag as => resolveArgs f p st bag as) p s sc id st bag

/-- `getTaggedBy(tag, bag)`: the services carrying the tag, by priority descending then id
ascending, each obtained with `get` -/
def getTagged : Nat → Prog → St → Bag → String → St × Bag × Except String RV
  | 0, _, st, bag, _ => (st, bag, .error "out of fuel")
  | f+1, p, st, bag, tag =>
    let carriers := p.out.services.filterMap fun s =>
      if (st.ovServices.lookup s.name).isSome then none else
      (s.tags.find? (·.name == tag)).map fun t => (s.name, t.priority)
    let sorted := carriers.mergeSort fun a b => if a.2 = b.2 then AMap.strLe a.1 b.1 else decide (a.2 > b.2)
    let (st, bag, vals, err) := sorted.foldl (taggedStep (fun st bag n => get f p st bag n)) (st, bag, [], none)
    match err with
    | some e => (st, bag, .error ("getTaggedBy(" ++ Val.quoteStr tag ++ "): " ++ e))
    | none => (st, bag, .ok (.slice vals))

end

def fuel : Nat := 200

/-- the order in which `!tagged t` / `GetTaggedBy(t)` lists the carriers -/
def taggedOrder (o : Output.Output) (tag : String) : List String :=
  ((o.services.filterMap fun s => (s.tags.find? (·.name == tag)).map fun t => (s.name, t.priority)).mergeSort
    fun a b => if a.2 = b.2 then AMap.strLe a.1 b.1 else decide (a.2 > b.2)).map (·.1)

end GM.Runtime
