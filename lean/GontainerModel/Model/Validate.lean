/-
Model of `internal/pkg/input/validators*.go`: every validator, in the order of
`NewDefaultValidator`, with the exact (flattened) diagnostics.
-/
import GontainerModel.Model.Input
import GontainerModel.Model.Regexes
import GontainerModel.Model.Semver
namespace GM.Validate
open GM GM.Input

def q (s : String) : String := Val.quoteStr s
def rx (r : Re) (s : String) : Bool := Re.accepts r s.toList

/-- `validateRegexField` -/
def regexField (field v : String) (r : Re) : Errs :=
  if rx r v then [] else [field ++ ": invalid " ++ q v]
def optField (field : String) (v : Option String) (r : Re) : Errs :=
  match v with
  | none => []
  | some s => regexField field s r

def unsupported (name : String) (v : Val) : Errs :=
  match v with
  | .other t => [name ++ ": unsupported type " ++ t]
  | _ => []

/-! meta -/
def metaImports (m : Meta) : Errs :=
  Errs.pfx "imports: " <| (AMap.sorted m.imports).flatMap fun (a, imp) =>
    (if rx Rx.import_ imp then [] else ["invalid import " ++ q imp]) ++
    (if rx Rx.yamlToken a then [] else ["invalid alias " ++ q a])

def metaFunctions (m : Meta) : Errs :=
  Errs.pfx "functions: " <| (AMap.sorted m.functions).flatMap fun (fn, goFn) =>
    (if rx Rx.goToken fn then [] else ["invalid function " ++ q fn]) ++
    (if rx Rx.goFunc goFn then [] else ["invalid go function " ++ q goFn])

def validateMeta (i : Input) : Errs :=
  Errs.pfx "meta: " <|
    optField "pkg" i.mt.pkg Rx.goToken ++
    optField "container_type" i.mt.containerType Rx.goToken ++
    optField "container_constructor" i.mt.containerConstructor Rx.goToken ++
    metaImports i.mt ++ metaFunctions i.mt

/-! parameters -/
def validateParams (i : Input) : Errs :=
  Errs.pfx "parameters: " <| (AMap.sorted i.params).flatMap fun (n, v) =>
    (if rx Rx.yamlToken n then [] else [q n ++ ": invalid name"]) ++ unsupported (q n) v

/-! services -/
def constructorType (s : Service) : Errs :=
  (if s.constructor.isNone ∧ s.value.isNone ∧ s.type.isNone then ["missing constructor or value or type"] else []) ++
  (if s.constructor.isSome ∧ s.value.isSome then ["cannot define constructor and value together"] else []) ++
  (if !s.args.isEmpty ∧ s.constructor.isNone then ["arguments are not empty, but constructor is missing"] else [])

/-- reserved getter names: the method set of the runtime container plus the embedded field -/
def reservedGetters : List String :=
  ["AddDecorator", "CircularDeps", "Get", "GetInContext", "GetParam", "GetTaggedBy",
   "GetTaggedByInContext", "HotSwap", "IsTaggedBy", "OverrideParam", "OverrideService", "Root",
   "Container"]

def mustPrefix : List Char := ['M', 'u', 's', 't']
def inContextSuffix : List Char := ['I', 'n', 'C', 'o', 'n', 't', 'e', 'x', 't']

def serviceGetter (s : Service) : Errs :=
  match s.getter with
  | none => []
  | some g =>
    if reservedGetters.contains g then ["getter: " ++ q g ++ " is reserved"]
    else
      (if mustPrefix.isPrefixOf g.toList then ["getter: prefix \"Must\" is not allowed"] else []) ++
      (if inContextSuffix.isSuffixOf g.toList then ["getter: suffix \"InContext\" is not allowed"] else []) ++
      regexField "getter" g Rx.goToken

def indexed {α : Type} (l : List α) : List (Nat × α) := l.zipIdx.map fun (a, i) => (i, a)

def serviceArgs (s : Service) : Errs :=
  Errs.pfx "arguments: " <| (indexed s.args).flatMap fun (i, a) => unsupported ("arg " ++ toString i) a

def serviceCalls (s : Service) : Errs :=
  Errs.pfx "calls: " <| (indexed s.calls).flatMap fun (j, c) =>
    Errs.pfx (toString j ++ ": ") <|
      regexField "method" c.method Rx.goToken ++
      (indexed c.args).flatMap fun (i, a) => Errs.pfx "arguments: " (unsupported (toString i) a)

def serviceFields (s : Service) : Errs :=
  Errs.pfx "fields: " <| (AMap.sorted s.fields).flatMap fun (n, v) =>
    regexField (q n) n Rx.goToken ++ unsupported (q n) v

def serviceTags (s : Service) : Errs :=
  let names := s.tags.map (·.name)
  Errs.pfx "tags: " <|
    ((indexed s.tags).flatMap fun (i, t) => regexField (toString i) t.name Rx.yamlToken) ++
    ((names.eraseDups.mergeSort AMap.strLe).flatMap fun n =>
      if names.count n > 1 then ["duplicate " ++ q n] else [])

def serviceAttrs (s : Service) : Errs :=
  constructorType s ++ optField "constructor" s.constructor Rx.goFunc ++ serviceGetter s ++
  optField "type" s.type Rx.serviceType ++ optField "value" s.value Rx.serviceValue ++
  serviceArgs s ++ serviceCalls s ++ serviceFields s ++ serviceTags s

/-- the duplicate-getter bookkeeping of one non-todo service: the error (if the getter is already
claimed) and the updated table getter → first claimant -/
def dupCheck (seen : List (String × String)) (n : String) (g : Option String) : Errs × List (String × String) :=
  match g with
  | none => ([], seen)
  | some g => match seen.lookup g with
    | some prev => (["getter: " ++ q g ++ " is already used by " ++ q prev], seen)
    | none => ([], (g, n) :: seen)

def servicesStep (acc : Errs × List (String × String)) (ns : String × Service) : Errs × List (String × String) :=
  let nameErr := if rx Rx.yamlToken ns.1 then [] else ["invalid name"]
  if ns.2.todo.getD false then (acc.1 ++ Errs.pfx (q ns.1 ++ ": ") nameErr, acc.2)
  else
    let d := dupCheck acc.2 ns.1 ns.2.getter
    (acc.1 ++ Errs.pfx (q ns.1 ++ ": ") (nameErr ++ serviceAttrs ns.2 ++ d.1), d.2)

/-- `ValidateServices`: services in sorted order; a non-todo service is checked attribute-wise and
its getter must not have been claimed by an earlier (in sorted order) non-todo service. -/
def validateServices (i : Input) : Errs :=
  Errs.pfx "services: " ((AMap.sorted i.services).foldl servicesStep ([], [])).1

/-! decorators -/
def validateDecorators (i : Input) : Errs :=
  Errs.pfx "decorators: " <| (indexed i.decorators).flatMap fun (j, d) =>
    Errs.pfx (toString j ++ " " ++ q d.decorator ++ ": ") <|
      regexField "tag" d.tag Rx.decoratorTag ++ regexField "method" d.decorator Rx.goFunc ++
      Errs.pfx "arguments: " ((indexed d.args).flatMap fun (k, a) => unsupported (toString k) a)

/-- `NewDefaultValidator(version).Validate` -/
def validate (buildVersion : String) (i : Input) : Errs :=
  Semver.validateVersion buildVersion i.version ++ validateMeta i ++ validateParams i ++
  validateServices i ++ validateDecorators i

end GM.Validate
