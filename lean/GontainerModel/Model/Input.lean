/-
Model of `internal/pkg/input`: the configuration data type and `Merge` (merge.go).
-/
import GontainerModel.Model.Basic
namespace GM.Input
open GM

structure Tag where
  name : String
  priority : Int
deriving Repr, DecidableEq, Inhabited

structure Call where
  method : String
  args : List Val
  immutable : Bool
deriving Repr, DecidableEq, Inhabited

inductive Scope where | shared | contextual | nonShared
deriving Repr, DecidableEq, Inhabited

structure Service where
  getter : Option String := none
  mustGetter : Option Bool := none
  type : Option String := none
  value : Option String := none
  constructor : Option String := none
  args : List Val := []
  calls : List Call := []
  fields : AMap Val := []
  tags : List Tag := []
  scope : Option Scope := none
  todo : Option Bool := none
deriving Repr, DecidableEq, Inhabited

structure Decorator where
  tag : String
  decorator : String
  args : List Val
deriving Repr, DecidableEq, Inhabited

structure Meta where
  pkg : Option String := none
  containerType : Option String := none
  containerConstructor : Option String := none
  defaultMustGetter : Option Bool := none
  imports : AMap String := []
  functions : AMap String := []
deriving Repr, DecidableEq, Inhabited

structure Input where
  version : Option String := none
  mt : Meta := {}
  params : AMap Val := []
  services : AMap Service := []
  decorators : List Decorator := []
deriving Repr, DecidableEq, Inhabited

/-! ### merge.go -/

/-- `mergePtr`: the later value wins when present -/
def mergePtr {α : Type} (a b : Option α) : Option α :=
  match b with
  | some x => some x
  | none => a

/-- `mergeMap`: copy `a`, then `b` over it (first binding is live) -/
def mergeMap {V : Type} (a b : AMap V) : AMap V := b ++ a

/-- `mergeArgs`: later non-empty arguments replace the earlier ones -/
def mergeArgs (a b : List Val) : List Val := if b.isEmpty then a else b

def mergeMeta (m1 m2 : Meta) : Meta :=
  { pkg := mergePtr m1.pkg m2.pkg
    containerType := mergePtr m1.containerType m2.containerType
    containerConstructor := mergePtr m1.containerConstructor m2.containerConstructor
    defaultMustGetter := mergePtr m1.defaultMustGetter m2.defaultMustGetter
    imports := mergeMap m1.imports m2.imports
    functions := mergeMap m1.functions m2.functions }

def mergeService (s1 s2 : Service) : Service :=
  { getter := mergePtr s1.getter s2.getter
    mustGetter := mergePtr s1.mustGetter s2.mustGetter
    type := mergePtr s1.type s2.type
    value := mergePtr s1.value s2.value
    constructor := mergePtr s1.constructor s2.constructor
    args := mergeArgs s1.args s2.args
    calls := s1.calls ++ s2.calls
    fields := mergeMap s1.fields s2.fields
    tags := s1.tags ++ s2.tags
    scope := mergePtr s1.scope s2.scope
    todo := mergePtr s1.todo s2.todo }

/-- value of key `k` in `mergeServices a b` -/
def mergeSvcAt (a b : AMap Service) (k : String) : Option Service :=
  match a.get k, b.get k with
  | some x, some y => some (mergeService x y)
  | some x, none => some x
  | none, some y => some y
  | none, none => none

/-- `mergeServices`: key-wise; a key in both is merged attribute-wise -/
def mergeServices (a b : AMap Service) : AMap Service :=
  (AMap.rawKeys (a ++ b)).filterMap fun k => (mergeSvcAt a b k).map (k, ·)

/-- `Merge` -/
def merge (i1 i2 : Input) : Input :=
  { version := mergePtr i1.version i2.version
    mt := mergeMeta i1.mt i2.mt
    params := mergeMap i1.params i2.params
    services := mergeServices i1.services i2.services
    decorators := i1.decorators ++ i2.decorators }

/-- the input the runner starts from (`StepDefaultInput`): built-in functions -/
def defaults : Input :=
  { mt := { functions := [("env", "getEnv"), ("envInt", "getEnvInt"), ("todo", "paramTodo")] } }

/-- `StepReadConfig` on decoded files: fold `Merge` left to right from the defaults -/
def readAll (files : List Input) : Input := files.foldl merge defaults

end GM.Input
