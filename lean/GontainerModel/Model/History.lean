/-
Histories of container calls over the runtime model: the operations a program can perform on a generated
container (Get, GetInContext, GetTaggedBy, GetTaggedByInContext, GetParam, attaching a new context), as one
step function. The model driver executes its scripts through `stepOp`, so the histories the theorems speak
about are the ones the correspondence runs.
-/
import GontainerModel.Model.Runtime
namespace GM.Runtime
open GM

inductive Op where
  | get (id : String)
  | getCtx (ctx id : String)
  | tagged (tag : String)
  | taggedCtx (ctx tag : String)
  | param (id : String)
  | newCtx (ctx : String)
deriving Repr, DecidableEq, Inhabited

/-- the bag of an attached context (a context that was never attached starts empty) -/
def bagOf (st : St) (ctx : String) : Bag := (st.ctxBags.lookup ctx).getD []

def setBag (st : St) (ctx : String) (bag : Bag) : St :=
  { st with ctxBags := (ctx, bag) :: st.ctxBags.filter (·.1 != ctx) }

def stepOp (F : Nat) (p : Prog) (st : St) : Op → St × Except String RV
  | .get id =>
    -- a plain Get is its own call tree: the bag starts empty and is dropped afterwards
    let (st', _, r) := get F p st [] id
    (st', r)
  | .getCtx ctx id =>
    let (st', bag', r) := get F p st (bagOf st ctx) id
    (setBag st' ctx bag', r)
  | .tagged tag =>
    let (st', _, r) := getTagged F p st [] tag
    (st', r)
  | .taggedCtx ctx tag =>
    let (st', bag', r) := getTagged F p st (bagOf st ctx) tag
    (setBag st' ctx bag', r)
  | .param id => getParam F p st id
  | .newCtx ctx => ({ st with ctxBags := (ctx, []) :: st.ctxBags }, .ok .nil)

def runOps (F : Nat) (p : Prog) (st : St) (ops : List Op) : St :=
  ops.foldl (fun s o => (stepOp F p s o).1) st

end GM.Runtime
