/-
Shared basics: YAML-decoded values (`Val`), Go `exporter.Export` / `CastToString` on them,
flattened group errors, association-list maps with Go-map semantics and sorted key iteration.
-/
import GontainerModel.Model.GoQuote
namespace GM

/-- A value as yaml.v3 decodes it into `any`. Floats are opaque: `repr` is Go's
`strconv.FormatFloat(v,'f',-1,64)`. `other` carries Go's `%T` of a non-primitive value. -/
inductive Val where
  | null
  | bool (b : Bool)
  | int (i : Int)
  | uint (n : Nat)
  | float (repr : String)
  | str (s : String)
  | other (goType : String)
deriving Repr, DecidableEq, Inhabited

namespace Val

/-- `types.IsPrimitive` -/
def isPrimitive : Val → Bool
  | other _ => false
  | _ => true

def isString : Val → Bool
  | str _ => true
  | _ => false

def quoteStr (s : String) : String := String.ofList (GoQuote.quote s.toList)

/-- `exporter.MustExport` on a primitive -/
def goExport : Val → String
  | null => "nil"
  | bool true => "true"
  | bool false => "false"
  | int i => "int(" ++ toString i ++ ")"
  | uint n => "uint64(" ++ toString n ++ ")"
  | float r => "float64(" ++ r ++ ")"
  | str s => quoteStr s
  | other t => "<unexportable " ++ t ++ ">"

/-- `exporter.CastToString` on a primitive (the value a chunk contributes to a concatenation) -/
def castToString : Val → String
  | null => "nil"
  | bool true => "true"
  | bool false => "false"
  | int i => toString i
  | uint n => toString n
  | float r => r
  | str s => s
  | other t => "<uncastable " ++ t ++ ">"

end Val

/-- A flattened `grouperror`: the list `grouperror.Collection(err)` of messages; `[]` = nil error. -/
abbrev Errs := List String

namespace Errs
def pfx (p : String) (e : Errs) : Errs := e.map (p ++ ·)
def join (es : List Errs) : Errs := es.flatten
end Errs

/-- Go `map[string]V` as an association list; the FIRST binding of a key is the live one
(so that "copy a, then copy b over it" is `b ++ a`). -/
abbrev AMap (V : Type) := List (String × V)

namespace AMap
variable {V : Type}

def get (m : AMap V) (k : String) : Option V := m.lookup k

def strLe (a b : String) : Bool := decide (a ≤ b)

/-- distinct keys in first-occurrence order -/
def rawKeys (m : AMap V) : List String := (m.map Prod.fst).eraseDups

/-- `maps.Keys`: the keys, sorted (Go compares strings bytewise = by code point for valid UTF-8) -/
def keys (m : AMap V) : List String := (rawKeys m).mergeSort strLe

/-- `maps.Iterate` order: `(k, m[k])` for the sorted keys -/
def sorted (m : AMap V) : List (String × V) :=
  (keys m).filterMap fun k => (m.get k).map (k, ·)

end AMap
end GM
