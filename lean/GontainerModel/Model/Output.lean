/-
Model of `internal/pkg/output`: the compiled configuration, its dependency graph
(`output_graph.go` + the runtime's `container/internal/graph` node scheme) and the four output
validators.
-/
import GontainerModel.Model.Basic
import GontainerModel.Model.Graph
namespace GM.Output
open GM

structure Arg where
  code : String
  raw : Val
  depParams : List String := []
  depServices : List String := []
  depTags : List String := []
deriving Repr, DecidableEq, Inhabited

structure Param where
  name : String
  code : String
  raw : Val
  dependsOn : List String
deriving Repr, DecidableEq, Inhabited

structure Call where
  method : String
  args : List Arg
  immutable : Bool
deriving Repr, DecidableEq, Inhabited

structure Field where
  name : String
  value : Arg
deriving Repr, DecidableEq, Inhabited

structure Tag where
  name : String
  priority : Int
deriving Repr, DecidableEq, Inhabited

inductive Scope where | default | shared | contextual | nonShared
deriving Repr, DecidableEq, Inhabited

structure Service where
  name : String
  getter : String := ""
  mustGetter : Bool := false
  type : String := ""
  value : String := ""
  constructor : String := ""
  args : List Arg := []
  calls : List Call := []
  fields : List Field := []
  tags : List Tag := []
  scope : Scope := .default
  todo : Bool := false
deriving Repr, DecidableEq, Inhabited

structure Decorator where
  tag : String
  decorator : String
  args : List Arg
  raw : String
deriving Repr, DecidableEq, Inhabited

structure Meta where
  pkg : String := ""
  containerType : String := ""
  containerConstructor : String := ""
deriving Repr, DecidableEq, Inhabited

structure Output where
  mt : Meta := {}
  params : List Param := []
  services : List Service := []
  decorators : List Decorator := []
deriving Repr, DecidableEq, Inhabited

/-- `Service.AllArgs`: constructor arguments, call arguments, field values -/
def Service.allArgs (s : Service) : List Arg :=
  s.args ++ s.calls.flatMap (·.args) ++ s.fields.map (·.value)

/-! ### dependency graph -/

/-- nodes of the dependency graph (the runtime's `container/internal/graph` scheme) -/
inductive Node where
  | service (n : String)
  | param (n : String)
  | tag (t : String)
  | decorate (t : String)        -- "decorated by tag t"
  | decorator (i : Nat)
deriving Repr, DecidableEq, Inhabited

/-- the string id the runtime gives a node (used for ordering and for the protocol) -/
def Node.id : Node → String
  | .service n => "service(" ++ n ++ ")"
  | .param n => "param(" ++ n ++ ")"
  | .tag t => "tag(" ++ t ++ ")"
  | .decorate t => "decorate(" ++ t ++ ")"
  | .decorator i => "decorator(#" ++ toString i ++ ")"

abbrev nService (n : String) : Node := .service n
abbrev nParam (n : String) : Node := .param n
abbrev nTag (n : String) : Node := .tag n
abbrev nDecorate (n : String) : Node := .decorate n
abbrev nDecorator (i : Nat) : Node := .decorator i

def argEdges (src : Node) (args : List Arg) : List (Node × Node) :=
  (args.flatMap (·.depServices)).map (fun d => (src, nService d)) ++
  (args.flatMap (·.depTags)).map (fun t => (src, nTag t)) ++
  (args.flatMap (·.depParams)).map (fun p => (src, nParam p))

def serviceEdges (s : Service) : List (Node × Node) :=
  s.tags.flatMap (fun t => [(nTag t.name, nService s.name), (nService s.name, nDecorate t.name)]) ++
  argEdges (nService s.name) s.allArgs

def decoratorEdges (i : Nat) (d : Decorator) : List (Node × Node) :=
  (nDecorate d.tag, nDecorator i) :: argEdges (nDecorator i) d.args

/-- `BuildDependencyGraph` -/
def buildGraph (o : Output) : Graph.G Node :=
  { edges := o.services.flatMap serviceEdges ++
      (o.decorators.zipIdx.flatMap fun (d, i) => decoratorEdges i d) ++
      o.params.flatMap fun p => p.dependsOn.map fun q => (nParam p.name, nParam q) }

/-! ### validators -/
def q (s : String) : String := Val.quoteStr s

def missing (declared : List String) (deps : List String) : List String :=
  deps.filter fun n => !declared.contains n

/-- `ValidateParamsExist` (parameters, services, decorators) -/
def validateParamsExist (o : Output) : Errs :=
  let declared := o.params.map (·.name)
  Errs.pfx "output.ValidateParamsExist: " <|
    (o.params.flatMap fun p => (missing declared p.dependsOn).map fun n =>
      q ("%" ++ p.name ++ "%") ++ ": param " ++ q n ++ " does not exist") ++
    (o.services.flatMap fun s => (missing declared (s.allArgs.flatMap (·.depParams))).map fun n =>
      q ("@" ++ s.name) ++ ": param " ++ q n ++ " does not exist") ++
    (o.decorators.zipIdx.flatMap fun (d, i) => (missing declared (d.args.flatMap (·.depParams))).map fun n =>
      "decorator(#" ++ toString i ++ ", " ++ q d.tag ++ "): param " ++ q n ++ " does not exist")

/-- `ValidateServicesExist` -/
def validateServicesExist (o : Output) : Errs :=
  let declared := o.services.map (·.name)
  Errs.pfx "output.ValidateServicesExist: " <|
    (o.services.flatMap fun s => (missing declared (s.allArgs.flatMap (·.depServices))).map fun n =>
      q s.name ++ ": service " ++ q n ++ " does not exist") ++
    (o.decorators.zipIdx.flatMap fun (d, i) => (missing declared (d.args.flatMap (·.depServices))).map fun n =>
      "decorator(#" ++ toString i ++ ", " ++ q d.tag ++ "): service " ++ q n ++ " does not exist")

def scopeOf (o : Output) (n : String) : Scope :=
  match o.services.find? (·.name == n) with
  | some s => s.scope
  | none => .default

def isServiceNode : Node → Option String
  | .service n => some n
  | _ => none

/-- the (shared, contextual) pairs `ValidateServicesScopes` reports, in report order:
shared services by name, their reachable services by node id -/
def scopePairs (o : Output) : List (String × String) :=
  let g := buildGraph o
  let names := (o.services.map (·.name)).eraseDups.mergeSort AMap.strLe
  names.flatMap fun s =>
    if scopeOf o s = .shared then
      (((Graph.reachD g (nService s)).filter (· != nService s)).mergeSort fun a b => AMap.strLe a.id b.id).filterMap fun id =>
        match isServiceNode id with
        | some c => if scopeOf o c = .contextual then some (s, c) else none
        | none => none
    else []

def validateScopes (o : Output) : Errs :=
  Errs.pfx "output.ValidateServicesScopes: " <|
    (scopePairs o).map fun (s, c) => q s ++ ": service is shared, but dependant " ++ q c ++ " is contextual"

/-- does `ValidateCircularDeps` reject -/
def hasCycle (o : Output) : Bool := Graph.cyclic (buildGraph o)

end GM.Output
