/-
Regular expressions as produced by Go's `regexp/syntax` for the patterns of gontainer,
their denotation `Lang`, a Brzozowski-derivative matcher `accepts` (proved equal to `Lang`
in `Lemmas/Re.lean`), and a leftmost-first backtracking matcher `captures` used to model
`regex.Match` (named capture groups, Perl/RE2 leftmost-first semantics).
-/
namespace GM

/-- character class: list of inclusive code-point ranges -/
abbrev Cls := List (Nat × Nat)

def Cls.mem (k : Cls) (c : Char) : Bool := k.any fun (lo, hi) => lo ≤ c.toNat && c.toNat ≤ hi

inductive Re where
  | empty : Re
  | eps : Re
  | cls : Cls → Re
  | anyNotNL : Re
  | cat : Re → Re → Re
  | alt : Re → Re → Re
  | star : Re → Re
  | group : String → Re → Re      -- named capture group
deriving Repr, DecidableEq, Inhabited

namespace Re

def opt (r : Re) : Re := alt r eps
def plus (r : Re) : Re := cat r (star r)
def chr (c : Char) : Re := cls [(c.toNat, c.toNat)]
def lit : List Char → Re
  | [] => eps
  | [c] => chr c
  | c :: cs => cat (chr c) (lit cs)

inductive Lang : Re → List Char → Prop
  | eps : Lang eps []
  | cls {k c} : k.mem c = true → Lang (cls k) [c]
  | any {c} : c ≠ '\n' → Lang anyNotNL [c]
  | cat {r s x y} : Lang r x → Lang s y → Lang (cat r s) (x ++ y)
  | altL {r s x} : Lang r x → Lang (alt r s) x
  | altR {r s x} : Lang s x → Lang (alt r s) x
  | starNil {r} : Lang (star r) []
  | starCons {r x y} : Lang r x → Lang (star r) y → Lang (star r) (x ++ y)
  | group {n r x} : Lang r x → Lang (group n r) x

def nullable : Re → Bool
  | empty => false
  | eps => true
  | cls _ => false
  | anyNotNL => false
  | cat r s => nullable r && nullable s
  | alt r s => nullable r || nullable s
  | star _ => true
  | group _ r => nullable r

def deriv : Re → Char → Re
  | empty, _ => empty
  | eps, _ => empty
  | cls k, c => if k.mem c then eps else empty
  | anyNotNL, c => if c != '\n' then eps else empty
  | cat r s, c => if nullable r then alt (cat (deriv r c) s) (deriv s c) else cat (deriv r c) s
  | alt r s, c => alt (deriv r c) (deriv s c)
  | star r, c => cat (deriv r c) (star r)
  | group _ r, c => deriv r c

/-- full (anchored) match: `regexp.MustCompile("\\A(" + r + ")\\z").MatchString` -/
def accepts (r : Re) : List Char → Bool
  | [] => nullable r
  | c :: cs => accepts (deriv r c) cs

/-- prefix match: `regexp.MustCompile("\\A(" + r + ")").MatchString` -/
def acceptsPrefix (r : Re) : List Char → Bool
  | [] => nullable r
  | c :: cs => nullable r || acceptsPrefix (deriv r c) cs

abbrev Caps := List (String × List Char)

/-- Leftmost-first backtracking matcher in continuation-passing style.
`fuel` bounds the number of `star` unfoldings (input length + 1 suffices because every
star body in the extracted patterns consumes at least one character). -/
def bt : Nat → Re → List Char → Caps → (List Char → Caps → Option Caps) → Option Caps
  | _, empty, _, _, _ => none
  | _, eps, w, cs, k => k w cs
  | _, cls p, w, cs, k =>
    match w with
    | c :: w' => if p.mem c then k w' cs else none
    | [] => none
  | _, anyNotNL, w, cs, k =>
    match w with
    | c :: w' => if c != '\n' then k w' cs else none
    | [] => none
  | f, cat r s, w, cs, k => bt f r w cs fun w' cs' => bt f s w' cs' k
  | f, alt r s, w, cs, k =>
    match bt f r w cs k with
    | some res => some res
    | none => bt f s w cs k
  | 0, star _, w, cs, k => k w cs
  | f+1, star r, w, cs, k =>
    -- greedy: first try one more iteration (which must consume something), then stop
    match bt f r w cs (fun w' cs' => if w'.length < w.length then bt f (star r) w' cs' k else none) with
    | some res => some res
    | none => k w cs
  | f, group n r, w, cs, k =>
    bt f r w cs fun w' cs' =>
      k w' ((n, w.take (w.length - w'.length)) :: cs'.filter (·.1 != n))

/-- names of groups in order of appearance -/
def groupNames : Re → List String
  | cat r s => groupNames r ++ groupNames s
  | alt r s => groupNames r ++ groupNames s
  | star r => groupNames r
  | group n r => n :: groupNames r
  | _ => []

/-- `regex.Match(r, s)` for an anchored pattern: `none` = no match; otherwise the map of
all named groups (unmatched groups are `""`, like `FindStringSubmatch`). -/
def captures (r : Re) (w : List Char) : Option Caps :=
  match bt (w.length + 1) r w [] (fun w' cs => if w' = [] then some cs else none) with
  | none => none
  | some cs => some ((groupNames r).eraseDups.map fun n => (n, (cs.lookup n).getD []))

def cap (cs : Caps) (n : String) : List Char := (cs.lookup n).getD []

end Re
end GM
