/-
Model of `internal/pkg/token`: factories (first-match chain), tokenizer, `Tokens.GoCode`,
and — separately — the MEANING of the emitted provider code (`Sem`, `evalTokens`), i.e. what
`GetParam` returns when the generated closures run against the runtime helpers of body.go.tpl.
-/
import GontainerModel.Model.Chunk
import GontainerModel.Model.Regexes
import GontainerModel.Model.Imports
namespace GM.Token
open GM

inductive Kind where | str | ref | fn
deriving Repr, DecidableEq, Inhabited

/-- what the emitted closure of a token computes -/
inductive Sem where
  | lit (s : String)                         -- returns the string
  | ref (name : String)                      -- getParam(name)
  | call (fn : String) (goFn : String) (params : String)   -- callProvider(goFn, params…), error prefixed
deriving Repr, DecidableEq, Inhabited

structure Token where
  kind : Kind
  raw : String
  dependsOn : List String
  code : String
  sem : Sem
deriving Repr, DecidableEq, Inhabited

/-- a function registered through `meta.functions` / the built-ins: alias, import path, Go name -/
structure FnDef where
  name : String
  goImport : String
  goFn : String
deriving Repr, DecidableEq, Inhabited

inductive Factory where
  | function (f : FnDef)
  | percentMark | reference | unexpectedFunction | unexpectedToken | string
deriving Repr, DecidableEq, Inhabited

/-- the order wired in `internal/gontainer/gontainer_resolvers.yaml` (pinned against the generated wiring) -/
def baseFactories : List Factory :=
  [.percentMark, .reference, .unexpectedFunction, .unexpectedToken, .string]

def Factory.wiringName : Factory → String
  | .percentMark => "!value token.FactoryPercentMark{}"
  | .reference => "!value token.FactoryReference{}"
  | .unexpectedFunction => "!value token.FactoryUnexpectedFunction{}"
  | .unexpectedToken => "!value token.FactoryUnexpectedToken{}"
  | .string => "!value token.FactoryString{}"
  | .function _ => "<registered>"

def tplTokenProvider (body : String) : String := "func() (r interface{}, err error) { " ++ body ++ " }"
def tplTokenGetParam (ref : String) : String :=
  "func() (interface{}, error) { return getParam(" ++ Val.quoteStr ref ++ ") }"
def tplDependencyProvider (c : String) : String := "dependencyProvider(" ++ c ++ ")"
def tplConcatenate (c : String) : String :=
  "dependencyProvider(func () (string, error) { return concatenateChunks(" ++ c ++ ") })"

def expr (chunk : String) : Option (List Char) := Chunk.toExpr chunk.toList

def simpleFnCaps (chunk : String) : Option Re.Caps :=
  match expr chunk with
  | some e => Re.captures Rx.simpleFn e
  | none => none

def supports (f : Factory) (chunk : String) : Bool :=
  match f with
  | .percentMark => chunk == "%%"
  | .reference => match expr chunk with
    | some e => Re.accepts Rx.yamlToken e
    | none => false
  | .string => true
  | .function d => match simpleFnCaps chunk with
    | some m => String.ofList (Re.cap m "fn") == d.name
    | none => false
  | .unexpectedFunction => (simpleFnCaps chunk).isSome
  | .unexpectedToken => (expr chunk).isSome

/-- `Create` of each factory; threads the import table because function tokens call `Alias`. -/
def create (f : Factory) (st : Imports.St) (chunk : String) : Imports.St × Except String Token :=
  match f with
  | .percentMark =>
    (st, .ok { kind := .str, raw := "%%", dependsOn := [], code := tplTokenProvider "return \"%\", nil", sem := .lit "%" })
  | .reference =>
    let r := String.ofList ((expr chunk).getD [])
    (st, .ok { kind := .ref, raw := chunk, dependsOn := [r], code := tplTokenGetParam r, sem := .ref r })
  | .string =>
    (st, .ok { kind := .str, raw := chunk, dependsOn := [],
               code := tplTokenProvider ("return " ++ Val.quoteStr chunk ++ ", nil"), sem := .lit chunk })
  | .function d =>
    let m := (simpleFnCaps chunk).getD []
    let params := String.ofList (Re.cap m "params")
    let (st1, goFn) :=
      if d.goImport != "" then
        let (s, a) := Imports.alias st d.goImport
        (s, a ++ "." ++ d.goFn)
      else (st, d.goFn)
    let callFn := "callProvider(" ++ goFn ++ (if params != "" then ", " ++ params else "") ++ ")"
    let (st2, fmtA) := Imports.alias st1 "fmt"
    let body := "r, err = " ++ callFn ++ "; if err != nil { err = " ++ fmtA ++ ".Errorf(\"%s: %w\", " ++
      Val.quoteStr ("cannot execute " ++ chunk) ++ ", err) }; return"
    (st2, .ok { kind := .fn, raw := chunk, dependsOn := [], code := tplTokenProvider body,
                sem := .call d.name goFn params })
  | .unexpectedFunction =>
    let m := (simpleFnCaps chunk).getD []
    (st, .error ("unexpected function: " ++ Val.quoteStr (String.ofList (Re.cap m "fn")) ++ ": " ++ Val.quoteStr chunk))
  | .unexpectedToken =>
    (st, .error ("unexpected token: " ++ Val.quoteStr chunk))

/-- `StrategyFactory.Create`: first factory that supports the chunk -/
def createFirst (fs : List Factory) (st : Imports.St) (chunk : String) : Imports.St × Except String Token :=
  match fs.find? (supports · chunk) with
  | some f => create f st chunk
  | none => (st, .error ("not supported token: " ++ chunk))

/-- registered functions are PREPENDED one by one (`FuncRegisterer.RegisterFunc`) -/
def chain (fns : List FnDef) : List Factory :=
  (fns.reverse.map Factory.function) ++ baseFactories

/-- one iteration of `Tokenizer.Tokenize` -/
def tokenizeStep (fns : List FnDef) (acc : Imports.St × List Token × Errs) (c : List Char) : Imports.St × List Token × Errs :=
  match createFirst (chain fns) acc.1 (String.ofList c) with
  | (st', .ok t) => (st', acc.2.1 ++ [t], acc.2.2)
  | (st', .error e) => (st', acc.2.1, acc.2.2 ++ [e])

/-- `Tokenizer.Tokenize`: every chunk is processed, errors are joined -/
def tokenize (fns : List FnDef) (st : Imports.St) (s : String) : Imports.St × Except Errs (List Token) :=
  match Chunk.chunksE s.toList with
  | .error buff => (st, .error ["not closed token: " ++ Val.quoteStr (String.ofList buff)])
  | .ok cs =>
    let r := cs.foldl (tokenizeStep fns) (st, [], [])
    if r.2.2.isEmpty then (r.1, .ok r.2.1) else (r.1, .error r.2.2)

/-- `Tokens.GoCode` -/
def goCode (ts : List Token) : Except String String :=
  match ts with
  | [] => .error "unexpected error: len(tokens) == 0"
  | [t] => .ok (tplDependencyProvider t.code)
  | ts => .ok (tplConcatenate (String.intercalate ", " (ts.map (·.code))))

/-! ### meaning of the emitted code -/

/-- run-time environment of the generated container: parameter values (already evaluated or
failing) and the behaviour of functions applied to the raw argument text -/
structure Env where
  param : String → Except String Val
  call : String → String → Except String Val    -- goFn, params text ↦ result

def evalToken (env : Env) (t : Token) : Except String Val :=
  match t.sem with
  | .lit s => .ok (.str s)
  | .ref n => env.param n
  | .call _ goFn params =>
    match env.call goFn params with
    | .ok v => .ok v
    | .error e => .error ("cannot execute " ++ t.raw ++ ": " ++ e)

/-- one token: the provider's value, unchanged; several: `_concatenateChunks` -/
def evalTokens (env : Env) (ts : List Token) : Except String Val :=
  match ts with
  | [t] => evalToken env t
  | ts => (ts.mapM (evalToken env)).map fun vs => .str (String.join (vs.map Val.castToString))

end GM.Token
