/-
Model of `internal/pkg/imports/imports.go` and `syntax.SanitizeImport`.
`prefixes` is a Go map that `decorateImport` ranges over: the list order here IS the
(arbitrary) iteration order, so order-independence is a theorem, not an assumption.
-/
import GontainerModel.Model.Basic
namespace GM.Imports

structure St where
  counter : Nat := 0
  imports : List (String × String) := []     -- path ↦ local name, most recent first
  prefixes : List (String × String) := []    -- alias ↦ path prefix
deriving Repr, DecidableEq, Inhabited

/-- `RegisterPrefixAlias`; error text on duplicates -/
def registerPrefix (st : St) (alias path : String) : St × Errs :=
  if (st.prefixes.lookup alias).isSome then
    (st, ["prefix is already registered: " ++ Val.quoteStr alias])
  else ({ st with prefixes := st.prefixes ++ [(alias, path)] }, [])

/-- does `alias` match the first path segment of `imp`: `imp == alias` or `imp` starts with `alias/` -/
def segMatch (alias imp : List Char) : Bool :=
  imp == alias || (alias ++ ['/']).isPrefixOf imp

/-- `decorateImport`: the first alias (in iteration order) that equals the first path segment
is replaced by its path. -/
def decorate (prefixes : List (String × String)) (imp : String) : String :=
  match prefixes.find? (fun p => segMatch p.1.toList imp.toList) with
  | some (a, path) => path ++ String.ofList (imp.toList.drop a.length)
  | none => imp

def hexStr (n : Nat) : String := String.ofList (Nat.toDigits 16 n)

def isAlnum (c : Char) : Bool :=
  (48 ≤ c.toNat && c.toNat ≤ 57) || (65 ≤ c.toNat && c.toNat ≤ 90) || (97 ≤ c.toNat && c.toNat ≤ 122)

def lastSeg (p : List Char) : List Char :=
  (p.splitOn '/').getLast?.getD []

/-- local name for the `n`-th new import path: `i<hex n>_<last element, non-alnum ↦ _>` -/
def localName (n : Nat) (path : String) : String :=
  "i" ++ hexStr n ++ "_" ++ String.ofList ((lastSeg path.toList).map fun c => if isAlnum c then c else '_')

/-- `Alias` -/
def alias (st : St) (imp : String) : St × String :=
  let p := decorate st.prefixes imp
  match st.imports.lookup p with
  | some a => (st, a)
  | none =>
    let a := localName st.counter p
    ({ st with counter := st.counter + 1, imports := (p, a) :: st.imports }, a)

/-- `Imports()`: `(local name, path)` sorted by path -/
def importsList (st : St) : List (String × String) :=
  (st.imports.mergeSort fun a b => AMap.strLe a.1 b.1).map fun (p, a) => (a, p)

/-- `syntax.SanitizeImport`: strip surrounding `"`; `.` ↦ `""` -/
def sanitize (i : String) : String :=
  let l := i.toList
  let l := l.dropWhile (· = '"')
  let l := (l.reverse.dropWhile (· = '"')).reverse
  if l = ['.'] then "" else String.ofList l

end GM.Imports
