/-
Model of `internal/pkg/resolver`, `internal/pkg/syntax` and `internal/pkg/compiler`:
argument resolution (first-match chain), compilation of meta/params/services/decorators into
`Output`, threading the import table exactly in the order the Go code calls `Alias`.
-/
import GontainerModel.Model.Token
import GontainerModel.Model.Validate
import GontainerModel.Model.Output
namespace GM.Compile
open GM

inductive Resolver where
  | nonStringPrimitive | value | service | tagged | gontainerValue | pattern
deriving Repr, DecidableEq, Inhabited

def Resolver.wiringName : Resolver → String
  | .nonStringPrimitive => "@nonStringPrimitiveResolver"
  | .value => "@valueResolver"
  | .service => "@serviceResolver"
  | .tagged => "@taggedResolver"
  | .gontainerValue => "@gontainerValueResolver"
  | .pattern => "@patternResolver"

/-- `argResolver` of gontainer_resolvers.yaml -/
def argChain : List Resolver := [.nonStringPrimitive, .value, .service, .tagged, .gontainerValue, .pattern]
/-- `primitiveArgResolver` (used for parameters) -/
def paramChain : List Resolver := [.nonStringPrimitive, .pattern]

def specialGontainerID : String := "$gontainer"
def specialGontainerValue : String := "rootGontainer"

structure Ctx where
  fns : List Token.FnDef
  st : Imports.St
deriving Repr, Inhabited

def supports (r : Resolver) (v : Val) : Bool :=
  match r, v with
  | .nonStringPrimitive, v => !v.isString && v.isPrimitive
  | .value, .str s => Re.acceptsPrefix Rx.prefixValue s.toList
  | .service, .str s => Re.acceptsPrefix (Re.cls [(64, 64)]) s.toList
  | .tagged, .str s => Re.acceptsPrefix Rx.prefixTagged s.toList
  | .gontainerValue, .str s => s == specialGontainerID
  | .pattern, .str _ => true
  | _, _ => false

/-- `syntax.CompileServiceValue` -/
def compileServiceValue (st : Imports.St) (expr : List Char) : Imports.St × String :=
  let m := (Re.captures Rx.serviceValue expr).getD []
  let c := fun n => String.ofList (Re.cap m n)
  if c "v1" != "" then
    let imp := Imports.sanitize (c "import")
    if imp != "" then
      let (st', a) := Imports.alias st imp
      (st', c "ptr" ++ a ++ "." ++ c "value")
    else (st, c "ptr" ++ c "value")
  else
    let imp := Imports.sanitize (c "import2")
    if imp != "" then
      let (st', a) := Imports.alias st imp
      (st', c "ptr2" ++ a ++ "." ++ c "struct2" ++ "{}")
    else (st, c "ptr2" ++ c "struct2" ++ "{}")

def resolveWith (r : Resolver) (fns : List Token.FnDef) (st : Imports.St) (v : Val) :
    Imports.St × Except Errs Output.Arg :=
  match r, v with
  | .nonStringPrimitive, v => (st, .ok { code := "dependencyValue(" ++ v.goExport ++ ")", raw := v })
  | .value, .str s =>
    match Re.captures Rx.argValue s.toList with
    | none => (st, .error ["invalid value"])
    | some m =>
      let (st', code) := compileServiceValue st (Re.cap m "argval")
      (st', .ok { code := "dependencyValue(" ++ code ++ ")", raw := v })
  | .service, .str s =>
    match Re.captures Rx.argService s.toList with
    | none => (st, .error ["invalid service"])
    | some m =>
      let n := String.ofList (Re.cap m "service")
      (st, .ok { code := "dependencyService(" ++ Val.quoteStr n ++ ")", raw := v, depServices := [n] })
  | .tagged, .str s =>
    match Re.captures Rx.argTagged s.toList with
    | none => (st, .error ["invalid tag"])
    | some m =>
      let t := String.ofList (Re.cap m "tag")
      (st, .ok { code := "dependencyTag(" ++ Val.quoteStr t ++ ")", raw := v, depTags := [t] })
  | .gontainerValue, v => (st, .ok { code := "dependencyValue(" ++ specialGontainerValue ++ ")", raw := v })
  | .pattern, .str s =>
    match Token.tokenize fns st s with
    | (st', .error es) => (st', .error es)
    | (st', .ok ts) =>
      match Token.goCode ts with
      | .error e => (st', .error [e])
      | .ok c => (st', .ok { code := c, raw := v, depParams := ts.flatMap (·.dependsOn) })
  | _, _ => (st, .error ["unreachable resolver"])

def goTypeName : Val → String
  | .other t => t
  | .null => "<nil>"
  | .bool _ => "bool"
  | .int _ => "int"
  | .uint _ => "uint64"
  | .float _ => "float64"
  | .str _ => "string"

/-- `ArgResolver.ResolveArg`: first strategy that supports the value -/
def resolve (chain : List Resolver) (fns : List Token.FnDef) (st : Imports.St) (v : Val) :
    Imports.St × Except Errs Output.Arg :=
  match chain.find? (supports · v) with
  | some r => resolveWith r fns st v
  | none => (st, .error ["not supported " ++ goTypeName v])

def zeroArg : Output.Arg := { code := "", raw := .null }

/-- one iteration of `resolveArgs` -/
def resolveArgsStep (fns : List Token.FnDef) (acc : Imports.St × List Output.Arg × Errs × Nat) (v : Val) :
    Imports.St × List Output.Arg × Errs × Nat :=
  match resolve argChain fns acc.1 v with
  | (st', .ok a) => (st', acc.2.1 ++ [a], acc.2.2.1, acc.2.2.2 + 1)
  | (st', .error es) => (st', acc.2.1 ++ [zeroArg], acc.2.2.1 ++ Errs.pfx (toString acc.2.2.2 ++ ": ") es, acc.2.2.2 + 1)

/-- `resolveArgs`: all arguments are resolved, errors prefixed `args: i: ` -/
def resolveArgs (fns : List Token.FnDef) (st : Imports.St) (args : List Val) :
    Imports.St × List Output.Arg × Errs :=
  let r := args.foldl (resolveArgsStep fns) (st, [], [], 0)
  (r.1, r.2.1, Errs.pfx "args: " r.2.2.1)

/-! ### steps -/

/-- `StepCompileMeta`: defaults, alias registration, function registration (sorted by alias) -/
def compileMeta (i : Input.Input) (st : Imports.St) : Output.Meta × Imports.St × List Token.FnDef × Errs :=
  let m : Output.Meta :=
    { pkg := i.mt.pkg.getD "main", containerType := i.mt.containerType.getD "Gontainer",
      containerConstructor := i.mt.containerConstructor.getD "NewGontainer" }
  let (st', errs) := (AMap.sorted i.mt.imports).foldl (fun (acc : Imports.St × Errs) (a, p) =>
    let (s, e) := Imports.registerPrefix acc.1 a p
    (s, acc.2 ++ e)) (st, [])
  let fns := (AMap.sorted i.mt.functions).map fun (a, goFn) =>
    let m := (Re.captures Rx.goFunc goFn.toList).getD []
    ({ name := a, goImport := Imports.sanitize (String.ofList (Re.cap m "import")),
       goFn := String.ofList (Re.cap m "fn") } : Token.FnDef)
  (m, st', fns, Errs.pfx "compiler.StepCompileMeta: " (Errs.pfx "imports: " errs))

/-- `StepCompileParams` -/
def compileParams (i : Input.Input) (fns : List Token.FnDef) (st : Imports.St) :
    List Output.Param × Imports.St × Errs :=
  let (st', ps, errs) := (AMap.sorted i.params).foldl (fun (acc : Imports.St × List Output.Param × Errs) (k, v) =>
    let (st, ps, errs) := acc
    match resolve paramChain fns st v with
    | (st', .ok a) => (st', ps ++ [{ name := k, code := a.code, raw := a.raw, dependsOn := a.depParams }], errs)
    | (st', .error es) => (st', ps ++ [{ name := k, code := "", raw := .null, dependsOn := [] }],
        errs ++ Errs.pfx (Val.quoteStr k ++ ": ") es)) (st, [], [])
  (ps, st', Errs.pfx "compiler.StepCompileParams: " errs)

/-- `StepCompileServices.getter`: (getter, mustGetter, error) -/
def compileGetter (getter : Option String) (mustGetter : Option Bool) (defaultMust : Option Bool) :
    String × Bool × Errs :=
  let g := getter.getD ""
  let mg := mustGetter.getD (defaultMust.getD false)
  let err := if g = "" ∧ mustGetter.isSome ∧ mg then
    ["cannot generate a must-getter when the getter is not specified"] else []
  let mg' := if g = "" ∧ mustGetter.isNone ∧ mg then false else mg
  (g, mg', err)

def serviceType (st : Imports.St) (t : Option String) : Imports.St × String :=
  match t with
  | none => (st, "interface{}")
  | some t =>
    let m := (Re.captures Rx.serviceType t.toList).getD []
    let c := fun n => String.ofList (Re.cap m n)
    let imp := Imports.sanitize (c "import")
    if imp != "" then
      let (st', a) := Imports.alias st imp
      (st', c "ptr" ++ a ++ "." ++ c "type")
    else (st, c "ptr" ++ c "type")

def goFuncRef (st : Imports.St) (f : String) : Imports.St × String :=
  let m := (Re.captures Rx.goFunc f.toList).getD []
  let c := fun n => String.ofList (Re.cap m n)
  let imp := Imports.sanitize (c "import")
  if imp != "" then
    let (st', a) := Imports.alias st imp
    (st', a ++ "." ++ c "fn")
  else (st, c "fn")

def scopeOut : Option Input.Scope → Output.Scope
  | none => .default
  | some .shared => .shared
  | some .contextual => .contextual
  | some .nonShared => .nonShared

/-- one field (fields are visited in sorted key order) -/
def compileFieldStep (fns : List Token.FnDef) (acc : Imports.St × List Output.Field × Errs) (nv : String × Val) :
    Imports.St × List Output.Field × Errs :=
  match resolve argChain fns acc.1 nv.2 with
  | (st', .ok a) => (st', acc.2.1 ++ [{ name := nv.1, value := a }], acc.2.2)
  | (st', .error es) => (st', acc.2.1 ++ [{ name := nv.1, value := zeroArg }], acc.2.2 ++ Errs.pfx (Val.quoteStr nv.1 ++ ": ") es)

def compileFields (fns : List Token.FnDef) (st : Imports.St) (fields : AMap Val) : Imports.St × List Output.Field × Errs :=
  (AMap.sorted fields).foldl (compileFieldStep fns) (st, [], [])

/-- one call (calls are visited in declaration order) -/
def compileCallStep (fns : List Token.FnDef) (acc : Imports.St × List Output.Call × Errs × Nat) (c : Input.Call) :
    Imports.St × List Output.Call × Errs × Nat :=
  let r := resolveArgs fns acc.1 c.args
  (r.1, acc.2.1 ++ [{ method := c.method, args := r.2.1, immutable := c.immutable }],
    acc.2.2.1 ++ Errs.pfx (toString acc.2.2.2 ++ ": ") r.2.2, acc.2.2.2 + 1)

def compileCalls (fns : List Token.FnDef) (st : Imports.St) (calls : List Input.Call) :
    Imports.St × List Output.Call × Errs × Nat :=
  calls.foldl (compileCallStep fns) (st, [], [], 0)

/-- `processService` + `processScopes` for one service. Order of `Alias` calls: fields (sorted),
arguments, calls, then type, value, constructor. -/
def compileService (name : String) (svc : Input.Service) (defaultMust : Option Bool)
    (fns : List Token.FnDef) (st : Imports.St) : Output.Service × Imports.St × Errs :=
  if svc.todo.getD false then
    ({ name := name, todo := true, scope := scopeOut svc.scope }, st, [])
  else
    let rf := compileFields fns st svc.fields
    let fErrs := Errs.pfx "fields: " rf.2.2
    let ra := resolveArgs fns rf.1 svc.args
    let rc := compileCalls fns ra.1 svc.calls
    let cErrs := Errs.pfx "calls: " rc.2.2.1
    let (g, mg, gErr) := compileGetter svc.getter svc.mustGetter defaultMust
    let (st4, ty) := serviceType rc.1 svc.type
    let (st5, val) := match svc.value with
      | none => (st4, "")
      | some v => compileServiceValue st4 v.toList
    let (st6, ctor) := match svc.constructor with
      | none => (st5, "")
      | some c => goFuncRef st5 c
    ({ name := name, getter := g, mustGetter := mg, type := ty, value := val, constructor := ctor,
       args := ra.2.1, calls := rc.2.1, fields := rf.2.1,
       tags := svc.tags.map fun t => { name := t.name, priority := t.priority },
       scope := scopeOut svc.scope, todo := false },
     st6, Errs.pfx (Val.quoteStr name ++ ": ") (fErrs ++ ra.2.2 ++ cErrs ++ gErr))

/-- `StepCompileServices` -/
def compileServices (i : Input.Input) (fns : List Token.FnDef) (st : Imports.St) :
    List Output.Service × Imports.St × Errs :=
  let (st', ss, errs) := (AMap.sorted i.services).foldl
    (fun (acc : Imports.St × List Output.Service × Errs) (n, s) =>
      let (st, ss, errs) := acc
      let (o, st', es) := compileService n s i.mt.defaultMustGetter fns st
      (st', ss ++ [o], errs ++ es)) (st, [], [])
  (ss, st', Errs.pfx "compiler.StepCompileServices: " errs)

/-- one iteration of `StepCompileDecorators.Process` -/
def compileDecoratorsStep (fns : List Token.FnDef)
    (acc : Imports.St × List Output.Decorator × Errs × Nat) (d : Input.Decorator) :
    Imports.St × List Output.Decorator × Errs × Nat :=
  let r1 := goFuncRef acc.1 d.decorator
  let r2 := resolveArgs fns r1.1 d.args
  (r2.1, acc.2.1 ++ [{ tag := d.tag, decorator := r1.2, args := r2.2.1, raw := d.decorator }],
    acc.2.2.1 ++ Errs.pfx ("#" ++ toString acc.2.2.2 ++ " " ++ Val.quoteStr d.decorator ++ ": ") r2.2.2, acc.2.2.2 + 1)

/-- `StepCompileDecorators` -/
def compileDecorators (i : Input.Input) (fns : List Token.FnDef) (st : Imports.St) :
    List Output.Decorator × Imports.St × Errs :=
  let r := i.decorators.foldl (compileDecoratorsStep fns) (st, [], [], 0)
  (r.2.1, r.1, Errs.pfx "compiler.StepCompileDecorators: " r.2.2.1)

/-- `Compiler.Compile` with the shipped step order: validate, meta, params, services, decorators;
the first failing step ends the compilation. -/
def compile (buildVersion : String) (i : Input.Input) : Except Errs (Output.Output × Imports.St) :=
  let vErrs := Errs.pfx "compiler.StepValidateInput: " (Validate.validate buildVersion i)
  if !vErrs.isEmpty then .error vErrs else
  let (m, st1, fns, mErrs) := compileMeta i {}
  if !mErrs.isEmpty then .error mErrs else
  let (ps, st2, pErrs) := compileParams i fns st1
  if !pErrs.isEmpty then .error pErrs else
  let (ss, st3, sErrs) := compileServices i fns st2
  if !sErrs.isEmpty then .error sErrs else
  let (ds, st4, dErrs) := compileDecorators i fns st3
  if !dErrs.isEmpty then .error dErrs else
  .ok ({ mt := m, params := ps, services := ss, decorators := ds }, st4)

end GM.Compile
