/-
Finite directed graphs over an arbitrary node type, reachability by bounded frontier expansion
with an explicit closure check (certificate style), cycles.
-/
namespace GM.Graph

structure G (α : Type) where
  edges : List (α × α)
deriving Repr, Inhabited

variable {α : Type} [DecidableEq α]

def G.nodes (g : G α) : List α := (g.edges.flatMap fun (a, b) => [a, b]).eraseDups

def succs (g : G α) (a : α) : List α :=
  g.edges.filterMap fun (x, y) => if x = a then some y else none

/-- one round: add all successors -/
def expand (g : G α) (r : List α) : List α := (r ++ r.flatMap (succs g)).eraseDups

def iter (g : G α) : Nat → List α → List α
  | 0, r => r
  | n+1, r => iter g n (expand g r)

def closed (g : G α) (r : List α) : Bool := r.all fun x => (succs g x).all fun y => r.contains y

/-- nodes reachable from `a` by a path of length ≥ 1; `none` if the bounded iteration did not
close (|V| rounds always suffice; the driver reports any `none`) -/
def reach (g : G α) (a : α) : Option (List α) :=
  let r := iter g g.nodes.length (succs g a)
  if closed g r then some r else none

def reachD (g : G α) (a : α) : List α := (reach g a).getD []

/-- `a` lies on a cycle -/
def onCycle (g : G α) (a : α) : Bool := (reachD g a).contains a

def cyclic (g : G α) : Bool := g.nodes.any (onCycle g)

/-- `c = [v0, v1, …, vk]` with `v0 = vk`, k ≥ 1, and every consecutive pair an edge -/
def isCycle (g : G α) (c : List α) : Bool :=
  c.length ≥ 2 && c.head? == c.getLast? &&
  (c.zip (c.drop 1)).all fun e => g.edges.contains e

inductive Path (g : G α) : α → α → Prop
  | edge {a b} : (a, b) ∈ g.edges → Path g a b
  | cons {a b c} : (a, b) ∈ g.edges → Path g b c → Path g a c

end GM.Graph
