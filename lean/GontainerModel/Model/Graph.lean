/-
Finite directed graphs over string node ids, reachability by bounded frontier expansion with an
explicit closure check (certificate style), cycles.
-/
namespace GM.Graph

abbrev Node := String

structure G where
  edges : List (Node × Node)
deriving Repr, DecidableEq, Inhabited

def G.nodes (g : G) : List Node := (g.edges.flatMap fun (a, b) => [a, b]).eraseDups

def succs (g : G) (a : Node) : List Node :=
  g.edges.filterMap fun (x, y) => if x = a then some y else none

/-- one round: add all successors -/
def expand (g : G) (r : List Node) : List Node := (r ++ r.flatMap (succs g)).eraseDups

def iter (g : G) : Nat → List Node → List Node
  | 0, r => r
  | n+1, r => iter g n (expand g r)

def closed (g : G) (r : List Node) : Bool := r.all fun x => (succs g x).all fun y => r.contains y

/-- nodes reachable from `a` by a path of length ≥ 1; `none` if the bounded iteration did not
close (never happens: |V| rounds suffice — see `Lemmas/Graph.lean`) -/
def reach (g : G) (a : Node) : Option (List Node) :=
  let r := iter g g.nodes.length (succs g a)
  if closed g r then some r else none

def reachD (g : G) (a : Node) : List Node := (reach g a).getD []

/-- `a` lies on a cycle -/
def onCycle (g : G) (a : Node) : Bool := (reachD g a).contains a

def cyclic (g : G) : Bool := g.nodes.any (onCycle g)

/-- `c = [v0, v1, …, vk]` with `v0 = vk`, k ≥ 1, and every consecutive pair an edge -/
def isCycle (g : G) (c : List Node) : Bool :=
  c.length ≥ 2 && c.head? == c.getLast? &&
  (c.zip (c.drop 1)).all fun e => g.edges.contains e

inductive Path (g : G) : Node → Node → Prop
  | edge {a b} : (a, b) ∈ g.edges → Path g a b
  | cons {a b c} : (a, b) ∈ g.edges → Path g b c → Path g a c

end GM.Graph
