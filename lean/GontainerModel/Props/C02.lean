/-
C02 — the generated container builds each service exactly as declared (compile-side part:
classification of argument forms by the wired first-match chain, order preservation; the
run-time part is the executable runtime model tied by level B).
-/
import GontainerModel.Model.Runtime
import GontainerModel.Generated.Wiring
namespace GM.C02
open GM GM.Compile

/-- the resolver chains are the ones wired in the shipped container (regenerated) -/
theorem chains_pinned :
    (Generated.wiring.lookup "argResolver").map (·.2.1) = some (argChain.map Resolver.wiringName) ∧
    (Generated.wiring.lookup "primitiveArgResolver").map (·.2.1) = some (paramChain.map Resolver.wiringName) ∧
    (Generated.wiring.lookup "paramResolver").map (·.2.1) = some ["@primitiveArgResolver"] ∧
    (Generated.wiring.lookup "stepCompileServices").map (·.2.1) = some ["@imports", "@argResolver"] ∧
    (Generated.wiring.lookup "stepCompileDecorators").map (·.2.1) = some ["@imports", "@argResolver"] ∧
    (Generated.wiring.lookup "gontainerValueResolver").map (·.2.1) =
      some ["!value consts.SpecialGontainerID", "!value consts.SpecialGontainerValue"] := by decide

/-- **classification, in chain order**: non-string primitive ↦ literal; a string with the `!value `
prefix ↦ Go expression; `@…` ↦ service; `!tagged ` ↦ tagged; exactly `$gontainer` ↦ the container;
any other string ↦ pattern; a non-primitive is not supported. The cases are exhaustive and the first
applicable one wins. -/
theorem resolve_classifies (v : Val) :
    argChain.find? (supports · v) =
      match v with
      | .str s =>
        if Re.acceptsPrefix Rx.prefixValue s.toList then some .value
        else if Re.acceptsPrefix (Re.cls [(64, 64)]) s.toList then some .service
        else if Re.acceptsPrefix Rx.prefixTagged s.toList then some .tagged
        else if s == specialGontainerID then some .gontainerValue
        else some .pattern
      | .other _ => none
      | _ => some .nonStringPrimitive := by
  cases v <;> simp [argChain, supports, Val.isString, Val.isPrimitive, List.find?]
  rename_i s
  by_cases h1 : Re.acceptsPrefix Rx.prefixValue s.toList = true <;>
  by_cases h2 : Re.acceptsPrefix (Re.cls [(64, 64)]) s.toList = true <;>
  by_cases h3 : Re.acceptsPrefix Rx.prefixTagged s.toList = true <;>
  by_cases h4 : (s == specialGontainerID) = true <;> simp [h1, h2, h3, h4] <;> simpa using h4

/-- every resolver hands the original value on as `Raw` -/
theorem resolveWith_raw (r : Resolver) (fns : List Token.FnDef) (st : Imports.St) (v : Val) (a : Output.Arg)
    (st' : Imports.St) (h : resolveWith r fns st v = (st', .ok a)) : a.raw = v := by
  unfold resolveWith at h
  split at h <;> try (simp at h; try (obtain ⟨_, rfl⟩ := h); try rfl)
  all_goals (try (split at h <;> simp at h <;> (try (obtain ⟨_, rfl⟩ := h; rfl))))
  all_goals (try (split at h <;> simp at h <;> (try (obtain ⟨_, rfl⟩ := h; rfl))))
  all_goals (try (split at h <;> simp at h <;> (try (obtain ⟨_, rfl⟩ := h; rfl))))
  case h_6 s =>
    rcases ht : Token.tokenize fns st s with ⟨st2, r⟩
    rw [ht] at h
    cases r with
    | error es => simp at h
    | ok ts =>
      simp only at h
      cases hg : Token.goCode ts with
      | error e => rw [hg] at h; simp at h
      | ok c => rw [hg] at h; simp at h; obtain ⟨_, rfl⟩ := h; rfl

theorem resolve_raw (ch : List Resolver) (fns : List Token.FnDef) (st st' : Imports.St) (v : Val) (a : Output.Arg)
    (h : resolve ch fns st v = (st', .ok a)) : a.raw = v := by
  unfold resolve at h
  split at h
  · exact resolveWith_raw _ _ _ _ _ _ h
  · simp at h

theorem tokenize_error_nonempty (fns : List Token.FnDef) (st st' : Imports.St) (s : String) (es : Errs)
    (h : Token.tokenize fns st s = (st', .error es)) : es ≠ [] := by
  unfold Token.tokenize at h
  split at h
  · simp at h; obtain ⟨_, rfl⟩ := h; simp
  · simp only at h
    split at h
    · simp at h
    · rename_i hne
      simp at h
      obtain ⟨_, rfl⟩ := h
      intro e
      simp [e] at hne

theorem resolve_error_nonempty (ch : List Resolver) (fns : List Token.FnDef) (st st' : Imports.St) (v : Val) (es : Errs)
    (h : resolve ch fns st v = (st', .error es)) : es ≠ [] := by
  unfold resolve at h
  split at h
  · unfold resolveWith at h
    split at h
    all_goals (try (simp at h))
    all_goals (try (split at h <;> simp at h <;> (try (obtain ⟨_, rfl⟩ := h; simp))))
    case h_6 =>
      rename_i s _
      rcases ht : Token.tokenize fns st s with ⟨st2, r⟩
      rw [ht] at h
      cases r with
      | error es' =>
        simp at h
        obtain ⟨_, rfl⟩ := h
        exact tokenize_error_nonempty _ _ _ _ _ ht
      | ok ts =>
        simp only at h
        cases hg : Token.goCode ts with
        | error e => rw [hg] at h; simp at h; obtain ⟨_, rfl⟩ := h; simp
        | ok c => rw [hg] at h; simp at h
    all_goals (try (obtain ⟨_, rfl⟩ := h; simp))
  · simp at h; obtain ⟨_, rfl⟩ := h; simp

/-- loop invariant of `resolveArgs`: the output grows by exactly one entry per argument, and if no
error is recorded each entry carries its argument as `Raw`, in order -/
theorem resolveArgs_fold (fns : List Token.FnDef) (args : List Val)
    (st : Imports.St) (out : List Output.Arg) (errs : Errs) (i : Nat) :
    (args.foldl (resolveArgsStep fns) (st, out, errs, i)).2.1.length = out.length + args.length ∧
    ((args.foldl (resolveArgsStep fns) (st, out, errs, i)).2.2.1 = [] →
      errs = [] ∧ (args.foldl (resolveArgsStep fns) (st, out, errs, i)).2.1.map (·.raw) = out.map (·.raw) ++ args) := by
  induction args generalizing st out errs i with
  | nil => simp
  | cons v vs ih =>
    simp only [List.foldl_cons]
    rcases hr : resolve argChain fns st v with ⟨st', r⟩
    cases r with
    | ok a =>
      have hs : resolveArgsStep fns (st, out, errs, i) v = (st', out ++ [a], errs, i + 1) := by
        simp [resolveArgsStep, hr]
      rw [hs]
      have := ih st' (out ++ [a]) errs (i + 1)
      refine ⟨by rw [this.1]; simp; omega, ?_⟩
      intro he
      have h2 := this.2 he
      refine ⟨h2.1, ?_⟩
      rw [h2.2]
      simp [resolve_raw _ _ _ _ _ _ hr]
    | error es =>
      have hs : resolveArgsStep fns (st, out, errs, i) v =
          (st', out ++ [zeroArg], errs ++ Errs.pfx (toString i ++ ": ") es, i + 1) := by
        simp [resolveArgsStep, hr]
      rw [hs]
      have := ih st' (out ++ [zeroArg]) (errs ++ Errs.pfx (toString i ++ ": ") es) (i + 1)
      refine ⟨by rw [this.1]; simp; omega, ?_⟩
      intro he
      have h2 := this.2 he
      have hes : Errs.pfx (toString i ++ ": ") es = [] := by
        have := h2.1
        simp [List.append_eq_nil_iff] at this
        exact this.2
      have : es = [] := by simpa [Errs.pfx] using hes
      exact absurd this (resolve_error_nonempty _ _ _ _ _ _ hr)

/-- **arguments keep their order**: when `resolveArgs` reports no error, the compiled arguments are
the declared ones, one for one, in the declared order -/
theorem args_order_preserved (fns : List Token.FnDef) (st : Imports.St) (args : List Val)
    (h : (resolveArgs fns st args).2.2 = []) :
    (resolveArgs fns st args).2.1.map (·.raw) = args := by
  unfold resolveArgs at *
  have := resolveArgs_fold fns args st [] [] 0
  simp only at h ⊢
  have he : (args.foldl (resolveArgsStep fns) (st, [], [], 0)).2.2.1 = [] := by
    simpa [Errs.pfx] using h
  simpa using (this.2 he).2

/-- scope keyword ↦ compiled scope is the identity on {shared, contextual, non_shared}; unset ↦ default -/
theorem scope_mapping :
    scopeOut none = .default ∧ scopeOut (some .shared) = .shared ∧
    scopeOut (some .contextual) = .contextual ∧ scopeOut (some .nonShared) = .nonShared := ⟨rfl, rfl, rfl, rfl⟩

/-- a todo service compiles to a named placeholder carrying nothing but its scope: the template turns
it into a constructor that returns the error `service todo` -/
theorem todo_short_circuit (name : String) (svc : Input.Service) (dm : Option Bool)
    (fns : List Token.FnDef) (st : Imports.St) (h : svc.todo = some true) :
    compileService name svc dm fns st = ({ name := name, todo := true, scope := scopeOut svc.scope }, st, []) := by
  unfold compileService; simp [h]

end GM.C02
