/-
C02 — the generated container builds each service exactly as declared (compile-side part:
classification of argument forms by the wired first-match chain, order preservation; the
run-time part is the executable runtime model tied by level B).
-/
import GontainerModel.Lemmas.C02Aux
import GontainerModel.Model.Runtime
import GontainerModel.Model.Emit
import GontainerModel.Generated.Template
import GontainerModel.Generated.Wiring
import GontainerModel.Lemmas.Rank
namespace GM.C02
open GM GM.Compile

/-- the resolver chains are the ones wired in the shipped container (regenerated) -/
theorem chains_pinned :
    (Generated.wiring.lookup "argResolver").map (·.2.1) = some (argChain.map Resolver.wiringName) ∧
    (Generated.wiring.lookup "primitiveArgResolver").map (·.2.1) = some (paramChain.map Resolver.wiringName) ∧
    (Generated.wiring.lookup "paramResolver").map (·.2.1) = some ["@primitiveArgResolver"] ∧
    Generated.argsAre ((Generated.wiring.lookup "stepCompileServices").map (·.2.1)) ["@imports", "@argResolver"] = true ∧
    Generated.argsAre ((Generated.wiring.lookup "stepCompileDecorators").map (·.2.1)) ["@imports", "@argResolver"] = true ∧
    (Generated.wiring.lookup "gontainerValueResolver").map (·.2.1) =
      some ["!value consts.SpecialGontainerID", "!value consts.SpecialGontainerValue"] := by decide

/-- **classification, in chain order**: non-string primitive ↦ literal; a string with the `!value `
prefix ↦ Go expression; `@…` ↦ service; `!tagged ` ↦ tagged; exactly `$gontainer` ↦ the container;
any other string ↦ pattern; a non-primitive is not supported. The cases are exhaustive and the first
applicable one wins. -/
theorem resolve_classifies (v : Val) :
    argChain.find? (supports · v) =
      match v with
      | .str s =>
        if Re.acceptsPrefix Rx.prefixValue s.toList then some .value
        else if Re.acceptsPrefix (Re.cls [(64, 64)]) s.toList then some .service
        else if Re.acceptsPrefix Rx.prefixTagged s.toList then some .tagged
        else if s == specialGontainerID then some .gontainerValue
        else some .pattern
      | .other _ => none
      | _ => some .nonStringPrimitive := by
  cases v <;> simp [argChain, supports, Val.isString, Val.isPrimitive, List.find?]
  rename_i s
  by_cases h1 : Re.acceptsPrefix Rx.prefixValue s.toList = true <;>
  by_cases h2 : Re.acceptsPrefix (Re.cls [(64, 64)]) s.toList = true <;>
  by_cases h3 : Re.acceptsPrefix Rx.prefixTagged s.toList = true <;>
  by_cases h4 : (s == specialGontainerID) = true <;> simp [h1, h2, h3, h4] <;> simpa using h4

/-- **the resolvers record what the runtime will fetch**: an argument the wired chain resolves keeps its declared value, and an
`@service` / `!tagged` argument records the service / tag it names as its dependency — the fact the run-time history theorems
(C05) assume of a compiled configuration (`Runtime.ArgsRecorded`) -/
theorem resolve_records_dependency (fns : List Token.FnDef) (st st' : Imports.St) (v : Val) (a : Output.Arg)
    (h : Compile.resolve Compile.argChain fns st v = (st', .ok a)) : a.raw = v ∧ Runtime.ArgWF a :=
  Runtime.resolve_records_dependency fns st st' v a h

/-- **arguments keep their order**: when `resolveArgs` reports no error, the compiled arguments are
the declared ones, one for one, in the declared order -/
theorem args_order_preserved (fns : List Token.FnDef) (st : Imports.St) (args : List Val)
    (h : (resolveArgs fns st args).2.2 = []) :
    (resolveArgs fns st args).2.1.map (·.raw) = args := by
  unfold resolveArgs at *
  have := resolveArgs_fold fns args st [] [] 0
  simp only at h ⊢
  have he : (args.foldl (resolveArgsStep fns) (st, [], [], 0)).2.2.1 = [] := by
    simpa [Errs.pfx] using h
  simpa using (this.2 he).2

/-- **fields are assigned in sorted name order** — whatever the key order of the YAML mapping, and whether or not
a value fails to resolve -/
theorem fields_sorted_by_name (fns : List Token.FnDef) (st : Imports.St) (fields : AMap Val) :
    (compileFields fns st fields).2.1.map (·.name) = (AMap.sorted fields).map (·.1) := by
  unfold compileFields
  rw [compileFields_fold]
  simp

/-- **calls keep their order, names and wither flags**: one compiled call per declared call, in declaration order -/
theorem calls_order_preserved (fns : List Token.FnDef) (st : Imports.St) (calls : List Input.Call) :
    (compileCalls fns st calls).2.1.map (fun c => (c.method, c.immutable)) = calls.map (fun c => (c.method, c.immutable)) := by
  unfold compileCalls
  rw [compileCalls_fold]
  simp

/-- … and, when no error is reported, every call receives exactly its declared arguments, in order -/
theorem call_args_preserved (fns : List Token.FnDef) (st : Imports.St) (calls : List Input.Call)
    (h : (compileCalls fns st calls).2.2.1 = []) :
    (compileCalls fns st calls).2.1.map (fun c => c.args.map (·.raw)) = calls.map (·.args) := by
  unfold compileCalls at *
  simpa using (compileCalls_args fns calls (st, [], [], 0) h).2

/-- a live service is compiled from exactly these parts: sorted fields, then arguments, then calls (the order in
which import aliases are drawn), tags copied one for one -/
theorem service_parts (name : String) (svc : Input.Service) (dm : Option Bool) (fns : List Token.FnDef) (st : Imports.St)
    (h : svc.todo.getD false = false) :
    let rf := compileFields fns st svc.fields
    let ra := resolveArgs fns rf.1 svc.args
    let rc := compileCalls fns ra.1 svc.calls
    (compileService name svc dm fns st).1.fields = rf.2.1 ∧
    (compileService name svc dm fns st).1.args = ra.2.1 ∧
    (compileService name svc dm fns st).1.calls = rc.2.1 ∧
    (compileService name svc dm fns st).1.tags.map (fun t => (t.name, t.priority)) = svc.tags.map (fun t => (t.name, t.priority)) := by
  unfold compileService
  simp [h]

/-! ### what the constructor template emits -/

/-- **creation, then fields, then calls, then tags and scope, then registration** — the statement sequence the
template emits for a live service, in this order and with the compiled texts in their compiled order -/
theorem emit_block_shape (s : Output.Service) (h : s.todo = false) :
    Emit.serviceBlock s =
      Emit.creation s ++
      s.fields.map (fun f => ⟨"s.SetField", [Emit.q f.name, f.value.code]⟩) ++
      s.calls.map (fun c => ⟨if c.immutable then "s.AppendWither" else "s.AppendCall", Emit.q c.method :: c.args.map (·.code)⟩) ++
      s.tags.map (fun t => ⟨"s.Tag", [Emit.q t.name, "int(" ++ toString t.priority ++ ")"]⟩) ++
      [⟨Emit.scopeSetter s.scope, []⟩] ++ [⟨"c.OverrideService", [Emit.q s.name, "s"]⟩] := by
  unfold Emit.serviceBlock
  simp [h]

/-- **every service is registered under its own name** — live or todo (a todo service is registered with the
`service todo` error constructor and nothing else) -/
theorem every_service_registered (o : Output.Output) (s : Output.Service) (hs : s ∈ o.services) :
    (⟨"c.OverrideService", [Emit.q s.name, "s"]⟩ : Emit.Stmt) ∈ Emit.constructorBody o ∧
    (s.todo = true → Emit.serviceBlock s = [Emit.todoCreation, ⟨"c.OverrideService", [Emit.q s.name, "s"]⟩]) := by
  constructor
  · unfold Emit.constructorBody
    simp only [List.mem_append, List.mem_flatMap]
    left; right
    exact ⟨s, hs, by unfold Emit.serviceBlock; simp⟩
  · intro ht
    unfold Emit.serviceBlock
    simp [ht]

/-- **a `value:` service is created by a closure that evaluates the expression at every construction**: the
template never registers a pre-built instance (`SetValue`) -/
theorem value_is_evaluated_per_construction (o : Output.Output) :
    (∀ st ∈ Emit.constructorBody o, st.fn ≠ "s.SetValue") ∧
    (∀ s : Output.Service, s.constructor = "" → s.value ≠ "" →
      Emit.creation s = [⟨"s.SetConstructor", ["func() " ++ (if s.type != "" then s.type else "interface{}") ++ " { return " ++ s.value ++ " }"]⟩]) := by
  constructor
  · intro st hst
    unfold Emit.constructorBody at hst
    simp only [List.mem_append, List.mem_map, List.mem_flatMap] at hst
    rcases hst with (⟨p, _, rfl⟩ | ⟨s, _, hs⟩) | ⟨d, _, rfl⟩
    · simp
    · unfold Emit.serviceBlock at hs
      simp only [List.mem_append, List.mem_cons, List.not_mem_nil, or_false] at hs
      rcases hs with hs | rfl
      · split at hs
        · simp only [List.mem_cons, List.not_mem_nil, or_false] at hs
          subst hs; simp [Emit.todoCreation]
        · simp only [List.mem_append, List.mem_map, List.mem_cons, List.not_mem_nil, or_false] at hs
          rcases hs with (((hc | ⟨f, _, rfl⟩) | ⟨c, _, rfl⟩) | ⟨t, _, rfl⟩) | rfl
          · unfold Emit.creation at hc
            split at hc
            · simp at hc; subst hc; simp
            · split at hc
              · simp at hc; subst hc; simp
              · split at hc
                · simp at hc; subst hc; simp
                · simp at hc
          · simp
          · split <;> simp
          · simp
          · cases s.scope <;> simp [Emit.scopeSetter]
      · simp
    · simp
  · intro s hc hv
    unfold Emit.creation
    simp [hc, hv]

/-- the scope setters of the model are the ones of the template's branches (regenerated) -/
theorem pin_scope_setters :
    Generated.tplScopeSetters.map (fun p => "s." ++ p.2) =
      [Emit.scopeSetter .default, Emit.scopeSetter .shared, Emit.scopeSetter .contextual, Emit.scopeSetter .nonShared] := by decide

/-- scope keyword ↦ compiled scope is the identity on {shared, contextual, non_shared}; unset ↦ default -/
theorem scope_mapping :
    scopeOut none = .default ∧ scopeOut (some .shared) = .shared ∧
    scopeOut (some .contextual) = .contextual ∧ scopeOut (some .nonShared) = .nonShared := ⟨rfl, rfl, rfl, rfl⟩

/-- a todo service compiles to a named placeholder carrying nothing but its scope: the template turns
it into a constructor that returns the error `service todo` -/
theorem todo_short_circuit (name : String) (svc : Input.Service) (dm : Option Bool)
    (fns : List Token.FnDef) (st : Imports.St) (h : svc.todo = some true) :
    compileService name svc dm fns st = ({ name := name, todo := true, scope := scopeOut svc.scope }, st, []) := by
  unfold compileService; simp [h]

end GM.C02
