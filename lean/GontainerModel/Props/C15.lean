/-
C15 — todo placeholders and run-time overrides (runtime library modelled: Model/Runtime.lean).
-/
import GontainerModel.Model.Runtime
import GontainerModel.Generated.Wiring
namespace GM.C15
open GM GM.Runtime

/-- `todo` (and `env`, `envInt`) are the built-in parameter functions the runner starts from -/
theorem builtins_declared :
    Input.defaults.mt.functions = [("env", "getEnv"), ("envInt", "getEnvInt"), ("todo", "paramTodo")] := rfl

/-- the todo function ALWAYS fails: with the given message, or `parameter todo` without arguments -/
theorem todo_param_errors (p : Prog) (args : List Val) :
    ∃ e, builtinFn p "paramTodo" args = .error e ∧
      (args = [] → e = "parameter todo") ∧ (∀ m rest, args = .str m :: rest → e = m) := by
  cases args with
  | nil => exact ⟨"parameter todo", (by simp [builtinFn]), (fun _ => rfl), (fun _ _ h => by cases h)⟩
  | cons a rest =>
    cases a with
    | str m => exact ⟨m, (by simp [builtinFn]), (fun h => by cases h), (fun m' r' h => by cases h; rfl)⟩
    | null => exact ⟨"parameter todo", (by simp [builtinFn]), (fun h => by cases h), (fun m' r' h => by cases h)⟩
    | bool b => exact ⟨"parameter todo", (by simp [builtinFn]), (fun h => by cases h), (fun m' r' h => by cases h)⟩
    | int i => exact ⟨"parameter todo", (by simp [builtinFn]), (fun h => by cases h), (fun m' r' h => by cases h)⟩
    | uint n => exact ⟨"parameter todo", (by simp [builtinFn]), (fun h => by cases h), (fun m' r' h => by cases h)⟩
    | float r => exact ⟨"parameter todo", (by simp [builtinFn]), (fun h => by cases h), (fun m' r' h => by cases h)⟩
    | other t => exact ⟨"parameter todo", (by simp [builtinFn]), (fun h => by cases h), (fun m' r' h => by cases h)⟩

/-- a `todo: true` service always fails with `service todo` until it is overridden -/
theorem todo_service_errors (f : Nat) (p : Prog) (st : St) (bag : Bag) (id : String) (s : Output.Service)
    (hs : svcByName p id = some s) (htodo : s.todo = true) (hov : st.ovServices.lookup id = none)
    (hsh : st.shared.lookup id = none) (hbag : bag.lookup id = none) :
    ∃ e, (get (f + 1) p st bag id).2.2 = .error e ∧ e = "get(" ++ Val.quoteStr id ++ "): constructor: service todo" := by
  unfold Runtime.get
  simp only [hov, hs]
  simp only [htodo, ↓reduceIte]
  cases effScope p st id <;> simp [hsh, hbag]

/-- **overrides win**: after `OverrideParam` the parameter IS the overriding value, whatever it was -/
theorem override_param_visible (f : Nat) (p : Prog) (st : St) (id : String) (v : RV)
    (h : st.ovParams.lookup id = some v) : getParam (f + 1) p st id = (st, .ok v) := by
  unfold getParam; simp [h]

/-- … and after `OverrideService` every later `get` (hence every dependant constructed later)
receives the overriding object -/
theorem override_service_visible (f : Nat) (p : Prog) (st : St) (bag : Bag) (id : String) (v : RV)
    (h : st.ovServices.lookup id = some v) : get (f + 1) p st bag id = (st, bag, .ok v) := by
  unfold Runtime.get; simp [h]

/-- **parameters are lazy and evaluated at most once**: a fresh container has evaluated nothing;
a cached parameter is returned without evaluating its provider again -/
theorem params_lazy : ({} : St).evalLog = [] ∧ ({} : St).pcache = [] := ⟨rfl, rfl⟩

theorem param_cached (f : Nat) (p : Prog) (st : St) (id : String) (v : RV) (prm : Output.Param)
    (hov : st.ovParams.lookup id = none) (hp : p.out.params.find? (·.name == id) = some prm)
    (hc : st.pcache.lookup id = some v) : getParam (f + 1) p st id = (st, .ok v) := by
  unfold getParam; simp [hov, hp, hc]

/-- the first `getParam` of an uncached parameter records exactly one evaluation of its provider -/
theorem param_first_use (f : Nat) (p : Prog) (st : St) (id : String) (prm : Output.Param)
    (hov : st.ovParams.lookup id = none) (hp : p.out.params.find? (·.name == id) = some prm)
    (hc : st.pcache.lookup id = none) :
    (getParam (f + 1) p st id) =
      (match evalRaw f p { st with evalLog := st.evalLog ++ ["param:" ++ id] } prm.raw with
       | (st', .ok v) => ({ st' with pcache := (id, v) :: st'.pcache }, .ok v)
       | (st', .error e) => (st', .error ("getParam(" ++ Val.quoteStr id ++ "): " ++ e))) := by
  unfold getParam; simp only [hov, hp, hc]
  rcases evalRaw f p { st with evalLog := st.evalLog ++ ["param:" ++ id] } prm.raw with ⟨st', r⟩
  cases r <;> rfl

/-- the todo placeholders of the tool's own configuration are what cmd/runner_builder overrides
(regenerated shipped wiring): parameters version/buildInfo/inputPatterns/outputFile/stub and service writer -/
theorem self_todo_wiring :
    (Generated.wiring.lookup "writer").map (·.1) =
      some "func:func() (interface{}, error) { return nil, errors.New(\"service todo\") }" ∧
    (Generated.wiring.lookup "inputValidator").map (·.2.1) = some ["%version%"] ∧
    (Generated.wiring.lookup "printer").map (·.2.1) = some ["@writer"] := by decide

end GM.C15
