/-
C15 — todo placeholders and run-time overrides (runtime library modelled: Model/Runtime.lean).
-/
import GontainerModel.Model.Runtime
import GontainerModel.Lemmas.ParamOnce
import GontainerModel.Generated.Wiring
namespace GM.C15
open GM GM.Runtime

/-- `todo` (and `env`, `envInt`) are the built-in parameter functions the runner starts from -/
theorem builtins_declared :
    Input.defaults.mt.functions = [("env", "getEnv"), ("envInt", "getEnvInt"), ("todo", "paramTodo")] := rfl

/-- the todo function ALWAYS fails: with the given message, or `parameter todo` without arguments -/
theorem todo_param_errors (p : Prog) (args : List Val) :
    ∃ e, builtinFn p "paramTodo" args = .error e ∧
      (args = [] → e = "parameter todo") ∧ (∀ m rest, args = .str m :: rest → e = m) := by
  cases args with
  | nil => exact ⟨"parameter todo", (by simp [builtinFn]), (fun _ => rfl), (fun _ _ h => by cases h)⟩
  | cons a rest =>
    cases a with
    | str m => exact ⟨m, (by simp [builtinFn]), (fun h => by cases h), (fun m' r' h => by cases h; rfl)⟩
    | null => exact ⟨"parameter todo", (by simp [builtinFn]), (fun h => by cases h), (fun m' r' h => by cases h)⟩
    | bool b => exact ⟨"parameter todo", (by simp [builtinFn]), (fun h => by cases h), (fun m' r' h => by cases h)⟩
    | int i => exact ⟨"parameter todo", (by simp [builtinFn]), (fun h => by cases h), (fun m' r' h => by cases h)⟩
    | uint n => exact ⟨"parameter todo", (by simp [builtinFn]), (fun h => by cases h), (fun m' r' h => by cases h)⟩
    | float r => exact ⟨"parameter todo", (by simp [builtinFn]), (fun h => by cases h), (fun m' r' h => by cases h)⟩
    | other t => exact ⟨"parameter todo", (by simp [builtinFn]), (fun h => by cases h), (fun m' r' h => by cases h)⟩

/-- a `todo: true` service always fails with `service todo` until it is overridden -/
theorem todo_service_errors (f : Nat) (p : Prog) (st : St) (bag : Bag) (id : String) (s : Output.Service)
    (hs : svcByName p id = some s) (htodo : s.todo = true) (hov : st.ovServices.lookup id = none)
    (hsh : st.shared.lookup id = none) (hbag : bag.lookup id = none) :
    ∃ e, (get (f + 1) p st bag id).2.2 = .error e ∧ e = "get(" ++ Val.quoteStr id ++ "): constructor: service todo" := by
  unfold Runtime.get
  simp only [hov, hs]
  cases effScope p st id <;> simp [hsh, hbag, getBody, htodo]

/-- **overrides win**: after `OverrideParam` the parameter IS the overriding value, whatever it was -/
theorem override_param_visible (f : Nat) (p : Prog) (st : St) (id : String) (v : RV)
    (h : st.ovParams.lookup id = some v) : getParam (f + 1) p st id = (st, .ok v) := by
  unfold getParam; simp [h]

/-- … and after `OverrideService` every later `get` (hence every dependant constructed later)
receives the overriding object -/
theorem override_service_visible (f : Nat) (p : Prog) (st : St) (bag : Bag) (id : String) (v : RV)
    (h : st.ovServices.lookup id = some v) : get (f + 1) p st bag id = (st, bag, .ok v) := by
  unfold Runtime.get; simp [h]

/-- **parameters are lazy and evaluated at most once**: a fresh container has evaluated nothing;
a cached parameter is returned without evaluating its provider again -/
theorem params_lazy : ({} : St).evalLog = [] ∧ ({} : St).pcache = [] := ⟨rfl, rfl⟩

theorem param_cached (f : Nat) (p : Prog) (st : St) (id : String) (v : RV) (prm : Output.Param)
    (hov : st.ovParams.lookup id = none) (hp : p.out.params.find? (·.name == id) = some prm)
    (hc : st.pcache.lookup id = some v) : getParam (f + 1) p st id = (st, .ok v) := by
  unfold getParam; simp [hov, hp, hc]

/-- the first `getParam` of an uncached parameter records exactly one evaluation of its provider -/
theorem param_first_use (f : Nat) (p : Prog) (st : St) (id : String) (prm : Output.Param)
    (hov : st.ovParams.lookup id = none) (hp : p.out.params.find? (·.name == id) = some prm)
    (hc : st.pcache.lookup id = none) :
    (getParam (f + 1) p st id) =
      (match evalRaw f p { st with evalLog := st.evalLog ++ ["param:" ++ id] } prm.raw with
       | (st', .ok v) => ({ st' with pcache := (id, v) :: st'.pcache }, .ok v)
       | (st', .error e) => (st', .error ("getParam(" ++ Val.quoteStr id ++ "): " ++ e))) := by
  unfold getParam; simp only [hov, hp, hc]
  rcases evalRaw f p { st with evalLog := st.evalLog ++ ["param:" ++ id] } prm.raw with ⟨st', r⟩
  cases r <;> rfl


/-! ### whole histories of `GetParam` (acyclic reference relation, stated as a rank) -/

/-- **a parameter is evaluated at most once until overridden, and lazily**: across ANY history of `GetParam` calls
(any ids, any length) on any reachable state, a parameter that has been evaluated keeps its cached value, its provider
never runs again, and every provider that does run belongs to a parameter that had not been evaluated before -/
theorem param_evaluated_at_most_once (p : Prog) (rk : String → Nat) (hr : Ranked p rk) (F : Nat) (ops : List String)
    (st : St) (id : String) (v : RV) (hc : st.pcache.lookup id = some v) :
    (runParams F p st ops).pcache.lookup id = some v ∧
    ∃ suf, (runParams F p st ops).evalLog = st.evalLog ++ suf ∧ ("param:" ++ id) ∉ suf ∧
      ∀ e ∈ suf, ∃ n, e = "param:" ++ n ∧ st.pcache.lookup n = none := by
  obtain ⟨R, _, _, _, _, _, _, h7, suf, h8, h9⟩ := runParams_inv p rk hr F ops st
  constructor
  · rcases h7 id with h | ⟨h, _⟩
    · rw [h, hc]
    · rw [hc] at h; cases h
  · refine ⟨suf, h8, ?_, h9⟩
    intro hmem
    obtain ⟨n, hn, hnone⟩ := h9 _ hmem
    have : id = n := (String.append_right_inj "param:").mp hn
    subst this
    rw [hc] at hnone; cases hnone

/-- **parameter evaluation never touches services or overrides**: a history of `GetParam` calls leaves the overriding
definitions, the shared-service cache, the context bags and the object heap exactly as they were -/
theorem getParam_frame (p : Prog) (rk : String → Nat) (hr : Ranked p rk) (F : Nat) (ops : List String) (st : St) :
    (runParams F p st ops).ovParams = st.ovParams ∧ (runParams F p st ops).ovServices = st.ovServices ∧
    (runParams F p st ops).shared = st.shared ∧ (runParams F p st ops).ctxBags = st.ctxBags ∧
    (runParams F p st ops).heap = st.heap := by
  obtain ⟨R, h1, h2, h3, h4, h5, _⟩ := runParams_inv p rk hr F ops st
  exact ⟨h1, h2, h3, h4, h5⟩

/-- … and a value that IS in the cache answers every later `GetParam` of the history's end state -/
theorem cached_param_answers (p : Prog) (rk : String → Nat) (hr : Ranked p rk) (F : Nat) (ops : List String)
    (st : St) (id : String) (v : RV) (prm : Output.Param) (hov : st.ovParams.lookup id = none)
    (hp : p.out.params.find? (·.name == id) = some prm) (hc : st.pcache.lookup id = some v) :
    getParam (F + 1) p (runParams F p st ops) id = (runParams F p st ops, .ok v) := by
  have h := (param_evaluated_at_most_once p rk hr F ops st id v hc).1
  have hf := (getParam_frame p rk hr F ops st).1
  exact param_cached F p _ id v prm (by rw [hf]; exact hov) hp h

/-- the todo placeholders of the tool's own configuration are what cmd/runner_builder overrides
(regenerated shipped wiring): parameters version/buildInfo/inputPatterns/outputFile/stub and service writer -/
theorem self_todo_wiring :
    (Generated.wiring.lookup "writer").map (·.1) =
      some "func:func() (interface{}, error) { return nil, errors.New(\"service todo\") }" ∧
    (Generated.wiring.lookup "inputValidator").map (·.2.1) = some ["%version%"] ∧
    (Generated.wiring.lookup "printer").map (·.2.1) = some ["@writer"] := by decide

-- non-vacuity: a ranked two-level configuration; the history a, a, b runs each provider exactly once, in dependency order
def demoParams : Prog :=
  { out := { params := [{ name := "a", raw := .str "%b%x", code := "", dependsOn := ["b"] },
                        { name := "b", raw := .int 1, code := "", dependsOn := [] }] },
    imports := [], fns := [], env := [] }
example : Ranked demoParams (fun n => if n = "a" then 1 else 0) := by
  unfold Ranked
  decide
example : (runParams 10 demoParams {} ["a", "a", "b"]).evalLog = ["param:a", "param:b"] := by decide

end GM.C15
