/-
C03 — parameter and %pattern% evaluation. Property theorems only (helper lemmas live in Lemmas/).
-/
import GontainerModel.Lemmas.Chunk
import GontainerModel.Lemmas.EscapeTokens
import GontainerModel.Lemmas.GoQuote
import GontainerModel.Model.Token
import GontainerModel.Lemmas.TokenClass
import GontainerModel.Lemmas.SimpleFn
import GontainerModel.Model.Runtime
import GontainerModel.Generated.Regex
import GontainerModel.Generated.Wiring
import GontainerModel.Model.Regexes
namespace GM.C03
open GM GM.Chunk

/-- A pattern is accepted by the chunker iff its number of `%` is even (unbalanced `%` is a
build-time error). -/
theorem chunks_ok_iff_even (s : List Char) : (chunks s).isSome ↔ s.count '%' % 2 = 0 := by
  by_cases hs : s = []
  · subst hs; simp [chunks, chunksE]
  · have ho := foldl_opened s init
    unfold chunks chunksE finishE
    simp only [hs, ↓reduceIte]
    cases h : (List.count '%' s % 2 == 1) <;> simp_all [init] <;> omega

/-- Chunking loses nothing: the chunks concatenate to the pattern. -/
theorem chunks_flatten (s : List Char) (cs : List (List Char)) (h : chunks s = some cs) :
    cs.flatten = s := by
  rw [chunks_eq_some_iff] at h
  unfold chunksE at h
  split at h
  · simp at h; subst h; simp_all
  · have := foldl_flatten s init
    simp only [init, List.flatten_nil, List.nil_append] at this
    unfold finishE at h
    split at h
    · simp at h
    · split at h
      · simp at h; subst h; simp_all [init]
      · simp at h; subst h; simp_all [init]

/-- Every chunk of a non-empty pattern is a non-empty `%`-free literal or a `%…%` token whose inside
is `%`-free (left-to-right pairing of delimiters). -/
theorem chunks_shape (s : List Char) (cs : List (List Char)) (h : chunks s = some cs) (hs : s ≠ []) :
    ∀ c ∈ cs, (c ≠ [] ∧ '%' ∉ c) ∨ (∃ x, c = '%' :: x ++ ['%'] ∧ '%' ∉ x) := by
  rw [chunks_eq_some_iff] at h
  unfold chunksE at h
  simp only [hs, ↓reduceIte] at h
  have ok := foldl_ok s init init_ok
  obtain ⟨hr, hb⟩ := ok
  unfold finishE at h
  split at h
  · simp at h
  · rename_i ho
    simp only [ho] at hb
    simp only [Bool.false_eq_true, ↓reduceIte] at hb
    split at h
    · simp at h; subst h; exact hr
    · simp at h; subst h
      intro c hc
      simp only [List.mem_append, List.mem_singleton] at hc
      rcases hc with hc | hc
      · exact hr c hc
      · subst hc; exact Or.inl ⟨‹_›, hb⟩

/-- The patterns the token factories match with are the ones the model runs (regenerated from the
compiled expressions of /repo). -/
theorem pin_regexTokenRef : Generated.re_token_regexTokenRef = Rx.yamlToken ∧ Generated.kind_token_regexTokenRef = "full" := ⟨rfl, rfl⟩
theorem pin_regexSimpleFn : Generated.re_token_regexSimpleFn = Rx.simpleFn ∧ Generated.kind_token_regexSimpleFn = "full" := ⟨rfl, rfl⟩

/-- The factory order the model uses is the one wired in the shipped container (regenerated). -/
theorem factories_pinned :
    (Generated.wiring.lookup "tokenStrategyFactory").map (·.2.1) =
      some (Token.baseFactories.map Token.Factory.wiringName) := by decide

/-- The tokenizer is wired to the chunker and the strategy factory. -/
theorem tokenizer_pinned :
    Generated.argsAre ((Generated.wiring.lookup "tokenizer").map (·.2.1)) ["@tokenChunker", "@tokenStrategyFactory"] = true ∧
    (Generated.wiring.lookup "patternResolver").map (·.2.1) = some ["@tokenizer"] ∧
    Generated.argsAre ((Generated.wiring.lookup "fnRegisterer").map (·.2.1)) ["@tokenStrategyFactory", "@imports"] = true := by decide

/-- what `GetParam` yields for a string parameter: tokenise the pattern (functions registered in
`fns`), then run the emitted providers against the run-time environment `env` -/
def evalPattern (fns : List Token.FnDef) (env : Token.Env) (p : List Char) : Except Errs Val :=
  match (Token.tokenize fns {} (String.ofList p)).2 with
  | .ok ts => (Token.evalTokens env ts).mapError fun e => [e]
  | .error es => .error es

/-- **any string whose every `%` is doubled evaluates to the original string** — for every string
(empty, single- and multi-chunk, any Unicode), whatever functions are registered and whatever the
environment is -/
theorem escape_roundtrip (fns : List Token.FnDef) (env : Token.Env) (s : List Char) :
    evalPattern fns env (Escape.escape s) = .ok (.str (String.ofList s)) := by
  obtain ⟨cs, hcs, hesc, hun, hne⟩ := Escape.chunks_escape s
  obtain ⟨toks, hfold, hsem⟩ := Escape.tokenize_fold fns {} cs hesc [] [] rfl
  unfold evalPattern Token.tokenize
  simp only [String.toList_ofList, hcs, hfold, List.isEmpty_nil, ↓reduceIte]
  rw [Escape.eval_lits env toks cs hne (by simpa using hsem), hun]
  rfl

/-- **the emitted Go literal denotes the original text**: whatever string the compiler writes into
generated code with `%+q` (literal chunks, parameter names, service ids, error texts), reading the
literal back as Go does yields exactly that string — for every string (quotes, backslashes,
newlines, control characters, BMP and astral runes) -/
theorem literal_roundtrip (s : String) : GoQuote.unquote (Val.quoteStr s).toList = some s.toList := by
  simp [Val.quoteStr, GoQuote.unquote_quote]

/-- … and the literal is pure ASCII, so no later stage (template, gofmt, file encoding) can alter it -/
theorem literal_ascii (s : String) : ∀ x ∈ (Val.quoteStr s).toList, x.toNat < 128 := by
  simp only [Val.quoteStr, String.toList_ofList]
  exact GoQuote.quote_ascii s.toList

/-- **a single-chunk pattern preserves the value's type**: one token ⇒ the provider's value, unchanged -/
theorem single_chunk_preserves_type (env : Token.Env) (t : Token.Token) :
    Token.evalTokens env [t] = Token.evalToken env t := rfl

/-- **a multi-chunk pattern concatenates the documented string casts** -/
theorem multi_chunk_concatenates (env : Token.Env) (t1 t2 : Token.Token) (ts : List Token.Token) :
    Token.evalTokens env (t1 :: t2 :: ts) =
      ((t1 :: t2 :: ts).mapM (Token.evalToken env)).map fun vs => .str (String.join (vs.map Val.castToString)) := rfl

/-- a failing function yields an error naming the token -/
theorem fn_error_names_token (env : Token.Env) (t : Token.Token) (fn goFn params e : String)
    (hs : t.sem = .call fn goFn params) (he : env.call goFn params = .error e) :
    Token.evalToken env t = .error ("cannot execute " ++ t.raw ++ ": " ++ e) := by
  simp [Token.evalToken, hs, he]


/-- **token classification** — the first-match chain (registered functions prepended, latest first, to the wired
base order) handles a chunk exactly as the documented decision list says: a call of a registered function,
`%%`, a `%name%` reference, an unknown function, a malformed `%…%` token, plain text — in this order -/
theorem token_classification (fns : List Token.FnDef) (chunk : String) :
    (Token.chain fns).find? (Token.supports · chunk) = some (Token.classify fns chunk) :=
  Token.chain_find fns chunk

/-- **`%fn(args)%`: the function name and the argument text the tool extracts are the ones written** — for every expression
between the delimiters, the leftmost-first backtracking match of the regenerated expression `regexSimpleFn` (what
`regex.Match` computes: groups `fn` and `params`) succeeds iff the expression is `Ident(…)` with no line break between the
parentheses, and then `fn` is the identifier and `params` is the text between the first `(` and the closing `)` that ends
the expression (so `)` and `(` inside the arguments belong to the arguments) -/
theorem function_token_extraction (e : List Char) :
    Re.captures Generated.re_token_regexSimpleFn e =
      (Grammar.parseSimpleFn e).map fun fp => [("fn", fp.1), ("params", fp.2)] := by
  rw [pin_regexSimpleFn.1]
  exact Grammar.captures_simpleFn e

/-- **build-time rejection, exactly**: a balanced pattern is tokenised successfully iff none of its chunks is an
unknown-function or malformed token; every chunk is looked at (no early exit) -/
theorem build_rejects_exactly (fns : List Token.FnDef) (st : Imports.St) (s : String) (cs : List (List Char))
    (h : chunksE s.toList = .ok cs) :
    (∃ ts, (Token.tokenize fns st s).2 = .ok ts) ↔ ∀ c ∈ cs, Token.rejected fns (String.ofList c) = false := by
  unfold Token.tokenize
  simp only [h]
  have := Token.fold_errs fns cs (st, [], [])
  simp only [true_and] at this
  rw [← this]
  cases hl : (List.foldl (Token.tokenizeStep fns) (st, [], []) cs).2.2 <;> simp

/-- an unbalanced `%` is a build-time error that shows the unclosed rest -/
theorem unbalanced_rejected (fns : List Token.FnDef) (st : Imports.St) (s : String) (b : List Char)
    (h : chunksE s.toList = .error b) :
    (Token.tokenize fns st s).2 = .error ["not closed token: " ++ Val.quoteStr (String.ofList b)] := by
  unfold Token.tokenize
  simp [h]

/-- **`env`**: the variable's value when it is set (also when set to the empty string); otherwise the default when
one is given; otherwise an error naming the variable -/
theorem env_semantics (p : Runtime.Prog) (k : String) (rest : List Val) :
    Runtime.builtinFn p "getEnv" (.str k :: rest) =
      match p.env.lookup k, rest with
      | some v, _ => .ok (.str v)
      | none, (.str d) :: _ => .ok (.str d)
      | none, _ => .error ("environment variable " ++ Val.quoteStr k ++ " does not exist") := by
  simp only [Runtime.builtinFn]
  cases List.lookup k p.env with
  | some v => rfl
  | none =>
    cases rest with
    | nil => rfl
    | cons a t => cases a <;> rfl

/-- **`envInt`**: the variable parsed as an integer (an error naming it when it is not one), else the default, else an error -/
theorem envInt_semantics (p : Runtime.Prog) (k : String) (rest : List Val) :
    Runtime.builtinFn p "getEnvInt" (.str k :: rest) =
      match p.env.lookup k, rest with
      | some v, _ => (match v.toInt? with
        | some i => .ok (.int i)
        | none => .error ("cannot cast env(" ++ Val.quoteStr k ++ ") to int"))
      | none, (.int d) :: _ => .ok (.int d)
      | none, _ => .error ("environment variable " ++ Val.quoteStr k ++ " does not exist") := by
  simp only [Runtime.builtinFn]
  cases List.lookup k p.env with
  | some v => rfl
  | none =>
    cases rest with
    | nil => rfl
    | cons a t => cases a <;> rfl

/-- **`todo`**: always an error — the given message, or `parameter todo` -/
theorem todo_semantics (p : Runtime.Prog) (m : String) (rest : List Val) :
    Runtime.builtinFn p "paramTodo" (.str m :: rest) = .error m ∧
    Runtime.builtinFn p "paramTodo" [] = .error "parameter todo" := by
  constructor <;> simp only [Runtime.builtinFn]

/-- the casts used by concatenation (`exporter.CastToString`): strings as they are, booleans, nil, numbers without type -/
theorem cast_table :
    Val.castToString (.str "x") = "x" ∧ Val.castToString (.bool true) = "true" ∧ Val.castToString (.bool false) = "false" ∧
    Val.castToString .null = "nil" ∧ Val.castToString (.float "1.5") = "1.5" := ⟨rfl, rfl, rfl, rfl, rfl⟩

-- non-vacuity: the hypotheses are met by concrete non-trivial patterns
example : Escape.escape ['5', '0', '%', ' ', 'o', 'f', 'f'] = ['5', '0', '%', '%', ' ', 'o', 'f', 'f'] := by decide
example : chunks ['%','a','%',' ','b','%','%','c'] = some [['%','a','%'],[' ','b'],['%','%'],['c']] := by decide
example : chunks ['%','a',' ','b'] = none := by decide
example : (chunks ['a','%','%']).isSome ∧ ['a','%','%'] ≠ [] := by decide

example : Grammar.parseSimpleFn ['e','n','v','(','"','A','"',',',' ','f','(','1',')',')'] = some (['e','n','v'], ['"','A','"',',',' ','f','(','1',')']) := by decide
example : Grammar.parseSimpleFn ['e','n','v','(','\n',')'] = none := by decide
example : Grammar.parseSimpleFn ['1','f','(',')'] = none := by decide

end GM.C03
