/-
C16 — ignore flags only narrow the set of diagnostics.
-/
import GontainerModel.Lemmas.C16Aux
import GontainerModel.Model.Runner
import GontainerModel.Generated.Wiring
namespace GM.C16
open GM GM.Runner

/-- **a flag suppresses exactly its own class**: with flags `F` the diagnostics are those of the
flag-free run minus the missing-parameter (resp. missing-service) diagnostics; every other
diagnostic is reported unchanged and in the same order -/
theorem flags_narrow (fl : Flags) (o : Output.Output) (ce : Errs) :
    outputErrs fl o ce =
      Output.validateScopes o ++ ce ++
      (if fl.ignoreParams then [] else Output.validateParamsExist o) ++
      (if fl.ignoreServices then [] else Output.validateServicesExist o) ∧
    outputErrs { fl with ignoreParams := false, ignoreServices := false } o ce =
      Output.validateScopes o ++ ce ++ Output.validateParamsExist o ++ Output.validateServicesExist o := by
  constructor <;> rfl

/-- with a flag set, output validation accepts iff all remaining violations belong to an ignored class -/
theorem accept_iff_rest_ignored (fl : Flags) (o : Output.Output) (ce : Errs) :
    outputErrs fl o ce = [] ↔
      Output.validateScopes o = [] ∧ ce = [] ∧
      (fl.ignoreParams = false → Output.validateParamsExist o = []) ∧
      (fl.ignoreServices = false → Output.validateServicesExist o = []) := by
  unfold outputErrs
  cases fl.ignoreParams <;> cases fl.ignoreServices <;> simp [List.append_eq_nil_iff, and_assoc]

/-- the flags are read by nothing but the two switches: every step before output validation, and the
code generator, are the same function of the world whatever the ignore flags are -/
theorem flags_only_in_validation (w : World) (a b : Bool) (o : Output.Output) :
    codegen { w with flags := { w.flags with ignoreParams := a, ignoreServices := b } } o = codegen w o ∧
    (verbose "" "Read config" true Input.defaults fun ind =>
        readConfig { w with flags := { w.flags with ignoreParams := a, ignoreServices := b } } ind Input.defaults).st =
    (verbose "" "Read config" true Input.defaults fun ind => readConfig w ind Input.defaults).st := by
  constructor <;> rfl

/-- **a configuration accepted without flags yields the same result under any flag combination**:
same exit status and the same bytes written -/
theorem accepted_output_flag_independent (w : World) (c : Output.Output → Errs) (a b : Bool)
    (h0 : w.flags.ignoreParams = false ∧ w.flags.ignoreServices = false)
    (hacc : (run w c).exit = 0) :
    (run { w with flags := { w.flags with ignoreParams := a, ignoreServices := b } } c).exit = 0 ∧
    (run { w with flags := { w.flags with ignoreParams := a, ignoreServices := b } } c).file = (run w c).file := by
  obtain ⟨hp, hs⟩ := h0
  unfold run finish at *
  unfold core at *
  simp only at *
  -- the read step and compilation do not depend on the flags
  have hread : ∀ ind, readConfig { w with flags := { w.flags with ignoreParams := a, ignoreServices := b } } ind Input.defaults
      = readConfig w ind Input.defaults := fun _ => rfl
  simp only [hread]
  generalize hr : (verbose "" "Read config" true Input.defaults fun ind => readConfig w ind Input.defaults) = s2 at *
  by_cases h2 : (!s2.errs.isEmpty) = true
  · simp only [h2, ↓reduceIte] at hacc ⊢
    cases he : s2.errs <;> simp_all
  · simp only [h2] at hacc ⊢
    cases hcomp : Compile.compile w.version s2.st with
    | error es =>
      simp only [hcomp] at hacc ⊢
      cases es <;> simp_all
    | ok r =>
      obtain ⟨o, st⟩ := r
      simp only [hcomp] at hacc ⊢
      rw [verbose_errs, verbose_errs] at *
      simp only [↓reduceIte, validateOutput_errs] at hacc ⊢
      have hcg : codegen { w with flags := { w.flags with ignoreParams := a, ignoreServices := b } } o = codegen w o := rfl
      by_cases h4 : (!(outputErrs w.flags o (c o)).isEmpty) = true
      · simp only [h4, ↓reduceIte] at hacc
        cases he : outputErrs w.flags o (c o) <;> simp_all
      · have hempty : outputErrs w.flags o (c o) = [] := by
          cases he : outputErrs w.flags o (c o) <;> simp_all
        have hall := (accept_iff_rest_ignored w.flags o (c o)).mp hempty
        have hempty' : outputErrs { w.flags with ignoreParams := a, ignoreServices := b } o (c o) = [] := by
          apply (accept_iff_rest_ignored _ o (c o)).mpr
          refine ⟨hall.1, hall.2.1, fun _ => hall.2.2.1 hp, fun _ => hall.2.2.2 hs⟩
        simp only [hempty, hempty', hcg] at hacc ⊢
        simpa using hacc

/-- the flags are wired to exactly the two existence rules (regenerated from cmd_build.go,
runner_builder.go and the shipped container): `--ignore-missing-params` ↦ `Active(!flag)` on the
step built from `ValidateParamsExist`, `--ignore-missing-services` ↦ the one from `ValidateServicesExist` -/
theorem flag_wiring :
    Generated.flagWiring =
      [("ignore-missing-params", "paramsExistActive", true, "MustGetStepValidateParamsExist"),
       ("ignore-missing-services", "servicesExistActive", true, "MustGetStepValidateServicesExist")] ∧
    Generated.getterService.lookup "GetStepValidateParamsExist" = some "stepOutputParamsExist" ∧
    Generated.getterService.lookup "GetStepValidateServicesExist" = some "stepOutputServicesExist" ∧
    Generated.argsAre ((Generated.wiring.lookup "stepOutputParamsExist").map (·.2.1)) ["!value output.ValidateParamsExist", "=Missing parameters"] = true ∧
    Generated.argsAre ((Generated.wiring.lookup "stepOutputServicesExist").map (·.2.1)) ["!value output.ValidateServicesExist", "=Missing services"] = true := by
  decide

end GM.C16
