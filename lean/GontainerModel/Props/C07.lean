/-
C07 — dependency cycles are detected, exactly.
The enumeration of all elementary cycles is gonum's (external); the model does not reproduce it.
It enters as the reported list `cs` with the contract `CyclesSpec`, which the correspondence run
checks on every case (each reported line is a closed walk of the model's graph; the nodes on
reported lines cover every node that lies on a cycle; the list is empty iff the graph is acyclic).
-/
import GontainerModel.Lemmas.Graph
import GontainerModel.Lemmas.DepGraph
import GontainerModel.Model.Output
import GontainerModel.Lemmas.ParamFuel
import GontainerModel.Lemmas.Rank
import GontainerModel.Lemmas.ParamDeps
namespace GM.C07
open GM GM.Graph GM.Output

/-- reachability in the dependency graph is computed exactly -/
theorem reach_exact (o : Output) (a : Node) (r : List Node) (h : reach (buildGraph o) a = some r) (b : Node) :
    b ∈ r ↔ Path (buildGraph o) a b := reach_sound_complete _ a r h b

/-- reachability always answers: |V| rounds of frontier expansion close (no fuel artefact) -/
theorem reach_always_answers (o : Output) (a : Node) : (reach (buildGraph o) a).isSome = true := reach_total _ a

/-- the model's verdict: cyclic iff some node of the dependency graph reaches itself -/
theorem cyclic_exact (o : Output) : hasCycle o = true ↔ ∃ v, Path (buildGraph o) v v := cyclic_iff' _

/-- **the graph is the documented dependency relation**: resource `b` is reachable from resource `a`
in the graph `buildGraph` constructs (with its auxiliary tag / decorate / decorator nodes) iff `a`
transitively depends on `b` in the relation the documentation states (`ConfigDep`: own arguments,
carriers of requested tags, dependencies of decorators attached to carried tags, referenced parameters) -/
theorem graph_faithful (o : Output) (a b : Res) :
    Path (buildGraph o) a.node b.node ↔ TC (ConfigDep o) a b :=
  ⟨tc_of_path o a b, path_of_tc o a b⟩

/-- **the verdict in the documentation's terms**: the configuration is cyclic iff some service or
parameter transitively depends on itself -/
theorem cyclic_documented (o : Output) : hasCycle o = true ↔ ∃ a : Res, TC (ConfigDep o) a a := by
  rw [cyclic_exact]
  constructor
  · rintro ⟨v, p⟩
    obtain ⟨r, pr⟩ := exists_res_cycle o v p
    exact ⟨r, tc_of_path o r r pr⟩
  · rintro ⟨a, h⟩
    exact ⟨a.node, path_of_tc o a a h⟩

/-- what is assumed of the external cycle enumeration -/
structure CyclesSpec (g : G Node) (cs : List (List Node)) : Prop where
  sound : ∀ c ∈ cs, isCycle g c = true
  complete : (∃ v, Path g v v) → cs ≠ []

/-- **accepted iff acyclic**: with a cycle enumeration meeting `CyclesSpec`, the validator's list is
empty exactly when no node reaches itself — no acyclic configuration is rejected, no cyclic one accepted -/
theorem cycles_accept_iff (o : Output) (cs : List (List Node)) (spec : CyclesSpec (buildGraph o) cs) :
    cs = [] ↔ ¬ ∃ v, Path (buildGraph o) v v := by
  constructor
  · intro h ⟨v, p⟩
    exact spec.complete ⟨v, p⟩ h
  · intro h
    cases hc : cs with
    | nil => rfl
    | cons c rest =>
      exfalso
      have := spec.sound c (by rw [hc]; simp)
      obtain ⟨v, _, p⟩ := isCycle_sound _ c this
      exact h ⟨v, p⟩

/-- every reported line that the check accepts is a genuine cycle through its first element -/
theorem reported_cycle_is_cycle (o : Output) (c : List Node) (h : isCycle (buildGraph o) c = true) :
    ∃ v, c.head? = some v ∧ Path (buildGraph o) v v := isCycle_sound _ c h

/-- the edges of the graph are exactly: tag → carrier, carrier → decorate(tag), service → its
argument dependencies, decorate(tag) → decorator, decorator → its argument dependencies,
parameter → referenced parameter -/
theorem edges_exact (o : Output) (x y : Node) :
    (x, y) ∈ (buildGraph o).edges ↔
      (∃ s ∈ o.services, (x, y) ∈ serviceEdges s) ∨
      (∃ di ∈ o.decorators.zipIdx, (x, y) ∈ decoratorEdges di.2 di.1) ∨
      (∃ p ∈ o.params, ∃ q ∈ p.dependsOn, x = nParam p.name ∧ y = nParam q) := by
  exact mem_edges o x y

-- non-vacuity: a service cycle through a tag and a decorator
def demo : Output :=
  { services := [{ name := "a", tags := [{ name := "t", priority := 0 }] }, { name := "b", args := [{ code := "", raw := .null, depTags := ["t"] }] }],
    decorators := [{ tag := "t", decorator := "f", raw := "f", args := [{ code := "", raw := .null, depServices := ["b"] }] }] }
example : isCycle (buildGraph demo) [nService "a", nDecorate "t", nDecorator 0, nService "b", nTag "t", nService "a"] = true := by decide

-- non-vacuity of `cyclic_documented`: in `demo`, a depends on b through its decorator, b on a through the tag
example : ConfigDep demo (.service "a") (.service "b") :=
  ConfigDep.dec (s := { name := "a", tags := [{ name := "t", priority := 0 }] }) (tg := { name := "t", priority := 0 })
    (d := { tag := "t", decorator := "f", raw := "f", args := [{ code := "", raw := .null, depServices := ["b"] }] }) (i := 0)
    (by simp [demo]) (by simp) (by simp [demo, List.zipIdx]) rfl (Or.inl (by simp))

/-! ### parameter evaluation terminates -/

/-- **an accepted container's parameter evaluation terminates** (runtime model): when the `%reference%` relation between
declared parameters is acyclic — stated as the existence of a rank that decreases along it — evaluating parameter `id`
recurses at most `rank id` levels deep: the result (value or error) and the state left behind are the same for every
recursion budget from `2·rank + 3` on, so the budget of the model never decides the answer.
(Partial in one respect, named here: that an acyclic compiled graph yields such a rank is not proved in Lean; the
correspondence compares `GetParam` of accepted containers with the model under its fixed budget.) -/
theorem param_eval_terminates_partial (p : Runtime.Prog) (rk : String → Nat) (hr : Runtime.Ranked p rk) (id : String)
    (st : Runtime.St) (f g : Nat) (hf : Runtime.bound rk id ≤ f) (hg : Runtime.bound rk id ≤ g) :
    Runtime.getParam f p st id = Runtime.getParam g p st id :=
  Runtime.getParam_stable p rk hr id st f g hf hg

/-- … and **every program whose compiled dependency graph is acyclic has such a rank** (the number of nodes reachable in the
graph the cycle validator inspects), provided the recorded dependencies of a parameter cover the references the runtime follows
(the compile side of that is `C06.pattern_deps_all_refs`): for an accepted configuration the recursion budget never decides an
answer -/
theorem param_eval_terminates_acyclic (p : Runtime.Prog) (hac : cyclic (buildGraph p.out) = false)
    (hd : Runtime.ParamDepsRecorded p) (id : String) (st : Runtime.St) (f g : Nat)
    (hf : Runtime.bound (fun n => rankOf (buildGraph p.out) (nParam n)) id ≤ f)
    (hg : Runtime.bound (fun n => rankOf (buildGraph p.out) (nParam n)) id ≤ g) :
    Runtime.getParam f p st id = Runtime.getParam g p st id :=
  Runtime.getParam_stable p _ (Runtime.ranked_of_acyclic p hac hd) id st f g hf hg

/-- the rank is bounded by the size of the graph, so `2·|V| + 3` is a budget that suffices for every parameter -/
theorem rank_le_nodes (o : Output) (a : Node) : rankOf (buildGraph o) a ≤ (buildGraph o).nodes.length := by
  unfold rankOf
  exact List.length_filter_le _ _

/-- the hypothesis of the previous theorem holds for what the compiler produces: every parameter `compileParams` emits
records the references the runtime follows (tokenisation finds the same references whatever the import table holds) -/
theorem compiled_params_recorded (p : Runtime.Prog) (i : Input.Input) (st : Imports.St)
    (hout : p.out.params = (Compile.compileParams i p.fns st).1) : Runtime.ParamDepsRecorded p := by
  intro prm hprm
  rw [hout] at hprm
  exact Runtime.compiled_params_recorded p i st prm hprm

/-- **an accepted container's parameter evaluation terminates**: for a program whose parameters are the compiler's output and
whose dependency graph the cycle validator accepts, the recursion budget never decides an answer -/
theorem param_eval_terminates (p : Runtime.Prog) (i : Input.Input) (st0 : Imports.St)
    (hout : p.out.params = (Compile.compileParams i p.fns st0).1) (hac : cyclic (buildGraph p.out) = false)
    (id : String) (st : Runtime.St) (f g : Nat)
    (hf : 2 * (buildGraph p.out).nodes.length + 3 ≤ f) (hg : 2 * (buildGraph p.out).nodes.length + 3 ≤ g) :
    Runtime.getParam f p st id = Runtime.getParam g p st id := by
  apply param_eval_terminates_acyclic p hac (compiled_params_recorded p i st0 hout) id st f g
  · have := rank_le_nodes p.out (nParam id); show 2 * rankOf (buildGraph p.out) (nParam id) + 3 ≤ f; omega
  · have := rank_le_nodes p.out (nParam id); show 2 * rankOf (buildGraph p.out) (nParam id) + 3 ≤ g; omega


-- non-vacuity: a two-level chain of parameters is ranked
def demoParams : Runtime.Prog :=
  { out := { params := [{ name := "a", raw := .str "%b%x", code := "", dependsOn := ["b"] },
                        { name := "b", raw := .int 1, code := "", dependsOn := [] }] },
    imports := [], fns := [], env := [] }
example : Runtime.Ranked demoParams (fun n => if n = "a" then 1 else 0) := by
  unfold Runtime.Ranked
  decide

end GM.C07
