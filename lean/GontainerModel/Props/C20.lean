/-
C20 — the generated container is safe under concurrent use (partial).
Proved: (i) over the templates (regenerated): the generated helpers hold no state — the container
struct has exactly one (embedded) field, the file declares no package-level variable; (ii) over the
lock/cache protocol of `get` as a transition system with unboundedly many threads and arbitrary
interleavings: a shared service (a parameter; a contextual service within one bag) is successfully
constructed (evaluated) AT MOST ONCE, and once cached every later get is a cache hit.
Not provable here: data-race freedom in the Go memory-model sense, the runtime library's actual
lock implementation, the scheduler — those are only searched for with `-race` runs.
-/
import GontainerModel.Lemmas.C20Aux
import GontainerModel.Model.RuntimeConc
import GontainerModel.Lemmas.ConcMulti
import GontainerModel.Generated.Template
import GontainerModel.Generated.Stub
import GontainerModel.Generated.Library
namespace GM.C20
open GM GM.RuntimeConc

/-- the invariant holds in every reachable state: any number of threads, any interleaving, any length -/
theorem reachable_inv (s : S) (h : Reachable s) : CInv s := by
  induction h with
  | init => exact inv_init
  | step _ st ih => exact inv_step _ _ ih st

/-- **at most one successful construction, ever** -/
theorem at_most_once (s : S) (h : Reachable s) : s.successes ≤ 1 := by
  obtain ⟨h1, h2⟩ := reachable_inv s h
  rw [h1]
  unfold pending
  cases hc : s.cache
  · simp; split <;> omega
  · have : inFlight s = false := by
      cases hi : inFlight s
      · rfl
      · have := h2 hi; simp_all
    simp
    unfold inFlight at this
    split <;> simp_all

/-- once the instance is cached no thread constructs again: the only way out of `locked` is a hit -/
theorem cached_then_hit (s s' : S) (t : Nat) (hr : Reachable s) (hc : s.cache = true) (hl : s.crit = some (t, .locked))
    (st : Step s s') : s'.crit = none ∧ s'.hits = s.hits + 1 ∧ s'.successes = s.successes := by
  cases st with
  | acquire t' h => simp_all
  | hit t' h _ => simp_all
  | miss t' h hm => simp_all
  | construct t' ok h => simp_all
  | publish t' h => simp_all
  | fail t' h => simp_all

/-- the cache, once filled, stays filled -/
theorem cache_monotone (s s' : S) (st : Step s s') (hc : s.cache = true) : s'.cache = true := by
  cases st <;> simp_all

/-- **the generated helpers are stateless**: one embedded field, no package-level variable, and in the
normal output the helper methods are methods on the container pointer (closures capture only `c`) -/
theorem helpers_stateless :
    Generated.tplStructEmbedded = ["Container"] ∧ Generated.tplPackageVars = 0 ∧
    (Generated.tplFuncsNormal.filter (·.2.2)).length = 5 ∧ Generated.tplTypesNormal.length = 1 := by decide

/-! ### the transition system is the library's `get` — tie to the source the repository's go.mod pins

The statements of `(*Container).get` and `(*Container).getParam` are regenerated (flattened, in source order) from the module
cache on every run. The theorems below say that the statements the transitions of `RuntimeConc.Step` stand for occur there, once
each, in the order a thread passes them. -/

/-- **`get`: lock → deferred unlock → cache look-up (return on hit) → deferred store (only without error) → construction.**
`acquire` is `serviceLockers[id].Lock()`; `hit`/`miss` is the cache look-up right after it; the unlock is deferred BEFORE the
store is deferred, and Go runs deferred calls last-in-first-out, so the store (`publish`) happens inside the critical section and
the unlock after it; the store is guarded by `err == nil` (`fail` caches nothing); construction comes after all of these. Each of
the lock, unlock and store statements occurs exactly once, and only in the branch for the shared and contextual scopes. -/
theorem lib_get_protocol :
    let l := Generated.libGet
    let branch := l.idxOf "case scopeShared, scopeContextual:"
    let lock := l.idxOf "c.serviceLockers[id].Lock()"
    let unlock := l.idxOf "defer c.serviceLockers[id].Unlock()"
    let look := l.idxOf "if s, cached := cache.get(id); cached {"
    let store := l.idxOf "cache.set(id, result)"
    let create := l.idxOf "result, err = c.createNewService(svc, contextualBag)"
    branch < lock ∧ lock < unlock ∧ unlock < look ∧ look < store ∧ store < create ∧ create < l.length ∧
    l[look + 1]? = some "return s, nil" ∧
    l[store - 1]? = some "if err == nil {" ∧ l[store - 2]? = some "defer func() {" ∧
    l.count "c.serviceLockers[id].Lock()" = 1 ∧ l.count "defer c.serviceLockers[id].Unlock()" = 1 ∧
    l.count "cache.set(id, result)" = 1 ∧ l.count "result, err = c.createNewService(svc, contextualBag)" = 1 := by decide

/-- the cache the protocol works on is the container-wide one for shared services and the caller's bag for contextual ones
(`RuntimeConcMulti`: one cache per scope instance) -/
theorem lib_get_caches :
    let l := Generated.libGet
    l[l.idxOf "case scopeShared:" + 1]? = some "cache = c.cacheSharedServices" ∧
    l[l.idxOf "case scopeContextual:" + 1]? = some "cache = contextualBag" := by decide

/-- **the stages of a construction, in the order of the runtime model's `getBody`**: constructor, fields, calls, decorators —
each handing its result to the next, each failure ending the call -/
theorem lib_get_stages :
    let l := Generated.libGet
    let create := l.idxOf "result, err = c.createNewService(svc, contextualBag)"
    let fields := l.idxOf "result, err = c.setServiceFields(result, svc, contextualBag)"
    let calls := l.idxOf "result, err = c.executeServiceCalls(result, svc, contextualBag)"
    let deco := l.idxOf "result, err = c.decorateService(id, result, svc, contextualBag)"
    create < fields ∧ fields < calls ∧ calls < deco ∧ deco < l.length ∧
    l[create + 1]? = some "if err != nil {" ∧ l[fields + 1]? = some "if err != nil {" ∧
    l[calls + 1]? = some "if err != nil {" ∧ l[deco + 1]? = some "if err != nil {" ∧
    l[create + 2]? = some "return nil, err" ∧ l[fields + 2]? = some "return nil, err" ∧
    l[calls + 2]? = some "return nil, err" ∧ l[deco + 2]? = some "return nil, err" := by decide

/-- **`getParam`: the same protocol with one mutex per parameter** — lock, deferred unlock, cache look-up, evaluation, and the
store only on the path where the evaluation returned no error -/
theorem lib_getParam_protocol :
    let l := Generated.libGetParam
    let lock := l.idxOf "c.paramsLockers[id].Lock()"
    let unlock := l.idxOf "defer c.paramsLockers[id].Unlock()"
    let look := l.idxOf "if p, cached := c.cacheParams.get(id); cached {"
    let eval := l.idxOf "result, err = c.resolveDep(nil, param)"
    let store := l.idxOf "c.cacheParams.set(id, result)"
    lock < unlock ∧ unlock < look ∧ look < eval ∧ eval < store ∧ store < l.length ∧
    l[look + 1]? = some "return p, nil" ∧
    l[eval + 1]? = some "if err != nil {" ∧ l[eval + 2]? = some "return nil, err" ∧ l[eval + 3]? = some "}" ∧ store = eval + 4 ∧
    l.count "c.paramsLockers[id].Lock()" = 1 ∧ l.count "c.cacheParams.set(id, result)" = 1 := by decide

/-- the library version these statements were read from is the one the repository requires -/
theorem lib_version_pinned : Generated.libVersion = "v3.0.0-20231102220126-cd3ac9fbe738" := by decide

/-! ### all services and all contexts at once -/

/-- the invariant holds in every reachable state of the whole system: any number of threads, services and contexts, any
interleaving, any length -/
theorem multi_reachable_inv (s : RuntimeConcMulti.S) (h : RuntimeConcMulti.Reachable s) : RuntimeConcMulti.MInv s := by
  induction h with
  | init => exact RuntimeConcMulti.inv_init
  | step _ st ih => exact RuntimeConcMulti.inv_step _ _ ih st

/-- **each shared service is constructed at most once, and each contextual service at most once per context** — whatever the
other threads do to other services and contexts in between (cache 0 is the container-wide cache, cache c+1 the bag of context c) -/
theorem at_most_once_each (s : RuntimeConcMulti.S) (h : RuntimeConcMulti.Reachable s) (c i : Nat) : s.successes c i ≤ 1 := by
  have hi := multi_reachable_inv s h
  have hc := hi.count c i
  cases hcache : s.cache c i with
  | none => rw [hcache] at hc; simp at hc; rw [hc]; split <;> omega
  | some n =>
    have hnf : RuntimeConcMulti.inFlight s c i = false := by
      cases hfl : RuntimeConcMulti.inFlight s c i
      · rfl
      · have := hi.quiet c i hfl; rw [hcache] at this; cases this
    have hp : RuntimeConcMulti.pendingSerial s c i = none := by
      unfold RuntimeConcMulti.inFlight at hnf
      unfold RuntimeConcMulti.pendingSerial
      split <;> simp_all
    rw [hcache, hp] at hc
    simp at hc
    omega

/-- **a contextual service is never shared between distinct contexts** (nor between a context and the container-wide cache,
nor between two services): two different (cache, service) pairs never hold the same instance -/
theorem instances_never_shared (s : RuntimeConcMulti.S) (h : RuntimeConcMulti.Reachable s) (c c' i i' n : Nat)
    (h1 : s.cache c i = some n) (h2 : s.cache c' i' = some n) : c = c' ∧ i = i' :=
  (multi_reachable_inv s h).inj c i c' i' n (by simp [RuntimeConcMulti.owned, h1]) (by simp [RuntimeConcMulti.owned, h2])

-- non-vacuity: two threads racing for the same id; the second one hits the cache
example : Reachable { crit := none, cache := true, successes := 1, hits := 1 } := by
  have s0 : Reachable {} := .init
  have s1 := Reachable.step s0 (.acquire _ 1 rfl)
  have s2 := Reachable.step s1 (.miss _ 1 rfl rfl)
  have s3 := Reachable.step s2 (.construct _ 1 true rfl)
  have s4 := Reachable.step s3 (.publish _ 1 rfl)
  have s5 := Reachable.step s4 (.acquire _ 2 rfl)
  have s6 := Reachable.step s5 (.hit _ 2 rfl rfl)
  exact s6

-- non-vacuity of the multi-service system: two contexts each construct their own instance of service 7, with different serials
example : ∃ s : RuntimeConcMulti.S, RuntimeConcMulti.Reachable s ∧ s.cache 1 7 = some 1 ∧ s.cache 2 7 = some 2 := by
  have s0 : RuntimeConcMulti.Reachable {} := .init
  have s1 := RuntimeConcMulti.Reachable.step s0 (.acquire _ 100 1 7 rfl)
  have s2 := RuntimeConcMulti.Reachable.step s1 (.miss _ 100 1 7 (by simp [RuntimeConcMulti.upd]) rfl)
  have s3 := RuntimeConcMulti.Reachable.step s2 (.constructOk _ 100 1 7 (by simp [RuntimeConcMulti.upd]))
  have s4 := RuntimeConcMulti.Reachable.step s3 (.publish _ 100 1 7 1 (by simp [RuntimeConcMulti.upd]))
  have s5 := RuntimeConcMulti.Reachable.step s4 (.acquire _ 200 2 7 (by simp [RuntimeConcMulti.upd]))
  have s6 := RuntimeConcMulti.Reachable.step s5 (.miss _ 200 2 7 (by simp [RuntimeConcMulti.upd]) (by simp [RuntimeConcMulti.upd2]))
  have s7 := RuntimeConcMulti.Reachable.step s6 (.constructOk _ 200 2 7 (by simp [RuntimeConcMulti.upd]))
  have s8 := RuntimeConcMulti.Reachable.step s7 (.publish _ 200 2 7 2 (by simp [RuntimeConcMulti.upd]))
  exact ⟨_, s8, by simp [RuntimeConcMulti.upd2], by simp [RuntimeConcMulti.upd2]⟩

end GM.C20
