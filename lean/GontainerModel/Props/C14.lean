/-
C14 — package references resolve to exactly the package the alias table denotes.
-/
import GontainerModel.Lemmas.Imports
import GontainerModel.Lemmas.ImportsInv
import GontainerModel.Generated.Regex
import GontainerModel.Model.Regexes
namespace GM.C14
open GM GM.Imports

/-- An alias table whose aliases are pairwise distinct and contain no `/` (which validation
guarantees: aliases match `YamlToken`). -/
structure TableOk (tbl : List (String × String)) : Prop where
  nodup : (tbl.map Prod.fst).Nodup
  noSlash : ∀ p ∈ tbl, '/' ∉ p.1.toList

/-- **Whole segments only, independent of iteration order.** `decorateImport` ranges over a Go
map; for ANY iteration order `σ` of the table the result is the same. -/
theorem resolve_order_independent (tbl σ : List (String × String)) (hσ : σ.Perm tbl) (ok : TableOk tbl)
    (r : String) : decorate σ r = decorate tbl r := by
  unfold decorate
  have : σ.find? (fun p => segMatch p.1.toList r.toList) = tbl.find? (fun p => segMatch p.1.toList r.toList) := by
    apply find_perm_unique _ _ _ hσ
    intro x hx y hy px py
    have hx' := hσ.subset hx
    have hy' := hσ.subset hy
    have e : x.1.toList = y.1.toList :=
      segMatch_unique _ _ _ (ok.noSlash x hx') (ok.noSlash y hy') px py
    have e1 : x.1 = y.1 := String.ext e
    exact nodup_keys_unique tbl ok.nodup x y hx' hy' e1
  rw [this]

/-- … and that result is the documented one: if alias `a ↦ path` is in the table and `a` is the
reference's whole first path segment, the segment is replaced by `path`; … -/
theorem resolve_hit (tbl : List (String × String)) (ok : TableOk tbl) (a path r : String)
    (hin : (a, path) ∈ tbl) (hseg : firstSeg r.toList = a.toList)
    (hform : r.toList = a.toList ∨ ∃ rest, r.toList = a.toList ++ '/' :: rest) :
    decorate tbl r = path ++ String.ofList (r.toList.drop a.length) := by
  have hm : segMatch a.toList r.toList = true :=
    (segMatch_iff _ _ (ok.noSlash _ hin)).mpr ⟨hseg, hform⟩
  unfold decorate
  cases hf : tbl.find? (fun p => segMatch p.1.toList r.toList) with
  | none =>
    have := List.find?_eq_none.mp hf (a, path) hin
    simp [hm] at this
  | some x =>
    have hx := List.mem_of_find?_eq_some hf
    have hpx := List.find?_some hf
    have e : x.1.toList = a.toList := segMatch_unique _ _ _ (ok.noSlash x hx) (ok.noSlash _ hin) hpx hm
    have : x = (a, path) := nodup_keys_unique tbl ok.nodup x (a, path) hx hin (String.ext e)
    subst this
    rfl

/-- … and if no alias is the reference's first path segment the reference is left alone — in
particular an alias that is a mere string prefix (`exp` vs `exp1/pkg`) does not match. -/
theorem resolve_miss (tbl : List (String × String)) (ok : TableOk tbl) (r : String)
    (h : ∀ p ∈ tbl, firstSeg r.toList ≠ p.1.toList) : decorate tbl r = r := by
  unfold decorate
  have : tbl.find? (fun p => segMatch p.1.toList r.toList) = none := by
    apply List.find?_eq_none.mpr
    intro p hp hm
    exact h p hp ((segMatch_iff _ _ (ok.noSlash p hp)).mp hm).1
  rw [this]

/-- a reference that resolves to a path not yet imported gets a fresh numbered name and the path is
recorded exactly once -/
theorem alias_fresh (st : St) (p : String) (h : st.imports.lookup (decorate st.prefixes p) = none) :
    (alias st p).2 = localName st.counter (decorate st.prefixes p) ∧
    (alias st p).1.counter = st.counter + 1 ∧
    (alias st p).1.imports = (decorate st.prefixes p, localName st.counter (decorate st.prefixes p)) :: st.imports := by
  unfold alias
  simp [h]

/-- **One import per package.** A second reference that resolves to the same path (whatever its
written form) gets the same local name and changes nothing in the table. -/
theorem alias_memo (st : St) (p q : String) (h : decorate st.prefixes p = decorate st.prefixes q) :
    alias (alias st p).1 q = ((alias st p).1, (alias st p).2) := by
  cases hl : st.imports.lookup (decorate st.prefixes p) with
  | some a =>
    have hp : alias st p = (st, a) := by unfold alias; simp [hl]
    rw [hp]
    unfold alias
    simp [← h, hl]
  | none =>
    obtain ⟨hn, _, hi⟩ := alias_fresh st p hl
    have hpre : (alias st p).1.prefixes = st.prefixes := by unfold alias; simp [hl]
    rw [hn] at *
    generalize (alias st p).1 = st' at *
    unfold alias
    simp [hpre, ← h, hi, List.lookup_cons]

/-- `"."` and quoted forms: quotes are stripped and `.` denotes the current package (no import) -/
theorem sanitize_forms : sanitize "\".\"" = "" ∧ sanitize "\"my/pkg\"" = "my/pkg" ∧ sanitize "my/pkg" = "my/pkg" := by
  decide

/-- the import pattern the validators use is the one the model's grammar theorems speak about -/
theorem pin_import_regex :
    Generated.re_input_regexMetaImport = Rx.import_ ∧ Generated.re_input_regexMetaImportAlias = Rx.yamlToken ∧
    (Generated.opt_imports_regexNoAlphaNum = none ∨ Generated.opt_imports_regexNoAlphaNum = some (Rx.noAlphaNum, "search")) :=
  ⟨rfl, rfl, by first | exact Or.inr rfl | exact Or.inl rfl⟩

/-- **Different packages never share a local name, one import per package** — for every alias
table and every sequence of references resolved from the empty table: the recorded paths are
pairwise distinct and so are the local names, whatever the last path elements look like (the hex
sequence number alone separates them: `i<hex n>_…` can be parsed back to `n`). -/
theorem local_names_distinct (pre : List (String × String)) (rs : List String) :
    ((aliasAll { prefixes := pre } rs).imports.map (·.1)).Nodup ∧
    ((aliasAll { prefixes := pre } rs).imports.map (·.2)).Nodup :=
  have h := tinv_aliasAll _ rs (tinv_init pre)
  ⟨h.paths, h.names⟩

/-- … and the same holds of the emitted import block (`Imports()`, sorted by path) -/
theorem import_block_distinct (pre : List (String × String)) (rs : List String) :
    ((importsList (aliasAll { prefixes := pre } rs)).map (·.1)).Nodup ∧
    ((importsList (aliasAll { prefixes := pre } rs)).map (·.2)).Nodup := by
  obtain ⟨h1, h2⟩ := local_names_distinct pre rs
  unfold importsList
  simp only [List.map_map]
  constructor
  · have : ((fun x : String × String => x.1) ∘ fun x : String × String => (x.2, x.1)) = (·.2) := by funext x; rfl
    rw [this]
    exact ((List.mergeSort_perm _ _).map _).nodup_iff.mpr h2
  · have : ((fun x : String × String => x.2) ∘ fun x : String × String => (x.2, x.1)) = (·.1) := by funext x; rfl
    rw [this]
    exact ((List.mergeSort_perm _ _).map _).nodup_iff.mpr h1

/-- **Two references get the same local name iff they denote the same package**: in any reachable
table, whatever is resolved in between, `p` and `q` receive one name exactly when they resolve to
one path -/
theorem same_name_iff_same_package (pre : List (String × String)) (before mid : List String) (p q : String) :
    let st := aliasAll { prefixes := pre } before
    let s1 := alias st p
    let s2 := aliasAll s1.1 mid
    let s3 := alias s2 q
    s1.2 = s3.2 ↔ decorate pre p = decorate pre q := by
  intro st s1 s2 s3
  have hst : TInv st := tinv_aliasAll _ before (tinv_init pre)
  have hpre : st.prefixes = pre := aliasAll_prefixes _ before
  have hpre2 : s2.prefixes = pre := by
    show (aliasAll (alias st p).1 mid).prefixes = pre
    rw [aliasAll_prefixes, alias_prefixes, hpre]
  have h3 : TInv s3.1 := tinv_alias _ q (tinv_aliasAll _ mid (tinv_alias _ p hst))
  have m1 : (decorate pre p, s1.2) ∈ s3.1.imports := by
    have := alias_recorded st p
    rw [hpre] at this
    exact alias_mono s2 q _ (aliasAll_mono s1.1 mid _ this)
  have m2 : (decorate pre q, s3.2) ∈ s3.1.imports := by
    have := alias_recorded s2 q
    rw [hpre2] at this
    exact this
  constructor
  · intro e
    have := eq_of_same_snd h3.names m1 m2 e
    exact (Prod.mk.inj this).1
  · intro e
    have := eq_of_same_fst h3.paths m1 m2 e
    exact (Prod.mk.inj this).2

-- non-vacuity / the recorded witness of D8: alias `exp` must not rewrite `exp1/ossuary/pkg`
example : TableOk [("exp", "exp1/my")] := ⟨by decide, by decide⟩
example : decorate [("exp", "exp1/my")] "exp1/ossuary/pkg" = "exp1/ossuary/pkg" := by decide
example : decorate [("exp", "exp1/my")] "exp/os" = "exp1/my/os" := by decide
example : decorate [("exp", "a"), ("exp1", "b")] "exp1/x" = decorate [("exp1", "b"), ("exp", "a")] "exp1/x" := by decide

end GM.C14
