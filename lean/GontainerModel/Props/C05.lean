/-
C05 — scope semantics and the shared-on-contextual rule (build-time part; the run-time instance
identity across histories is the executable runtime model tied by level B).
-/
import GontainerModel.Lemmas.Graph
import GontainerModel.Lemmas.DepGraph
import GontainerModel.Lemmas.SortedMap
import GontainerModel.Model.Runtime
import GontainerModel.Lemmas.History
import GontainerModel.Lemmas.Rank
import GontainerModel.Lemmas.NonShared
import GontainerModel.Lemmas.ArgsCompiled
import GontainerModel.Generated.Template
namespace GM.C05
open GM GM.Graph GM.Output

/-- **the scope rule is exact** (graph form): `(s, c)` is reported iff `s` is a service declared
shared, `c` is declared contextual, and `c` is reachable from `s` in the dependency graph -/
theorem scope_errors_graph (o : Output) (s c : String) :
    (s, c) ∈ scopePairs o ↔
      (∃ sv ∈ o.services, sv.name = s) ∧ scopeOf o s = .shared ∧ scopeOf o c = .contextual ∧
      Path (buildGraph o) (nService s) (nService c) := by
  unfold scopePairs
  simp only [List.mem_flatMap]
  constructor
  · rintro ⟨s', hs', hmem⟩
    have hs'1 : s' ∈ o.services.map (·.name) := by
      have := (List.mergeSort_perm _ _).subset hs'
      exact List.mem_eraseDups.mp this
    split at hmem
    · rename_i hsh
      simp only [List.mem_filterMap] at hmem
      obtain ⟨id, hid, hsome⟩ := hmem
      have hid' : id ∈ (reachD (buildGraph o) (nService s')).filter (· != nService s') := (List.mergeSort_perm _ _).subset hid
      have hreach : id ∈ reachD (buildGraph o) (nService s') := (List.mem_filter.mp hid').1
      cases id with
      | service n =>
        simp only [isServiceNode] at hsome
        split at hsome
        · rename_i hctx
          simp at hsome
          obtain ⟨rfl, rfl⟩ := hsome
          obtain ⟨sv, hsv, rfl⟩ := List.mem_map.mp hs'1
          exact ⟨⟨sv, hsv, rfl⟩, hsh, hctx, (mem_reachD _ _ _).mp hreach⟩
        · simp at hsome
      | _ => simp [isServiceNode] at hsome
    · simp at hmem
  · rintro ⟨⟨sv, hsv, rfl⟩, hsh, hctx, p⟩
    refine ⟨sv.name, ?_, ?_⟩
    · apply (List.mergeSort_perm _ _).symm.subset
      exact List.mem_eraseDups.mpr (List.mem_map_of_mem hsv)
    · simp only [hsh, ↓reduceIte, List.mem_filterMap]
      refine ⟨nService c, ?_, by simp [isServiceNode, hctx]⟩
      apply (List.mergeSort_perm _ _).symm.subset
      refine List.mem_filter.mpr ⟨(mem_reachD _ _ _).mpr p, ?_⟩
      have : nService c ≠ nService sv.name := by
        intro e
        have : c = sv.name := by injection e
        rw [this, hsh] at hctx
        cases hctx
      simpa using this

/-- **the scope rule is exact** (the documentation's terms): `(s, c)` is reported iff `s` is a
service declared shared, `c` is declared contextual, and `s` transitively depends on `c` — through
arguments, fields and calls (`allArgs`), requested tags → their carriers, carried tags → decorators →
their dependencies.  Nothing else is rejected for scope reasons. -/
theorem scope_errors_exact (o : Output) (s c : String) :
    (s, c) ∈ scopePairs o ↔
      (∃ sv ∈ o.services, sv.name = s) ∧ scopeOf o s = .shared ∧ scopeOf o c = .contextual ∧
      TC (ConfigDep o) (.service s) (.service c) := by
  rw [scope_errors_graph]
  have : Path (buildGraph o) (nService s) (nService c) ↔ TC (ConfigDep o) (.service s) (.service c) :=
    ⟨tc_of_path o (.service s) (.service c), path_of_tc o (.service s) (.service c)⟩
  rw [this]

/-- accepted for scope reasons ⇔ no pair: the diagnostics are one line per pair -/
theorem scope_accept_iff (o : Output) : validateScopes o = [] ↔ scopePairs o = [] := by
  unfold validateScopes
  simp [Errs.pfx]

/-- **resolved scope of an undeclared service** (runtime model of `warmUpScopes`): contextual iff a
service DECLARED contextual is reachable, shared otherwise; declared scopes are kept -/
theorem resolved_scope (p : Runtime.Prog) (st : Runtime.St) (n : String) (s : Service)
    (hov : st.ovServices.lookup n = none) (hs : Runtime.svcByName p n = some s) :
    Runtime.effScope p st n =
      match s.scope with
      | .default =>
        if ((reachD (buildGraph p.out) (nService n)).filterMap isServiceNode).any
            (fun d => (st.ovServices.lookup d).isNone && scopeOf p.out d = .contextual) then .contextual else .shared
      | sc => sc := by
  unfold Runtime.effScope
  simp only [hov, hs]
  cases s.scope <;> simp

/-- keyword → compiled scope → emitted setter is one-to-one (regenerated template table) -/
theorem scope_keyword_mapping :
    Compile.scopeOut (some .shared) = .shared ∧ Compile.scopeOut (some .contextual) = .contextual ∧
    Compile.scopeOut (some .nonShared) = .nonShared ∧ Compile.scopeOut none = .default ∧
    Generated.tplScopeSetters = [("IsDefault", "SetScopeDefault"), ("IsShared", "SetScopeShared"),
      ("IsContextual", "SetScopeContextual"), ("IsNonShared", "SetScopeNonShared")] := by
  refine ⟨rfl, rfl, rfl, rfl, by decide⟩

/-- a shared service that is already cached is returned as is: one instance per container -/
theorem shared_once (f : Nat) (p : Runtime.Prog) (st : Runtime.St) (bag : Runtime.Bag) (n : String) (s : Service) (v : Runtime.RV)
    (hov : st.ovServices.lookup n = none) (hs : Runtime.svcByName p n = some s)
    (hsc : Runtime.effScope p st n = .shared) (hc : st.shared.lookup n = some v) :
    Runtime.get (f + 1) p st bag n = (st, bag, .ok v) := by
  unfold Runtime.get
  simp [hov, hs, hsc, hc]

/-- a contextual service already in the bag of the current call tree / context is returned as is -/
theorem contextual_once_per_bag (f : Nat) (p : Runtime.Prog) (st : Runtime.St) (bag : Runtime.Bag) (n : String) (s : Service) (v : Runtime.RV)
    (hov : st.ovServices.lookup n = none) (hs : Runtime.svcByName p n = some s)
    (hsc : Runtime.effScope p st n = .contextual) (hc : bag.lookup n = some v) :
    Runtime.get (f + 1) p st bag n = (st, bag, .ok v) := by
  unfold Runtime.get
  simp [hov, hs, hsc, hc]

/-- **undeclared scope** (the runtime's rule, as modelled): a service with no declared scope is
contextual iff it transitively depends — in the documented relation — on a service declared
contextual, and shared otherwise -/
theorem default_scope_documented (p : Runtime.Prog) (st : Runtime.St) (n : String) (s : Service)
    (hov : st.ovServices = []) (hs : Runtime.svcByName p n = some s) (hd : s.scope = .default) :
    (Runtime.effScope p st n = .contextual ↔
      ∃ c, scopeOf p.out c = .contextual ∧ TC (ConfigDep p.out) (.service n) (.service c)) ∧
    (Runtime.effScope p st n = .contextual ∨ Runtime.effScope p st n = .shared) := by
  have look : ∀ k, (st.ovServices.lookup k) = none := by intro k; rw [hov]; rfl
  unfold Runtime.effScope
  simp only [look, Option.isSome_none, Bool.false_eq_true, ↓reduceIte, hs, hd, Option.isNone_none, Bool.true_and]
  constructor
  · constructor
    · intro h
      split at h
      · rename_i hany
        obtain ⟨d, hdm, hdc⟩ := List.any_eq_true.mp hany
        obtain ⟨id, hid, hsome⟩ := List.mem_filterMap.mp hdm
        have hp := (mem_reachD _ _ _).mp hid
        cases id with
        | service m =>
          simp [isServiceNode] at hsome
          subst hsome
          exact ⟨m, by simpa using hdc, tc_of_path p.out (.service n) (.service m) hp⟩
        | _ => simp [isServiceNode] at hsome
      · cases h
    · rintro ⟨c, hc, htc⟩
      have hp := path_of_tc p.out _ _ htc
      have hany : ((List.filterMap isServiceNode (reachD (buildGraph p.out) (nService n))).any fun d =>
          decide (scopeOf p.out d = Scope.contextual)) = true := by
        apply List.any_eq_true.mpr
        exact ⟨c, List.mem_filterMap.mpr ⟨nService c, (mem_reachD _ _ _).mpr hp, by simp [isServiceNode, nService]⟩, by simp [hc]⟩
      rw [if_pos hany]
  · split <;> simp

/-! ### whole histories (runtime model; the dependency relation acyclic, stated as ranks that decrease along it) -/

/-- the first successful `Get` of a service that resolves to shared puts it into the container-wide cache -/
theorem shared_first_get_caches (p : Runtime.Prog) (f : Nat) (st : Runtime.St) (bag : Runtime.Bag) (id : String) (s : Service)
    (v : Runtime.RV) (st' : Runtime.St) (bag' : Runtime.Bag)
    (hov : st.ovServices.lookup id = none) (hs : Runtime.svcByName p id = some s) (hsc : Runtime.effScope p st id = .shared)
    (hok : Runtime.get f p st bag id = (st', bag', .ok v)) : st'.shared.lookup id = some v :=
  Runtime.get_shared_caches p f st bag id s v st' bag' hov hs hsc hok

/-- **a shared service is instantiated once per container**: once it is in the container-wide cache, then after ANY
history of Get / GetInContext / GetTaggedBy / GetTaggedByInContext / GetParam calls and attached contexts — any
length, any mix — it is still there with the same instance, it was never constructed again, every construction the
history performed was of a service that was not cached where its scope caches it, and a further `Get` (in any call
tree or context) returns that very instance -/
theorem shared_once_per_container (p : Runtime.Prog) (rk rkP : String → Nat) (hsr : Runtime.SRanked p rk)
    (hpr : Runtime.Ranked p rkP) (F : Nat) (ops : List Runtime.Op) (st : Runtime.St) (id : String) (v : Runtime.RV)
    (hsc : Runtime.effScope p st id = .shared) (hc : st.shared.lookup id = some v) :
    (Runtime.runOps F p st ops).shared.lookup id = some v ∧
    (∃ suf, (Runtime.runOps F p st ops).evalLog = st.evalLog ++ suf ∧ ("ctor:" ++ id) ∉ suf) ∧
    (∀ (s : Service) (bag : Runtime.Bag) (f : Nat), st.ovServices.lookup id = none → Runtime.svcByName p id = some s →
      Runtime.get (f + 1) p (Runtime.runOps F p st ops) bag id = (Runtime.runOps F p st ops, bag, .ok v)) := by
  have h := Runtime.runOps_inv p rk rkP hsr hpr F ops st
  have hkeep : (Runtime.runOps F p st ops).shared.lookup id = some v := by
    rcases h.sh id with x | x
    · rw [x, hc]
    · rw [hc] at x; cases x
  refine ⟨hkeep, ?_, ?_⟩
  · obtain ⟨suf, hl, hm⟩ := h.lg
    refine ⟨suf, hl, fun hmem => ?_⟩
    rcases hm _ hmem with ⟨n, hn, _⟩ | ⟨n, hn, hs⟩
    · have := congrArg String.toList hn
      simp at this
    · have : id = n := (String.append_right_inj "ctor:").mp hn
      subst this
      rw [hs hsc] at hc; cases hc
  · intro s bag f hov hs
    have hsc' : Runtime.effScope p (Runtime.runOps F p st ops) id = .shared := by
      rw [Runtime.effScope_congr p st _ h.ovS]; exact hsc
    exact shared_once f p _ bag id s v (by rw [h.ovS]; exact hov) hs hsc' hkeep

/-- **a contextual service is instantiated once per attached context**: what the bag of context `c` holds stays there,
unchanged, across any history that does not attach `c` anew — whatever is done in other contexts or without one -/
theorem contextual_once_per_context (p : Runtime.Prog) (rk rkP : String → Nat) (hsr : Runtime.SRanked p rk)
    (hpr : Runtime.Ranked p rkP) (F : Nat) (ops : List Runtime.Op) (st : Runtime.St) (c : String)
    (hnew : Runtime.Op.newCtx c ∉ ops) (id : String) (v : Runtime.RV)
    (hc : (Runtime.bagOf st c).lookup id = some v) :
    (Runtime.bagOf (Runtime.runOps F p st ops) c).lookup id = some v :=
  Runtime.runOps_bags p rk rkP hsr hpr F ops st c hnew id v hc

/-- **contexts never share**: a call made in context `c'` (or in no context) leaves the bag of every other context `c`
exactly as it was — an instance built for one context cannot appear in another -/
theorem contexts_are_separate (p : Runtime.Prog) (rk rkP : String → Nat) (hsr : Runtime.SRanked p rk)
    (hpr : Runtime.Ranked p rkP) (F : Nat) (st : Runtime.St) (o : Runtime.Op) (c : String)
    (hnew : o ≠ .newCtx c) (h1 : ∀ id, o ≠ .getCtx c id) (h2 : ∀ tag, o ≠ .taggedCtx c tag) :
    Runtime.bagOf (Runtime.stepOp F p st o).1 c = Runtime.bagOf st c :=
  (Runtime.stepOp_bags p rk rkP hsr hpr F st o c hnew).2 h1 h2

/-- a plain `Get` is its own call tree: it starts from an empty bag and what it collected is dropped, so two plain
`Get`s never share a contextual instance -/
theorem plain_get_has_fresh_bag (F : Nat) (p : Runtime.Prog) (st : Runtime.St) (id : String) :
    Runtime.stepOp F p st (.get id) = ((Runtime.get F p st [] id).1, (Runtime.get F p st [] id).2.2) := rfl

/-- **a non_shared service is built afresh for every injection and every Get**: a successful `get` of a service created by
a constructor whose scope resolves to non_shared returns an object allocated during that very call, and leaves the caches'
entries for it untouched — whatever state the container is in, whoever asks (a `Get`, or the construction of a dependant) -/
theorem non_shared_always_fresh (p : Runtime.Prog) (rk rkP : String → Nat) (hsr : Runtime.SRanked p rk) (hpr : Runtime.Ranked p rkP)
    (f : Nat) (st : Runtime.St) (bag : Runtime.Bag) (id : String) (s : Service) (v : Runtime.RV) (st' : Runtime.St) (bag' : Runtime.Bag)
    (hov : st.ovServices.lookup id = none) (hs : Runtime.svcByName p id = some s) (hsc : Runtime.effScope p st id = .nonShared)
    (hc : (s.constructor != "") = true) (hok : Runtime.get f p st bag id = (st', bag', .ok v)) :
    Runtime.FreshIn st.next st' v ∧ st'.shared.lookup id = st.shared.lookup id ∧ bag'.lookup id = bag.lookup id :=
  Runtime.get_nonShared_fresh p rk rkP hsr hpr f st bag id s v st' bag' hov hs hsc hc hok

/-- … hence two such calls, one after the other (with anything in between that does not lower the serial counter — nothing
does, `SInv.nx`), never return the same instance -/
theorem non_shared_never_same (N : Nat) (st1 st2 : Runtime.St) (v1 v2 : Runtime.RV)
    (h1 : Runtime.FreshIn N st1 v1) (h2 : Runtime.FreshIn st1.next st2 v2) : v1 ≠ v2 :=
  Runtime.nonShared_never_same N st1 st2 v1 v2 h1 h2

/-- **for every accepted configuration** (compiled dependency graph acyclic — what `ValidateCircularDeps` checks, C07 — and
the resolvers' recorded dependencies present): a shared service is instantiated once per container across any history -/
theorem shared_once_for_acyclic (p : Runtime.Prog) (hac : cyclic (buildGraph p.out) = false)
    (hw : Runtime.ArgsRecorded p) (hd : Runtime.ParamDepsRecorded p) (F : Nat) (ops : List Runtime.Op) (st : Runtime.St)
    (id : String) (v : Runtime.RV) (hsc : Runtime.effScope p st id = .shared) (hc : st.shared.lookup id = some v) :
    (Runtime.runOps F p st ops).shared.lookup id = some v ∧
    (∃ suf, (Runtime.runOps F p st ops).evalLog = st.evalLog ++ suf ∧ ("ctor:" ++ id) ∉ suf) :=
  let h := shared_once_per_container p _ _ (Runtime.sranked_of_acyclic p hac hw) (Runtime.ranked_of_acyclic p hac hd) F ops st id v hsc hc
  ⟨h.1, h.2.1⟩

/-- … and what a context's bag holds stays there -/
theorem contextual_once_for_acyclic (p : Runtime.Prog) (hac : cyclic (buildGraph p.out) = false)
    (hw : Runtime.ArgsRecorded p) (hd : Runtime.ParamDepsRecorded p) (F : Nat) (ops : List Runtime.Op) (st : Runtime.St)
    (c : String) (hnew : Runtime.Op.newCtx c ∉ ops) (id : String) (v : Runtime.RV)
    (hc : (Runtime.bagOf st c).lookup id = some v) :
    (Runtime.bagOf (Runtime.runOps F p st ops) c).lookup id = some v :=
  contextual_once_per_context p _ _ (Runtime.sranked_of_acyclic p hac hw) (Runtime.ranked_of_acyclic p hac hd) F ops st c hnew id v hc

/-- **for every configuration the build accepts**: `p` runs what `Compile.compile` returned for the input `i` (with the function
table `compileMeta` registered) and the compiled dependency graph is acyclic (`ValidateCircularDeps`, C07). No recording
hypothesis is left: the compiler's output records every dependency the runtime follows (`compiled_recorded`:
`resolve_records_dependency` lifted over arguments, fields, calls and decorators, `compiled_params_recorded` for parameters).
Then across ANY history of Get / GetInContext / GetTaggedBy / GetTaggedByInContext / GetParam / new contexts a shared service
is instantiated once per container … (that `compile` succeeds on real inputs is not shown by an `example` here — `decide` does
not reduce the validators — but by the correspondence: the model's `compile` returns the real compiler's output on every
accepted sample of every run) -/
theorem shared_once_for_compiled (p : Runtime.Prog) (bv : String) (i : Input.Input) (hc : Runtime.CompiledFrom p bv i)
    (hac : cyclic (buildGraph p.out) = false) (F : Nat) (ops : List Runtime.Op) (st : Runtime.St)
    (id : String) (v : Runtime.RV) (hsc : Runtime.effScope p st id = .shared) (hcache : st.shared.lookup id = some v) :
    (Runtime.runOps F p st ops).shared.lookup id = some v ∧
    (∃ suf, (Runtime.runOps F p st ops).evalLog = st.evalLog ++ suf ∧ ("ctor:" ++ id) ∉ suf) :=
  shared_once_for_acyclic p hac (Runtime.compiled_recorded p bv i hc).1 (Runtime.compiled_recorded p bv i hc).2 F ops st id v hsc hcache

/-- … and a contextual one once per context -/
theorem contextual_once_for_compiled (p : Runtime.Prog) (bv : String) (i : Input.Input) (hc : Runtime.CompiledFrom p bv i)
    (hac : cyclic (buildGraph p.out) = false) (F : Nat) (ops : List Runtime.Op) (st : Runtime.St)
    (c : String) (hnew : Runtime.Op.newCtx c ∉ ops) (id : String) (v : Runtime.RV)
    (hb : (Runtime.bagOf st c).lookup id = some v) :
    (Runtime.bagOf (Runtime.runOps F p st ops) c).lookup id = some v :=
  contextual_once_for_acyclic p hac (Runtime.compiled_recorded p bv i hc).1 (Runtime.compiled_recorded p bv i hc).2 F ops st c hnew id v hb

-- non-vacuity of the history theorems: a two-service program (a depends on the shared b and carries a tag) is ranked
def demoHist : Runtime.Prog :=
  { out := { services := [
      { name := "a", constructor := "fx.NewA", args := [{ code := "", raw := .str "@b", depServices := ["b"] }],
        tags := [{ name := "t", priority := 0 }] },
      { name := "b", constructor := "fx.NewA", scope := .shared }] },
    imports := [], fns := [], env := [] }
theorem demoHist_kind : Runtime.argKind { code := "", raw := .str "@b", depServices := ["b"] } = some .service := by decide
example : Runtime.SRanked demoHist (fun n => if n = "a" then 1 else 0) := by
  intro s hs d hd
  simp only [demoHist, List.mem_cons, List.not_mem_nil, or_false] at hs
  rcases hs with rfl | rfl
  · rcases hd with ⟨a, ha, h⟩ | ⟨fl, hfl, _⟩ | ⟨c, hc, _⟩ | ⟨dc, hdc, _⟩
    · simp only [List.mem_cons, List.not_mem_nil, or_false] at ha
      subst ha
      rcases h with ⟨_, rfl⟩ | ⟨h1, _⟩
      · decide
      · rw [demoHist_kind] at h1; cases h1
    · simp at hfl
    · simp at hc
    · simp [demoHist] at hdc
  · rcases hd with ⟨a, ha, h⟩ | ⟨fl, hfl, _⟩ | ⟨c, hc, _⟩ | ⟨dc, hdc, _⟩
    · simp at ha
    · simp at hfl
    · simp at hc
    · simp [demoHist] at hdc
example : Runtime.Ranked demoHist (fun _ => 0) := by
  intro prm h; simp [demoHist] at h

-- … and it meets the hypotheses of the acyclic form
example : cyclic (buildGraph demoHist.out) = false := by decide
example : Runtime.ParamDepsRecorded demoHist := by intro prm h; simp [demoHist] at h
example : Runtime.ArgsRecorded demoHist := by
  constructor
  · intro s hs a ha
    simp only [demoHist, List.mem_cons, List.not_mem_nil, or_false] at hs
    rcases hs with rfl | rfl
    · simp [Output.Service.allArgs] at ha
      subst ha
      exact ⟨fun _ => by simp, fun h => by rw [demoHist_kind] at h; cases h⟩
    · simp [Output.Service.allArgs] at ha
  · intro d hd; simp [demoHist] at hd

end GM.C05
