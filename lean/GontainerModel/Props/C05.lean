/-
C05 — scope semantics and the shared-on-contextual rule (build-time part; the run-time instance
identity across histories is the executable runtime model tied by level B).
-/
import GontainerModel.Lemmas.Graph
import GontainerModel.Lemmas.DepGraph
import GontainerModel.Lemmas.SortedMap
import GontainerModel.Model.Runtime
import GontainerModel.Generated.Template
namespace GM.C05
open GM GM.Graph GM.Output

/-- **the scope rule is exact** (graph form): `(s, c)` is reported iff `s` is a service declared
shared, `c` is declared contextual, and `c` is reachable from `s` in the dependency graph -/
theorem scope_errors_graph (o : Output) (s c : String) :
    (s, c) ∈ scopePairs o ↔
      (∃ sv ∈ o.services, sv.name = s) ∧ scopeOf o s = .shared ∧ scopeOf o c = .contextual ∧
      Path (buildGraph o) (nService s) (nService c) := by
  unfold scopePairs
  simp only [List.mem_flatMap]
  constructor
  · rintro ⟨s', hs', hmem⟩
    have hs'1 : s' ∈ o.services.map (·.name) := by
      have := (List.mergeSort_perm _ _).subset hs'
      exact List.mem_eraseDups.mp this
    split at hmem
    · rename_i hsh
      simp only [List.mem_filterMap] at hmem
      obtain ⟨id, hid, hsome⟩ := hmem
      have hid' : id ∈ (reachD (buildGraph o) (nService s')).filter (· != nService s') := (List.mergeSort_perm _ _).subset hid
      have hreach : id ∈ reachD (buildGraph o) (nService s') := (List.mem_filter.mp hid').1
      cases id with
      | service n =>
        simp only [isServiceNode] at hsome
        split at hsome
        · rename_i hctx
          simp at hsome
          obtain ⟨rfl, rfl⟩ := hsome
          obtain ⟨sv, hsv, rfl⟩ := List.mem_map.mp hs'1
          exact ⟨⟨sv, hsv, rfl⟩, hsh, hctx, (mem_reachD _ _ _).mp hreach⟩
        · simp at hsome
      | _ => simp [isServiceNode] at hsome
    · simp at hmem
  · rintro ⟨⟨sv, hsv, rfl⟩, hsh, hctx, p⟩
    refine ⟨sv.name, ?_, ?_⟩
    · apply (List.mergeSort_perm _ _).symm.subset
      exact List.mem_eraseDups.mpr (List.mem_map_of_mem hsv)
    · simp only [hsh, ↓reduceIte, List.mem_filterMap]
      refine ⟨nService c, ?_, by simp [isServiceNode, hctx]⟩
      apply (List.mergeSort_perm _ _).symm.subset
      refine List.mem_filter.mpr ⟨(mem_reachD _ _ _).mpr p, ?_⟩
      have : nService c ≠ nService sv.name := by
        intro e
        have : c = sv.name := by injection e
        rw [this, hsh] at hctx
        cases hctx
      simpa using this

/-- **the scope rule is exact** (the documentation's terms): `(s, c)` is reported iff `s` is a
service declared shared, `c` is declared contextual, and `s` transitively depends on `c` — through
arguments, fields and calls (`allArgs`), requested tags → their carriers, carried tags → decorators →
their dependencies.  Nothing else is rejected for scope reasons. -/
theorem scope_errors_exact (o : Output) (s c : String) :
    (s, c) ∈ scopePairs o ↔
      (∃ sv ∈ o.services, sv.name = s) ∧ scopeOf o s = .shared ∧ scopeOf o c = .contextual ∧
      TC (ConfigDep o) (.service s) (.service c) := by
  rw [scope_errors_graph]
  have : Path (buildGraph o) (nService s) (nService c) ↔ TC (ConfigDep o) (.service s) (.service c) :=
    ⟨tc_of_path o (.service s) (.service c), path_of_tc o (.service s) (.service c)⟩
  rw [this]

/-- accepted for scope reasons ⇔ no pair: the diagnostics are one line per pair -/
theorem scope_accept_iff (o : Output) : validateScopes o = [] ↔ scopePairs o = [] := by
  unfold validateScopes
  simp [Errs.pfx]

/-- **resolved scope of an undeclared service** (runtime model of `warmUpScopes`): contextual iff a
service DECLARED contextual is reachable, shared otherwise; declared scopes are kept -/
theorem resolved_scope (p : Runtime.Prog) (st : Runtime.St) (n : String) (s : Service)
    (hov : st.ovServices.lookup n = none) (hs : Runtime.svcByName p n = some s) :
    Runtime.effScope p st n =
      match s.scope with
      | .default =>
        if ((reachD (buildGraph p.out) (nService n)).filterMap isServiceNode).any
            (fun d => (st.ovServices.lookup d).isNone && scopeOf p.out d = .contextual) then .contextual else .shared
      | sc => sc := by
  unfold Runtime.effScope
  simp only [hov, hs]
  cases s.scope <;> simp

/-- keyword → compiled scope → emitted setter is one-to-one (regenerated template table) -/
theorem scope_keyword_mapping :
    Compile.scopeOut (some .shared) = .shared ∧ Compile.scopeOut (some .contextual) = .contextual ∧
    Compile.scopeOut (some .nonShared) = .nonShared ∧ Compile.scopeOut none = .default ∧
    Generated.tplScopeSetters = [("IsDefault", "SetScopeDefault"), ("IsShared", "SetScopeShared"),
      ("IsContextual", "SetScopeContextual"), ("IsNonShared", "SetScopeNonShared")] := by
  refine ⟨rfl, rfl, rfl, rfl, by decide⟩

/-- a shared service that is already cached is returned as is: one instance per container -/
theorem shared_once (f : Nat) (p : Runtime.Prog) (st : Runtime.St) (bag : Runtime.Bag) (n : String) (s : Service) (v : Runtime.RV)
    (hov : st.ovServices.lookup n = none) (hs : Runtime.svcByName p n = some s)
    (hsc : Runtime.effScope p st n = .shared) (hc : st.shared.lookup n = some v) :
    Runtime.get (f + 1) p st bag n = (st, bag, .ok v) := by
  unfold Runtime.get
  simp [hov, hs, hsc, hc]

/-- a contextual service already in the bag of the current call tree / context is returned as is -/
theorem contextual_once_per_bag (f : Nat) (p : Runtime.Prog) (st : Runtime.St) (bag : Runtime.Bag) (n : String) (s : Service) (v : Runtime.RV)
    (hov : st.ovServices.lookup n = none) (hs : Runtime.svcByName p n = some s)
    (hsc : Runtime.effScope p st n = .contextual) (hc : bag.lookup n = some v) :
    Runtime.get (f + 1) p st bag n = (st, bag, .ok v) := by
  unfold Runtime.get
  simp [hov, hs, hsc, hc]

/-- **undeclared scope** (the runtime's rule, as modelled): a service with no declared scope is
contextual iff it transitively depends — in the documented relation — on a service declared
contextual, and shared otherwise -/
theorem default_scope_documented (p : Runtime.Prog) (st : Runtime.St) (n : String) (s : Service)
    (hov : st.ovServices = []) (hs : Runtime.svcByName p n = some s) (hd : s.scope = .default) :
    (Runtime.effScope p st n = .contextual ↔
      ∃ c, scopeOf p.out c = .contextual ∧ TC (ConfigDep p.out) (.service n) (.service c)) ∧
    (Runtime.effScope p st n = .contextual ∨ Runtime.effScope p st n = .shared) := by
  have look : ∀ k, (st.ovServices.lookup k) = none := by intro k; rw [hov]; rfl
  unfold Runtime.effScope
  simp only [look, Option.isSome_none, Bool.false_eq_true, ↓reduceIte, hs, hd, Option.isNone_none, Bool.true_and]
  constructor
  · constructor
    · intro h
      split at h
      · rename_i hany
        obtain ⟨d, hdm, hdc⟩ := List.any_eq_true.mp hany
        obtain ⟨id, hid, hsome⟩ := List.mem_filterMap.mp hdm
        have hp := (mem_reachD _ _ _).mp hid
        cases id with
        | service m =>
          simp [isServiceNode] at hsome
          subst hsome
          exact ⟨m, by simpa using hdc, tc_of_path p.out (.service n) (.service m) hp⟩
        | _ => simp [isServiceNode] at hsome
      · cases h
    · rintro ⟨c, hc, htc⟩
      have hp := path_of_tc p.out _ _ htc
      have hany : ((List.filterMap isServiceNode (reachD (buildGraph p.out) (nService n))).any fun d =>
          decide (scopeOf p.out d = Scope.contextual)) = true := by
        apply List.any_eq_true.mpr
        exact ⟨c, List.mem_filterMap.mpr ⟨nService c, (mem_reachD _ _ _).mpr hp, by simp [isServiceNode, nService]⟩, by simp [hc]⟩
      rw [if_pos hany]
  · split <;> simp

end GM.C05
