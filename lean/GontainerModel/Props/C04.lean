/-
C04 — tagged collections and decorators are applied as documented.
-/
import GontainerModel.Lemmas.C04Aux
import GontainerModel.Model.Runtime
import GontainerModel.Lemmas.Merge
import GontainerModel.Lemmas.TaggedRuntime
namespace GM.C04
open GM

def carriers (o : Output.Output) (tag : String) : List (String × Int) :=
  o.services.filterMap fun s => (s.tags.find? (·.name == tag)).map fun t => (s.name, t.priority)

/-- **exactly the tagged services**: the listed names are a permutation of the carriers of the tag -/
theorem tagged_exact (o : Output.Output) (tag : String) :
    (Runtime.taggedOrder o tag).Perm ((carriers o tag).map (·.1)) := by
  unfold Runtime.taggedOrder carriers
  exact (List.mergeSort_perm _ _).map _

/-- a service is listed iff it carries the tag -/
theorem tagged_mem (o : Output.Output) (tag n : String) :
    n ∈ Runtime.taggedOrder o tag ↔ ∃ s ∈ o.services, s.name = n ∧ (s.tags.any (·.name == tag)) = true := by
  rw [(tagged_exact o tag).mem_iff]
  unfold carriers
  simp only [List.mem_map, List.mem_filterMap, Option.map_eq_some_iff]
  constructor
  · rintro ⟨⟨n', pr⟩, ⟨s, hs, t, ht, he⟩, rfl⟩
    simp only [Prod.mk.injEq] at he
    refine ⟨s, hs, he.1, ?_⟩
    have := List.find?_some ht
    exact List.any_eq_true.mpr ⟨t, List.mem_of_find?_eq_some ht, this⟩
  · rintro ⟨s, hs, rfl, ha⟩
    obtain ⟨t, ht, hp⟩ := List.any_eq_true.mp ha
    cases hf : s.tags.find? (·.name == tag) with
    | none =>
      have := List.find?_eq_none.mp hf t ht
      simp_all
    | some t' => exact ⟨(s.name, t'.priority), ⟨s, hs, t', hf, rfl⟩, rfl⟩

/-- **ordered by priority descending, then name ascending** -/
theorem tagged_sorted (o : Output.Output) (tag : String) :
    ((carriers o tag).mergeSort tagLe).Pairwise (fun a b => tagLe a b = true) ∧
    Runtime.taggedOrder o tag = ((carriers o tag).mergeSort tagLe).map (·.1) := by
  refine ⟨List.pairwise_mergeSort tagLe_trans tagLe_total _, ?_⟩
  unfold Runtime.taggedOrder carriers tagLe
  rfl

/-- the decorators the runtime applies to a service: those whose tag the service carries -/
def decoratorsFor (o : Output.Output) (s : Output.Service) : List Output.Decorator :=
  o.decorators.filter fun d => s.tags.any (·.name == d.tag)

/-- **declaration order**: the applied decorators are a sublist of the decorator list, in list order -/
theorem decorators_in_declaration_order (o : Output.Output) (s : Output.Service) :
    (decoratorsFor o s).Sublist o.decorators ∧
    ∀ d, d ∈ decoratorsFor o s ↔ d ∈ o.decorators ∧ (s.tags.any (·.name == d.tag)) = true := by
  unfold decoratorsFor
  exact ⟨List.filter_sublist, fun d => by simp [List.mem_filter]⟩

/-- compilation keeps the decorator list as declared: same length, same order, same tags and
functions — so file order (C09: decorators of merged files are concatenated in file order) is the
order the container applies them in -/
theorem decorator_order_compiled (i : Input.Input) (fns : List Token.FnDef) (st : Imports.St) :
    (Compile.compileDecorators i fns st).1.map (fun d => (d.tag, d.raw)) =
      i.decorators.map (fun d => (d.tag, d.decorator)) := by
  unfold Compile.compileDecorators
  simpa using compileDecorators_fold fns i.decorators st [] [] 0

theorem decorator_order_across_files (a b : Input.Input) :
    (Input.merge a b).decorators = a.decorators ++ b.decorators := rfl

/-- tags and priorities are copied verbatim -/
theorem tags_copied (name : String) (svc : Input.Service) (dm : Option Bool)
    (fns : List Token.FnDef) (st : Imports.St) (h : svc.todo.getD false = false) :
    (Compile.compileService name svc dm fns st).1.tags.map (fun t => (t.name, t.priority)) =
      svc.tags.map (fun t => (t.name, t.priority)) := by
  unfold Compile.compileService
  simp [h]

/-! ### at run time (runtime model) -/

/-- **`!tagged t` / `GetTaggedBy(t)` injects exactly the tagged services, in the documented order, each built per its own
definition**: the call is the sequence of `get`s of the names `taggedOrder` lists (priority descending, then name ascending —
`tagged_exact`, `tagged_sorted`), with the state and the context bag handed from one to the next; the first failure fails the
whole call -/
theorem tagged_at_run_time (f : Nat) (p : Runtime.Prog) (st : Runtime.St) (bag : Runtime.Bag) (tag : String) (hov : st.ovServices = []) :
    Runtime.getTagged (f + 1) p st bag tag =
      match Runtime.getAll (fun st bag n => Runtime.get f p st bag n) st bag (Runtime.taggedOrder p.out tag) with
      | (st', bag', .ok vs) => (st', bag', .ok (.slice vs))
      | (st', bag', .error e) => (st', bag', .error ("getTaggedBy(" ++ Val.quoteStr tag ++ "): " ++ e)) :=
  Runtime.getTagged_is_sequence f p st bag tag hov

/-- **every decorator is applied to every service carrying its tag, and only to those, in declaration order**: the decorator
pass over the whole list does to the object, the state and the error exactly what the pass over `decoratorsFor` (the sublist
of decorators whose tag the service carries, in list order — `decorators_in_declaration_order`) does; each step hands the
decorator the tag, the service name and the current object followed by its resolved arguments, and its result replaces the
object (`Runtime.decoStep`); the pass runs after the last call (`Runtime.getBody`) -/
theorem decorators_at_run_time (ras : Runtime.St → Runtime.Bag → List Output.Arg → Runtime.St × Runtime.Bag × Except String (List Runtime.RV))
    (p : Runtime.Prog) (s : Output.Service) (id : String) (st : Runtime.St) (bag : Runtime.Bag) (cur : Runtime.RV) :
    let r := p.out.decorators.foldl (Runtime.decoStep ras p s id) (st, bag, cur, none, 0)
    let r' := (decoratorsFor p.out s).foldl (Runtime.decoStep ras p s id) (st, bag, cur, none, 0)
    (r.1, r.2.1, r.2.2.1, r.2.2.2.1) = (r'.1, r'.2.1, r'.2.2.1, r'.2.2.2.1) :=
  Runtime.decoFold_filter ras p s id p.out.decorators st bag cur none 0

-- non-vacuity: negative, equal and large priorities
def demo : Output.Output :=
  { services := [{ name := "b", tags := [{ name := "t", priority := 5 }] }, { name := "a", tags := [{ name := "t", priority := 5 }] },
                 { name := "c", tags := [{ name := "t", priority := -1 }] }, { name := "d", tags := [{ name := "t", priority := 100 }] },
                 { name := "e", tags := [{ name := "u", priority := 0 }] }] }
example : carriers demo "t" = [("b", 5), ("a", 5), ("c", -1), ("d", 100)] := by decide
example : tagLe ("d", 100) ("a", 5) = true ∧ tagLe ("a", 5) ("b", 5) = true ∧ tagLe ("b", 5) ("c", -1) = true := by decide

end GM.C04
