/-
C09 — multi-file merge semantics and split invariance.
`≈` (`Input.Equiv`): equal as configurations — identical scalar attributes, identical map
representations for parameters/meta, identical decorators, and the same service bound to every
name (the representation of the services map may list keys in a different order, which no
consumer can observe: everything downstream goes through `AMap.sorted`/`AMap.get`).
-/
import GontainerModel.Lemmas.Merge
import GontainerModel.Lemmas.ReadOrder
namespace GM.C09
open GM GM.Input

def Equiv (a b : Input) : Prop :=
  a.version = b.version ∧ a.mt = b.mt ∧ a.params = b.params ∧
  (∀ k, a.services.get k = b.services.get k) ∧ a.decorators = b.decorators

infix:50 " ≈ " => Equiv

/-- merging is associative -/
theorem merge_assoc (a b c : Input) : merge (merge a b) c ≈ merge a (merge b c) := by
  refine ⟨?_, ?_, ?_, ?_, ?_⟩
  · simp [merge, mergePtr_assoc]
  · simp [merge, mergeMeta_assoc]
  · simp [merge, mergeMap_assoc]
  · intro k
    simp only [merge, get_mergeServices, optMerge_assoc]
  · simp [merge, List.append_assoc]

/-- the empty file is a left identity -/
theorem merge_empty_left (a : Input) : merge {} a ≈ a := by
  refine ⟨?_, ?_, ?_, ?_, ?_⟩
  · simp [merge, mergePtr_none_left]
  · simp [merge, mergeMeta, mergePtr_none_left, mergeMap_nil_left]
  · simp [merge, mergeMap_nil_left]
  · intro k
    simp only [merge, get_mergeServices]
    simp [AMap.get, optMerge]
    cases List.lookup k a.services <;> rfl
  · simp [merge]

/-- … and a right identity -/
theorem merge_empty_right (a : Input) : merge a {} ≈ a := by
  refine ⟨?_, ?_, ?_, ?_, ?_⟩
  · simp [merge, mergePtr]
  · simp [merge, mergeMeta, mergePtr, mergeMap]
  · simp [merge, mergeMap]
  · intro k
    simp only [merge, get_mergeServices]
    simp [AMap.get, optMerge]
    cases List.lookup k a.services <;> rfl
  · simp [merge]

/-- equivalent inputs are indistinguishable to every consumer that iterates the services in
sorted-key order (as all of gontainer does) -/
theorem equiv_sorted_services (a b : Input) (h : a ≈ b) :
    AMap.sorted a.services = AMap.sorted b.services := AMap.sorted_congr _ _ h.2.2.2.1

/-! ### the per-attribute rules -/

/-- scalars: the later file wins when it sets the attribute, otherwise the earlier value stays -/
theorem rule_scalar {α : Type} (a : Option α) (x : α) : mergePtr a (some x) = some x ∧ mergePtr a none = a := ⟨rfl, rfl⟩

/-- mappings: key-wise union, later value wins -/
theorem rule_map {V : Type} (a b : AMap V) (k : String) :
    (mergeMap a b).get k = match b.get k with | some v => some v | none => a.get k := by
  simp only [mergeMap, AMap.get, List.lookup_append]
  cases List.lookup k b <;> simp

/-- arguments: later non-empty arguments replace the earlier ones -/
theorem rule_args (a b : List Val) : mergeArgs a b = if b = [] then a else b := by
  unfold mergeArgs; cases b <;> simp

/-- calls, tags (per service) and decorators are concatenated in file order; services present in
both files are merged attribute-wise, others are taken over -/
theorem rule_lists (s1 s2 : Service) (i1 i2 : Input) :
    (mergeService s1 s2).calls = s1.calls ++ s2.calls ∧ (mergeService s1 s2).tags = s1.tags ++ s2.tags ∧
    (merge i1 i2).decorators = i1.decorators ++ i2.decorators := ⟨rfl, rfl, rfl⟩

theorem rule_services (a b : Input) (k : String) :
    (merge a b).services.get k = optMerge (a.services.get k) (b.services.get k) := by
  simp [merge, get_mergeServices]

/-! ### split invariance -/

/-- splitting a mapping by ANY predicate on its keys and merging the parts gives back the same map -/
theorem split_map {V : Type} (m : AMap V) (p : String → Bool) (k : String) :
    (mergeMap (m.filter fun e => p e.1) (m.filter fun e => !p e.1)).get k = m.get k := by
  rw [rule_map]
  have h1 := lookup_filter_key m p k
  have h2 := lookup_filter_key m (fun x => !p x) k
  simp only [AMap.get] at *
  rw [h1, h2]
  cases hp : p k <;> simp
  cases List.lookup k m <;> rfl

/-- a service split into two attribute groups — scalars anywhere (the later one wins only where it
is set), calls and tags cut into prefix/suffix, fields partitioned by key, arguments kept whole in
one part — merges back to the original (fields up to map equality) -/
theorem split_service (s : Service) (n m : Nat) (p : String → Bool) (argsFirst : Bool)
    (pick : Fin 7 → Bool) :
    let part1 : Service :=
      { getter := if pick 0 then s.getter else none, mustGetter := if pick 1 then s.mustGetter else none,
        type := if pick 2 then s.type else none, value := if pick 3 then s.value else none,
        constructor := if pick 4 then s.constructor else none, scope := if pick 5 then s.scope else none,
        todo := if pick 6 then s.todo else none,
        args := if argsFirst then s.args else [], calls := s.calls.take n, tags := s.tags.take m,
        fields := s.fields.filter fun e => p e.1 }
    let part2 : Service :=
      { getter := if pick 0 then none else s.getter, mustGetter := if pick 1 then none else s.mustGetter,
        type := if pick 2 then none else s.type, value := if pick 3 then none else s.value,
        constructor := if pick 4 then none else s.constructor, scope := if pick 5 then none else s.scope,
        todo := if pick 6 then none else s.todo,
        args := if argsFirst then [] else s.args, calls := s.calls.drop n, tags := s.tags.drop m,
        fields := s.fields.filter fun e => !p e.1 }
    let r := mergeService part1 part2
    r.getter = s.getter ∧ r.mustGetter = s.mustGetter ∧ r.type = s.type ∧ r.value = s.value ∧
    r.constructor = s.constructor ∧ r.scope = s.scope ∧ r.todo = s.todo ∧ r.args = s.args ∧
    r.calls = s.calls ∧ r.tags = s.tags ∧ ∀ k, r.fields.get k = s.fields.get k := by
  intro part1 part2 r
  have hp : ∀ {α : Type} (b : Bool) (x : Option α),
      mergePtr (if b then x else none) (if b then none else x) = x := by
    intro α b x; cases b <;> cases x <;> rfl
  refine ⟨hp _ _, hp _ _, hp _ _, hp _ _, hp _ _, hp _ _, hp _ _, ?_, ?_, ?_, ?_⟩
  · show mergeArgs (if argsFirst then s.args else []) (if argsFirst then [] else s.args) = s.args
    cases argsFirst <;> simp [mergeArgs_nil_left, mergeArgs_nil_right]
  · show s.calls.take n ++ s.calls.drop n = s.calls
    exact List.take_append_drop n s.calls
  · show s.tags.take m ++ s.tags.drop m = s.tags
    exact List.take_append_drop m s.tags
  · intro k
    exact split_map s.fields p k

/-- decorators cut into a prefix file and a suffix file merge back in order -/
theorem split_decorators (i : Input) (n : Nat) :
    (merge { i with decorators := i.decorators.take n } { decorators := i.decorators.drop n }).decorators
      = i.decorators := by
  simp [merge]

/-- the merged input of a run is the left fold of `merge` over the files in read order, starting
from the built-in defaults; any regrouping of consecutive files gives an equivalent input -/
theorem readAll_append (xs ys : List Input) :
    readAll (xs ++ ys) = ys.foldl merge (readAll xs) := by
  simp [readAll, List.foldl_append]

/-- **files are merged in the order of the -i patterns and, within one pattern, in byte-wise order of the cleaned paths**: for
every world (whatever `Glob`, `Clean` and reading return) the input the run compiles is the left fold of `merge`, from the built-in
defaults, over the files in that order; a file that cannot be read contributes nothing (and fails the step, C10) -/
theorem files_read_in_documented_order (w : Runner.World) (ind : String) (i0 : Input) :
    (Runner.readConfig w ind i0).st = (Runner.filesInOrder w).foldl (Runner.mergeFile w) i0 :=
  Runner.readConfig_input w ind i0

/-- the read order, spelled out: patterns in the given order; the files of a pattern are its cleaned matches (each as often as it
was matched) in ascending byte-wise order -/
theorem read_order_spelled_out (w : Runner.World) :
    Runner.filesInOrder w = w.patterns.flatMap (fun p => (Runner.patternFiles w p).1) ∧
    ∀ p ms, w.glob p = .ok ms →
      (Runner.patternFiles w p).1.Perm (ms.map w.clean) ∧
      (Runner.patternFiles w p).1.Pairwise (fun a b => AMap.strLe a b = true) :=
  ⟨rfl, fun p ms h => Runner.patternFiles_sorted w p ms h⟩

/-- the order is byte-wise, not case-insensitive, numeric or by collation: `B` before `a`, `x10` before `x9`, `z` before `é` -/
theorem byte_order_examples :
    AMap.strLe "cfg/B.yaml" "cfg/a.yaml" = true ∧ AMap.strLe "cfg/a.yaml" "cfg/B.yaml" = false ∧
    AMap.strLe "cfg/x10.yaml" "cfg/x9.yaml" = true ∧ AMap.strLe "cfg/z.yaml" "cfg/é.yaml" = true ∧
    AMap.strLe "cfg/a-b/x.yaml" "cfg/a/x.yaml" = true := by decide

-- non-vacuity
example : merge { params := [("a", .int 1)] } { params := [("a", .int 2), ("b", .null)] }
    = { params := [("a", .int 2), ("b", .null), ("a", .int 1)] } := by decide
example : (mergeMap [("a", Val.int 1)] [("a", .int 2)]).get "a" = some (.int 2) := by decide

end GM.C09
