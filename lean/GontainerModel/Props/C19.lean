/-
C19 — self-hosting fixpoint: the shipped wiring is what its YAML declares.
The byte comparison is a computation on one instance and is performed by the check; what is logic:
the shipped wiring read from the checked-in generated file (regenerated table) has the resolver,
factory, compiler-step, runner-step and validation-rule order the model is written against, and a
fixpoint of regeneration is stable under further generations.
-/
import GontainerModel.Generated.Wiring
import GontainerModel.Model.Compile
namespace GM.C19
open GM

/-- one generation: rebuild the tool with generated file `f` and regenerate -/
def generations {α : Type} (regen : α → α) : Nat → α → α
  | 0, f => f
  | n+1, f => generations regen n (regen f)

/-- if one regeneration reproduces the checked-in file, every later generation does -/
theorem fixpoint_stable {α : Type} (regen : α → α) (f : α) (h : regen f = f) (n : Nat) :
    generations regen n f = f := by
  induction n with
  | zero => rfl
  | succ n ih => simp [generations, h, ih]

/-- the checked-in container wires the resolver chain, the token factories, the compiler steps, the
runner steps and the output rules in the order the YAML files declare (and the model uses) -/
theorem shipped_wiring :
    (Generated.wiring.lookup "argResolver").map (·.2.1) = some (Compile.argChain.map Compile.Resolver.wiringName) ∧
    (Generated.wiring.lookup "primitiveArgResolver").map (·.2.1) = some (Compile.paramChain.map Compile.Resolver.wiringName) ∧
    (Generated.wiring.lookup "tokenStrategyFactory").map (·.2.1) = some (Token.baseFactories.map Token.Factory.wiringName) ∧
    (Generated.wiring.lookup "compiler").map (·.2.1) =
      some ["@stepValidateInput", "@stepCompileMeta", "@stepCompileParams", "@stepCompileServices", "@stepCompileDecorators"] ∧
    (Generated.wiring.lookup "runner").map (·.2.1) =
      some ["@stepDefaultInput", "@stepReadConfig", "@stepCompile", "@stepValidateOutput", "@stepCodeGenerator"] ∧
    (Generated.wiring.lookup "stepValidateOutput").map (·.2.1) =
      some ["=Validate output", "@stepOutputServicesScopes", "@stepOutputCircularDeps", "@stepOutputParamsExist", "@stepOutputServicesExist"] := by
  decide

/-- **the shipped wiring is what its YAML declares**: service by service, the checked-in generated container
(read with go/ast) has the constructor, the dependency arguments in order and the tags that
internal/gontainer/gontainer.yaml + gontainer_*.yaml (decoded and merged by the real code) declare, todo
services being wired as the `service todo` error constructor; likewise the decorators.  Both tables are
regenerated on every run. -/
theorem yaml_declares_wiring :
    Generated.wiring = Generated.yamlWiring ∧ Generated.wiringDecorators = Generated.yamlDecorators := by
  decide

/-- every service of the shipped wiring that is decorated with the verbose switch carries the tag the
single shipped decorator is attached to -/
theorem verbose_steps :
    (Generated.wiring.filter (fun w => w.2.2.2.contains "step-runner-verbose")).map (·.1) =
      ["stepCodeGenerator", "stepCompile", "stepDefaultInput", "stepOutputCircularDeps", "stepOutputParamsExist",
       "stepOutputServicesExist", "stepOutputServicesScopes", "stepReadConfig", "stepValidateOutput"] ∧
    Generated.wiringDecorators = [["step-runner-verbose", "runner.DecorateStepVerboseSwitchable", "@printer", "@printer"]] := by
  decide

end GM.C19
