/-
C08 — output and diagnostics are deterministic and key-order independent.
Go randomises the iteration order of every `range` over a map. Each such statement of /repo
(REGENERATED typed inventory `Generated.mapRangeSites`) is modelled as a function of the map's
bindings IN ARBITRARY ORDER, and proved invariant under every permutation of them.
-/
import GontainerModel.Lemmas.SortedMap
import GontainerModel.Lemmas.Merge
import GontainerModel.Props.C14
import GontainerModel.Model.Runner
import GontainerModel.Generated.Sites
namespace GM.C08
open GM

/-- site `maps.Keys: range input` (and through it `maps.Iterate`, used for services, parameters,
fields, meta.imports, meta.functions, tags): the sorted key list does not depend on the order in
which the map yields its bindings -/
theorem perm_invariant_keys {V : Type} (l₁ l₂ : AMap V) (h : l₁.Perm l₂) (nd : (l₁.map Prod.fst).Nodup) :
    AMap.keys l₁ = AMap.keys l₂ :=
  AMap.keys_congr l₁ l₂ fun k => by rw [AMap.get_perm h nd]

theorem perm_invariant_iterate {V : Type} (l₁ l₂ : AMap V) (h : l₁.Perm l₂) (nd : (l₁.map Prod.fst).Nodup) :
    AMap.sorted l₁ = AMap.sorted l₂ := AMap.sorted_perm h nd

/-- site `input.mergeMap: range m`: the merged map (as a finite map) does not depend on the order
in which either operand is traversed -/
theorem perm_invariant_mergeMap {V : Type} (a₁ a₂ b₁ b₂ : AMap V) (ha : a₁.Perm a₂) (hb : b₁.Perm b₂)
    (nda : (a₁.map Prod.fst).Nodup) (ndb : (b₁.map Prod.fst).Nodup) (k : String) :
    (Input.mergeMap a₁ b₁).get k = (Input.mergeMap a₂ b₂).get k := by
  simp only [Input.mergeMap, AMap.get, List.lookup_append]
  have h1 := AMap.get_perm ha nda k
  have h2 := AMap.get_perm hb ndb k
  simp only [AMap.get] at h1 h2
  rw [h1, h2]

/-- site `imports.Imports: range i.imports` followed by a sort on the (unique) path: the import
block lists the same entries in the same order whatever the iteration order -/
theorem perm_invariant_imports (st : Imports.St) (σ : List (String × String)) (h : σ.Perm st.imports)
    (nd : (st.imports.map Prod.fst).Nodup) :
    Imports.importsList { st with imports := σ } = Imports.importsList st := by
  unfold Imports.importsList
  congr 1
  have p1 := List.mergeSort_perm σ (fun a b => AMap.strLe a.1 b.1)
  have p2 := List.mergeSort_perm st.imports (fun a b => AMap.strLe a.1 b.1)
  have tr : ∀ (a b c : String × String), AMap.strLe a.1 b.1 = true → AMap.strLe b.1 c.1 = true → AMap.strLe a.1 c.1 = true :=
    fun a b c => AMap.strLe_trans a.1 b.1 c.1
  have tot : ∀ (a b : String × String), (AMap.strLe a.1 b.1 || AMap.strLe b.1 a.1) = true := fun a b => AMap.strLe_total a.1 b.1
  have s1 := List.pairwise_mergeSort tr tot σ
  have s2 := List.pairwise_mergeSort tr tot st.imports
  refine List.Perm.eq_of_pairwise ?_ s1 s2 (p1.trans (h.trans p2.symm))
  intro a b ha hb hab hba
  simp only [AMap.strLe, decide_eq_true_eq] at hab hba
  have e : a.1 = b.1 := String.le_antisymm hab hba
  have ha' : a ∈ st.imports := h.subset (p1.subset ha)
  have hb' : b ∈ st.imports := p2.subset hb
  exact Imports.nodup_keys_unique st.imports nd a b ha' hb' e

/-- site `imports.decorateImport: range i.prefixes`: first match over a map — unique by whole-segment
matching (C14) -/
theorem perm_invariant_decorateImport (tbl σ : List (String × String)) (hσ : σ.Perm tbl) (ok : C14.TableOk tbl) (r : String) :
    Imports.decorate σ r = Imports.decorate tbl r := C14.resolve_order_independent tbl σ hσ ok r

/-- site `runner.StepReadConfig.Run: range processed`: the keys are collected and sorted before the
"matches more than one pattern" errors are produced -/
theorem perm_invariant_processed (p₁ p₂ : List (String × List String)) (h : p₁.Perm p₂) (nd : (p₁.map Prod.fst).Nodup) :
    (AMap.sorted p₁).filterMap (fun (f, ps) => if ps.length > 1 then some (f, ps) else none) =
    (AMap.sorted p₂).filterMap (fun (f, ps) => if ps.length > 1 then some (f, ps) else none) := by
  rw [AMap.sorted_perm h nd]

/-- site `input.init: range mapScopeString`: inverting the three-entry scope table gives the same
keyword table for each of its six iteration orders -/
theorem perm_invariant_scope_table :
    ∀ σ ∈ [[(1, "shared"), (2, "contextual"), (3, "non_shared")], [(1, "shared"), (3, "non_shared"), (2, "contextual")],
            [(2, "contextual"), (1, "shared"), (3, "non_shared")], [(2, "contextual"), (3, "non_shared"), (1, "shared")],
            [(3, "non_shared"), (1, "shared"), (2, "contextual")], [(3, "non_shared"), (2, "contextual"), (1, "shared")]],
      ∀ kw ∈ ["shared", "contextual", "non_shared", "other"],
        (σ.map fun (p : Nat × String) => (p.2, p.1)).lookup kw =
        ([(1, "shared"), (2, "contextual"), (3, "non_shared")].map fun (p : Nat × String) => (p.2, p.1)).lookup kw := by
  decide

/-- **every map `range` in the tool is order-independent**: its body is of a form for which the order cannot matter —
it only stores under the range key into another map (`perm_invariant_mergeMap`), or it only collects into a slice that
is sorted before it is used (`perm_invariant_keys`, `perm_invariant_imports`, `perm_invariant_processed`; the sorts are
plain ascending orders on distinct keys, `sort_sites_pinned`) — or it is one of the two sites proved invariant above by
their own theorems. The classification is regenerated from the typed syntax tree, so moving or renaming such a loop
changes nothing, while a new raw range over a map is an undischarged obligation. -/
def provedSites : List String :=
  ["imports.imports.decorateImport: range $1.prefixes", "input.init: range mapScopeString"]

theorem sites_covered :
    (∀ s ∈ Generated.mapRangeSites, s ∈ provedSites) ∧
    (∀ c ∈ Generated.mapRangeClasses,
      c = "stores under the range key into another map" ∨ c = "collects into a slice that is sorted afterwards") := by decide

/-- **every sort in the tool orders strings (or one string field) ascending in the plain byte-wise order** — the order
`AMap.strLe` the model sorts with — whichever library function performs it: a changed comparator (case-insensitive, by
length, reversed) is not of this class, and ties under a coarser comparator would expose Go's map order again -/
theorem sort_sites_pinned :
    ∀ c ∈ Generated.sortSites, c = "ascending: the strings themselves" ∨ c = "ascending: string field .Path" := by decide

/-- **no ambient input**: the tool's own code reads no environment variable, clock, working directory
or random source; its only contacts with the outside are reading the input files, globbing/cleaning
paths, writing the output file and the exit status -/
theorem no_ambient_inputs :
    ∀ a ∈ Generated.ambientAPIs, a ∈ ["os.Exit", "os.ReadFile", "os.WriteFile", "path/filepath.Clean", "path/filepath.Glob"] := by decide

/-- **reordering the keys of a YAML mapping does not change what is compiled**: parameters … -/
theorem key_order_params (i : Input.Input) (σ : AMap Val) (h : σ.Perm i.params) (nd : (σ.map Prod.fst).Nodup)
    (fns : List Token.FnDef) (st : Imports.St) :
    Compile.compileParams { i with params := σ } fns st = Compile.compileParams i fns st := by
  unfold Compile.compileParams
  simp only [AMap.sorted_perm h nd]

/-- … services … -/
theorem key_order_services (i : Input.Input) (σ : AMap Input.Service) (h : σ.Perm i.services) (nd : (σ.map Prod.fst).Nodup)
    (fns : List Token.FnDef) (st : Imports.St) :
    Compile.compileServices { i with services := σ } fns st = Compile.compileServices i fns st := by
  unfold Compile.compileServices
  simp only [AMap.sorted_perm h nd]

/-- … meta.imports and meta.functions … -/
theorem key_order_meta (i : Input.Input) (σi σf : AMap String) (hi : σi.Perm i.mt.imports) (hf : σf.Perm i.mt.functions)
    (ndi : (σi.map Prod.fst).Nodup) (ndf : (σf.map Prod.fst).Nodup) (st : Imports.St) :
    Compile.compileMeta { i with mt := { i.mt with imports := σi, functions := σf } } st = Compile.compileMeta i st := by
  unfold Compile.compileMeta
  simp only [AMap.sorted_perm hi ndi, AMap.sorted_perm hf ndf]

/-- … and the validators see the same sequences -/
theorem key_order_validate (i : Input.Input) (σp : AMap Val) (σs : AMap Input.Service)
    (hp : σp.Perm i.params) (hs : σs.Perm i.services) (ndp : (σp.map Prod.fst).Nodup) (nds : (σs.map Prod.fst).Nodup) (v : String) :
    Validate.validate v { i with params := σp, services := σs } = Validate.validate v i := by
  unfold Validate.validate Validate.validateParams Validate.validateServices Validate.validateMeta Validate.validateDecorators
  simp only [AMap.sorted_perm hp ndp, AMap.sorted_perm hs nds]

end GM.C08
