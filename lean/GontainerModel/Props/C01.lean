/-
C01 — accepted configurations yield Go that compiles (structural part).
What is logic is proved here over the REGENERATED tables: the templates only emit runtime API
that exists in the pinned runtime, every scope has a setter, the getter's error path is typed for
every `type`, the reserved-getter set covers everything a generated method could collide with.
The verdict of the Go type checker itself is observed per sample by the check (translation
validation), not proved.
-/
import GontainerModel.Generated.Template
import GontainerModel.Model.Validate
namespace GM.C01
open GM

/-- every method the constructor template calls on a `container.Service` exists in the pinned runtime -/
theorem emitted_service_api_exists : ∀ m ∈ Generated.tplServiceMethods, m ∈ Generated.rtServiceMethods := by decide

/-- every container method the templates call exists -/
theorem emitted_container_api_exists : ∀ m ∈ Generated.tplContainerMethods, m ∈ Generated.rtContainerMethods := by decide

/-- every package-level symbol of the helper packages the templates reference exists -/
theorem emitted_pkg_symbols_exist :
    (∀ s ∈ Generated.tplContainerPkgSymbols, s ∈ Generated.rtPkg_container) ∧
    (∀ s ∈ Generated.tplGroupErrorSymbols, s ∈ Generated.rtPkg_grouperror) ∧
    (∀ s ∈ Generated.tplExporterSymbols, s ∈ Generated.rtPkg_exporter) ∧
    (∀ s ∈ Generated.tplCallerSymbols, s ∈ Generated.rtPkg_caller) ∧
    (∀ s ∈ Generated.tplCopierSymbols, s ∈ Generated.rtPkg_copier) := by decide

/-- each of the four `output.Scope` predicates has a template branch, and its setter exists -/
theorem scope_setter_total :
    Generated.tplScopeSetters.map (·.1) = ["IsDefault", "IsShared", "IsContextual", "IsNonShared"] ∧
    ∀ p ∈ Generated.tplScopeSetters, p.2 ∈ Generated.rtServiceMethods := by decide

/-- the getter's error path assigns the named results instead of returning the untyped `nil`
(which is not assignable to a non-pointer `type`) -/
theorem getter_error_path_typed : Generated.tplGetterNilReturns = 0 := by decide

/-- the interface asserted by the generated `init()` is implemented by the embedded runtime container -/
theorem init_interface_implemented : ∀ m ∈ Generated.tplInitInterface, m ∈ Generated.rtContainerMethods := by decide

/-- the reserved getter names of the validator model = the runtime container's method set plus the
embedded field of the generated struct: a getter can collide with neither -/
theorem reserved_getters_cover :
    Validate.reservedGetters = Generated.rtContainerMethods ++ Generated.tplStructEmbedded := by decide

/-- the generated file declares no package-level variable (nothing to initialise but `init()`) -/
theorem no_package_vars : Generated.tplPackageVars = 0 := by decide

end GM.C01
