/-
Pinning theorems: every fact REGENERATED from /repo on this run equals the table the hand-written
model was written from. A changed regular expression, resolver order, step order, flag wiring or
template/runtime API breaks exactly the `rfl`/`decide` below that mentions it.
-/
import GontainerModel.Generated.Regex
import GontainerModel.Generated.Wiring
import GontainerModel.Generated.Template
import GontainerModel.Model.Regexes
namespace GM.Pins
open GM

-- token
theorem pin_token_regexTokenRef : Generated.re_token_regexTokenRef = Rx.yamlToken := rfl
theorem pin_token_regexSimpleFn : Generated.re_token_regexSimpleFn = Rx.simpleFn := rfl
-- input validators
theorem pin_input_regexDecoratorsTag : Generated.re_input_regexDecoratorsTag = Rx.decoratorTag := rfl
theorem pin_input_regexDecoratorMethod : Generated.re_input_regexDecoratorMethod = Rx.goFunc := rfl
theorem pin_input_regexpMetaPkg : Generated.re_input_regexpMetaPkg = Rx.goToken := rfl
theorem pin_input_regexpMetaContainerType : Generated.re_input_regexpMetaContainerType = Rx.goToken := rfl
theorem pin_input_regexpMetaContainerConstructor : Generated.re_input_regexpMetaContainerConstructor = Rx.goToken := rfl
theorem pin_input_regexMetaImport : Generated.re_input_regexMetaImport = Rx.import_ := rfl
theorem pin_input_regexMetaImportAlias : Generated.re_input_regexMetaImportAlias = Rx.yamlToken := rfl
theorem pin_input_regexMetaFn : Generated.re_input_regexMetaFn = Rx.goToken := rfl
theorem pin_input_regexMetaGoFn : Generated.re_input_regexMetaGoFn = Rx.goFunc := rfl
theorem pin_input_regexParamName : Generated.re_input_regexParamName = Rx.yamlToken := rfl
theorem pin_input_regexServiceName : Generated.re_input_regexServiceName = Rx.yamlToken := rfl
theorem pin_input_regexServiceGetter : Generated.re_input_regexServiceGetter = Rx.goToken := rfl
theorem pin_input_regexServiceType : Generated.re_input_regexServiceType = Rx.serviceType := rfl
theorem pin_input_regexServiceValue : Generated.re_input_regexServiceValue = Rx.serviceValue := rfl
theorem pin_input_regexServiceConstructor : Generated.re_input_regexServiceConstructor = Rx.goFunc := rfl
theorem pin_input_regexServiceCallName : Generated.re_input_regexServiceCallName = Rx.goToken := rfl
theorem pin_input_regexServiceFieldName : Generated.re_input_regexServiceFieldName = Rx.goToken := rfl
theorem pin_input_regexServiceTag : Generated.re_input_regexServiceTag = Rx.yamlToken := rfl
-- compiler
theorem pin_compiler_regexDecoratorMethod : Generated.re_compiler_regexDecoratorMethod = Rx.goFunc := rfl
theorem pin_compiler_regexMetaGoFn : Generated.re_compiler_regexMetaGoFn = Rx.goFunc := rfl
theorem pin_compiler_regexServiceType : Generated.re_compiler_regexServiceType = Rx.serviceType := rfl
theorem pin_compiler_regexServiceConstructor : Generated.re_compiler_regexServiceConstructor = Rx.goFunc := rfl
-- resolver
theorem pin_resolver_servicePrefixRegex : Generated.re_resolver_servicePrefixRegex = Re.cls [(64, 64)] := rfl
theorem pin_resolver_serviceRegex : Generated.re_resolver_serviceRegex = Rx.argService := rfl
theorem pin_resolver_taggedPrefixRegex : Generated.re_resolver_taggedPrefixRegex = Rx.prefixTagged := rfl
theorem pin_resolver_taggedRegex : Generated.re_resolver_taggedRegex = Rx.argTagged := rfl
theorem pin_resolver_valuePrefixRegex : Generated.re_resolver_valuePrefixRegex = Rx.prefixValue := rfl
theorem pin_resolver_valueRegex : Generated.re_resolver_valueRegex = Rx.argValue := rfl
-- syntax / imports
theorem pin_syntax_regexServiceValue : Generated.re_syntax_regexServiceValue = Rx.serviceValue := rfl
/-- the expression that turns a path element into an identifier part is an internal helper: pinned while it exists (what it
computes is tied by the `alias` correspondence of C14 either way) -/
theorem pin_imports_regexNoAlphaNum :
    Generated.opt_imports_regexNoAlphaNum = none ∨ Generated.opt_imports_regexNoAlphaNum = some (Rx.noAlphaNum, "search") := by
  first | exact Or.inr rfl | exact Or.inl rfl

/-- anchoring of every expression (full = `\A(…)\z`, prefix = `\A(…)`, search = unanchored) -/
theorem pin_kinds :
    [Generated.kind_token_regexTokenRef, Generated.kind_token_regexSimpleFn,
     Generated.kind_input_regexServiceName, Generated.kind_input_regexServiceGetter,
     Generated.kind_input_regexServiceType, Generated.kind_input_regexServiceValue,
     Generated.kind_input_regexServiceConstructor, Generated.kind_input_regexServiceCallName,
     Generated.kind_input_regexServiceFieldName, Generated.kind_input_regexServiceTag,
     Generated.kind_input_regexParamName, Generated.kind_input_regexDecoratorsTag,
     Generated.kind_input_regexDecoratorMethod, Generated.kind_input_regexpMetaPkg,
     Generated.kind_input_regexpMetaContainerType, Generated.kind_input_regexpMetaContainerConstructor,
     Generated.kind_input_regexMetaImport, Generated.kind_input_regexMetaImportAlias,
     Generated.kind_input_regexMetaFn, Generated.kind_input_regexMetaGoFn,
     Generated.kind_compiler_regexDecoratorMethod, Generated.kind_compiler_regexMetaGoFn,
     Generated.kind_compiler_regexServiceType, Generated.kind_compiler_regexServiceConstructor,
     Generated.kind_resolver_serviceRegex, Generated.kind_resolver_taggedRegex,
     Generated.kind_resolver_valueRegex, Generated.kind_syntax_regexServiceValue]
      = List.replicate 28 "full"
    ∧ [Generated.kind_resolver_servicePrefixRegex, Generated.kind_resolver_taggedPrefixRegex,
       Generated.kind_resolver_valuePrefixRegex] = List.replicate 3 "prefix" := by
  refine ⟨rfl, rfl⟩

end GM.Pins
