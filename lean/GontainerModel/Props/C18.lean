/-
C18 — version compatibility gate.
-/
import GontainerModel.Model.Semver
import GontainerModel.Generated.Wiring
namespace GM.C18
open GM GM.Semver

/-- **The truth table.** For a build that parses as `b` and a configuration version that parses
as `g`: major 0 ⇒ accepted iff same major.minor; major ≥ 1 ⇒ accepted iff same major and
`g.minor ≤ b.minor`. Patch, prerelease and build metadata of either side never occur in the
decision. -/
theorem gate_table (b g : Parsed) :
    (b.major = 0 → ((gate b (some g)).isNone ↔ (g.major = 0 ∧ g.minor = b.minor))) ∧
    (1 ≤ b.major → ((gate b (some g)).isNone ↔ (g.major = b.major ∧ g.minor ≤ b.minor))) := by
  constructor
  · intro h0
    unfold gate
    simp only [h0, ↓reduceIte]
    by_cases h : g.major = 0 ∧ g.minor = b.minor <;> simp [h]
  · intro h1
    unfold gate
    have hb : b.major ≠ 0 := by omega
    simp only [hb, ↓reduceIte]
    by_cases h : g.major = b.major
    · by_cases h2 : b.minor < g.minor
      · simp [h, h2]
      · simp [h, h2]; omega
    · simp [h]

/-- patch, prerelease and build suffixes never matter -/
theorem gate_ignores_patch_pre_build (b g : Parsed) (p p' : Nat) (x x' y y' : List Char) :
    gate { b with patch := p, pre := x, build := y } (some { g with patch := p', pre := x', build := y' })
      = gate b (some g) := rfl

/-- no declared version, or a build that is not a semantic version ⇒ the check is skipped -/
theorem gate_skipped (build : String) (given : Option String) :
    (given = none ∨ parseNoV build = none) → validateVersion build given = [] := by
  intro h
  unfold validateVersion
  rcases h with h | h
  · subst h; rfl
  · cases given with
    | none => rfl
    | some g => simp [h]

/-- end to end on the stored strings: with a valid build `B` and a stored version `V` (no leading
`v`, as the YAML layer guarantees), the validator's verdict is the gate's verdict on the parses -/
theorem validate_is_gate (build V : String) (b : Parsed) (hb : parseNoV build = some b)
    (hv : V.toList.head? ≠ some 'v') :
    (validateVersion build (some V) = []) ↔ (gate b (parseNoV V)).isNone := by
  unfold validateVersion
  simp only [hb, hv, ↓reduceIte]
  cases gate b (parseNoV V) <;> simp

/-- the YAML layer: a version string is stored iff `"v" ++ s` is a semantic version; in particular a
leading `v` is a parse error (`vv…` is not a semantic version) -/
theorem decode_rejects_v_prefix (s : String) (hs : s.toList.head? = some 'v') :
    (decodeVersion s).toOption = none := by
  unfold decodeVersion parseNoV
  cases hl : s.toList with
  | nil => simp [hl] at hs
  | cons c cs =>
    simp [hl] at hs
    subst hs
    simp [parse, parseInt, isDigit, Except.toOption]

/-- what main() hands to the build command is the `GitVersion` of the value `buildVersion()` returns (regenerated from
main.go). That `buildVersion()` computes `normalizeBuild` of the linker-provided version is NOT pinned textually: package main
is built with a probe file (overlay, build tag verif) and the real function is run against `normalizeBuild` on a grid of
spellings on every run of the check (correspondence `normalizeBuild`), so rewriting that function is no alarm while
changing what it computes is a replayable disagreement. -/
theorem pin_main_handed : Generated.mainVersionHanded = "$bv.GitVersion" := by decide

/-- **a leading `v` of the linker-provided version is stripped whenever the rest is a semantic
version** — whatever prerelease or build suffix it carries — so the gate sees exactly `B` -/
theorem linker_v_stripped (B : String) (hB : (parseNoV B).isSome) : normalizeBuild ("v" ++ B) = B := by
  unfold normalizeBuild isValid
  have hl : ("v" ++ B).toList = 'v' :: B.toList := by simp [String.toList_append]
  unfold parseNoV at hB
  simp [hl, hB]

/-- … hence the verdict for a linker version `vB` is the verdict for `B` -/
theorem linker_gate (B : String) (hB : (parseNoV B).isSome) (g : Option String) :
    validateVersion (normalizeBuild ("v" ++ B)) g = validateVersion B g := by
  rw [linker_v_stripped B hB]

/-- a linker version that is not a semantic version is handed on unchanged -/
theorem linker_non_semver (l : String) (h : isValid l = false) : normalizeBuild l = l := by
  unfold normalizeBuild
  simp [h]

/-- **the version the gate sees depends on the linker's `version` value alone**: whatever commit, tree state, date and builder
the linker injects as well, and whatever the Go build info provides as defaults (model of the whole callback of
`main.buildVersion`, run against the real function on every check) -/
theorem linker_version_alone (d : Info) (v c di da bb : String) (hv : v ≠ "") :
    (applyLinker d v c di da bb).gitVersion = normalizeBuild v := by
  simp [applyLinker, hv]

/-- without a linker version the (normalised) default of the Go build info is used — `devel` builds skip the gate (`gate_skipped`) -/
theorem linker_version_default (d : Info) (c di da bb : String) :
    (applyLinker d "" c di da bb).gitVersion = normalizeBuild d.gitVersion := by
  simp [applyLinker]

/-- the build-info line of the generated file's header starts with that version, and is exactly it when nothing else is known -/
theorem buildInfo_starts_with_version (i : Info) : ∃ suffix, buildInfo i = i.gitVersion ++ suffix := by
  refine ⟨(if i.gitCommit != "unknown" then " " ++ i.gitCommit ++ (if i.treeState != "unknown" then "-" ++ i.treeState else "") else "") ++
          (if i.buildDate != "unknown" then " (build date " ++ i.buildDate ++ ")" else ""), ?_⟩
  unfold buildInfo
  by_cases h1 : i.gitCommit != "unknown" <;> by_cases h2 : i.treeState != "unknown" <;> by_cases h3 : i.buildDate != "unknown" <;>
    simp [h1, h2, h3, String.append_assoc]

theorem buildInfo_plain (v bb : String) : buildInfo ⟨v, "unknown", "unknown", "unknown", bb⟩ = v := by
  simp [buildInfo]

-- non-vacuity: the table is exercised by real version strings
example : buildInfo (applyLinker ⟨"devel", "unknown", "unknown", "unknown", "unknown"⟩ "v1.2.3" "abc" "true" "" "") = "1.2.3 abc-dirty" := by decide
example : normalizeBuild "v1.4.2+build5" = "1.4.2+build5" ∧ normalizeBuild "dev" = "dev" ∧ normalizeBuild "1.4.2" = "1.4.2" := by decide
example : parse "v0.3.1-alpha.1+b7".toList = some ⟨0, 3, 1, "-alpha.1".toList, "+b7".toList⟩ := by decide
example : validateVersion "0.3.0" (some "0.3.9") = [] := by decide
example : validateVersion "0.3.0" (some "0.2.0") ≠ [] := by decide
example : validateVersion "1.3.0" (some "1.2.7") = [] ∧ validateVersion "1.2.0" (some "1.3.0") ≠ [] ∧
    validateVersion "1.0.0" (some "2.0.0") ≠ [] ∧ validateVersion "dev-main" (some "9.9.9") = [] := by decide

end GM.C18
