/-
C12 — total on arbitrary input: no panic, no hang (partial).
Lean functions are total by construction, so "the model does not panic" says nothing. What is
proved: the COMPLETE typed inventory of panic-capable constructs and of loops in /repo's own code
(regenerated with go/types on every run) is exactly the reviewed one below — a new unchecked
type assertion, index, slice, Must* call, explicit panic, unbounded `for` or recursion is an
undischarged obligation — and the guards that make the reviewed constructs safe hold in the model.
Panics inside yaml.v3, cobra, gofmt/goimports, gonum and the runtime library are outside any model;
absence there is only searched for (fuzzing), which is why this property is claimed as `other`.
-/
import GontainerModel.Generated.Sites
import GontainerModel.Generated.Wiring
import GontainerModel.Model.Runner
namespace GM.C12
open GM

/-- the panic-capable constructs that are not guarded in a syntactically recognisable way, each with the reason it
cannot fire -/
def reviewed : List (String × String) := [
  ("imports.imports.Alias: index $1[len($1)-1]", "strings.Split never returns an empty slice"),
  ("regex.Match: index $1[$2]", "i ranges over SubexpNames, FindStringSubmatch has that length after MatchString succeeded"),
  ("resolver.NonStringPrimitiveResolver.ResolveArg: exporter.MustExport", "only after Supports: non-string primitive"),
  ("resolver.PatternResolver.ResolveArg: assert $1.(string)", "ArgResolver calls ResolveArg only after Supports, which checks for a string"),
  ("resolver.ServiceResolver.ResolveArg: assert $1.(string)", "as above"),
  ("resolver.TaggedResolver.ResolveArg: assert $1.(string)", "as above"),
  ("resolver.ValueResolver.ResolveArg: assert $1.(string)", "as above"),
  ("runner.DecorateStepVerboseSwitchable: assert $1.Service.(Step)", "theorem verbose_services_are_steps"),
  ("runner.Printer.EndIndent: slice $1.indents[:len($1.indents)-1]", "Indent/EndIndent are paired in StepVerboseSwitchable.Run (deferred)"),
  ("runner.Printer.PrintAlignedLn: strings.Repeat", "theorem repeat_count_nonneg"),
  ("runner.Printer.Println: panic", "only when the writer fails (stdout closed): environment, not input"),
  ("runner.StepReadConfig.findFiles: exporter.MustExport", "argument is a string"),
  ("token.FactoryFunction.Create: exporter.MustExport", "argument is a string"),
  ("token.FactoryString.Create: exporter.MustExport", "argument is a string")]

/-- the guards the inventory tool recognises in the typed syntax tree (each makes the construct safe by itself) -/
def recognisedGuards : List String :=
  ["constant index under a length check", "constant slice bound under a length check", "constant slice bounds under a length check",
   "full slice", "index by a loop counter into a slice made with that length",
   "index by a range key into a slice made with that length", "index by a sort callback argument",
   "index by the counter of a loop bounded by len of the same slice", "index by the key of a range over the same slice",
   "index from the end under a length check", "index found by a search in the same slice, known to be non-negative",
   "index by SubexpIndex of a declared group into the non-nil submatch of the same expression", "Must call in a function used only by package-level initialisers", "Must getter of the tool's own generated container", "slice from one past a strings index of the same string",
   "slice past a prefix under an equality or HasPrefix check", "type assertion in comma-ok form",
   "unsigned index under a bound check against the length of the same slice"]

/-- **every panic-capable construct of the tool is guarded in a recognised way or is one of the reviewed ones** — the
inventory is regenerated with go/types on every run; restructuring guarded code changes nothing, a new unguarded
index, slice, assertion, Must* call or explicit panic is an undischarged obligation. Site keys name the function and the construct with local variables numbered in order of appearance
(renaming a variable or a receiver changes nothing; a second construct with the same key in the same function shows up as
"… (x 2)"); a reviewed construct that disappears is no obligation -/
theorem panic_sites_discharged :
    (∀ s ∈ Generated.panicSites, s ∈ reviewed.map (·.1)) ∧ ∀ g ∈ Generated.guardedSites, g.1 ∈ recognisedGuards := by decide

/-- `toExpr` indexes and slices only strings of at least two runes -/
theorem toExpr_guard (e : List Char) (h : e.length < 2) : Chunk.toExpr e = none := by
  match e with
  | [] => rfl
  | [_] => rfl
  | _ :: _ :: _ => simp at h; omega

/-- `GoCode` reads `tkns[0]` only when there is a token -/
theorem goCode_guard : Token.goCode [] = .error "unexpected error: len(tokens) == 0" := rfl

/-- the constructor (or value) of a wired service names a step of the runner package: `runner.NewStep…` or `runner.Step…` -/
def hasSub (pat : List Char) : List Char → Bool
  | [] => pat.isEmpty
  | c :: cs => pat.isPrefixOf (c :: cs) || hasSub pat cs

def mentionsRunnerStep (c : String) : Bool :=
  hasSub "runner.NewStep".toList c.toList || hasSub "runner.Step".toList c.toList

/-- every service the verbose decorator is applied to is built by a constructor of a runner step
(so the unchecked assertion `payload.Service.(Step)` holds for the shipped wiring) -/
theorem verbose_services_are_steps :
    ∀ w ∈ Generated.wiring, w.2.2.2.contains "step-runner-verbose" = true → mentionsRunnerStep w.2.1 = true := by decide

/-- the dot filler never gets a negative count: every step / rule name, with the END suffix, the
widest mark and one level of indentation, fits the 60-column row -/
theorem repeat_count_nonneg :
    ∀ n ∈ ["Default input", "Read config", "Compile", "Validate output", "Generate code", "Scope", "Circular dependencies",
            "Missing parameters", "Missing services"],
      (n ++ " END" ++ "ignored" ++ "  ").length ≤ Runner.rowWidth := by decide

/-- … and so does every literal step name found in the code (regenerated) -/
theorem step_names_pinned :
    ∀ n ∈ Generated.stepNames, (n ++ " END" ++ "ignored" ++ "  ").length ≤ Runner.rowWidth := by decide

/-- **every loop is a `range` or a counted loop** (no `for {}` / condition-only loop in the tool) -/
theorem loops_bounded : ∀ k ∈ Generated.loopKinds, k = "range" ∨ k = "for-counted" := by decide

/-- **no recursion**: the static call graph of the module (calls through interfaces excluded: those traverse a list of
wired steps / strategies, not the input) has no cycle -/
theorem self_calls_reviewed : Generated.recursiveFuncs = [] := by decide

/-- the model's command always ends with exit status 0 or 1 (C10) -/
theorem run_total (w : Runner.World) (c : Output.Output → Errs) : (Runner.run w c).exit = 0 ∨ (Runner.run w c).exit = 1 := by
  unfold Runner.run Runner.finish
  rcases Runner.core w c with ⟨ls, es, f⟩
  cases es <;> simp

end GM.C12
