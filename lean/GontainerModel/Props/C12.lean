/-
C12 — total on arbitrary input: no panic, no hang (partial).
Lean functions are total by construction, so "the model does not panic" says nothing. What is
proved: the COMPLETE typed inventory of panic-capable constructs and of loops in /repo's own code
(regenerated with go/types on every run) is exactly the reviewed one below — a new unchecked
type assertion, index, slice, Must* call, explicit panic, unbounded `for` or recursion is an
undischarged obligation — and the guards that make the reviewed constructs safe hold in the model.
Panics inside yaml.v3, cobra, gofmt/goimports, gonum and the runtime library are outside any model;
absence there is only searched for (fuzzing), which is why this property is claimed as `other`.
-/
import GontainerModel.Generated.Sites
import GontainerModel.Generated.Wiring
import GontainerModel.Model.Runner
namespace GM.C12
open GM

/-- the reviewed panic-capable constructs, each with the reason it cannot fire -/
def reviewed : List (String × String) := [
  ("cmd.buildRunner: c.MustGetRunner", "shipped wiring: C19 (self configuration valid) — a broken wiring fails every run, not input-dependent"),
  ("cmd.buildRunner: c.MustGetStepValidateParamsExist", "as above"),
  ("cmd.buildRunner: c.MustGetStepValidateServicesExist", "as above"),
  ("compiler.StepCompileDecorators.Process: index d.Decorators[j]", "j ranges over i.Decorators, slice made with that length"),
  ("compiler.StepCompileDecorators.Process: index errs[j]", "same length"),
  ("compiler.StepCompileServices.processScopes: index o.Services[j]", "j ranges over o.Services"),
  ("compiler.StepCompileServices.serviceCalls: index r[i]", "r made with len(calls) when non-empty; loop body runs only then"),
  ("compiler.resolveArgs: index r[i]", "r made with len(args) when non-empty; loop body runs only then"),
  ("imports.imports.Alias: index parts[len(parts)-1]", "strings.Split never returns an empty slice"),
  ("imports.imports.Imports: index imps[i]", "sort callback indices"),
  ("imports.imports.Imports: index imps[j]", "sort callback indices"),
  ("input.Call.UnmarshalYAML: index z[0]", "guarded: len(z) == 0 returns first"),
  ("input.Call.UnmarshalYAML: index z[1]", "guarded by len(z) >= 2"),
  ("input.Call.UnmarshalYAML: index z[2]", "guarded by len(z) >= 3"),
  ("maps.Keys: index keys[i]", "sort callback indices"),
  ("maps.Keys: index keys[j]", "sort callback indices"),
  ("output.Output.BuildDependencyGraph: index tags[i]", "tags made with len(s.Tags)"),
  ("regex.Match: index match[i]", "i ranges over SubexpNames, FindStringSubmatch has that length after MatchString succeeded"),
  ("regex.MustCompileAz: regexp.MustCompile", "package-level constants only: compiled at init, every pattern regenerated and parsed by the translator"),
  ("resolver.NonStringPrimitiveResolver.ResolveArg: exporter.MustExport", "only after Supports: non-string primitive"),
  ("runner.DecorateStepVerboseSwitchable: assert payload.Service.(Step)", "theorem verbose_services_are_steps"),
  ("runner.Printer.EndIndent: slice p.indents[:len(p.indents)-1]", "Indent/EndIndent are paired in StepVerboseSwitchable.Run (deferred)"),
  ("runner.Printer.PrintAlignedLn: index extra[0]", "guarded by len(extra) > 0"),
  ("runner.Printer.PrintAlignedLn: slice extra[1:]", "guarded by len(extra) > 0"),
  ("runner.Printer.PrintAlignedLn: strings.Repeat rowWidth - len([]rune(left+right+strings.Join(p.indents, \"\")))", "theorem repeat_count_nonneg"),
  ("runner.Printer.Println: panic", "only when the writer fails (stdout closed): environment, not input"),
  ("runner.StepReadConfig.findFiles: exporter.MustExport", "argument is a string"),
  ("runner.StepReadConfig.findFiles: index matches[i]", "i ranges over matches"),
  ("token.FactoryFunction.Create: exporter.MustExport", "argument is a string"),
  ("token.FactoryString.Create: exporter.MustExport", "argument is a string"),
  ("token.Tokenizer.Tokenize: index errs[i]", "made with len(chunks)"),
  ("token.Tokenizer.Tokenize: index tkns[i]", "made with len(chunks)"),
  ("token.Tokens.GoCode: index tkns[0]", "theorem goCode_guard"),
  ("token.toExpr: index runes[0]", "theorem toExpr_guard"),
  ("token.toExpr: index runes[len(runes)-1]", "theorem toExpr_guard"),
  ("token.toExpr: slice runes[1 : len(runes)-1]", "theorem toExpr_guard")]

/-- **the inventory of panic-capable constructs is exactly the reviewed one** -/
theorem panic_sites_discharged : Generated.panicSites = reviewed.map (·.1) := by decide

/-- `toExpr` indexes and slices only strings of at least two runes -/
theorem toExpr_guard (e : List Char) (h : e.length < 2) : Chunk.toExpr e = none := by
  match e with
  | [] => rfl
  | [_] => rfl
  | _ :: _ :: _ => simp at h; omega

/-- `GoCode` reads `tkns[0]` only when there is a token -/
theorem goCode_guard : Token.goCode [] = .error "unexpected error: len(tokens) == 0" := rfl

/-- every service the verbose decorator is applied to is built by a constructor of a runner step
(so the unchecked assertion `payload.Service.(Step)` holds for the shipped wiring) -/
theorem verbose_services_are_steps :
    ∀ w ∈ Generated.wiring, w.2.2.2.contains "step-runner-verbose" = true →
      w.2.1 ∈ ["runner.NewStepCodeGenerator", "runner.NewStepCompile", "func:func() interface{} { return runner.StepDefaultInput{} }",
               "runner.NewStepOutputValidationRule", "runner.NewStepReadConfig", "runner.NewStepAmalgamated"] := by decide

/-- the dot filler never gets a negative count: every step / rule name, with the END suffix, the
widest mark and one level of indentation, fits the 60-column row -/
theorem repeat_count_nonneg :
    ∀ n ∈ ["Default input", "Read config", "Compile", "Validate output", "Generate code", "Scope", "Circular dependencies",
            "Missing parameters", "Missing services"],
      (n ++ " END" ++ "ignored" ++ "  ").length ≤ Runner.rowWidth := by decide

/-- the literal step names in the code are the ones covered above -/
theorem step_names_pinned : Generated.stepNames = ["Compile", "Default input", "Generate code", "Read config"] := by decide

/-- **every loop is a `range` or a counted loop** (no `for {}` / condition-only loop in the tool) -/
theorem loops_bounded : ∀ l ∈ Generated.loopSites, l.2 = "range" ∨ l.2 = "for-counted" := by decide

/-- the only same-name calls are interface dispatch to wrapped steps/strategies (a list of wired
objects is traversed), not recursion on the input -/
theorem self_calls_reviewed :
    Generated.selfCalls = ["resolver.ArgResolver.ResolveArg", "runner.Runner.Run", "runner.StepAmalgamated.Run",
      "runner.StepVerboseSwitchable.Run", "token.StrategyFactory.Create"] := by decide

/-- the model's command always ends with exit status 0 or 1 (C10) -/
theorem run_total (w : Runner.World) (c : Output.Output → Errs) : (Runner.run w c).exit = 0 ∨ (Runner.run w c).exit = 1 := by
  unfold Runner.run Runner.finish
  rcases Runner.core w c with ⟨ls, es, f⟩
  cases es <;> simp

end GM.C12
