/-
C13 — getter API contract of the generated container.
-/
import GontainerModel.Model.Compile
import GontainerModel.Generated.Template
import GontainerModel.Lemmas.Methods
import GontainerModel.Lemmas.C11Aux
import GontainerModel.Lemmas.C13Aux
namespace GM.C13
open GM GM.Compile

/-- **must-getter truth table**: Must-methods are generated exactly when the service has a getter and
`must_getter` is true, or unset with `default_must_getter` true -/
theorem must_getter_table (g : Option String) (mg dmg : Option Bool) (hg : g ≠ some "")
    (hacc : (compileGetter g mg dmg).2.2 = []) :
    (compileGetter g mg dmg).2.1 = true ↔
      g.isSome ∧ (mg = some true ∨ (mg = none ∧ dmg = some true)) := by
  unfold compileGetter at *
  cases g with
  | none =>
    cases mg with
    | none => cases dmg <;> simp_all
    | some b => cases b <;> simp_all
  | some s =>
    have : s ≠ "" := fun e => hg (by rw [e])
    cases mg with
    | none => cases dmg with
      | none => simp [this]
      | some b => cases b <;> simp [this]
    | some b => cases b <;> cases dmg <;> simp [this]

/-- an explicit `must_getter: true` without a getter is rejected; nothing else is -/
theorem getter_error_iff (g : Option String) (mg dmg : Option Bool) :
    (compileGetter g mg dmg).2.2 ≠ [] ↔ (g.getD "" = "" ∧ mg = some true) := by
  unfold compileGetter
  cases g <;> cases mg <;> cases dmg <;> simp
  all_goals (try (rename_i b; cases b <;> simp))
  all_goals (try (rename_i b c; cases b <;> cases c <;> simp))

/-- no getter ⇒ no methods at all: the emitted getter is empty and Must is off -/
theorem no_getter_no_methods (mg dmg : Option Bool) (h : mg ≠ some true) :
    (compileGetter none mg dmg).1 = "" ∧ (compileGetter none mg dmg).2.1 = false := by
  unfold compileGetter
  cases mg with
  | none => cases dmg <;> simp
  | some b => cases b <;> simp_all

/-- the method names the getter template declares for a compiled service -/
def methodNames (s : Output.Service) : List String :=
  if s.getter = "" then []
  else [s.getter, s.getter ++ "InContext"] ++
    (if s.mustGetter then ["Must" ++ s.getter, "Must" ++ s.getter ++ "InContext"] else [])

theorem method_set (s : Output.Service) (h : s.getter ≠ "") :
    methodNames s = if s.mustGetter then
        [s.getter, s.getter ++ "InContext", "Must" ++ s.getter, "Must" ++ s.getter ++ "InContext"]
      else [s.getter, s.getter ++ "InContext"] := by
  unfold methodNames
  cases s.mustGetter <;> simp [h]

/-- documented defaults: package `main`, type `Gontainer`, constructor `NewGontainer`, used exactly
when the attribute is absent -/
theorem meta_defaults (i : Input.Input) (st : Imports.St) :
    (compileMeta i st).1.pkg = i.mt.pkg.getD "main" ∧
    (compileMeta i st).1.containerType = i.mt.containerType.getD "Gontainer" ∧
    (compileMeta i st).1.containerConstructor = i.mt.containerConstructor.getD "NewGontainer" := by
  unfold compileMeta; simp

/-- no type given ⇒ the getter returns `interface{}` -/
theorem default_type (st : Imports.St) : (serviceType st none).2 = "interface{}" := rfl

/-- a getter can collide with nothing the container itself declares: the reserved set the validator
uses is the runtime container's method set plus the embedded field (regenerated tables) -/
theorem reserved_is_container_api :
    Validate.reservedGetters = Generated.rtContainerMethods ++ Generated.tplStructEmbedded := by decide

/-- the method declarations of the getter template (regenerated): G, GInContext and, only under
`MustGetter`, MustG, MustGInContext — the scheme `methodNames` states -/
theorem template_method_forms :
    Generated.tplGetterMethods = [("", "", false), ("", "InContext", false), ("Must", "", true), ("Must", "InContext", true)] := by decide

/-- all method names the getter template can declare for getters `gs` (every form of the regenerated table) -/
def allMethodNames (gs : List String) : List String :=
  gs.flatMap fun g => Generated.tplGetterMethods.map fun m => m.1 ++ g ++ m.2.1

/-- **generated methods never collide**: for every input the validator accepts, the method names the
template declares — all four forms of every live getter — are pairwise distinct, and none equals a
method of the runtime container or the embedded field (both regenerated tables).  This is a statement
about all getter strings: "Must"/"InContext" cannot be produced by concatenation either
(`GetX` + `InContext` never equals `Must` + `Y`, etc.). -/
theorem methods_never_collide (i : Input.Input) (hacc : Validate.validateServices i = []) :
    (allMethodNames (C11.liveGetters (AMap.sorted i.services))).Nodup ∧
    ∀ x ∈ allMethodNames (C11.liveGetters (AMap.sorted i.services)),
      x ∉ Generated.rtContainerMethods ++ Generated.tplStructEmbedded :=
  C13.methods_never_collide_aux i hacc (by unfold allMethodNames; rfl)

-- non-vacuity
example : (compileGetter (some "GetA") none (some true)).2.1 = true := by decide
example : (compileGetter none (some true) none).2.2 ≠ [] := by decide

end GM.C13
