/-
C10 — exit status, diagnostics and output-file contract of `build`.
-/
import GontainerModel.Lemmas.C10Aux
import GontainerModel.Model.Runner
import GontainerModel.Generated.Wiring
namespace GM.C10
open GM GM.Runner

/-- **exit 0 iff the complete generated source was written to the -o path** -/
theorem exit_zero_iff_written (w : World) (c : Output.Output → Errs) :
    (run w c).exit = 0 ↔ ∃ t, (run w c).file = .wrote w.outPath t := by
  have := (core_file w c).1
  unfold run finish
  rcases hc : core w c with ⟨ls, es, f⟩
  simp only [hc] at this ⊢
  rw [← this]
  cases es <;> simp

/-- **any failure leaves the -o path exactly as it was** (given that a failing `os.WriteFile` did
not modify it — the `World.write` contract) -/
theorem failure_leaves_output (w : World) (c : Output.Output → Errs) :
    (run w c).exit ≠ 0 → (run w c).file = .untouched := by
  have := (core_file w c).2
  unfold run finish
  rcases hc : core w c with ⟨ls, es, f⟩
  simp only [hc] at this ⊢
  cases es <;> simp_all

/-- the exit status is 0 or 1 -/
theorem exit_is_0_or_1 (w : World) (c : Output.Output → Errs) : (run w c).exit = 0 ∨ (run w c).exit = 1 := by
  unfold run finish
  rcases core w c with ⟨ls, es, f⟩
  cases es <;> simp

/-- the numbered list has exactly as many entries as the error the command returns, and it is what
is printed after the report, preceded by the line `Errors:` -/
theorem error_list (w : World) (c : Output.Output → Errs) (hq : w.flags.quiet = false) (hx : (run w c).exit ≠ 0) :
    ∃ report, (run w c).printed = report ++ ["Errors:"] ++ numbered (run w c).errors ∧
      (numbered (run w c).errors).length = (run w c).errors.length := by
  unfold run finish at *
  rcases hc : core w c with ⟨ls, es, f⟩
  simp only [hc] at hx ⊢
  cases es with
  | nil => simp at hx
  | cons e es => exact ⟨ls, by simp [hq], by simp [numbered]⟩

/-- the END line of a failing verbose step reports exactly the number of collected errors -/
theorem end_line_count {σ : Type} (ind name : String) (st : σ) (body : String → StepOut σ)
    (h : (body (ind ++ "  ")).errs ≠ []) :
    (verbose ind name true st body).lines.getLast? =
      some (aligned ind (name ++ " END") xMark
        (if (body (ind ++ "  ")).errs.length > 1 then " (" ++ toString (body (ind ++ "  ")).errs.length ++ " errors)"
         else " (" ++ toString (body (ind ++ "  ")).errs.length ++ " error)")) ∧
    (verbose ind name true st body).errs = (body (ind ++ "  ")).errs := by
  unfold verbose
  have : (body (ind ++ "  ")).errs.isEmpty = false := by
    cases hb : (body (ind ++ "  ")).errs <;> simp_all
  simp only [this, Bool.not_true, Bool.false_eq_true, ↓reduceIte, and_true]
  exact List.getLast?_concat

/-- **--quiet**: nothing is printed; exit status, error and file effect are unchanged -/
theorem quiet_same_effects (w : World) (c : Output.Output → Errs) (q : Bool) :
    run { w with flags := { w.flags with quiet := q } } c =
      { run { w with flags := { w.flags with quiet := false } } c with
        printed := if q then [] else (run { w with flags := { w.flags with quiet := false } } c).printed } := by
  unfold run
  have : core { w with flags := { w.flags with quiet := q } } c = core { w with flags := { w.flags with quiet := false } } c := rfl
  rw [this]
  unfold finish
  cases q <;> rfl

/-- the wired step order: read, compile, validate, and code generation LAST (regenerated wiring) -/
theorem steps_pinned :
    (Generated.wiring.lookup "runner").map (·.2.1) =
      some ["@stepDefaultInput", "@stepReadConfig", "@stepCompile", "@stepValidateOutput", "@stepCodeGenerator"] ∧
    (Generated.wiring.lookup "stepCodeGenerator").map (·.2.1) = some ["@printer", "@templateBuilder", "%outputFile%"] ∧
    (Generated.wiring.lookup "compiler").map (·.2.1) =
      some ["@stepValidateInput", "@stepCompileMeta", "@stepCompileParams", "@stepCompileServices", "@stepCompileDecorators"] ∧
    Generated.wiringDecorators = [["step-runner-verbose", "runner.DecorateStepVerboseSwitchable", "@printer", "@printer"]] := by
  decide

end GM.C10
