/-
C10 — exit status, diagnostics and output-file contract of `build`.
-/
import GontainerModel.Lemmas.C10Aux
import GontainerModel.Lemmas.ReadConfig
import GontainerModel.Model.Runner
import GontainerModel.Generated.Wiring
namespace GM.C10
open GM GM.Runner

/-- **exit 0 iff the complete generated source was written to the -o path** -/
theorem exit_zero_iff_written (w : World) (c : Output.Output → Errs) :
    (run w c).exit = 0 ↔ ∃ t, (run w c).file = .wrote w.outPath t := by
  have := (core_file w c).1
  unfold run finish
  rcases hc : core w c with ⟨ls, es, f⟩
  simp only [hc] at this ⊢
  rw [← this]
  cases es <;> simp

/-- **any failure leaves the -o path exactly as it was** (given that a failing `os.WriteFile` did
not modify it — the `World.write` contract) -/
theorem failure_leaves_output (w : World) (c : Output.Output → Errs) :
    (run w c).exit ≠ 0 → (run w c).file = .untouched := by
  have := (core_file w c).2
  unfold run finish
  rcases hc : core w c with ⟨ls, es, f⟩
  simp only [hc] at this ⊢
  cases es <;> simp_all

/-- the exit status is 0 or 1 -/
theorem exit_is_0_or_1 (w : World) (c : Output.Output → Errs) : (run w c).exit = 0 ∨ (run w c).exit = 1 := by
  unfold run finish
  rcases core w c with ⟨ls, es, f⟩
  cases es <;> simp

/-- the numbered list has exactly as many entries as the error the command returns, and it is what
is printed after the report, preceded by the line `Errors:` -/
theorem error_list (w : World) (c : Output.Output → Errs) (hq : w.flags.quiet = false) (hx : (run w c).exit ≠ 0) :
    ∃ report, (run w c).printed = report ++ ["Errors:"] ++ numbered (run w c).errors ∧
      (numbered (run w c).errors).length = (run w c).errors.length := by
  unfold run finish at *
  rcases hc : core w c with ⟨ls, es, f⟩
  simp only [hc] at hx ⊢
  cases es with
  | nil => simp at hx
  | cons e es => exact ⟨ls, by simp [hq], by simp [numbered]⟩

/-- the END line of a failing verbose step reports exactly the number of collected errors -/
theorem end_line_count {σ : Type} (ind name : String) (st : σ) (body : String → StepOut σ)
    (h : (body (ind ++ "  ")).errs ≠ []) :
    (verbose ind name true st body).lines.getLast? =
      some (aligned ind (name ++ " END") xMark
        (if (body (ind ++ "  ")).errs.length > 1 then " (" ++ toString (body (ind ++ "  ")).errs.length ++ " errors)"
         else " (" ++ toString (body (ind ++ "  ")).errs.length ++ " error)")) ∧
    (verbose ind name true st body).errs = (body (ind ++ "  ")).errs := by
  unfold verbose
  have : (body (ind ++ "  ")).errs.isEmpty = false := by
    cases hb : (body (ind ++ "  ")).errs <;> simp_all
  simp only [this, Bool.not_true, Bool.false_eq_true, ↓reduceIte, and_true]
  exact List.getLast?_concat

/-! ### the failure kinds of reading the configuration -/

/-- a failure of the read-config step ends the run: exit 1, the -o path untouched -/
theorem read_failure_exits (w : World) (c : Output.Output → Errs)
    (h : (readConfig w "  " Input.defaults).errs ≠ []) :
    (run w c).exit = 1 ∧ (run w c).file = .untouched := by
  have hv : (verbose "" "Read config" true Input.defaults fun ind => readConfig w ind Input.defaults).errs ≠ [] := by
    unfold verbose
    simpa using h
  have hcore : (core w c).2.1 ≠ [] := by
    unfold core
    simp only
    have : (!(verbose "" "Read config" true Input.defaults fun ind => readConfig w ind Input.defaults).errs.isEmpty) = true := by
      cases hx : (verbose "" "Read config" true Input.defaults fun ind => readConfig w ind Input.defaults).errs with
      | nil => exact absurd hx hv
      | cons _ _ => rfl
    rw [if_pos this]
    exact hv
  have hfile := (core_file w c).2 hcore
  unfold run finish
  rcases hc : core w c with ⟨ls, es, f⟩
  simp only [hc] at hcore hfile ⊢
  cases es with
  | nil => exact absurd rfl hcore
  | cons e es => exact ⟨by simp, hfile⟩

/-- **unreadable or unparsable input**: a file matched by some pattern that cannot be read or decoded fails the step -/
theorem unreadable_input_fails (w : World) (ind : String) (i0 : Input.Input) (p g : String) (es : Errs)
    (hp : p ∈ w.patterns) (hg : g ∈ (patternFiles w p).1) (hr : w.read g = .error es) (hne : es ≠ []) :
    (readConfig w ind i0).errs ≠ [] := by
  have hpe : w.patterns.isEmpty = false := by cases hw : w.patterns <;> simp_all
  apply readConfig_errs_ne_nil w ind i0 hpe
  left
  obtain ⟨⟨extra, he, _, hx⟩, _, _⟩ := patterns_fold_spec w ind w.patterns ([ind ++ "Patterns"], [], ⟨i0, false, []⟩, 0)
  rw [he]
  simpa using hx p hp g hg es hr hne

/-- **a pattern that cannot be globbed** fails the step -/
theorem glob_error_fails (w : World) (ind : String) (i0 : Input.Input) (p : String)
    (hp : p ∈ w.patterns) (hg : (patternFiles w p).2 ≠ []) : (readConfig w ind i0).errs ≠ [] := by
  have hpe : w.patterns.isEmpty = false := by cases hw : w.patterns <;> simp_all
  apply readConfig_errs_ne_nil w ind i0 hpe
  left
  obtain ⟨⟨extra, he, hgx, _⟩, _, _⟩ := patterns_fold_spec w ind w.patterns ([ind ++ "Patterns"], [], ⟨i0, false, []⟩, 0)
  rw [he]
  simpa using hgx p hp hg

/-- **no input processed**: if no matched file is read successfully (no pattern, no match, only failures) the step fails -/
theorem nothing_processed_fails (w : World) (ind : String) (i0 : Input.Input)
    (h : ∀ p ∈ w.patterns, ∀ g ∈ (patternFiles w p).1, (w.read g).isOk = false) :
    (readConfig w ind i0).errs ≠ [] := by
  cases hpe : w.patterns.isEmpty with
  | true => unfold readConfig; simp [hpe]
  | false =>
    apply readConfig_errs_ne_nil w ind i0 hpe
    right; left
    obtain ⟨_, hf, _⟩ := patterns_fold_spec w ind w.patterns ([ind ++ "Patterns"], [], ⟨i0, false, []⟩, 0)
    rw [hf]
    simp only [Bool.false_or]
    rw [List.any_eq_false]
    intro p hp
    simp only [Bool.not_eq_true]
    rw [List.any_eq_false]
    intro g hg
    simpa using h p hp g hg

/-- **a file matched by two patterns**: a file that is read successfully under two (occurrences of) patterns fails the step -/
theorem duplicate_match_fails (w : World) (ind : String) (i0 : Input.Input) (f : String)
    (h : 2 ≤ (w.patterns.filter fun p => decide (f ∈ (patternFiles w p).1) && (w.read f).isOk).length) :
    (readConfig w ind i0).errs ≠ [] := by
  have hpe : w.patterns.isEmpty = false := by
    cases hw : w.patterns with
    | nil => simp [hw] at h
    | cons _ _ => rfl
  apply readConfig_errs_ne_nil w ind i0 hpe
  right; right
  obtain ⟨_, _, hc⟩ := patterns_fold_spec w ind w.patterns ([ind ++ "Patterns"], [], ⟨i0, false, []⟩, 0)
  have hcf := hc f
  apply dupErrs_ne_nil _ f
  unfold cnt at hcf
  simp only at hcf
  omega

/-- **--quiet**: nothing is printed; exit status, error and file effect are unchanged -/
theorem quiet_same_effects (w : World) (c : Output.Output → Errs) (q : Bool) :
    run { w with flags := { w.flags with quiet := q } } c =
      { run { w with flags := { w.flags with quiet := false } } c with
        printed := if q then [] else (run { w with flags := { w.flags with quiet := false } } c).printed } := by
  unfold run
  have : core { w with flags := { w.flags with quiet := q } } c = core { w with flags := { w.flags with quiet := false } } c := rfl
  rw [this]
  unfold finish
  cases q <;> rfl

/-- the wired step order: read, compile, validate, and code generation LAST (regenerated wiring) -/
theorem steps_pinned :
    (Generated.wiring.lookup "runner").map (·.2.1) =
      some ["@stepDefaultInput", "@stepReadConfig", "@stepCompile", "@stepValidateOutput", "@stepCodeGenerator"] ∧
    Generated.argsAre ((Generated.wiring.lookup "stepCodeGenerator").map (·.2.1)) ["@printer", "@templateBuilder", "%outputFile%"] = true ∧
    (Generated.wiring.lookup "compiler").map (·.2.1) =
      some ["@stepValidateInput", "@stepCompileMeta", "@stepCompileParams", "@stepCompileServices", "@stepCompileDecorators"] ∧
    Generated.wiringDecorators = [["step-runner-verbose", "runner.DecorateStepVerboseSwitchable", "@printer", "@printer"]] := by
  decide

end GM.C10
