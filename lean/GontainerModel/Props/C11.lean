/-
C11 — input grammar: accept exactly the documented language, report every violation.
-/
import GontainerModel.Lemmas.C11Aux
import GontainerModel.Lemmas.Grammar
import GontainerModel.Lemmas.Composite
import GontainerModel.Model.Validate
import GontainerModel.Model.Decode
import GontainerModel.Generated.Wiring
import GontainerModel.Props.Pins
namespace GM.C11
open GM GM.Validate GM.Input

/-- the matcher the model's validators run decides the language of the regular expression
(for every expression and every string) -/
theorem matcher_exact (r : Re) (w : List Char) : Re.accepts r w = true ↔ Re.Lang r w := Re.accepts_iff r w

/-- **Go identifiers** (pkg, container type/constructor, getter, call and field names, function
aliases): the accepted language of the regenerated pattern is exactly "ASCII letter followed by
letters, digits, `_`" -/
theorem goToken_language (w : List Char) : Re.accepts Generated.re_input_regexServiceGetter w = Grammar.goToken w := by
  rw [Pins.pin_input_regexServiceGetter]
  have := Re.accepts_iff Rx.goToken w
  rw [Grammar.goToken_iff] at this
  cases h1 : Re.accepts Rx.goToken w <;> cases h2 : Grammar.goToken w <;> simp_all

/-- **parameter / service / tag / alias names**: exactly "a letter, then letters/digits with single
`.`/`-`/`_` separators, ending in a letter or digit" -/
theorem yamlToken_language (w : List Char) : Re.accepts Generated.re_input_regexServiceName w = Grammar.yamlToken w := by
  rw [Pins.pin_input_regexServiceName]
  have := Re.accepts_iff Rx.yamlToken w
  rw [Grammar.yamlToken_iff] at this
  cases h1 : Re.accepts Rx.yamlToken w <;> cases h2 : Grammar.yamlToken w <;> simp_all

/-- every name position uses one of the two languages above (regenerated patterns are the same terms) -/
theorem name_positions :
    Generated.re_input_regexParamName = Rx.yamlToken ∧ Generated.re_input_regexServiceTag = Rx.yamlToken ∧
    Generated.re_input_regexMetaImportAlias = Rx.yamlToken ∧ Generated.re_token_regexTokenRef = Rx.yamlToken ∧
    Generated.re_input_regexpMetaPkg = Rx.goToken ∧ Generated.re_input_regexpMetaContainerType = Rx.goToken ∧
    Generated.re_input_regexpMetaContainerConstructor = Rx.goToken ∧ Generated.re_input_regexMetaFn = Rx.goToken ∧
    Generated.re_input_regexServiceCallName = Rx.goToken ∧ Generated.re_input_regexServiceFieldName = Rx.goToken :=
  ⟨rfl, rfl, rfl, rfl, rfl, rfl, rfl, rfl, rfl, rfl⟩


/-! ### composite forms: the language of every regenerated expression is the documented form, for all strings -/

/-- transfer: a regenerated expression that is the term `R`, whose language is the recogniser `P` -/
theorem language_of {G R : Re} (pin : G = R) {P : List Char → Bool} (h : ∀ w, Re.Lang R w ↔ P w = true) (w : List Char) :
    Re.accepts G w = P w := by
  subst pin
  have := Re.accepts_iff G w
  rw [h] at this
  cases h1 : Re.accepts G w <;> cases h2 : P w <;> simp_all

/-- **package references** (`meta.imports` values): an import path — a letter, then letters, digits, `.`, `_`, `-`
with single `/` separators, not ending in `/` — bare or in double quotes, or `"."` -/
theorem import_language (w : List Char) : Re.accepts Generated.re_input_regexMetaImport w = Grammar.import_ w :=
  language_of Pins.pin_input_regexMetaImport Grammar.import_iff w

/-- **constructors, decorator functions, parameter functions**: `[package.]Ident` in the validator AND in the
compiler (the two packages compile their own copies of the expression) -/
theorem goFunc_language (w : List Char) :
    Re.accepts Generated.re_input_regexServiceConstructor w = Grammar.goFunc w ∧
    Re.accepts Generated.re_input_regexDecoratorMethod w = Grammar.goFunc w ∧
    Re.accepts Generated.re_input_regexMetaGoFn w = Grammar.goFunc w ∧
    Re.accepts Generated.re_compiler_regexServiceConstructor w = Grammar.goFunc w ∧
    Re.accepts Generated.re_compiler_regexDecoratorMethod w = Grammar.goFunc w ∧
    Re.accepts Generated.re_compiler_regexMetaGoFn w = Grammar.goFunc w :=
  ⟨language_of Pins.pin_input_regexServiceConstructor Grammar.goFunc_iff w,
   language_of Pins.pin_input_regexDecoratorMethod Grammar.goFunc_iff w,
   language_of Pins.pin_input_regexMetaGoFn Grammar.goFunc_iff w,
   language_of Pins.pin_compiler_regexServiceConstructor Grammar.goFunc_iff w,
   language_of Pins.pin_compiler_regexDecoratorMethod Grammar.goFunc_iff w,
   language_of Pins.pin_compiler_regexMetaGoFn Grammar.goFunc_iff w⟩

/-- **service types**: `[*][package.]Ident`, validator and compiler -/
theorem serviceType_language (w : List Char) :
    Re.accepts Generated.re_input_regexServiceType w = Grammar.serviceType w ∧
    Re.accepts Generated.re_compiler_regexServiceType w = Grammar.serviceType w :=
  ⟨language_of Pins.pin_input_regexServiceType Grammar.serviceType_iff w,
   language_of Pins.pin_compiler_regexServiceType Grammar.serviceType_iff w⟩

/-- **service values**: `[&][package.]Ident(.Ident)*` or `[&][package.]Ident{}`, validator and the `syntax` helper
that compiles them -/
theorem serviceValue_language (w : List Char) :
    Re.accepts Generated.re_input_regexServiceValue w = Grammar.serviceValue w ∧
    Re.accepts Generated.re_syntax_regexServiceValue w = Grammar.serviceValue w :=
  ⟨language_of Pins.pin_input_regexServiceValue Grammar.serviceValue_iff w,
   language_of Pins.pin_syntax_regexServiceValue Grammar.serviceValue_iff w⟩

/-- **decorator tags**: `*` or a tag name -/
theorem decoratorTag_language (w : List Char) : Re.accepts Generated.re_input_regexDecoratorsTag w = Grammar.decoratorTag w :=
  language_of Pins.pin_input_regexDecoratorsTag Grammar.decoratorTag_iff w

/-- **argument forms of the resolvers**: `@service`, `!tagged <tag>`, `!value <service value>` (one or more
white-space characters after the keyword) -/
theorem argument_languages (w : List Char) :
    Re.accepts Generated.re_resolver_serviceRegex w = Grammar.argService w ∧
    Re.accepts Generated.re_resolver_taggedRegex w = Grammar.argTagged w ∧
    Re.accepts Generated.re_resolver_valueRegex w = Grammar.argValue w :=
  ⟨language_of Pins.pin_resolver_serviceRegex Grammar.argService_iff w,
   language_of Pins.pin_resolver_taggedRegex Grammar.argTagged_iff w,
   language_of Pins.pin_resolver_valueRegex Grammar.argValue_iff w⟩

/-- **no masking between sections**: the configuration is accepted iff every section is -/
theorem validate_sections (v : String) (i : Input) :
    validate v i = [] ↔
      Semver.validateVersion v i.version = [] ∧ validateMeta i = [] ∧ validateParams i = [] ∧
      validateServices i = [] ∧ validateDecorators i = [] := by
  unfold validate
  simp [List.append_eq_nil_iff, and_assoc]

/-- **parameters: exact and complete** — accepted iff every name is a YAML token and every value a
primitive; -/
theorem params_exact (i : Input) :
    validateParams i = [] ↔ ∀ nv ∈ AMap.sorted i.params, Grammar.yamlToken nv.1.toList = true ∧ nv.2.isPrimitive = true := by
  unfold validateParams
  rw [pfx_nil]
  simp only [List.flatMap_eq_nil_iff, List.append_eq_nil_iff, unsupported_nil, rx_yaml]
  constructor
  · intro h nv hnv
    obtain ⟨h1, h2⟩ := h nv hnv
    refine ⟨?_, h2⟩
    cases hy : Grammar.yamlToken nv.1.toList
    · simp [hy] at h1
    · rfl
  · intro h nv hnv
    obtain ⟨h1, h2⟩ := h nv hnv
    exact ⟨by simp [h1], h2⟩

/-- … and every violation is reported: one line per bad name plus one per non-primitive value -/
theorem params_report_all (i : Input) :
    (validateParams i).length =
      ((AMap.sorted i.params).filter fun nv => !rx Rx.yamlToken nv.1).length +
      ((AMap.sorted i.params).filter fun nv => !nv.2.isPrimitive).length := by
  unfold validateParams
  simp only [Errs.pfx, List.length_map]
  induction AMap.sorted i.params with
  | nil => simp
  | cons nv rest ih =>
    simp only [List.flatMap_cons, List.length_append, List.filter_cons, ih]
    cases h1 : rx Rx.yamlToken nv.1 <;> cases hv : nv.2 <;> simp [unsupported, Val.isPrimitive] <;> omega

/-- **getter rules**: a getter is accepted iff it is not reserved (the container's own API incl. the
embedded field), has no `Must` prefix, no `InContext` suffix, and is a Go identifier -/
theorem getter_rules (s : Service) (g : String) (hg : s.getter = some g) :
    serviceGetter s = [] ↔
      reservedGetters.contains g = false ∧ mustPrefix.isPrefixOf g.toList = false ∧
      inContextSuffix.isSuffixOf g.toList = false ∧ Grammar.goToken g.toList = true := by
  unfold serviceGetter
  simp only [hg]
  cases hr : reservedGetters.contains g
  · simp only [Bool.false_eq_true, ↓reduceIte, List.append_eq_nil_iff, regexField, rx_go, true_and]
    cases hm : mustPrefix.isPrefixOf g.toList <;> cases hi : inContextSuffix.isSuffixOf g.toList <;>
      cases ha : Grammar.goToken g.toList <;> simp
  · simp

/-- **creation-method rules** -/
theorem creation_rules (s : Service) :
    constructorType s = [] ↔
      ¬ (s.constructor.isNone ∧ s.value.isNone ∧ s.type.isNone) ∧ ¬ (s.constructor.isSome ∧ s.value.isSome) ∧
      ¬ (s.args.isEmpty = false ∧ s.constructor.isNone) := by
  unfold constructorType
  simp only [List.append_eq_nil_iff]
  by_cases h1 : s.constructor.isNone ∧ s.value.isNone ∧ s.type.isNone <;>
  by_cases h2 : s.constructor.isSome ∧ s.value.isSome <;>
  by_cases h3 : (!s.args.isEmpty) = true ∧ s.constructor.isNone <;> simp_all

/-- **todo services are exempt**: only the name is checked -/
theorem todo_exempt (n : String) (s : Service) (hs : s.todo = some true) :
    validateServices { services := [(n, s)] } = [] ↔ Grammar.yamlToken n.toList = true := by
  have e := Re.accepts_iff Rx.yamlToken n.toList
  rw [Grammar.yamlToken_iff] at e
  have hsorted : AMap.sorted [(n, s)] = [(n, s)] := by
    simp [AMap.sorted, AMap.keys, AMap.rawKeys, AMap.get, List.eraseDups_cons]
  unfold validateServices servicesStep
  simp only [hsorted, List.foldl_cons, List.foldl_nil, hs, Option.getD_some, ↓reduceIte]
  rw [pfx_nil]
  simp only [List.nil_append, pfx_nil]
  cases ha : Re.accepts Rx.yamlToken n.toList <;> simp_all [rx]

/-- **accepted ⇒ no two live services claim one getter**, and every live service passed its attribute checks -/
theorem getters_unique (i : Input) (h : validateServices i = []) :
    (liveGetters (AMap.sorted i.services)).Nodup ∧
    ∀ ns ∈ AMap.sorted i.services, ns.2.todo.getD false = false → serviceAttrs ns.2 = [] := by
  have hfold : ((AMap.sorted i.services).foldl servicesStep ([], [])).1 = [] := by
    unfold validateServices at h
    exact (pfx_nil _ _).mp h
  obtain ⟨hnd, _, hattrs⟩ := fold_unique _ _ hfold
  exact ⟨hnd, hattrs⟩

/-! ### tag / call / scope shapes (the custom YAML unmarshalers) -/

/-- **tag shapes**: a tag node is stored iff it is a string (priority 0) or a mapping whose `name` is a
string and whose `priority`, if present, is an int; what is stored is exactly that name and priority -/
theorem tag_shapes (n : Decode.Node) (t : Tag) :
    Decode.decodeTag n = .ok t ↔
      (n = .v (.str t.name) ∧ t.priority = 0) ∨
      (∃ kv, n = .dict kv ∧ kv.lookup "name" = some (.v (.str t.name)) ∧
        ((kv.lookup "priority" = none ∧ t.priority = 0) ∨ kv.lookup "priority" = some (.v (.int t.priority)))) := by
  obtain ⟨tn, tp⟩ := t
  constructor
  · intro h
    cases n with
    | v x => cases x <;> simp_all [Decode.decodeTag]
    | list xs => simp [Decode.decodeTag] at h
    | dict kv =>
      right
      refine ⟨kv, rfl, ?_⟩
      simp only [Decode.decodeTag] at h
      cases hn : kv.lookup "name" with
      | none => simp [hn] at h
      | some nn =>
        cases nn with
        | v x =>
          cases x <;> simp [hn] at h
          rename_i s
          cases hp : kv.lookup "priority" with
          | none => simp [hp] at h; simp [h]
          | some pp =>
            cases pp with
            | v y => cases y <;> simp [hp] at h; simp [h]
            | list _ => simp [hp] at h
            | dict _ => simp [hp] at h
        | list _ => simp [hn] at h
        | dict _ => simp [hn] at h
  · rintro (⟨rfl, hp⟩ | ⟨kv, rfl, hn, hp⟩)
    · simp only at hp; subst hp; simp [Decode.decodeTag]
    · simp only at hn hp
      rcases hp with ⟨hp, h0⟩ | hp
      · subst h0; simp [Decode.decodeTag, hn, hp]
      · simp [Decode.decodeTag, hn, hp]

/-- **call shapes**: a call node is stored iff it is a sequence `[method]`, `[method, args]` or
`[method, args, immutable]` with a string, a sequence and a bool; the stored call is exactly that -/
theorem call_shapes (n : Decode.Node) (c : Call) :
    Decode.decodeCall n = .ok c ↔
      n = .list [.v (.str c.method)] ∧ c.args = [] ∧ c.immutable = false ∨
      n = .list [.v (.str c.method), .list c.args] ∧ c.immutable = false ∨
      n = .list [.v (.str c.method), .list c.args, .v (.bool c.immutable)] := by
  obtain ⟨m, as, im⟩ := c
  constructor
  · intro h
    cases n with
    | v x => simp [Decode.decodeCall] at h
    | dict kv => simp [Decode.decodeCall] at h
    | list items =>
      simp only [Decode.decodeCall] at h
      split at h
      · simp at h
      · rename_i hlen
        match items, hlen with
        | [], hl => simp at hl
        | [a], _ =>
          cases a with
          | v x => cases x <;> simp at h; simp [h]
          | list _ => simp at h
          | dict _ => simp at h
        | [a, b], _ =>
          cases a with
          | v x =>
            cases x <;> simp at h
            cases b with
            | v y => simp at h
            | list ys => simp at h; simp [h]
            | dict _ => simp at h
          | list _ => simp at h
          | dict _ => simp at h
        | [a, b, d], _ =>
          cases a with
          | v x =>
            cases x <;> simp at h
            cases b with
            | v y => simp at h
            | list ys =>
              cases d with
              | v z => cases z <;> simp at h; simp [h]
              | list _ => simp at h
              | dict _ => simp at h
            | dict _ => simp at h
          | list _ => simp at h
          | dict _ => simp at h
        | _ :: _ :: _ :: _ :: _, hl => simp at hl
  · rintro (⟨rfl, ha, hi⟩ | ⟨rfl, hi⟩ | rfl)
    · simp only at ha hi; subst ha; subst hi; simp [Decode.decodeCall]
    · simp only at hi; subst hi; simp [Decode.decodeCall]
    · simp [Decode.decodeCall]

/-- **scope keywords**: exactly `shared`, `contextual`, `non_shared` are stored, as the scope they name;
the keyword table is the one of input_scope.go (regenerated) -/
theorem scope_keywords (s : String) (sc : Scope) :
    Decode.decodeScope (.v (.str s)) = .ok sc ↔
      (s = "shared" ∧ sc = .shared) ∨ (s = "contextual" ∧ sc = .contextual) ∨ (s = "non_shared" ∧ sc = .nonShared) := by
  simp only [Decode.decodeScope, Decode.scalarText, Decode.scopeKeywords, List.lookup]
  by_cases h1 : s = "shared"
  · subst h1; cases sc <;> simp
  by_cases h2 : s = "contextual"
  · subst h2; cases sc <;> simp
  by_cases h3 : s = "non_shared"
  · subst h3; cases sc <;> simp
  have e1 : (s == "shared") = false := beq_eq_false_iff_ne.mpr h1
  have e2 : (s == "contextual") = false := beq_eq_false_iff_ne.mpr h2
  have e3 : (s == "non_shared") = false := beq_eq_false_iff_ne.mpr h3
  simp [h1, h2, h3, e1, e2, e3]

theorem pin_scope_keywords :
    Generated.scopeKeywordTable = [("ScopeShared", "shared"), ("ScopeContextual", "contextual"), ("ScopeNonShared", "non_shared")] ∧
    Decode.scopeKeywords.map (·.1) = Generated.scopeKeywordTable.map (·.2) := by decide

/-- the fully written forms are read back as written -/
theorem shapes_roundtrip (t : Tag) (c : Call) :
    Decode.decodeTag (Decode.encodeTag t) = .ok t ∧ Decode.decodeCall (Decode.encodeCall c) = .ok c := by
  constructor
  · simp [Decode.decodeTag, Decode.encodeTag, List.lookup]
  · simp [Decode.decodeCall, Decode.encodeCall]

-- the documented examples are accepted / the documented non-examples rejected
example : Grammar.yamlToken ['m','y','.','p','a','r','a','m','-','1','_','x'] = true := by decide
example : Grammar.yamlToken ['a','-','-','b'] = false := by decide
example : Grammar.yamlToken ['a','.'] = false := by decide
example : Grammar.yamlToken ['1','a'] = false := by decide
example : Grammar.goToken ['G','e','t','D','B','_','2'] = true := by decide
example : Grammar.goToken ['_','x'] = false := by decide
example : Grammar.goToken ['a','-','b'] = false := by decide

-- documented composite forms (docs/SERVICES.md, docs/META.md) are accepted, near misses rejected
example : Grammar.import_ ['m','y','/','p','k','g','-','1','.','x'] = true := by decide
example : Grammar.import_ ['"','m','y','/','p','k','g','"'] = true := by decide
example : Grammar.import_ ['"','.','"'] = true := by decide
example : Grammar.import_ ['m','y','/','/','p'] = false := by decide
example : Grammar.import_ ['m','y','/'] = false := by decide
example : Grammar.import_ ['"','m','y'] = false := by decide
example : Grammar.goFunc ['p','k','g','.','N','e','w'] = true := by decide
example : Grammar.goFunc ['"','a','/','b','"','.','N','e','w'] = true := by decide
example : Grammar.goFunc ['a','.','b','.','N'] = true := by decide
example : Grammar.goFunc ['p','k','g','.'] = false := by decide
example : Grammar.serviceType ['*','p','.','T'] = true := by decide
example : Grammar.serviceType ['*','*','T'] = false := by decide
example : Grammar.serviceValue ['&','p','.','T','{','}'] = true := by decide
example : Grammar.serviceValue ['p','.','V','.','F'] = true := by decide
example : Grammar.serviceValue ['p','.','T','{',' ','}'] = false := by decide
example : Grammar.serviceValue ['&','&','V'] = false := by decide
example : Grammar.argTagged ['!','t','a','g','g','e','d',' ','\t','a','.','b'] = true := by decide
example : Grammar.argTagged ['!','t','a','g','g','e','d','a'] = false := by decide
example : Grammar.argValue ['!','v','a','l','u','e',' ','&','p','.','T','{','}'] = true := by decide
example : Grammar.argService ['@','d','b','-','1'] = true := by decide
example : Grammar.decoratorTag ['*'] = true := by decide

end GM.C11
