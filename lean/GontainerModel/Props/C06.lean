/-
C06 — dangling parameter/service references are detected, exactly.
-/
import GontainerModel.Lemmas.C06Aux
import GontainerModel.Model.Compile
import GontainerModel.Generated.Wiring
import GontainerModel.Lemmas.PatternDeps
import GontainerModel.Lemmas.ArgsCompiled
namespace GM.C06
open GM GM.Output

/-- every (referrer, parameter name) position of the compiled configuration: parameter patterns,
all service arguments (constructor, calls, fields), decorator arguments -/
def paramRefs (o : Output) : List (String × String) :=
  (o.params.flatMap fun p => p.dependsOn.map fun n => ("%" ++ p.name ++ "%", n)) ++
  (o.services.flatMap fun s => (s.allArgs.flatMap (·.depParams)).map fun n => ("@" ++ s.name, n)) ++
  (o.decorators.zipIdx.flatMap fun (d, i) => (d.args.flatMap (·.depParams)).map fun n =>
    ("decorator(#" ++ toString i ++ ", " ++ q d.tag ++ ")", n))

def serviceRefs (o : Output) : List (String × String) :=
  (o.services.flatMap fun s => (s.allArgs.flatMap (·.depServices)).map fun n => (s.name, n)) ++
  (o.decorators.zipIdx.flatMap fun (d, i) => (d.args.flatMap (·.depServices)).map fun n =>
    ("decorator(#" ++ toString i ++ ", " ++ q d.tag ++ ")", n))

def declaredParams (o : Output) : List String := o.params.map (·.name)
def declaredServices (o : Output) : List String := o.services.map (·.name)

/-- **Exactness (parameters).** The validator accepts iff every referenced parameter — from a
parameter, a service (arguments, fields, calls) or a decorator — is declared. -/
theorem params_exist_exact (o : Output) :
    validateParamsExist o = [] ↔ ∀ rn ∈ paramRefs o, rn.2 ∈ declaredParams o := by
  unfold validateParamsExist paramRefs declaredParams
  rw [pfx_nil_iff]
  simp only [List.append_eq_nil_iff, List.flatMap_eq_nil_iff, List.map_eq_nil_iff, missing_nil_iff,
    List.mem_append, List.mem_flatMap, List.mem_map]
  constructor
  · rintro ⟨⟨h1, h2⟩, h3⟩ rn hrn
    rcases hrn with (⟨p, hp, n, hn, rfl⟩ | ⟨s, hs, n, hn, rfl⟩) | ⟨⟨d, i⟩, hd, n, hn, rfl⟩
    · exact h1 p hp n hn
    · exact h2 s hs n hn
    · exact h3 (d, i) hd n hn
  · intro h
    refine ⟨⟨?_, ?_⟩, ?_⟩
    · intro p hp n hn
      exact h (_, n) (Or.inl (Or.inl ⟨p, hp, n, hn, rfl⟩))
    · intro s hs n hn
      exact h (_, n) (Or.inl (Or.inr ⟨s, hs, n, hn, rfl⟩))
    · intro di hd n hn
      exact h (_, n) (Or.inr ⟨di, hd, n, hn, rfl⟩)

/-- **Exactness (services).** -/
theorem services_exist_exact (o : Output) :
    validateServicesExist o = [] ↔ ∀ rn ∈ serviceRefs o, rn.2 ∈ declaredServices o := by
  unfold validateServicesExist serviceRefs declaredServices
  rw [pfx_nil_iff]
  simp only [List.append_eq_nil_iff, List.flatMap_eq_nil_iff, List.map_eq_nil_iff, missing_nil_iff,
    List.mem_append, List.mem_flatMap, List.mem_map]
  constructor
  · rintro ⟨h2, h3⟩ rn hrn
    rcases hrn with ⟨s, hs, n, hn, rfl⟩ | ⟨⟨d, i⟩, hd, n, hn, rfl⟩
    · exact h2 s hs n hn
    · exact h3 (d, i) hd n hn
  · intro h
    refine ⟨?_, ?_⟩
    · intro s hs n hn
      exact h (_, n) (Or.inl ⟨s, hs, n, hn, rfl⟩)
    · intro di hd n hn
      exact h (_, n) (Or.inr ⟨di, hd, n, hn, rfl⟩)

/-- the number of diagnostics equals the number of dangling reference occurrences: each one is
reported (naming referrer and missing name), nothing declared is reported -/
theorem params_report_count (o : Output) :
    (validateParamsExist o).length = ((paramRefs o).filter fun rn => !(declaredParams o).contains rn.2).length := by
  unfold validateParamsExist paramRefs declaredParams missing
  simp only [Errs.pfx, List.length_map, List.length_append, List.filter_append, List.length_flatMap,
    List.filter_flatMap, List.filter_map, Function.comp_def]

/-- a todo service is declared (it is compiled to a named entry), so nothing that refers to it is
reported missing; its own attributes are not compiled, so it refers to nothing -/
theorem todo_service_declared (name : String) (svc : Input.Service) (dm : Option Bool)
    (fns : List Token.FnDef) (st : Imports.St) (h : svc.todo = some true) :
    (Compile.compileService name svc dm fns st).1.name = name ∧
    (Compile.compileService name svc dm fns st).1.todo = true ∧
    (Compile.compileService name svc dm fns st).1.allArgs = [] := by
  unfold Compile.compileService
  simp [h, Output.Service.allArgs]

/-- the two existence validators run as the third and fourth rule of "Validate output", under the
switches the ignore flags control (regenerated wiring) -/
theorem wiring_pinned :
    (Generated.wiring.lookup "stepValidateOutput").map (·.2.1) =
      some ["=Validate output", "@stepOutputServicesScopes", "@stepOutputCircularDeps", "@stepOutputParamsExist", "@stepOutputServicesExist"] ∧
    Generated.argsAre ((Generated.wiring.lookup "stepOutputParamsExist").map (·.2.1)) ["!value output.ValidateParamsExist", "=Missing parameters"] = true ∧
    Generated.argsAre ((Generated.wiring.lookup "stepOutputServicesExist").map (·.2.1)) ["!value output.ValidateServicesExist", "=Missing services"] = true := by
  decide

/-! ### what acceptance means for the generated container -/

/-- **an accepted container never looks up a service that does not exist**: when the validator accepts, every service
reference — of a service (constructor arguments, calls, fields) or of a decorator — names a declared service, so the lookup
the runtime performs for it (`svcByName`) finds a definition -/
theorem accepted_service_refs_resolve (o : Output) (h : validateServicesExist o = []) :
    (∀ s ∈ o.services, ∀ a ∈ s.allArgs, ∀ n ∈ a.depServices, (o.services.find? (·.name == n)).isSome = true) ∧
    (∀ d ∈ o.decorators, ∀ a ∈ d.args, ∀ n ∈ a.depServices, (o.services.find? (·.name == n)).isSome = true) := by
  have hx := (services_exist_exact o).mp h
  have found : ∀ n, n ∈ declaredServices o → (o.services.find? (·.name == n)).isSome = true := by
    intro n hn
    obtain ⟨s, hs, rfl⟩ := List.mem_map.mp hn
    rw [List.find?_isSome]
    exact ⟨s, hs, by simp⟩
  constructor
  · intro s hs a ha n hn
    apply found
    apply hx (s.name, n)
    unfold serviceRefs
    simp only [List.mem_append, List.mem_flatMap, List.mem_map]
    exact Or.inl ⟨s, hs, n, ⟨a, ha, hn⟩, rfl⟩
  · intro d hd a ha n hn
    apply found
    obtain ⟨i, hlt, hget⟩ := List.mem_iff_getElem.mp hd
    have hz : (d, i) ∈ o.decorators.zipIdx := List.mem_zipIdx_iff_getElem?.mpr (by simp [hget, hlt])
    apply hx ("decorator(#" ++ toString i ++ ", " ++ q d.tag ++ ")", n)
    unfold serviceRefs
    simp only [List.mem_append, List.mem_flatMap, List.mem_map]
    exact Or.inr ⟨(d, i), hz, n, ⟨a, ha, hn⟩, rfl⟩

/-- … nor a parameter that does not exist: every `%reference%` of a parameter, a service or a decorator names a declared parameter -/
theorem accepted_param_refs_resolve (o : Output) (h : validateParamsExist o = []) :
    (∀ p ∈ o.params, ∀ n ∈ p.dependsOn, (o.params.find? (·.name == n)).isSome = true) ∧
    (∀ s ∈ o.services, ∀ a ∈ s.allArgs, ∀ n ∈ a.depParams, (o.params.find? (·.name == n)).isSome = true) ∧
    (∀ d ∈ o.decorators, ∀ a ∈ d.args, ∀ n ∈ a.depParams, (o.params.find? (·.name == n)).isSome = true) := by
  have hx := (params_exist_exact o).mp h
  have found : ∀ n, n ∈ declaredParams o → (o.params.find? (·.name == n)).isSome = true := by
    intro n hn
    obtain ⟨p, hp, rfl⟩ := List.mem_map.mp hn
    rw [List.find?_isSome]
    exact ⟨p, hp, by simp⟩
  refine ⟨?_, ?_, ?_⟩
  · intro p hp n hn
    apply found
    apply hx ("%" ++ p.name ++ "%", n)
    unfold paramRefs
    simp only [List.mem_append, List.mem_flatMap, List.mem_map]
    exact Or.inl (Or.inl ⟨p, hp, n, hn, rfl⟩)
  · intro s hs a ha n hn
    apply found
    apply hx ("@" ++ s.name, n)
    unfold paramRefs
    simp only [List.mem_append, List.mem_flatMap, List.mem_map]
    exact Or.inl (Or.inr ⟨s, hs, n, ⟨a, ha, hn⟩, rfl⟩)
  · intro d hd a ha n hn
    apply found
    obtain ⟨i, hlt, hget⟩ := List.mem_iff_getElem.mp hd
    have hz : (d, i) ∈ o.decorators.zipIdx := List.mem_zipIdx_iff_getElem?.mpr (by simp [hget, hlt])
    apply hx ("decorator(#" ++ toString i ++ ", " ++ q d.tag ++ ")", n)
    unfold paramRefs
    simp only [List.mem_append, List.mem_flatMap, List.mem_map]
    exact Or.inr ⟨(d, i), hz, n, ⟨a, ha, hn⟩, rfl⟩

/-- **at run time, for every program that runs the compiler's output**: the name the runtime looks up for a `@service` argument
(`svcByName`, the look-up whose failure is the error `service does not exist`) is declared — for arguments, fields and calls of
services and for arguments of decorators -/
theorem compiled_service_refs_declared (p : Runtime.Prog) (bv : String) (i : Input.Input) (hc : Runtime.CompiledFrom p bv i)
    (h : validateServicesExist p.out = []) :
    (∀ s ∈ p.out.services, ∀ a ∈ s.allArgs, Runtime.argKind a = some .service →
        (Runtime.svcByName p (a.depServices.headD "")).isSome = true) ∧
    (∀ d ∈ p.out.decorators, ∀ a ∈ d.args, Runtime.argKind a = some .service →
        (Runtime.svcByName p (a.depServices.headD "")).isSome = true) := by
  have hw := (Runtime.compiled_recorded p bv i hc).1
  have hr := accepted_service_refs_resolve p.out h
  constructor
  · intro s hs a ha hk
    exact hr.1 s hs a ha _ (Runtime.headD_mem _ _ ((hw.1 s hs a ha).1 hk))
  · intro d hd a ha hk
    exact hr.2 d hd a ha _ (Runtime.headD_mem _ _ ((hw.2 d hd a ha).1 hk))

/-- … and every `%reference%` the runtime's tokeniser finds in a compiled parameter names a declared parameter: the look-up
whose failure is `param does not exist` succeeds -/
theorem compiled_param_refs_declared (p : Runtime.Prog) (bv : String) (i : Input.Input) (hc : Runtime.CompiledFrom p bv i)
    (h : validateParamsExist p.out = []) :
    ∀ prm ∈ p.out.params, ∀ n ∈ Runtime.refsOf p prm.raw, (p.out.params.find? (·.name == n)).isSome = true := by
  intro prm hprm n hn
  exact (accepted_param_refs_resolve p.out h).1 prm hprm n ((Runtime.compiled_recorded p bv i hc).2 prm hprm n hn)

-- non-vacuity: a decorator argument referencing an undeclared parameter IS a reference position
def witness : Output :=
  { decorators := [{ tag := "t", decorator := "f", raw := "f", args := [{ code := "", raw := .str "%x%", depParams := ["x"] }] }] }
example : validateParamsExist witness
    = ["output.ValidateParamsExist: decorator(#0, \"t\"): param \"x\" does not exist"] := by decide

/-- **every `%ref%` of a pattern is recorded as a dependency**, whatever its position in the string and whatever
precedes it (literal text, `%%`, function calls, other references), in order and with repetitions: the recorded
parameter dependencies of a compiled pattern are exactly the references among its tokens -/
theorem pattern_deps_all_refs (fns : List Token.FnDef) (st st' : Imports.St) (s : String) (a : Output.Arg)
    (h : Compile.resolveWith .pattern fns st (.str s) = (st', .ok a)) :
    ∃ ts, (Token.tokenize fns st s).2 = .ok ts ∧ a.depParams = ts.filterMap Token.refOf := by
  simp only [Compile.resolveWith] at h
  rcases ht : Token.tokenize fns st s with ⟨st1, r⟩
  rw [ht] at h
  cases r with
  | error es => simp at h
  | ok ts =>
    simp only at h
    cases hg : Token.goCode ts with
    | error e => simp [hg] at h
    | ok c =>
      simp only [hg, Prod.mk.injEq, Except.ok.injEq] at h
      refine ⟨ts, rfl, ?_⟩
      rw [← h.2]
      exact Token.flatMap_deps ts (Token.tokenize_deps fns st s ts (by rw [ht]))

end GM.C06
