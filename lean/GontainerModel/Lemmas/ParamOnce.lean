/-
Parameters over whole histories (runtime model): `getParam` touches nothing but the parameter cache and the
evaluation log; under an acyclic (ranked) reference relation a cached value is never replaced, and the only
providers that run are those of parameters that were not cached.
-/
import GontainerModel.Lemmas.ParamFuel
namespace GM.Runtime
open GM

/-- what a parameter evaluation may do to the state: nothing outside cache and log; cache entries are only ADDED,
and only for parameters of rank below `R`; the log grows by evaluations of parameters that were not cached -/
def PInv (rk : String → Nat) (R : Nat) (st st' : St) : Prop :=
  st'.ovParams = st.ovParams ∧ st'.ovServices = st.ovServices ∧ st'.shared = st.shared ∧ st'.ctxBags = st.ctxBags ∧
  st'.heap = st.heap ∧ st'.next = st.next ∧
  (∀ n, st'.pcache.lookup n = st.pcache.lookup n ∨ (st.pcache.lookup n = none ∧ rk n < R)) ∧
  (∃ suf, st'.evalLog = st.evalLog ++ suf ∧ ∀ e ∈ suf, ∃ n, e = "param:" ++ n ∧ st.pcache.lookup n = none)

theorem PInv.refl (rk : String → Nat) (R : Nat) (st : St) : PInv rk R st st :=
  ⟨rfl, rfl, rfl, rfl, rfl, rfl, fun _ => Or.inl rfl, [], by simp, by simp⟩

theorem PInv.mono {rk : String → Nat} {R R' : Nat} {a b : St} (h : PInv rk R a b) (hR : R ≤ R') : PInv rk R' a b := by
  obtain ⟨h1, h2, h3, h4, h5, h6, h7, h8⟩ := h
  refine ⟨h1, h2, h3, h4, h5, h6, fun n => ?_, h8⟩
  rcases h7 n with h | ⟨h, hlt⟩
  · exact Or.inl h
  · exact Or.inr ⟨h, by omega⟩

theorem PInv.trans {rk : String → Nat} {R : Nat} {a b c : St} (h1 : PInv rk R a b) (h2 : PInv rk R b c) : PInv rk R a c := by
  obtain ⟨a1, a2, a3, a4, a5, a6, a7, suf1, a8, a9⟩ := h1
  obtain ⟨b1, b2, b3, b4, b5, b6, b7, suf2, b8, b9⟩ := h2
  refine ⟨b1.trans a1, b2.trans a2, b3.trans a3, b4.trans a4, b5.trans a5, b6.trans a6, fun n => ?_, suf1 ++ suf2, ?_, ?_⟩
  · rcases b7 n with hb | ⟨hb, hlt⟩
    · rcases a7 n with ha | ⟨ha, hlt'⟩
      · exact Or.inl (hb.trans ha)
      · exact Or.inr ⟨ha, hlt'⟩
    · rcases a7 n with ha | ⟨ha, hlt'⟩
      · exact Or.inr ⟨by rw [← ha]; exact hb, hlt⟩
      · exact Or.inr ⟨ha, hlt'⟩
  · rw [b8, a8, List.append_assoc]
  · intro e he
    rcases List.mem_append.mp he with he | he
    · exact a9 e he
    · obtain ⟨n, rfl, hn⟩ := b9 e he
      refine ⟨n, rfl, ?_⟩
      rcases a7 n with ha | ⟨ha, _⟩
      · rw [← ha]; exact hn
      · exact ha

theorem getParam_undeclared_state (p : Prog) (st : St) (id : String) (f : Nat)
    (h : p.out.params.find? (·.name == id) = none) : (getParam f p st id).1 = st := by
  cases f with
  | zero => rfl
  | succ f =>
    unfold getParam
    cases st.ovParams.lookup id <;> simp [h]

theorem lookup_cons_ne {α : Type} (id n : String) (v : α) (l : List (String × α)) (h : n ≠ id) :
    List.lookup n ((id, v) :: l) = List.lookup n l := by
  simp [List.lookup, beq_eq_false_iff_ne.mpr h]

theorem pinv_main (p : Prog) (rk : String → Nat) (hr : Ranked p rk) :
    ∀ f : Nat,
      (∀ (st : St) (id : String), PInv rk (rk id + 1) st (getParam f p st id).1) ∧
      (∀ (st : St) (v : Val) (R : Nat), (∀ n ∈ refsOf p v, (∃ q ∈ p.out.params, q.name = n) → rk n < R) →
        PInv rk R st (evalRaw f p st v).1) := by
  intro f
  induction f with
  | zero => exact ⟨fun st id => PInv.refl _ _ _, fun st v R _ => PInv.refl _ _ _⟩
  | succ f ih =>
    obtain ⟨ihP, ihE⟩ := ih
    constructor
    · intro st id
      unfold getParam
      cases hov : st.ovParams.lookup id with
      | some v => exact PInv.refl _ _ _
      | none =>
        cases hfind : p.out.params.find? (·.name == id) with
        | none => exact PInv.refl _ _ _
        | some prm =>
          cases hpc : st.pcache.lookup id with
          | some v => exact PInv.refl _ _ _
          | none =>
            obtain ⟨hmem, hname⟩ := find_name hfind
            simp only
            have hE := ihE { st with evalLog := st.evalLog ++ ["param:" ++ id] } prm.raw (rk id)
              (fun n hn hd => by have := hr prm hmem n hn hd; rwa [hname] at this)
            rcases hres : evalRaw f p { st with evalLog := st.evalLog ++ ["param:" ++ id] } prm.raw with ⟨st1, r⟩
            rw [hres] at hE
            obtain ⟨e1, e2, e3, e4, e5, e6, e7, suf, e8, e9⟩ := hE
            simp only at e1 e2 e3 e4 e5 e6 e7 e8 e9
            cases r with
            | error e =>
              refine ⟨e1, e2, e3, e4, e5, e6, fun n => ?_, ["param:" ++ id] ++ suf, by simp [e8], ?_⟩
              · rcases e7 n with h | ⟨h, hlt⟩
                · exact Or.inl h
                · exact Or.inr ⟨h, by omega⟩
              · intro e he
                rcases List.mem_append.mp he with he | he
                · simp at he; exact ⟨id, he, hpc⟩
                · exact e9 e he
            | ok v =>
              refine ⟨e1, e2, e3, e4, e5, e6, fun n => ?_, ["param:" ++ id] ++ suf, by simp [e8], ?_⟩
              · by_cases hn : n = id
                · subst hn; exact Or.inr ⟨hpc, by omega⟩
                · simp only [lookup_cons_ne id n v st1.pcache hn]
                  rcases e7 n with h | ⟨h, hlt⟩
                  · exact Or.inl h
                  · exact Or.inr ⟨h, by omega⟩
              · intro e he
                rcases List.mem_append.mp he with he | he
                · simp at he; exact ⟨id, he, hpc⟩
                · exact e9 e he
    · intro st v R hR
      unfold evalRaw
      cases v with
      | str s =>
        simp only
        cases htok : (Token.tokenize p.fns {} s).2 with
        | error es => exact PInv.refl _ _ _
        | ok ts =>
          simp only
          -- invariant of the token fold
          have hfold : ∀ (l : List Token.Token), (∀ t ∈ l, t ∈ ts) → ∀ (acc : St × List Val × Option String), PInv rk R st acc.1 →
              PInv rk R st (l.foldl (evalTokStep (fun st n => getParam f p st n) p) acc).1 := by
            intro l
            induction l with
            | nil => intro _ acc h; exact h
            | cons t rest ihl =>
              intro hsub acc hacc
              simp only [List.foldl_cons]
              apply ihl (fun t' ht' => hsub t' (List.mem_cons_of_mem _ ht'))
              obtain ⟨s1, vals, err⟩ := acc
              unfold evalTokStep
              cases err with
              | some e => exact hacc
              | none =>
                simp only [Option.isSome_none, Bool.false_eq_true, ↓reduceIte]
                cases hsem : t.sem with
                | lit x => exact hacc
                | call a b c =>
                  simp only
                  cases builtinCall p b c <;> exact hacc
                | ref n =>
                  simp only
                  have hn : n ∈ refsOf p (.str s) := by
                    unfold refsOf
                    simp only [htok]
                    exact List.mem_filterMap.mpr ⟨t, hsub t (List.mem_cons_self ..), by simp [hsem]⟩
                  have hstep : PInv rk R s1 (getParam f p s1 n).1 := by
                    cases hq : p.out.params.find? (·.name == n) with
                    | none => rw [getParam_undeclared_state p s1 n f hq]; exact PInv.refl _ _ _
                    | some q =>
                      obtain ⟨hqm, hqn⟩ := find_name hq
                      exact (ihP s1 n).mono (hR n hn ⟨q, hqm, hqn⟩)
                  rcases hgp : getParam f p s1 n with ⟨s2, r⟩
                  rw [hgp] at hstep
                  cases r <;> exact PInv.trans hacc hstep
          have := hfold ts (fun t ht => ht) (st, [], none) (PInv.refl _ _ _)
          rcases hf : List.foldl (evalTokStep (fun st n => getParam f p st n) p) (st, [], none) ts with ⟨s2, vals, err⟩
          rw [hf] at this
          simp only
          cases err with
          | some e => exact this
          | none =>
            simp only
            split <;> exact this
      | _ => exact PInv.refl _ _ _

/-- a history of `GetParam` calls -/
def runParams (F : Nat) (p : Prog) (st : St) (ops : List String) : St :=
  ops.foldl (fun s n => (getParam F p s n).1) st

theorem runParams_inv (p : Prog) (rk : String → Nat) (hr : Ranked p rk) (F : Nat) (ops : List String) (st : St) :
    ∃ R, PInv rk R st (runParams F p st ops) := by
  induction ops generalizing st with
  | nil => exact ⟨0, PInv.refl _ _ _⟩
  | cons n rest ih =>
    obtain ⟨R, hR⟩ := ih (getParam F p st n).1
    have h1 := (pinv_main p rk hr F).1 st n
    exact ⟨max R (rk n + 1), PInv.trans (h1.mono (by omega)) (hR.mono (by omega))⟩

end GM.Runtime
