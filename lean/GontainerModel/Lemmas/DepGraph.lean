import GontainerModel.Lemmas.Graph
import GontainerModel.Model.Output
/-
The dependency relation as the documentation states it (`ConfigDep`) and its relation to the graph
`buildGraph` constructs (with the runtime's auxiliary tag / decorate / decorator nodes).
-/
namespace GM.Output
open GM GM.Graph

/-- resources: services and parameters -/
inductive Res where
  | service (n : String)
  | param (n : String)
deriving Repr, DecidableEq

def Res.node : Res → Node
  | .service n => .service n
  | .param n => .param n

theorem Res.node_inj {a b : Res} (h : a.node = b.node) : a = b := by
  cases a <;> cases b <;> simp [Res.node] at h <;> simp [h]

/-- service `d` carries tag `t` -/
def carries (o : Output) (d t : String) : Prop := ∃ s ∈ o.services, s.name = d ∧ ∃ tg ∈ s.tags, tg.name = t

/-- what an argument list depends on directly: `@service`, every carrier of a `!tagged` tag, `%param%` -/
def ArgsDep (o : Output) (args : List Arg) : Res → Prop
  | .service d => d ∈ args.flatMap (·.depServices) ∨ ∃ t ∈ args.flatMap (·.depTags), carries o d t
  | .param p => p ∈ args.flatMap (·.depParams)

/-- **the documented dependency relation**: a service depends on what its own arguments (constructor,
calls, fields) depend on and on what the arguments of every decorator attached to one of its tags
depend on; a parameter depends on the parameters it references -/
inductive ConfigDep (o : Output) : Res → Res → Prop
  | own {s : Service} {r : Res} : s ∈ o.services → ArgsDep o s.allArgs r → ConfigDep o (.service s.name) r
  | dec {s : Service} {tg : Tag} {d : Decorator} {i : Nat} {r : Res} : s ∈ o.services → tg ∈ s.tags →
      (d, i) ∈ o.decorators.zipIdx → d.tag = tg.name → ArgsDep o d.args r → ConfigDep o (.service s.name) r
  | param {p : Param} {q : String} : p ∈ o.params → q ∈ p.dependsOn → ConfigDep o (.param p.name) (.param q)

/-- transitive closure -/
inductive TC {α : Type} (r : α → α → Prop) : α → α → Prop
  | single {a b} : r a b → TC r a b
  | head {a b c} : r a b → TC r b c → TC r a c

theorem TC.trans {α : Type} {r : α → α → Prop} {a b c : α} (h1 : TC r a b) (h2 : TC r b c) : TC r a c := by
  induction h1 with
  | single h => exact TC.head h h2
  | head h _ ih => exact TC.head h (ih h2)

/-! ### the edges of the graph -/

theorem mem_argEdges (src : Node) (args : List Arg) (x y : Node) :
    (x, y) ∈ argEdges src args ↔ x = src ∧
      ((∃ d ∈ args.flatMap (·.depServices), y = nService d) ∨ (∃ t ∈ args.flatMap (·.depTags), y = nTag t) ∨
       (∃ p ∈ args.flatMap (·.depParams), y = nParam p)) := by
  unfold argEdges
  simp only [List.mem_append, List.mem_map, Prod.mk.injEq]
  constructor
  · rintro ((⟨d, hd, h1, h2⟩ | ⟨t, ht, h1, h2⟩) | ⟨p, hp, h1, h2⟩)
    · exact ⟨h1.symm, Or.inl ⟨d, hd, h2.symm⟩⟩
    · exact ⟨h1.symm, Or.inr (Or.inl ⟨t, ht, h2.symm⟩)⟩
    · exact ⟨h1.symm, Or.inr (Or.inr ⟨p, hp, h2.symm⟩)⟩
  · rintro ⟨rfl, (⟨d, hd, rfl⟩ | ⟨t, ht, rfl⟩ | ⟨p, hp, rfl⟩)⟩
    · exact Or.inl (Or.inl ⟨d, hd, rfl, rfl⟩)
    · exact Or.inl (Or.inr ⟨t, ht, rfl, rfl⟩)
    · exact Or.inr ⟨p, hp, rfl, rfl⟩

theorem mem_serviceEdges (s : Service) (x y : Node) :
    (x, y) ∈ serviceEdges s ↔
      (∃ tg ∈ s.tags, (x = nTag tg.name ∧ y = nService s.name) ∨ (x = nService s.name ∧ y = nDecorate tg.name)) ∨
      (x, y) ∈ argEdges (nService s.name) s.allArgs := by
  unfold serviceEdges
  simp only [List.mem_append, List.mem_flatMap, List.mem_cons, Prod.mk.injEq, List.not_mem_nil, or_false]

theorem mem_decoratorEdges (i : Nat) (d : Decorator) (x y : Node) :
    (x, y) ∈ decoratorEdges i d ↔ (x = nDecorate d.tag ∧ y = nDecorator i) ∨ (x, y) ∈ argEdges (nDecorator i) d.args := by
  unfold decoratorEdges
  simp only [List.mem_cons, Prod.mk.injEq]

theorem mem_edges (o : Output) (x y : Node) :
    (x, y) ∈ (buildGraph o).edges ↔
      (∃ s ∈ o.services, (x, y) ∈ serviceEdges s) ∨
      (∃ di ∈ o.decorators.zipIdx, (x, y) ∈ decoratorEdges di.2 di.1) ∨
      (∃ p ∈ o.params, ∃ q ∈ p.dependsOn, x = nParam p.name ∧ y = nParam q) := by
  unfold buildGraph
  simp only [List.mem_append, List.mem_flatMap, List.mem_map, Prod.mk.injEq]
  constructor
  · rintro ((h | h) | h)
    · exact Or.inl h
    · obtain ⟨⟨d, i⟩, hd, he⟩ := h
      exact Or.inr (Or.inl ⟨(d, i), hd, he⟩)
    · obtain ⟨p, hp, q, hq, h1, h2⟩ := h
      exact Or.inr (Or.inr ⟨p, hp, q, hq, h1.symm, h2.symm⟩)
  · rintro (h | h | h)
    · exact Or.inl (Or.inl h)
    · obtain ⟨⟨d, i⟩, hd, he⟩ := h
      exact Or.inl (Or.inr ⟨(d, i), hd, he⟩)
    · obtain ⟨p, hp, q, hq, h1, h2⟩ := h
      exact Or.inr ⟨p, hp, q, hq, h1.symm, h2.symm⟩

/-! ### documented relation ⇒ path -/

theorem edge_service_arg (o : Output) (s : Service) (hs : s ∈ o.services) (y : Node)
    (h : (nService s.name, y) ∈ argEdges (nService s.name) s.allArgs) : (nService s.name, y) ∈ (buildGraph o).edges :=
  (mem_edges o _ _).mpr (Or.inl ⟨s, hs, (mem_serviceEdges s _ _).mpr (Or.inr h)⟩)

theorem edge_tag_carrier (o : Output) (d t : String) (h : carries o d t) : (nTag t, nService d) ∈ (buildGraph o).edges := by
  obtain ⟨s, hs, rfl, tg, htg, rfl⟩ := h
  exact (mem_edges o _ _).mpr (Or.inl ⟨s, hs, (mem_serviceEdges s _ _).mpr (Or.inl ⟨tg, htg, Or.inl ⟨rfl, rfl⟩⟩)⟩)

/-- from a node `src` whose outgoing argument edges are in the graph, every resource the arguments
depend on is reachable -/
theorem path_of_argsDep (o : Output) (src : Node) (args : List Arg)
    (hin : ∀ y, (src, y) ∈ argEdges src args → (src, y) ∈ (buildGraph o).edges) (r : Res) (h : ArgsDep o args r) :
    Path (buildGraph o) src r.node := by
  cases r with
  | service d =>
    rcases h with h | ⟨t, ht, hc⟩
    · exact Path.edge (hin _ ((mem_argEdges _ _ _ _).mpr ⟨rfl, Or.inl ⟨d, h, rfl⟩⟩))
    · exact Path.cons (hin _ ((mem_argEdges _ _ _ _).mpr ⟨rfl, Or.inr (Or.inl ⟨t, ht, rfl⟩)⟩)) (Path.edge (edge_tag_carrier o d t hc))
  | param p =>
    exact Path.edge (hin _ ((mem_argEdges _ _ _ _).mpr ⟨rfl, Or.inr (Or.inr ⟨p, h, rfl⟩)⟩))

theorem path_of_configDep (o : Output) (a b : Res) (h : ConfigDep o a b) : Path (buildGraph o) a.node b.node := by
  cases h with
  | @own s r hs hd =>
    exact path_of_argsDep o (nService s.name) s.allArgs (fun y hy => edge_service_arg o s hs y hy) b hd
  | @dec s tg d i r hs htg hdi htag hd =>
    have e1 : (nService s.name, nDecorate tg.name) ∈ (buildGraph o).edges :=
      (mem_edges o _ _).mpr (Or.inl ⟨s, hs, (mem_serviceEdges s _ _).mpr (Or.inl ⟨tg, htg, Or.inr ⟨rfl, rfl⟩⟩)⟩)
    have e2 : (nDecorate tg.name, nDecorator i) ∈ (buildGraph o).edges :=
      (mem_edges o _ _).mpr (Or.inr (Or.inl ⟨(d, i), hdi, (mem_decoratorEdges i d _ _).mpr (Or.inl ⟨by rw [htag], rfl⟩)⟩))
    have p3 : Path (buildGraph o) (nDecorator i) b.node :=
      path_of_argsDep o (nDecorator i) d.args
        (fun y hy => (mem_edges o _ _).mpr (Or.inr (Or.inl ⟨(d, i), hdi, (mem_decoratorEdges i d _ _).mpr (Or.inr hy)⟩))) b hd
    exact Path.cons e1 (Path.cons e2 p3)
  | @param p q hp hq =>
    exact Path.edge ((mem_edges o _ _).mpr (Or.inr (Or.inr ⟨p, hp, q, hq, rfl, rfl⟩)))

theorem path_of_tc (o : Output) (a b : Res) (h : TC (ConfigDep o) a b) : Path (buildGraph o) a.node b.node := by
  induction h with
  | single h => exact path_of_configDep o _ _ h
  | head h _ ih => exact (path_of_configDep o _ _ h).trans ih

/-! ### path ⇒ documented relation

A path of the graph leaves a resource either directly to another resource or through auxiliary
nodes (tag, decorate, decorator).  `Aux o r x` says: the auxiliary node `x` was entered on behalf of
resource `r`, which is exactly what is needed to turn the next resource reached into a `ConfigDep`. -/

/-- `r` requests tag `t`: in its own arguments or in the arguments of one of its decorators -/
def ReqTag (o : Output) (r : Res) (t : String) : Prop :=
  ∃ s ∈ o.services, r = .service s.name ∧
    (t ∈ s.allArgs.flatMap (·.depTags) ∨
     ∃ tg ∈ s.tags, ∃ d i, (d, i) ∈ o.decorators.zipIdx ∧ d.tag = tg.name ∧ t ∈ d.args.flatMap (·.depTags))

def Aux (o : Output) (r : Res) : Node → Prop
  | .tag t => ReqTag o r t
  | .decorate t => ∃ s ∈ o.services, r = .service s.name ∧ ∃ tg ∈ s.tags, tg.name = t
  | .decorator i => ∃ s ∈ o.services, r = .service s.name ∧ ∃ tg ∈ s.tags, ∃ d, (d, i) ∈ o.decorators.zipIdx ∧ d.tag = tg.name
  | _ => False

def From (o : Output) (r : Res) (x : Node) : Prop := x = r.node ∨ Aux o r x

theorem aux_not_res (o : Output) (r b : Res) : ¬ Aux o r b.node := by
  cases b <;> simp [Res.node, Aux]

/-- one edge: from a position held on behalf of `r`, the edge either reaches a resource `r` depends
on, or another auxiliary node still on behalf of `r` -/
theorem step (o : Output) (r : Res) (x y : Node) (hf : From o r x) (he : (x, y) ∈ (buildGraph o).edges) :
    (∃ r', y = r'.node ∧ ConfigDep o r r') ∨ Aux o r y := by
  rcases (mem_edges o x y).mp he with ⟨s, hs, hse⟩ | ⟨⟨d, i⟩, hdi, hde⟩ | ⟨p, hp, q, hq, rfl, rfl⟩
  · -- an edge contributed by service s
    rcases (mem_serviceEdges s x y).mp hse with ⟨tg, htg, (⟨rfl, rfl⟩ | ⟨rfl, rfl⟩)⟩ | harg
    · -- tag tg.name → service s.name
      rcases hf with hx | hx
      · cases r <;> simp [Res.node, nTag] at hx
      · obtain ⟨s0, hs0, rfl, hreq⟩ := hx
        refine Or.inl ⟨.service s.name, rfl, ?_⟩
        rcases hreq with h | ⟨tg0, htg0, d, i, hdi, hdt, h⟩
        · exact ConfigDep.own hs0 (Or.inr ⟨tg.name, h, s, hs, rfl, tg, htg, rfl⟩)
        · exact ConfigDep.dec hs0 htg0 hdi hdt (Or.inr ⟨tg.name, h, s, hs, rfl, tg, htg, rfl⟩)
    · -- service s.name → decorate tg.name
      rcases hf with hx | hx
      · cases r with
        | service n =>
          simp only [Res.node, nService, Node.service.injEq] at hx
          subst hx
          exact Or.inr ⟨s, hs, rfl, tg, htg, rfl⟩
        | param n => simp [Res.node, nService] at hx
      · simp [Aux, nService] at hx
    · -- an argument edge of s
      obtain ⟨rfl, hy⟩ := (mem_argEdges _ _ _ _).mp harg
      rcases hf with hx | hx
      · cases r with
        | service n =>
          simp only [Res.node, nService, Node.service.injEq] at hx
          subst hx
          rcases hy with ⟨d, hd, rfl⟩ | ⟨t, ht, rfl⟩ | ⟨p, hp, rfl⟩
          · exact Or.inl ⟨.service d, rfl, ConfigDep.own hs (Or.inl hd)⟩
          · exact Or.inr ⟨s, hs, rfl, Or.inl ht⟩
          · exact Or.inl ⟨.param p, rfl, ConfigDep.own hs hp⟩
        | param n => simp [Res.node, nService] at hx
      · simp [Aux, nService] at hx
  · -- an edge contributed by decorator i
    rcases (mem_decoratorEdges i d x y).mp hde with ⟨rfl, rfl⟩ | harg
    · -- decorate d.tag → decorator i
      rcases hf with hx | hx
      · cases r <;> simp [Res.node, nDecorate] at hx
      · obtain ⟨s0, hs0, rfl, tg0, htg0, hname⟩ := hx
        exact Or.inr ⟨s0, hs0, rfl, tg0, htg0, d, hdi, hname.symm⟩
    · obtain ⟨rfl, hy⟩ := (mem_argEdges _ _ _ _).mp harg
      rcases hf with hx | hx
      · cases r <;> simp [Res.node, nDecorator] at hx
      · obtain ⟨s0, hs0, rfl, tg0, htg0, d0, hd0, hdt0⟩ := hx
        -- the decorator at index i is unique
        have hdd : d0 = d := by
          have h1 := List.mem_zipIdx hd0
          have h2 := List.mem_zipIdx hdi
          simp only [Nat.zero_add, Nat.sub_zero] at h1 h2
          rw [h1.2.2, h2.2.2]
        subst hdd
        rcases hy with ⟨dd, hd, rfl⟩ | ⟨t, ht, rfl⟩ | ⟨p, hp, rfl⟩
        · exact Or.inl ⟨.service dd, rfl, ConfigDep.dec hs0 htg0 hdi hdt0 (Or.inl hd)⟩
        · exact Or.inr ⟨s0, hs0, rfl, Or.inr ⟨tg0, htg0, d0, i, hdi, hdt0, ht⟩⟩
        · exact Or.inl ⟨.param p, rfl, ConfigDep.dec hs0 htg0 hdi hdt0 hp⟩
  · -- param p.name → param q
    rcases hf with hx | hx
    · cases r with
      | service n => simp [Res.node, nParam] at hx
      | param n =>
        simp only [Res.node, nParam, Node.param.injEq] at hx
        subst hx
        exact Or.inl ⟨.param q, rfl, ConfigDep.param hp hq⟩
    · simp [Aux, nParam] at hx

theorem tc_of_path_aux (o : Output) (x y : Node) (hp : Path (buildGraph o) x y) :
    ∀ (r b : Res), From o r x → y = b.node → TC (ConfigDep o) r b := by
  induction hp with
  | edge he =>
    intro r b hf hy
    rcases step o r _ _ hf he with ⟨r', hy', hc⟩ | haux
    · rw [hy] at hy'
      rw [Res.node_inj hy']
      exact TC.single hc
    · rw [hy] at haux
      exact absurd haux (aux_not_res o r b)
  | cons he _ ih =>
    intro r b hf hy
    rcases step o r _ _ hf he with ⟨r', hy', hc⟩ | haux
    · exact TC.head hc (ih r' b (Or.inl hy') hy)
    · exact ih r b (Or.inr haux) hy

theorem tc_of_path (o : Output) (a b : Res) (h : Path (buildGraph o) a.node b.node) : TC (ConfigDep o) a b :=
  tc_of_path_aux o _ _ h a b (Or.inl rfl) rfl

/-! ### every cycle of the graph passes through a resource -/

theorem first_step {g : G Node} {a b : Node} (p : Path g a b) : ∃ y, (a, y) ∈ g.edges ∧ (y = b ∨ Path g y b) := by
  cases p with
  | edge e => exact ⟨b, e, Or.inl rfl⟩
  | @cons _ y _ e p' => exact ⟨y, e, Or.inr p'⟩

/-- rotate a cycle by one edge -/
theorem rotate {g : G Node} {v : Node} (p : Path g v v) : ∃ y, (v, y) ∈ g.edges ∧ Path g y y := by
  obtain ⟨y, e, h⟩ := first_step p
  refine ⟨y, e, ?_⟩
  rcases h with rfl | p'
  · exact Path.edge e
  · exact p'.snoc e

theorem from_tag (o : Output) (t : String) (y : Node) (e : (nTag t, y) ∈ (buildGraph o).edges) : ∃ s, y = nService s := by
  rcases (mem_edges o _ y).mp e with ⟨s, _, hse⟩ | ⟨⟨d, i⟩, _, hde⟩ | ⟨p, _, q, _, h1, _⟩
  · rcases (mem_serviceEdges s _ y).mp hse with ⟨tg, _, (⟨_, rfl⟩ | ⟨h, _⟩)⟩ | harg
    · exact ⟨s.name, rfl⟩
    · simp [nTag, nService] at h
    · have := ((mem_argEdges _ _ _ _).mp harg).1
      simp [nTag, nService] at this
  · rcases (mem_decoratorEdges i d _ y).mp hde with ⟨h, _⟩ | harg
    · simp [nTag, nDecorate] at h
    · have := ((mem_argEdges _ _ _ _).mp harg).1
      simp [nTag, nDecorator] at this
  · simp [nTag, nParam] at h1

theorem from_decorate (o : Output) (t : String) (y : Node) (e : (nDecorate t, y) ∈ (buildGraph o).edges) : ∃ i, y = nDecorator i := by
  rcases (mem_edges o _ y).mp e with ⟨s, _, hse⟩ | ⟨⟨d, i⟩, _, hde⟩ | ⟨p, _, q, _, h1, _⟩
  · rcases (mem_serviceEdges s _ y).mp hse with ⟨tg, _, (⟨h, _⟩ | ⟨h, _⟩)⟩ | harg
    · simp [nTag, nDecorate] at h
    · simp [nDecorate, nService] at h
    · have := ((mem_argEdges _ _ _ _).mp harg).1
      simp [nDecorate, nService] at this
  · rcases (mem_decoratorEdges i d _ y).mp hde with ⟨_, rfl⟩ | harg
    · exact ⟨i, rfl⟩
    · have := ((mem_argEdges _ _ _ _).mp harg).1
      simp [nDecorate, nDecorator] at this
  · simp [nDecorate, nParam] at h1

theorem from_decorator (o : Output) (i : Nat) (y : Node) (e : (nDecorator i, y) ∈ (buildGraph o).edges) :
    (∃ r : Res, y = r.node) ∨ ∃ t, y = nTag t := by
  rcases (mem_edges o _ y).mp e with ⟨s, _, hse⟩ | ⟨⟨d, j⟩, _, hde⟩ | ⟨p, _, q, _, h1, _⟩
  · rcases (mem_serviceEdges s _ y).mp hse with ⟨tg, _, (⟨h, _⟩ | ⟨h, _⟩)⟩ | harg
    · simp [nTag, nDecorator] at h
    · simp [nDecorator, nService] at h
    · have := ((mem_argEdges _ _ _ _).mp harg).1
      simp [nDecorator, nService] at this
  · rcases (mem_decoratorEdges j d _ y).mp hde with ⟨h, _⟩ | harg
    · simp [nDecorate, nDecorator] at h
    · rcases ((mem_argEdges _ _ _ _).mp harg).2 with ⟨dd, _, rfl⟩ | ⟨t, _, rfl⟩ | ⟨p, _, rfl⟩
      · exact Or.inl ⟨.service dd, rfl⟩
      · exact Or.inr ⟨t, rfl⟩
      · exact Or.inl ⟨.param p, rfl⟩
  · simp [nDecorator, nParam] at h1

theorem tag_cycle (o : Output) (t : String) (p : Path (buildGraph o) (nTag t) (nTag t)) : ∃ r : Res, Path (buildGraph o) r.node r.node := by
  obtain ⟨y, e, py⟩ := rotate p
  obtain ⟨s, rfl⟩ := from_tag o t y e
  exact ⟨.service s, py⟩

theorem decorator_cycle (o : Output) (i : Nat) (p : Path (buildGraph o) (nDecorator i) (nDecorator i)) :
    ∃ r : Res, Path (buildGraph o) r.node r.node := by
  obtain ⟨y, e, py⟩ := rotate p
  rcases from_decorator o i y e with ⟨r, rfl⟩ | ⟨t, rfl⟩
  · exact ⟨r, py⟩
  · exact tag_cycle o t py

/-- a cycle through any node of the graph (auxiliary ones included) yields a cycle through a resource -/
theorem exists_res_cycle (o : Output) (v : Node) (p : Path (buildGraph o) v v) : ∃ r : Res, Path (buildGraph o) r.node r.node := by
  cases v with
  | service n => exact ⟨.service n, p⟩
  | param n => exact ⟨.param n, p⟩
  | tag t => exact tag_cycle o t p
  | decorator i => exact decorator_cycle o i p
  | decorate t =>
    obtain ⟨y, e, py⟩ := rotate p
    obtain ⟨i, rfl⟩ := from_decorate o t y e
    exact decorator_cycle o i py

end GM.Output
