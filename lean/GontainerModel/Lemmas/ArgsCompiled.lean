/-
The compiler's own output records the dependencies the runtime follows (`ArgsRecorded`): every argument, field value,
call argument and decorator argument in the output of `Compile.compile` is either what a resolver returned — and then
`resolve_records_dependency` applies — or the placeholder of a failed resolution, which asks the runtime for nothing.
This discharges the `ArgsRecorded` hypothesis of the whole-history theorems for compiled configurations.
-/
import GontainerModel.Lemmas.Rank
import GontainerModel.Lemmas.ParamDeps
namespace GM.Runtime
open GM

theorem argWF_zero : ArgWF Compile.zeroArg := by
  have hk : argKind Compile.zeroArg = some .nonStringPrimitive := by decide
  constructor <;> intro h <;> rw [hk] at h <;> cases h

/-- all arguments resolved by `resolveArgs` are well-formed -/
theorem resolveArgs_wf (fns : List Token.FnDef) (st : Imports.St) (args : List Val) :
    ∀ a ∈ (Compile.resolveArgs fns st args).2.1, ArgWF a := by
  unfold Compile.resolveArgs
  simp only
  refine foldl_inv (fun (acc : Imports.St × List Output.Arg × Errs × Nat) => ∀ a ∈ acc.2.1, ArgWF a) args _ _ (by simp) ?_
  intro acc v _ hacc
  unfold Compile.resolveArgsStep
  rcases hr : Compile.resolve Compile.argChain fns acc.1 v with ⟨st', r⟩
  cases r with
  | ok a =>
    simp only
    intro x hx
    rcases List.mem_append.mp hx with h | h
    · exact hacc x h
    · simp at h; rw [h]; exact (resolve_records_dependency fns acc.1 st' v a hr).2
  | error es =>
    simp only
    intro x hx
    rcases List.mem_append.mp hx with h | h
    · exact hacc x h
    · simp at h; subst h; exact argWF_zero

theorem compileFields_wf (fns : List Token.FnDef) (st : Imports.St) (fields : AMap Val) :
    ∀ f ∈ (Compile.compileFields fns st fields).2.1, ArgWF f.value := by
  unfold Compile.compileFields
  refine foldl_inv (fun (acc : Imports.St × List Output.Field × Errs) => ∀ f ∈ acc.2.1, ArgWF f.value) _ _ _ (by simp) ?_
  intro acc nv _ hacc
  unfold Compile.compileFieldStep
  rcases hr : Compile.resolve Compile.argChain fns acc.1 nv.2 with ⟨st', r⟩
  cases r with
  | ok a =>
    simp only
    intro x hx
    rcases List.mem_append.mp hx with h | h
    · exact hacc x h
    · simp at h; rw [h]; exact (resolve_records_dependency fns acc.1 st' nv.2 a hr).2
  | error es =>
    simp only
    intro x hx
    rcases List.mem_append.mp hx with h | h
    · exact hacc x h
    · simp at h; subst h; exact argWF_zero

theorem compileCalls_wf (fns : List Token.FnDef) (st : Imports.St) (calls : List Input.Call) :
    ∀ c ∈ (Compile.compileCalls fns st calls).2.1, ∀ a ∈ c.args, ArgWF a := by
  unfold Compile.compileCalls
  refine foldl_inv (fun (acc : Imports.St × List Output.Call × Errs × Nat) => ∀ c ∈ acc.2.1, ∀ a ∈ c.args, ArgWF a) _ _ _ (by simp) ?_
  intro acc c _ hacc
  unfold Compile.compileCallStep
  simp only
  intro x hx
  rcases List.mem_append.mp hx with h | h
  · exact hacc x h
  · simp at h; subst h; exact resolveArgs_wf fns acc.1 c.args

/-- every argument of a compiled service is well-formed -/
theorem compileService_wf (name : String) (svc : Input.Service) (dm : Option Bool) (fns : List Token.FnDef) (st : Imports.St) :
    ∀ a ∈ (Compile.compileService name svc dm fns st).1.allArgs, ArgWF a := by
  unfold Compile.compileService
  split
  · simp [Output.Service.allArgs]
  · simp only [Output.Service.allArgs]
    intro a ha
    rcases List.mem_append.mp ha with h | h
    · rcases List.mem_append.mp h with h | h
      · exact resolveArgs_wf _ _ _ a h
      · obtain ⟨c, hc, hac⟩ := List.mem_flatMap.mp h
        exact compileCalls_wf _ _ _ c hc a hac
    · obtain ⟨f, hf, rfl⟩ := List.mem_map.mp h
      exact compileFields_wf _ _ _ f hf

theorem compileServices_wf (i : Input.Input) (fns : List Token.FnDef) (st : Imports.St) :
    ∀ s ∈ (Compile.compileServices i fns st).1, ∀ a ∈ s.allArgs, ArgWF a := by
  unfold Compile.compileServices
  simp only
  have key := foldl_inv (fun (acc : Imports.St × List Output.Service × Errs) => ∀ s ∈ acc.2.1, ∀ a ∈ s.allArgs, ArgWF a)
    (AMap.sorted i.services)
    (fun (acc : Imports.St × List Output.Service × Errs) (ns : String × Input.Service) =>
      let (st, ss, errs) := acc
      let (o, st', es) := Compile.compileService ns.1 ns.2 i.mt.defaultMustGetter fns st
      (st', ss ++ [o], errs ++ es)) (st, [], []) (by simp) (by
      intro acc ns _ hacc
      rcases acc with ⟨st0, ss, errs⟩
      simp only
      intro s hs
      rcases List.mem_append.mp hs with h | h
      · exact hacc s h
      · simp at h; subst h; exact compileService_wf _ _ _ _ _)
  exact key

theorem compileDecorators_wf (i : Input.Input) (fns : List Token.FnDef) (st : Imports.St) :
    ∀ d ∈ (Compile.compileDecorators i fns st).1, ∀ a ∈ d.args, ArgWF a := by
  unfold Compile.compileDecorators
  simp only
  refine foldl_inv (fun (acc : Imports.St × List Output.Decorator × Errs × Nat) => ∀ d ∈ acc.2.1, ∀ a ∈ d.args, ArgWF a) _ _ _ (by simp) ?_
  intro acc d _ hacc
  unfold Compile.compileDecoratorsStep
  simp only
  intro x hx
  rcases List.mem_append.mp hx with h | h
  · exact hacc x h
  · simp at h; subst h; exact resolveArgs_wf _ _ _

/-- **what `Compile.compile` returns records every dependency the runtime follows** -/
theorem compiled_args_recorded (bv : String) (i : Input.Input) (o : Output.Output) (st : Imports.St)
    (h : Compile.compile bv i = .ok (o, st)) (p : Prog) (hp : p.out = o) : ArgsRecorded p := by
  unfold Compile.compile at h
  simp only at h
  split at h
  · cases h
  · rcases hm : Compile.compileMeta i {} with ⟨m, st1, fns, mErrs⟩
    rw [hm] at h
    simp only at h
    split at h
    · cases h
    · rcases hps : Compile.compileParams i fns st1 with ⟨ps, st2, pErrs⟩
      rw [hps] at h
      simp only at h
      split at h
      · cases h
      · rcases hss : Compile.compileServices i fns st2 with ⟨ss, st3, sErrs⟩
        rw [hss] at h
        simp only at h
        split at h
        · cases h
        · rcases hds : Compile.compileDecorators i fns st3 with ⟨ds, st4, dErrs⟩
          rw [hds] at h
          simp only at h
          split at h
          · cases h
          · simp only [Except.ok.injEq, Prod.mk.injEq] at h
            obtain ⟨rfl, _⟩ := h
            constructor
            · rw [hp]
              have := compileServices_wf i fns st2
              rw [hss] at this
              exact this
            · rw [hp]
              have := compileDecorators_wf i fns st3
              rw [hds] at this
              exact this

/-- the parameters `Compile.compile` returns are `compileParams` of the input under the functions `compileMeta` registered -/
theorem compile_params_eq (bv : String) (i : Input.Input) (o : Output.Output) (st : Imports.St)
    (h : Compile.compile bv i = .ok (o, st)) :
    o.params = (Compile.compileParams i (Compile.compileMeta i {}).2.2.1 (Compile.compileMeta i {}).2.1).1 := by
  unfold Compile.compile at h
  simp only at h
  split at h
  · cases h
  · rcases hm : Compile.compileMeta i {} with ⟨m, st1, fns, mErrs⟩
    rw [hm] at h
    simp only at h
    split at h
    · cases h
    · rcases hps : Compile.compileParams i fns st1 with ⟨ps, st2, pErrs⟩
      rw [hps] at h
      simp only at h
      split at h
      · cases h
      · rcases hss : Compile.compileServices i fns st2 with ⟨ss, st3, sErrs⟩
        rw [hss] at h
        simp only at h
        split at h
        · cases h
        · rcases hds : Compile.compileDecorators i fns st3 with ⟨ds, st4, dErrs⟩
          rw [hds] at h
          simp only at h
          split at h
          · cases h
          · simp only [Except.ok.injEq, Prod.mk.injEq] at h
            obtain ⟨rfl, _⟩ := h
            simp

/-- a runtime program that runs the compiler's output for the input `i`: its configuration is what `Compile.compile` returned and
its function table is the one `compileMeta` registered -/
def CompiledFrom (p : Prog) (bv : String) (i : Input.Input) : Prop :=
  (∃ st, Compile.compile bv i = .ok (p.out, st)) ∧ p.fns = (Compile.compileMeta i {}).2.2.1

/-- **for compiled programs both recording hypotheses of the whole-history theorems hold** -/
theorem compiled_recorded (p : Prog) (bv : String) (i : Input.Input) (h : CompiledFrom p bv i) :
    ArgsRecorded p ∧ ParamDepsRecorded p := by
  obtain ⟨⟨st, hc⟩, hf⟩ := h
  refine ⟨compiled_args_recorded bv i p.out st hc p rfl, ?_⟩
  intro prm hprm
  have he := compile_params_eq bv i p.out st hc
  rw [he, ← hf] at hprm
  exact compiled_params_recorded p i _ prm hprm

end GM.Runtime
