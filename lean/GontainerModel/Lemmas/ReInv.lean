/-
Inversion lemmas for `Re.Lang`, one per constructor, in `iff` form.
-/
import GontainerModel.Lemmas.Re
namespace GM.Re

theorem lang_empty_iff (w : List Char) : Lang empty w ↔ False :=
  ⟨fun h => (by cases h), False.elim⟩

theorem lang_eps_iff (w : List Char) : Lang eps w ↔ w = [] :=
  ⟨fun h => (by cases h; rfl), fun h => h ▸ Lang.eps⟩

theorem lang_cls_iff (k : Cls) (w : List Char) : Lang (cls k) w ↔ ∃ c, w = [c] ∧ k.mem c = true :=
  ⟨fun h => (by cases h with | @cls _ c hc => exact ⟨c, rfl, hc⟩), fun ⟨_, hw, hc⟩ => hw ▸ Lang.cls hc⟩

theorem lang_any_iff (w : List Char) : Lang anyNotNL w ↔ ∃ c, w = [c] ∧ c ≠ '\n' :=
  ⟨fun h => (by cases h with | @any c hc => exact ⟨c, rfl, hc⟩), fun ⟨_, hw, hc⟩ => hw ▸ Lang.any hc⟩

theorem lang_cat_iff (r s : Re) (w : List Char) :
    Lang (cat r s) w ↔ ∃ x y, w = x ++ y ∧ Lang r x ∧ Lang s y :=
  ⟨fun h => (by cases h with | @cat _ _ x y h1 h2 => exact ⟨x, y, rfl, h1, h2⟩),
   fun ⟨_, _, hw, h1, h2⟩ => hw ▸ Lang.cat h1 h2⟩

theorem lang_alt_iff (r s : Re) (w : List Char) : Lang (alt r s) w ↔ Lang r w ∨ Lang s w :=
  ⟨fun h => (by cases h with | altL h => exact Or.inl h | altR h => exact Or.inr h),
   fun h => h.elim Lang.altL Lang.altR⟩

theorem lang_group_iff (n : String) (r : Re) (w : List Char) : Lang (group n r) w ↔ Lang r w :=
  ⟨fun h => (by cases h; assumption), Lang.group⟩

theorem lang_opt_iff (r : Re) (w : List Char) : Lang (opt r) w ↔ Lang r w ∨ w = [] := by
  unfold opt; rw [lang_alt_iff, lang_eps_iff]

/-- `opt r` followed by `s`: either `s` alone or `r` then `s` -/
theorem lang_optcat_iff (r s : Re) (w : List Char) :
    Lang (cat (opt r) s) w ↔ Lang s w ∨ ∃ x y, w = x ++ y ∧ Lang r x ∧ Lang s y := by
  rw [lang_cat_iff]
  constructor
  · rintro ⟨x, y, rfl, hx, hy⟩
    rcases (lang_opt_iff _ _).mp hx with h | rfl
    · exact Or.inr ⟨x, y, rfl, h, hy⟩
    · exact Or.inl (by simpa using hy)
  · rintro (h | ⟨x, y, rfl, hx, hy⟩)
    · exact ⟨[], w, rfl, (lang_opt_iff _ _).mpr (Or.inr rfl), h⟩
    · exact ⟨x, y, rfl, (lang_opt_iff _ _).mpr (Or.inl hx), hy⟩

/-- a single literal character -/
theorem lang_chr_iff (n : Nat) (w : List Char) : Lang (cls [(n, n)]) w ↔ ∃ c, w = [c] ∧ c.toNat = n := by
  rw [lang_cls_iff]
  constructor
  · rintro ⟨c, rfl, h⟩
    refine ⟨c, rfl, ?_⟩
    simp [Cls.mem] at h
    omega
  · rintro ⟨c, rfl, h⟩
    exact ⟨c, rfl, by simp [Cls.mem, h]⟩

theorem char_of_toNat {c : Char} {d : Char} (h : c.toNat = d.toNat) : c = d :=
  Char.ext (UInt32.toNat_inj.mp h)

/-- `star (cls k)`: every character is in the class -/
theorem lang_star_cls_iff (k : Cls) (w : List Char) : Lang (star (cls k)) w ↔ w.all k.mem = true := by
  constructor
  · intro h
    generalize hs : star (cls k) = s at h
    induction h with
    | starNil => rfl
    | @starCons r x y h1 _ _ ih2 =>
      cases hs
      cases h1 with
      | cls hc => simp [hc, ih2 rfl]
    | _ => cases hs
  · intro h
    induction w with
    | nil => exact Lang.starNil
    | cons c t ih =>
      simp only [List.all_cons, Bool.and_eq_true] at h
      have := Lang.starCons (Lang.cls h.1) (ih h.2)
      simpa using this

end GM.Re
