import GontainerModel.Model.Imports
namespace GM.Imports
open GM

/-- the first path segment of a reference: everything before the first `/` -/
def firstSeg (imp : List Char) : List Char := imp.takeWhile (· != '/')

theorem takeWhile_append_of_notin (a rest : List Char) (h : '/' ∉ a) :
    (a ++ '/' :: rest).takeWhile (· != '/') = a := by
  induction a with
  | nil => simp
  | cons c cs ih =>
    simp only [List.mem_cons, not_or] at h
    have hc : (c != '/') = true := by simp; exact fun e => h.1 e.symm
    simp [List.takeWhile_cons, hc, ih h.2]

theorem takeWhile_self_of_notin (a : List Char) (h : '/' ∉ a) : a.takeWhile (· != '/') = a := by
  induction a with
  | nil => rfl
  | cons c cs ih =>
    simp only [List.mem_cons, not_or] at h
    have hc : (c != '/') = true := by simp; exact fun e => h.1 e.symm
    simp [List.takeWhile_cons, hc, ih h.2]

/-- an alias without `/` matches a reference iff it IS the reference's first path segment -/
theorem segMatch_iff (a imp : List Char) (h : '/' ∉ a) : segMatch a imp = true ↔ firstSeg imp = a ∧ (imp = a ∨ ∃ r, imp = a ++ '/' :: r) := by
  unfold segMatch firstSeg
  constructor
  · intro hm
    simp only [Bool.or_eq_true, beq_iff_eq] at hm
    rcases hm with hm | hm
    · subst hm; exact ⟨takeWhile_self_of_notin _ h, Or.inl rfl⟩
    · obtain ⟨t, ht⟩ := List.isPrefixOf_iff_prefix.mp hm
      have : imp = a ++ '/' :: t := by rw [← ht]; simp
      subst this
      exact ⟨takeWhile_append_of_notin a t h, Or.inr ⟨t, rfl⟩⟩
  · intro ⟨_, h2⟩
    rcases h2 with h2 | ⟨r, h2⟩
    · subst h2; simp
    · subst h2
      simp only [Bool.or_eq_true, beq_iff_eq]
      right
      apply List.isPrefixOf_iff_prefix.mpr
      exact ⟨r, by simp⟩

/-- two slash-free aliases that both match the same reference are equal -/
theorem segMatch_unique (a b imp : List Char) (ha : '/' ∉ a) (hb : '/' ∉ b)
    (h1 : segMatch a imp = true) (h2 : segMatch b imp = true) : a = b := by
  have := (segMatch_iff a imp ha).mp h1
  have := (segMatch_iff b imp hb).mp h2
  simp_all

theorem nodup_keys_unique {V : Type} (l : List (String × V)) (nd : (l.map Prod.fst).Nodup)
    (x y : String × V) (hx : x ∈ l) (hy : y ∈ l) (e : x.1 = y.1) : x = y := by
  induction l with
  | nil => simp at hx
  | cons t ts ih =>
    simp only [List.map_cons, List.nodup_cons] at nd
    simp only [List.mem_cons] at hx hy
    rcases hx with rfl | hx <;> rcases hy with rfl | hy
    · rfl
    · exact absurd (List.mem_map_of_mem (f := Prod.fst) hy) (e ▸ nd.1)
    · exact absurd (List.mem_map_of_mem (f := Prod.fst) hx) (e ▸ nd.1)
    · exact ih nd.2 hx hy

theorem find_perm_unique {α : Type} (p : α → Bool) (l₁ l₂ : List α) (h : l₁.Perm l₂)
    (uniq : ∀ x ∈ l₁, ∀ y ∈ l₁, p x = true → p y = true → x = y) : l₁.find? p = l₂.find? p := by
  cases h1 : l₁.find? p with
  | none =>
    have : ∀ x ∈ l₂, ¬ p x = true := by
      intro x hx
      have := List.find?_eq_none.mp h1 x (h.symm.subset hx)
      simpa using this
    exact (List.find?_eq_none.mpr (by simpa using this)).symm
  | some x =>
    have hx1 := List.mem_of_find?_eq_some h1
    have hpx := List.find?_some h1
    cases h2 : l₂.find? p with
    | none =>
      have := List.find?_eq_none.mp h2 x (h.subset hx1)
      simp_all
    | some y =>
      have hy2 := List.mem_of_find?_eq_some h2
      have hpy := List.find?_some h2
      rw [uniq x hx1 y (h.symm.subset hy2) hpx hpy]

end GM.Imports
