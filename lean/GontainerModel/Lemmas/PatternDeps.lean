import GontainerModel.Model.Compile
/-
Every `%ref%` token of a pattern is recorded as a parameter dependency, whatever its position.
-/
namespace GM.Token
open GM

/-- the reference a token stands for, if it is one -/
def refOf (t : Token) : Option String :=
  match t.sem with
  | .ref r => some r
  | _ => none

theorem create_deps (f : Factory) (st : Imports.St) (chunk : String) (t : Token)
    (h : (create f st chunk).2 = .ok t) : t.dependsOn = (refOf t).toList := by
  cases f with
  | percentMark => simp only [create] at h; cases h; rfl
  | reference => simp only [create] at h; cases h; simp [refOf]
  | string => simp only [create] at h; cases h; rfl
  | unexpectedFunction => simp only [create] at h; cases h
  | unexpectedToken => simp only [create] at h; cases h
  | function d =>
    simp only [create] at h
    split at h <;> (cases h; rfl)

theorem createFirst_deps (fs : List Factory) (st : Imports.St) (chunk : String) (t : Token)
    (h : (createFirst fs st chunk).2 = .ok t) : t.dependsOn = (refOf t).toList := by
  unfold createFirst at h
  split at h
  · exact create_deps _ _ _ _ h
  · cases h

theorem tokenize_fold_deps (fns : List FnDef) (cs : List (List Char)) (acc : Imports.St × List Token × Errs)
    (hacc : ∀ t ∈ acc.2.1, t.dependsOn = (refOf t).toList) :
    ∀ t ∈ (cs.foldl (tokenizeStep fns) acc).2.1, t.dependsOn = (refOf t).toList := by
  induction cs generalizing acc with
  | nil => exact hacc
  | cons c cs ih =>
    rw [List.foldl_cons]
    apply ih
    unfold tokenizeStep
    rcases hc : createFirst (chain fns) acc.1 (String.ofList c) with ⟨st', r⟩
    cases r with
    | error e => simpa using hacc
    | ok t =>
      simp only [List.mem_append, List.mem_singleton]
      rintro t' (ht' | rfl)
      · exact hacc t' ht'
      · exact createFirst_deps _ _ _ _ (by rw [hc])

theorem tokenize_deps (fns : List FnDef) (st : Imports.St) (s : String) (ts : List Token)
    (h : (tokenize fns st s).2 = .ok ts) : ∀ t ∈ ts, t.dependsOn = (refOf t).toList := by
  unfold tokenize at h
  split at h
  · cases h
  · rename_i cs _
    simp only at h
    split at h
    · cases h
      exact tokenize_fold_deps fns cs (st, [], []) (by simp)
    · cases h

theorem flatMap_deps (ts : List Token) (h : ∀ t ∈ ts, t.dependsOn = (refOf t).toList) :
    ts.flatMap (·.dependsOn) = ts.filterMap refOf := by
  induction ts with
  | nil => rfl
  | cons t ts ih =>
    have ht := h t (by simp)
    have := ih (fun x hx => h x (by simp [hx]))
    simp only [List.flatMap_cons, List.filterMap_cons, ht, this]
    cases refOf t <;> simp

end GM.Token
