/-
The parameter dependencies the compiler records cover the references the runtime follows when it evaluates the parameter:
tokenisation finds the same references whatever the state of the import table, and `compileParams` stores them.
-/
import GontainerModel.Lemmas.PatternDeps
import GontainerModel.Lemmas.Rank
namespace GM.Token
open GM

/-- what matters of a created token: whether creation succeeded, and the reference it stands for -/
def refRes : Except String Token → Option (Option String)
  | .ok t => some (refOf t)
  | .error _ => none

theorem create_refs_indep (f : Factory) (st1 st2 : Imports.St) (chunk : String) :
    refRes (create f st1 chunk).2 = refRes (create f st2 chunk).2 := by
  cases f <;> simp only [create, refRes, refOf]

theorem createFirst_refs_indep (fs : List Factory) (st1 st2 : Imports.St) (chunk : String) :
    refRes (createFirst fs st1 chunk).2 = refRes (createFirst fs st2 chunk).2 := by
  unfold createFirst
  split
  · exact create_refs_indep _ _ _ _
  · rfl

theorem fold_refs_indep (fns : List FnDef) (cs : List (List Char)) (a1 a2 : Imports.St × List Token × Errs)
    (h1 : a1.2.1.filterMap refOf = a2.2.1.filterMap refOf) (h2 : a1.2.2.isEmpty = a2.2.2.isEmpty) :
    ((cs.foldl (tokenizeStep fns) a1).2.1.filterMap refOf = (cs.foldl (tokenizeStep fns) a2).2.1.filterMap refOf) ∧
    ((cs.foldl (tokenizeStep fns) a1).2.2.isEmpty = (cs.foldl (tokenizeStep fns) a2).2.2.isEmpty) := by
  induction cs generalizing a1 a2 with
  | nil => exact ⟨h1, h2⟩
  | cons c t ih =>
    simp only [List.foldl_cons]
    apply ih
    · unfold tokenizeStep
      have := createFirst_refs_indep (chain fns) a1.1 a2.1 (String.ofList c)
      rcases r1 : createFirst (chain fns) a1.1 (String.ofList c) with ⟨s1, x1⟩
      rcases r2 : createFirst (chain fns) a2.1 (String.ofList c) with ⟨s2, x2⟩
      rw [r1, r2] at this
      cases x1 <;> cases x2 <;> simp [refRes] at this ⊢
      · exact h1
      · simp [List.filterMap_cons, this]; exact h1
    · unfold tokenizeStep
      have := createFirst_refs_indep (chain fns) a1.1 a2.1 (String.ofList c)
      rcases r1 : createFirst (chain fns) a1.1 (String.ofList c) with ⟨s1, x1⟩
      rcases r2 : createFirst (chain fns) a2.1 (String.ofList c) with ⟨s2, x2⟩
      rw [r1, r2] at this
      cases x1 with
      | error e1 =>
        cases x2 with
        | error e2 =>
          have ne : ∀ (l : List String) (e : String), (l ++ [e]).isEmpty = false := by intro l e; cases l <;> rfl
          show List.isEmpty (a1.2.2 ++ [e1]) = List.isEmpty (a2.2.2 ++ [e2])
          rw [ne, ne]
        | ok t2 => simp [refRes] at this
      | ok t1 =>
        cases x2 with
        | error e2 => simp [refRes] at this
        | ok t2 => exact h2

/-- the references of a pattern do not depend on the import table it is tokenised with -/
theorem tokenize_refs_indep (fns : List FnDef) (st1 st2 : Imports.St) (s : String) (ts1 : List Token)
    (h : (tokenize fns st1 s).2 = .ok ts1) :
    ∃ ts2, (tokenize fns st2 s).2 = .ok ts2 ∧ ts2.filterMap refOf = ts1.filterMap refOf := by
  unfold tokenize at h ⊢
  cases hc : Chunk.chunksE s.toList with
  | error b => rw [hc] at h; cases h
  | ok cs =>
    rw [hc] at h
    simp only at h ⊢
    have := fold_refs_indep fns cs (st1, [], []) (st2, [], []) rfl rfl
    split at h
    · rename_i he
      cases h
      rw [he] at this
      simp only [← this.2, ↓reduceIte]
      exact ⟨_, rfl, this.1.symm⟩
    · cases h

end GM.Token

namespace GM.Runtime
open GM

theorem refsOf_eq (p : Prog) (v : Val) :
    refsOf p v = match v with
      | .str s => (match (Token.tokenize p.fns {} s).2 with
        | .ok ts => ts.filterMap Token.refOf
        | .error _ => [])
      | _ => [] := by
  unfold refsOf Token.refOf
  cases v <;> rfl

/-- a parameter value the chain resolves records every reference the runtime will follow -/
theorem resolve_param_records (p : Prog) (st st' : Imports.St) (v : Val) (a : Output.Arg)
    (h : Compile.resolve Compile.paramChain p.fns st v = (st', .ok a)) : ∀ n ∈ refsOf p a.raw, n ∈ a.depParams := by
  unfold Compile.resolve at h
  cases hf : Compile.paramChain.find? (Compile.supports · v) with
  | none => rw [hf] at h; simp at h
  | some r =>
    rw [hf] at h
    simp only at h
    have hr : r = .nonStringPrimitive ∨ r = .pattern := by
      have := List.mem_of_find?_eq_some hf
      simpa [Compile.paramChain] using this
    rcases hr with rfl | rfl
    · simp only [Compile.resolveWith] at h
      simp at h
      obtain ⟨_, rfl⟩ := h
      have hsup := List.find?_some hf
      cases v <;> simp [Compile.supports, Val.isString, Val.isPrimitive] at hsup <;> simp [refsOf]
    · cases v with
      | str s =>
        simp only [Compile.resolveWith] at h
        rcases ht : Token.tokenize p.fns st s with ⟨st1, r⟩
        rw [ht] at h
        cases r with
        | error es => simp at h
        | ok ts =>
          simp only at h
          cases hg : Token.goCode ts with
          | error e => rw [hg] at h; simp at h
          | ok c =>
            rw [hg] at h
            simp at h
            obtain ⟨_, rfl⟩ := h
            intro n hn
            rw [refsOf_eq] at hn
            simp only at hn
            obtain ⟨ts2, h2, heq⟩ := Token.tokenize_refs_indep p.fns st {} s ts (by rw [ht])
            rw [h2] at hn
            simp only at hn
            rw [heq] at hn
            rw [Token.flatMap_deps ts (Token.tokenize_deps p.fns st s ts (by rw [ht]))]
            exact hn
      | _ => simp [Compile.resolveWith] at h

/-- **every parameter `compileParams` produces records the references the runtime follows** -/
theorem compiled_params_recorded (p : Prog) (i : Input.Input) (st : Imports.St) :
    ∀ prm ∈ (Compile.compileParams i p.fns st).1, ∀ n ∈ refsOf p prm.raw, n ∈ prm.dependsOn := by
  unfold Compile.compileParams
  simp only
  -- invariant of the fold over the sorted parameters
  have inv : ∀ (l : List (String × Val)) (acc : Imports.St × List Output.Param × Errs),
      (∀ prm ∈ acc.2.1, ∀ n ∈ refsOf p prm.raw, n ∈ prm.dependsOn) →
      ∀ prm ∈ (l.foldl (fun (acc : Imports.St × List Output.Param × Errs) (kv : String × Val) =>
          match Compile.resolve Compile.paramChain p.fns acc.1 kv.2 with
          | (st', .ok a) => (st', acc.2.1 ++ [{ name := kv.1, code := a.code, raw := a.raw, dependsOn := a.depParams }], acc.2.2)
          | (st', .error es) => (st', acc.2.1 ++ [{ name := kv.1, code := "", raw := .null, dependsOn := [] }],
              acc.2.2 ++ Errs.pfx (Val.quoteStr kv.1 ++ ": ") es)) acc).2.1, ∀ n ∈ refsOf p prm.raw, n ∈ prm.dependsOn := by
    intro l
    induction l with
    | nil => intro acc h; exact h
    | cons kv t ih =>
      intro acc h
      simp only [List.foldl_cons]
      apply ih
      rcases hr : Compile.resolve Compile.paramChain p.fns acc.1 kv.2 with ⟨st', r⟩
      cases r with
      | ok a =>
        simp only [List.mem_append, List.mem_singleton]
        rintro prm (hp | rfl)
        · exact h prm hp
        · exact resolve_param_records p acc.1 st' kv.2 a hr
      | error es =>
        simp only [List.mem_append, List.mem_singleton]
        rintro prm (hp | rfl)
        · exact h prm hp
        · intro n hn; simp [refsOf] at hn
  intro prm hprm
  have := inv (AMap.sorted i.params) (st, [], []) (by simp)
  exact this prm hprm

end GM.Runtime
