/- helper lemmas for Props/C06.lean (kept apart so that the property file holds property statements only) -/
import GontainerModel.Model.Compile
import GontainerModel.Generated.Wiring
namespace GM.C06
open GM GM.Output

theorem pfx_nil_iff (p : String) (e : Errs) : Errs.pfx p e = [] ↔ e = [] := by
  simp [Errs.pfx]

theorem missing_nil_iff (decl deps : List String) : missing decl deps = [] ↔ ∀ n ∈ deps, n ∈ decl := by
  simp [missing, List.filter_eq_nil_iff]

end GM.C06
