/-
Non-shared services: every `get` of a service that is created by a constructor and whose scope caches nothing
returns an object allocated during that very call — so no two calls can return the same instance — and leaves the
caches' entries for that service as they were.
-/
import GontainerModel.Lemmas.History
namespace GM.Runtime
open GM

/-- an object allocated at or after serial `N` and before the state's next serial -/
def FreshIn (N : Nat) (st : St) : RV → Prop
  | .ref _ n => N ≤ n ∧ n < st.next
  | _ => False

theorem FreshIn.mono {N : Nat} {st st' : St} {v : RV} (h : FreshIn N st v) (hn : st.next ≤ st'.next) : FreshIn N st' v := by
  cases v <;> simp_all [FreshIn]
  omega

section
variable (ra : RA) (ras : RAS)

theorem createObj_fresh (p : Prog) (s : Output.Service) (st : St) (bag : Bag) (hc : (s.constructor != "") = true)
    (hras : ∀ s' b, s'.next ≤ (ras s' b s.args).1.next)
    (s1 : St) (b1 : Bag) (obj : RV) (h : createObj ras p s st bag = (s1, b1, .ok obj)) : FreshIn st.next s1 obj := by
  unfold createObj at h
  simp only [hc, ↓reduceIte] at h
  have hm := hras st bag
  rcases hr : ras st bag s.args with ⟨s2, b2, r⟩
  rw [hr] at h hm
  cases r with
  | error e => simp at h
  | ok vals =>
    simp only at h
    split at h
    · simp at h
    · simp only [alloc, Prod.mk.injEq, Except.ok.injEq] at h
      obtain ⟨rfl, _, rfl⟩ := h
      simp only [FreshIn]
      constructor
      · exact hm
      · simp

theorem fieldFold_obj (obj : RV) (fs : List Output.Field) (acc : St × Bag × List String)
    (hra : ∀ s' b a, s'.next ≤ (ra s' b a).1.next) : acc.1.next ≤ (fs.foldl (fieldStep ra obj) acc).1.next := by
  refine foldl_inv (fun (a : St × Bag × List String) => acc.1.next ≤ a.1.next) _ _ _ (Nat.le_refl _) ?_
  intro a fl _ ha
  obtain ⟨s1, b1, errs⟩ := a
  unfold fieldStep
  simp only
  have := hra s1 b1 fl.value
  rcases hr : ra s1 b1 fl.value with ⟨s2, b2, r⟩
  rw [hr] at this
  cases r with
  | error e => exact Nat.le_trans ha this
  | ok v => cases obj <;> simp only [updObj] <;> exact Nat.le_trans ha this

theorem callFold_fresh (N : Nat) (cs : List Output.Call) (acc : St × Bag × RV × List String)
    (hras : ∀ s' b as, s'.next ≤ (ras s' b as).1.next) (h0 : FreshIn N acc.1 acc.2.2.1) :
    FreshIn N (cs.foldl (callStep ras) acc).1 (cs.foldl (callStep ras) acc).2.2.1 := by
  refine foldl_inv (fun (a : St × Bag × RV × List String) => FreshIn N a.1 a.2.2.1) _ _ _ h0 ?_
  intro a c _ ha
  obtain ⟨s1, b1, cur, errs⟩ := a
  unfold callStep
  simp only
  have hm := hras s1 b1 c.args
  rcases hr : ras s1 b1 c.args with ⟨s2, b2, r⟩
  rw [hr] at hm
  have hm' : s1.next ≤ s2.next := hm
  cases r with
  | error e => exact FreshIn.mono ha hm'
  | ok vals =>
    cases cur with
    | ref b n =>
      simp only
      split
      · simp only [alloc, FreshIn] at ha ⊢
        constructor <;> omega
      · simp only [updObj]
        exact FreshIn.mono ha hm'
    | _ => simp [FreshIn] at ha

theorem decoFold_fresh (N : Nat) (p : Prog) (s : Output.Service) (id : String) (ds : List Output.Decorator)
    (acc : St × Bag × RV × Option String × Nat)
    (hras : ∀ s' b as, s'.next ≤ (ras s' b as).1.next) (h0 : FreshIn N acc.1 acc.2.2.1) :
    FreshIn N (ds.foldl (decoStep ras p s id) acc).1 (ds.foldl (decoStep ras p s id) acc).2.2.1 := by
  refine foldl_inv (fun (a : St × Bag × RV × Option String × Nat) => FreshIn N a.1 a.2.2.1) _ _ _ h0 ?_
  intro a d _ ha
  obtain ⟨s1, b1, cur, err, i⟩ := a
  unfold decoStep
  simp only
  split
  · exact ha
  · split
    · exact ha
    · have hm := hras s1 b1 d.args
      rcases hr : ras s1 b1 d.args with ⟨s2, b2, r⟩
      rw [hr] at hm
      have hm' : s1.next ≤ s2.next := hm
      cases r with
      | error e => exact FreshIn.mono ha hm'
      | ok vals =>
        simp only [alloc, FreshIn]
        cases cur with
        | ref b n =>
          simp only [FreshIn] at ha
          constructor <;> omega
        | _ => simp [FreshIn] at ha

/-- the construction of a service created by a constructor, when it succeeds, returns an object allocated during it -/
theorem getBody_fresh (p : Prog) (s : Output.Service) (sc : Output.Scope) (id : String) (st : St) (bag : Bag)
    (hc : (s.constructor != "") = true)
    (hra : ∀ s' b a, s'.next ≤ (ra s' b a).1.next) (hras : ∀ s' b as, s'.next ≤ (ras s' b as).1.next)
    (st' : St) (bag' : Bag) (v : RV) (h : getBody ra ras p s sc id st bag = (st', bag', .ok v)) : FreshIn st.next st' v := by
  unfold getBody at h
  split at h
  · simp at h
  · rcases hcr : createObj ras p s st bag with ⟨s1, b1, created⟩
    rw [hcr] at h
    cases created with
    | error e => simp at h
    | ok obj =>
      have f1 := createObj_fresh ras p s st bag hc (fun s' b => hras s' b s.args) s1 b1 obj hcr
      simp only at h
      have n2 := fieldFold_obj ra obj s.fields (s1, b1, []) hra
      rcases hfl : List.foldl (fieldStep ra obj) (s1, b1, []) s.fields with ⟨s2, b2, ferrs⟩
      rw [hfl] at h n2
      have f2 : FreshIn st.next s2 obj := FreshIn.mono f1 n2
      simp only at h
      split at h
      · simp at h
      · have f3 := callFold_fresh ras st.next s.calls (s2, b2, obj, []) hras f2
        rcases hcl : List.foldl (callStep ras) (s2, b2, obj, []) s.calls with ⟨s3, b3, obj3, cerrs⟩
        rw [hcl] at h f3
        simp only at h
        split at h
        · simp at h
        · have f4 := decoFold_fresh ras st.next p s id p.out.decorators (s3, b3, obj3, none, 0) hras f3
          rcases hdl : List.foldl (decoStep ras p s id) (s3, b3, obj3, none, 0) p.out.decorators with ⟨s4, b4, obj4, derr, i4⟩
          rw [hdl] at h f4
          simp only at h
          cases derr with
          | some e => simp at h
          | none =>
            simp only at h
            have f4' : FreshIn st.next s4 obj4 := f4
            unfold finishGet at h
            cases sc <;> simp at h <;> obtain ⟨rfl, _, rfl⟩ := h <;> exact f4'

end

/-- the construction of a service whose scope caches nothing touches no cache entry of rank `rk id` or above -/
theorem getBody_inv_nc (p : Prog) (rk : String → Nat) (ra : RA) (ras : RAS) (s : Output.Service) (id : String) (st : St) (bag : Bag)
    (hargs : ∀ s' b, SInv p rk (rk id) s' b (ras s' b s.args).1 (ras s' b s.args).2.1)
    (hfields : ∀ fl ∈ s.fields, ∀ s' b, SInv p rk (rk id) s' b (ra s' b fl.value).1 (ra s' b fl.value).2.1)
    (hcalls : ∀ c ∈ s.calls, ∀ s' b, SInv p rk (rk id) s' b (ras s' b c.args).1 (ras s' b c.args).2.1)
    (hdecos : ∀ d ∈ p.out.decorators, s.tags.any (·.name == d.tag) = true →
      ∀ s' b, SInv p rk (rk id) s' b (ras s' b d.args).1 (ras s' b d.args).2.1)
    (hns : effScope p st id = .nonShared ∨ effScope p st id = .default) :
    SInv p rk (rk id) st bag (getBody ra ras p s (effScope p st id) id st bag).1
      (getBody ra ras p s (effScope p st id) id st bag).2.1 := by
  unfold getBody
  split
  · exact SInv.refl _ _ _ _ _
  · have h1 := createObj_inv p rk (rk id) ras s st bag hargs
    rcases hcr : createObj ras p s st bag with ⟨s1, b1, created⟩
    rw [hcr] at h1
    have h1' : SInv p rk (rk id) st bag s1 b1 := h1
    simp only
    cases created with
    | error e => exact h1'
    | ok obj =>
      simp only
      have h2 := fieldFold_inv p rk (rk id) ra obj s.fields st bag hfields (s1, b1, []) h1'
      rcases hfl : List.foldl (fieldStep ra obj) (s1, b1, []) s.fields with ⟨s2, b2, ferrs⟩
      rw [hfl] at h2
      have h2' : SInv p rk (rk id) st bag s2 b2 := h2
      simp only
      split
      · exact h2'
      · have h3 := callFold_inv p rk (rk id) ras s.calls st bag hcalls (s2, b2, obj, []) h2'
        rcases hcl : List.foldl (callStep ras) (s2, b2, obj, []) s.calls with ⟨s3, b3, obj3, cerrs⟩
        rw [hcl] at h3
        have h3' : SInv p rk (rk id) st bag s3 b3 := h3
        simp only
        split
        · exact h3'
        · have h4 := decoFold_inv p rk (rk id) ras s id p.out.decorators st bag hdecos (s3, b3, obj3, none, 0) h3'
          rcases hdl : List.foldl (decoStep ras p s id) (s3, b3, obj3, none, 0) p.out.decorators with ⟨s4, b4, obj4, derr, i4⟩
          rw [hdl] at h4
          have h4' : SInv p rk (rk id) st bag s4 b4 := h4
          simp only
          cases derr with
          | some e => exact h4'
          | none =>
            simp only
            have hsc : effScope p s4 id = effScope p st id := effScope_congr p st s4 h4'.ovS id
            have hnsh : effScope p s4 id ≠ .shared := by
              rw [hsc]; rcases hns with x | x <;> rw [x] <;> simp
            have hnct : effScope p s4 id ≠ .contextual := by
              rw [hsc]; rcases hns with x | x <;> rw [x] <;> simp
            have hlog : LogOK p s4 b4 ("ctor:" ++ id) :=
              Or.inr ⟨id, rfl, fun h => absurd h hnsh, fun h => absurd h hnct⟩
            have h5 : SInv p rk (rk id) s4 b4 (finishGet (effScope p st id) id obj4 s4 b4).1 (finishGet (effScope p st id) id obj4 s4 b4).2.1 := by
              unfold finishGet
              rcases hns with x | x <;> rw [x] <;>
                exact ⟨rfl, rfl, rfl, fun _ => Or.inl rfl, fun _ => Or.inl rfl, fun _ => Or.inl rfl,
                  ⟨["ctor:" ++ id], rfl, by simpa using hlog⟩, Nat.le_refl _⟩
            exact SInv.trans h4' h5

/-- **a non-shared service is built afresh by every `get`** (runtime model): the call returns an object allocated during
that call (serial at or above the counter at its start), and the entries the caches hold for that service stay as they were -/
theorem get_nonShared_fresh (p : Prog) (rk rkP : String → Nat) (hsr : SRanked p rk) (hpr : Ranked p rkP)
    (f : Nat) (st : St) (bag : Bag) (id : String) (s : Output.Service) (v : RV) (st' : St) (bag' : Bag)
    (hov : st.ovServices.lookup id = none) (hs : svcByName p id = some s) (hsc : effScope p st id = .nonShared)
    (hc : (s.constructor != "") = true) (hok : get f p st bag id = (st', bag', .ok v)) :
    FreshIn st.next st' v ∧ st'.shared.lookup id = st.shared.lookup id ∧ bag'.lookup id = bag.lookup id := by
  cases f with
  | zero => simp [get] at hok
  | succ f =>
    obtain ⟨_, ihA, ihAS, _⟩ := sinv_main p rk rkP hsr hpr f
    obtain ⟨hmem, hname⟩ := svc_of_byName hs
    have hdep : ∀ d, SvcDep p s d → rk d < rk id := fun d hd => hname ▸ hsr s hmem d hd
    -- every callback keeps the serial counter monotone
    have bnd : ∀ a : Output.Arg, ∀ d, ArgDep p a d → rk d < refBound rk (a.depServices.headD "" :: p.out.services.map (·.name)) := by
      intro a d hd
      apply lt_refBound
      rcases hd with ⟨_, rfl⟩ | ⟨_, s', hs', hn, _⟩
      · exact List.mem_cons_self ..
      · exact List.mem_cons_of_mem _ (hn ▸ List.mem_map_of_mem hs')
    have mra : ∀ s' b a, s'.next ≤ (resolveArg f p s' b a).1.next := fun s' b a => (ihA s' b a _ (bnd a)).nx
    have mras : ∀ s' b as, s'.next ≤ (resolveArgs f p s' b as).1.next := by
      intro s' b as
      exact (ihAS s' b as (refBound rk ((as.map fun a => a.depServices.headD "") ++ p.out.services.map (·.name)))
        (fun a ha d hd => by
          apply lt_refBound
          rcases hd with ⟨_, rfl⟩ | ⟨_, s'', hs'', hn, _⟩
          · exact List.mem_append_left _ (List.mem_map_of_mem ha)
          · exact List.mem_append_right _ (hn ▸ List.mem_map_of_mem hs''))).nx
    unfold get at hok
    simp only [hov, hs, hsc] at hok
    constructor
    · exact getBody_fresh _ _ p s .nonShared id st bag hc mra mras st' bag' v hok
    · have hinv := getBody_inv_nc p rk (fun st bag a => resolveArg f p st bag a) (fun st bag as => resolveArgs f p st bag as) s id st bag
        (fun s' b => ihAS s' b s.args (rk id) (fun a ha d hd => hdep d (Or.inl ⟨a, ha, hd⟩)))
        (fun fl hfl s' b => ihA s' b fl.value (rk id) (fun d hd => hdep d (Or.inr (Or.inl ⟨fl, hfl, hd⟩))))
        (fun c hc' s' b => ihAS s' b c.args (rk id) (fun a ha d hd => hdep d (Or.inr (Or.inr (Or.inl ⟨c, hc', a, ha, hd⟩)))))
        (fun d hd hcar s' b => ihAS s' b d.args (rk id) (fun a ha d' hd' => hdep d' (Or.inr (Or.inr (Or.inr ⟨d, hd, hcar, a, ha, hd'⟩)))))
        (Or.inl hsc)
      rw [hsc, hok] at hinv
      constructor
      · rcases hinv.sh id with x | ⟨_, y⟩
        · exact x
        · omega
      · rcases hinv.bg id with x | ⟨_, y⟩
        · exact x
        · omega

/-- two `get`s of a non-shared service, one after the other, never return the same instance -/
theorem nonShared_never_same (N : Nat) (st1 st2 : St) (v1 v2 : RV) (h1 : FreshIn N st1 v1) (h2 : FreshIn st1.next st2 v2) :
    v1 ≠ v2 := by
  cases v1 <;> cases v2 <;> simp_all [FreshIn]
  omega

end GM.Runtime
