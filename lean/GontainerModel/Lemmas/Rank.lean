/-
An acyclic finite graph has a rank that decreases along every path: the number of nodes reachable from a node.
With it the history theorems (stated over an abstract rank) apply to every program whose compiled dependency
graph the cycle validator accepts.
-/
import GontainerModel.Lemmas.Graph
import GontainerModel.Lemmas.DepGraph
import GontainerModel.Lemmas.ServiceOnce
namespace GM.Graph
variable {α : Type} [DecidableEq α]

/-- number of nodes reachable from `a` -/
def rankOf (g : G α) (a : α) : Nat := (g.nodes.filter fun x => (reachD g a).contains x).length

theorem path_end_mem_nodes (g : G α) {a b : α} (p : Path g a b) : b ∈ g.nodes := by
  induction p with
  | edge e => exact (mem_nodes_of_edge g e).2
  | cons _ _ ih => exact ih

theorem rank_lt_of_path (g : G α) (hac : cyclic g = false) {a b : α} (p : Path g a b) : rankOf g b < rankOf g a := by
  unfold rankOf
  apply filter_length_lt g.nodes _ _ _ b (path_end_mem_nodes g p)
  · simpa using (mem_reachD g a b).mpr p
  · cases h : (reachD g b).contains b with
    | false => rfl
    | true =>
      have hp : Path g b b := (mem_reachD g b b).mp (by simpa using h)
      have : cyclic g = true := (cyclic_iff' g).mpr ⟨b, hp⟩
      rw [hac] at this; cases this
  · intro x hx
    have hx' : Path g b x := (mem_reachD g b x).mp (by simpa using hx)
    simpa using (mem_reachD g a x).mpr (Path.trans p hx')

end GM.Graph

namespace GM.Runtime
open GM GM.Graph GM.Output

/-- parameters: every reference the runtime follows is a recorded dependency -/
def ParamDepsRecorded (p : Prog) : Prop := ∀ prm ∈ p.out.params, ∀ n ∈ refsOf p prm.raw, n ∈ prm.dependsOn

/-- **an acyclic compiled graph ranks the parameters** -/
theorem ranked_of_acyclic (p : Prog) (hac : cyclic (buildGraph p.out) = false) (hd : ParamDepsRecorded p) :
    Ranked p (fun n => rankOf (buildGraph p.out) (nParam n)) := by
  intro prm hprm n hn _
  apply rank_lt_of_path _ hac
  apply Path.edge
  unfold buildGraph
  simp only [List.mem_append, List.mem_flatMap, List.mem_map]
  right
  exact ⟨prm, hprm, n, hd prm hprm n hn, rfl⟩

/-- arguments: the resolver recorded the service / tag the runtime fetches -/
def ArgWF (a : Output.Arg) : Prop :=
  (argKind a = some .service → a.depServices ≠ []) ∧ (argKind a = some .tagged → a.depTags ≠ [])

def ArgsRecorded (p : Prog) : Prop :=
  (∀ s ∈ p.out.services, ∀ a ∈ s.allArgs, ArgWF a) ∧ (∀ d ∈ p.out.decorators, ∀ a ∈ d.args, ArgWF a)

theorem headD_mem {β : Type} (l : List β) (d : β) (h : l ≠ []) : l.headD d ∈ l := by
  cases l with
  | nil => exact absurd rfl h
  | cons x t => simp

theorem argsDep_of_argDep (p : Prog) (args : List Output.Arg) (a : Output.Arg) (ha : a ∈ args) (hwf : ArgWF a) (d : String)
    (h : ArgDep p a d) : Output.ArgsDep p.out args (.service d) := by
  rcases h with ⟨hk, rfl⟩ | ⟨hk, s, hs, hn, hf⟩
  · left
    exact List.mem_flatMap.mpr ⟨a, ha, headD_mem _ _ (hwf.1 hk)⟩
  · right
    refine ⟨a.depTags.headD "", List.mem_flatMap.mpr ⟨a, ha, headD_mem _ _ (hwf.2 hk)⟩, s, hs, hn, ?_⟩
    cases hfind : s.tags.find? (·.name == a.depTags.headD "") with
    | none => rw [hfind] at hf; cases hf
    | some tg =>
      refine ⟨tg, List.mem_of_find?_eq_some hfind, ?_⟩
      have := List.find?_some hfind
      simpa using this

/-- **an acyclic compiled graph ranks the services**: every dependency the runtime follows — arguments, fields, calls,
carriers of requested tags, arguments of the decorators of carried tags — leads to a service of smaller rank -/
theorem sranked_of_acyclic (p : Prog) (hac : cyclic (buildGraph p.out) = false) (hw : ArgsRecorded p) :
    SRanked p (fun n => rankOf (buildGraph p.out) (nService n)) := by
  intro s hs d hd
  apply rank_lt_of_path _ hac
  have hcd : Output.ConfigDep p.out (.service s.name) (.service d) := by
    rcases hd with ⟨a, ha, h⟩ | ⟨fl, hfl, h⟩ | ⟨c, hc, a, ha, h⟩ | ⟨dc, hdc, hcar, a, ha, h⟩
    · have hm : a ∈ s.allArgs := by simp [Output.Service.allArgs, ha]
      exact Output.ConfigDep.own hs (argsDep_of_argDep p _ a hm (hw.1 s hs a hm) d h)
    · have hm : fl.value ∈ s.allArgs := by
        simp only [Output.Service.allArgs, List.mem_append, List.mem_map]
        exact Or.inr ⟨fl, hfl, rfl⟩
      exact Output.ConfigDep.own hs (argsDep_of_argDep p _ fl.value hm (hw.1 s hs _ hm) d h)
    · have hm : a ∈ s.allArgs := by
        simp only [Output.Service.allArgs, List.mem_append, List.mem_flatMap]
        exact Or.inl (Or.inr ⟨c, hc, ha⟩)
      exact Output.ConfigDep.own hs (argsDep_of_argDep p _ a hm (hw.1 s hs a hm) d h)
    · obtain ⟨tg, htg, hname⟩ := List.any_eq_true.mp hcar
      obtain ⟨i, hi⟩ : ∃ i, (dc, i) ∈ p.out.decorators.zipIdx := by
        obtain ⟨i, hlt, hget⟩ := List.mem_iff_getElem.mp hdc
        exact ⟨i, List.mem_zipIdx_iff_getElem?.mpr (by simp [hget, hlt])⟩
      exact Output.ConfigDep.dec hs htg hi (by have := hname; simp at this; exact this.symm) (argsDep_of_argDep p _ a ha (hw.2 dc hdc a ha) d h)
  exact Output.path_of_configDep p.out _ _ hcd

/-- **the resolvers record what the runtime will fetch**: an argument the first-match chain resolves successfully keeps its
declared value, and when it is an `@service` / `!tagged` form the named service / tag is recorded as its dependency — so the
arguments of a compiled configuration satisfy `ArgWF` -/
theorem resolve_records_dependency (fns : List Token.FnDef) (st st' : Imports.St) (v : Val) (a : Output.Arg)
    (h : Compile.resolve Compile.argChain fns st v = (st', .ok a)) : a.raw = v ∧ ArgWF a := by
  unfold Compile.resolve at h
  cases hf : Compile.argChain.find? (Compile.supports · v) with
  | none => rw [hf] at h; simp at h
  | some r =>
    rw [hf] at h
    simp only at h
    have hraw : a.raw = v ∧ (r = .service → a.depServices ≠ []) ∧ (r = .tagged → a.depTags ≠ []) := by
      cases r <;> cases v <;> simp only [Compile.resolveWith] at h <;>
        first
        | (simp at h; obtain ⟨_, rfl⟩ := h; simp)
        | (split at h <;> simp at h <;> (try (obtain ⟨_, rfl⟩ := h; simp)))
        | (split at h <;> (try (simp at h)) <;> (try (split at h <;> simp at h <;> (try (obtain ⟨_, rfl⟩ := h; simp)))))
        | simp at h
    refine ⟨hraw.1, ?_, ?_⟩
    · intro hk; unfold argKind at hk; rw [hraw.1, hf] at hk; exact hraw.2.1 (by simpa using hk)
    · intro hk; unfold argKind at hk; rw [hraw.1, hf] at hk; exact hraw.2.2 (by simpa using hk)

end GM.Runtime
