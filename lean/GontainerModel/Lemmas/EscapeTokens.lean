import GontainerModel.Lemmas.Escape
namespace GM.Escape
open GM GM.Chunk GM.Token

theorem toExpr_none_of_free (c : List Char) (h : '%' ∉ c) : Chunk.toExpr c = none := by
  match c with
  | [] => rfl
  | [_] => rfl
  | x :: y :: rest =>
    have hx : x ≠ '%' := by intro e; subst e; simp at h
    simp [Chunk.toExpr, hx]

theorem captures_simpleFn_nil : Re.captures Rx.simpleFn [] = none := by
  simp [Re.captures, Re.bt, Rx.simpleFn, Rx.goToken]

/-- text of the literal token an escaped chunk becomes -/
def litOf (c : List Char) : String := String.ofList (unescChunk c)

/-- the token an escaped chunk becomes: a string token whose provider returns `litOf c` -/
def IsLit (t : Token) (c : List Char) : Prop := t.sem = .lit (litOf c)

theorem free_ne_pp (c : List Char) (h : '%' ∉ c) : (String.ofList c == "%%") = false := by
  have : String.ofList c ≠ "%%" := by
    intro e
    have := congrArg String.toList e
    simp at this
    rw [this] at h
    simp at h
  simpa using this

theorem not_supported_fn_free (d : FnDef) (c : List Char) (h : '%' ∉ c) : supports (.function d) (String.ofList c) = false := by
  simp [supports, simpleFnCaps, expr, toExpr_none_of_free c h]

theorem toExpr_pp : Chunk.toExpr ['%', '%'] = some [] := by decide

theorem not_supported_fn_pp (d : FnDef) : supports (.function d) "%%" = false := by
  simp [supports, simpleFnCaps, expr, toExpr_pp, captures_simpleFn_nil]

theorem find_fns_none (fns : List FnDef) (chunk : String) (h : ∀ d, supports (.function d) chunk = false) :
    (fns.reverse.map Factory.function).find? (supports · chunk) = none := by
  apply List.find?_eq_none.mpr
  intro f hf
  obtain ⟨d, _, rfl⟩ := List.mem_map.mp hf
  simp [h d]

/-- an escaped chunk always becomes a literal token, whatever functions are registered, and leaves the
import table alone -/
theorem create_escaped (fns : List FnDef) (st : Imports.St) (c : List Char) (hc : EscChunk c) :
    ∃ t, createFirst (chain fns) st (String.ofList c) = (st, .ok t) ∧ IsLit t c := by
  unfold createFirst chain
  rw [List.find?_append]
  rcases hc with rfl | hfree
  · have hpp : String.ofList ['%', '%'] = "%%" := by decide
    rw [hpp, find_fns_none fns "%%" not_supported_fn_pp]
    simp only [Option.none_or, baseFactories, List.find?_cons]
    have : supports .percentMark "%%" = true := by simp [supports]
    simp only [this]
    exact ⟨_, rfl, by simp [IsLit, create, litOf, unescChunk]⟩
  · rw [find_fns_none fns _ (fun d => not_supported_fn_free d c hfree)]
    simp only [Option.none_or, baseFactories, List.find?_cons]
    have h1 : supports .percentMark (String.ofList c) = false := by simp [supports, free_ne_pp c hfree]
    have h2 : supports .reference (String.ofList c) = false := by simp [supports, expr, toExpr_none_of_free c hfree]
    have h3 : supports .unexpectedFunction (String.ofList c) = false := by simp [supports, simpleFnCaps, expr, toExpr_none_of_free c hfree]
    have h4 : supports .unexpectedToken (String.ofList c) = false := by simp [supports, expr, toExpr_none_of_free c hfree]
    have h5 : supports .string (String.ofList c) = true := by simp [supports]
    simp only [h1, h2, h3, h4, h5]
    exact ⟨_, rfl, by simp [IsLit, create, litOf, unescChunk_free c hfree]⟩

/-- the tokenizer's loop over escaped chunks: no error, import table untouched, one literal token per chunk -/
theorem tokenize_fold (fns : List FnDef) (st : Imports.St) (cs : List (List Char)) (hcs : ∀ c ∈ cs, EscChunk c)
    (toks : List Token) (pre : List (List Char)) (hpre : toks.map (·.sem) = pre.map (fun c => Sem.lit (litOf c))) :
    ∃ toks', cs.foldl (tokenizeStep fns) (st, toks, []) = (st, toks', []) ∧
      toks'.map (·.sem) = (pre ++ cs).map (fun c => Sem.lit (litOf c)) := by
  induction cs generalizing toks pre with
  | nil => exact ⟨toks, rfl, by simpa using hpre⟩
  | cons c cs ih =>
    obtain ⟨t, ht, hlit⟩ := create_escaped fns st c (hcs c (by simp))
    simp only [List.foldl_cons, tokenizeStep, ht]
    have hpre' : (toks ++ [t]).map (·.sem) = (pre ++ [c]).map (fun c => Sem.lit (litOf c)) := by
      have hl : t.sem = Sem.lit (litOf c) := hlit
      simp [hpre, hl]
    obtain ⟨toks', h1, h2⟩ := ih (fun c' hc' => hcs c' (by simp [hc'])) (toks ++ [t]) (pre ++ [c]) hpre'
    exact ⟨toks', h1, by simpa using h2⟩

theorem join_ofList (l : List (List Char)) (acc : String) :
    List.foldl (fun r s => r ++ s) acc (l.map String.ofList) = acc ++ String.ofList l.flatten := by
  induction l generalizing acc with
  | nil => simp
  | cons x xs ih => simp [ih, String.ofList_append, String.append_assoc]

/-- evaluating literal tokens: a single one yields its text, several yield the concatenation -/
theorem eval_lits (env : Env) (ts : List Token) (cs : List (List Char)) (hne : cs ≠ [])
    (h : ts.map (·.sem) = cs.map (fun c => Sem.lit (litOf c))) :
    evalTokens env ts = .ok (.str (String.ofList (unesc cs))) := by
  have hm : ∀ (ts : List Token) (cs : List (List Char)), ts.map (·.sem) = cs.map (fun c => Sem.lit (litOf c)) →
      ts.mapM (evalToken env) = .ok (cs.map fun c => Val.str (litOf c)) := by
    intro ts
    induction ts with
    | nil => intro cs h; cases cs <;> simp_all <;> rfl
    | cons t ts ih =>
      intro cs h
      cases cs with
      | nil => simp at h
      | cons c cs =>
        simp only [List.map_cons, List.cons.injEq] at h
        rw [List.mapM_cons, ih cs h.2]
        simp [evalToken, h.1]
        rfl
  have hmm := hm ts cs h
  unfold evalTokens
  match ts, cs, h, hmm with
  | [t], [c], h, _ =>
    simp only [List.map_cons, List.map_nil, List.cons.injEq, and_true] at h
    simp [evalToken, h, litOf, unesc]
  | [], [], _, _ => exact absurd rfl hne
  | [], _ :: _, h, _ => simp at h
  | _ :: _, [], h, _ => simp at h
  | [_], _ :: _ :: _, h, _ => simp at h
  | t1 :: t2 :: ts', cs', h, hmm =>
    simp only [hmm, Except.map]
    congr 2
    simp only [List.map_map, String.join]
    have : (List.map (Val.castToString ∘ fun c => Val.str (litOf c)) cs') = (cs'.map unescChunk).map String.ofList := by
      simp [Function.comp_def, Val.castToString, litOf]
    rw [this, join_ofList]
    simp [unesc, List.flatMap]

end GM.Escape
