/-
Services over whole histories (runtime model). `get` / `getTaggedBy` never touch overrides; cache entries
(shared cache, context bag, parameter cache) are only ADDED; under an acyclic (ranked) dependency relation an
entry is never replaced; and the constructions that run are those of services that were not cached.
-/
import GontainerModel.Lemmas.ParamOnce
namespace GM.Runtime
open GM

/-! ### the dependency relation the runtime follows -/

def argKind (a : Output.Arg) : Option Compile.Resolver := Compile.argChain.find? (Compile.supports · a.raw)

/-- `n` carries `tag` -/
def IsCarrier (p : Prog) (tag n : String) : Prop :=
  ∃ s ∈ p.out.services, s.name = n ∧ (s.tags.find? (·.name == tag)).isSome = true

/-- the service an argument makes the runtime fetch -/
def ArgDep (p : Prog) (a : Output.Arg) (d : String) : Prop :=
  (argKind a = some .service ∧ d = a.depServices.headD "") ∨
  (argKind a = some .tagged ∧ IsCarrier p (a.depTags.headD "") d)

/-- direct dependencies of a service: its arguments, fields, calls, and the arguments of every decorator attached to a
tag it carries -/
def SvcDep (p : Prog) (s : Output.Service) (d : String) : Prop :=
  (∃ a ∈ s.args, ArgDep p a d) ∨ (∃ fl ∈ s.fields, ArgDep p fl.value d) ∨
  (∃ c ∈ s.calls, ∃ a ∈ c.args, ArgDep p a d) ∨
  (∃ dc ∈ p.out.decorators, s.tags.any (·.name == dc.tag) = true ∧ ∃ a ∈ dc.args, ArgDep p a d)

/-- `rk` decreases along every direct dependency (the service graph is acyclic) -/
def SRanked (p : Prog) (rk : String → Nat) : Prop :=
  ∀ s ∈ p.out.services, ∀ d, SvcDep p s d → rk d < rk s.name

/-! ### the invariant -/

/-- why a log entry may appear: a provider of a parameter that was not cached, or a construction of a service that was
not cached where its scope caches it -/
def LogOK (p : Prog) (st : St) (bag : Bag) (e : String) : Prop :=
  (∃ n, e = "param:" ++ n ∧ st.pcache.lookup n = none) ∨
  (∃ n, e = "ctor:" ++ n ∧ (effScope p st n = .shared → st.shared.lookup n = none) ∧
    (effScope p st n = .contextual → bag.lookup n = none))

structure SInv (p : Prog) (rk : String → Nat) (R : Nat) (st : St) (bag : Bag) (st' : St) (bag' : Bag) : Prop where
  ovP : st'.ovParams = st.ovParams
  ovS : st'.ovServices = st.ovServices
  ctx : st'.ctxBags = st.ctxBags
  sh : ∀ n, st'.shared.lookup n = st.shared.lookup n ∨ (st.shared.lookup n = none ∧ rk n < R)
  bg : ∀ n, bag'.lookup n = bag.lookup n ∨ (bag.lookup n = none ∧ rk n < R)
  pc : ∀ n, st'.pcache.lookup n = st.pcache.lookup n ∨ st.pcache.lookup n = none
  lg : ∃ suf, st'.evalLog = st.evalLog ++ suf ∧ ∀ e ∈ suf, LogOK p st bag e
  nx : st.next ≤ st'.next

theorem effScope_congr (p : Prog) (st st' : St) (h : st'.ovServices = st.ovServices) (n : String) :
    effScope p st' n = effScope p st n := by
  unfold effScope
  rw [h]

theorem SInv.refl (p : Prog) (rk : String → Nat) (R : Nat) (st : St) (bag : Bag) : SInv p rk R st bag st bag :=
  ⟨rfl, rfl, rfl, fun _ => Or.inl rfl, fun _ => Or.inl rfl, fun _ => Or.inl rfl, ⟨[], by simp, by simp⟩, Nat.le_refl _⟩

theorem SInv.mono {p : Prog} {rk : String → Nat} {R R' : Nat} {a : St} {ba : Bag} {b : St} {bb : Bag}
    (h : SInv p rk R a ba b bb) (hR : R ≤ R') : SInv p rk R' a ba b bb := by
  refine ⟨h.ovP, h.ovS, h.ctx, fun n => ?_, fun n => ?_, h.pc, h.lg, h.nx⟩
  · rcases h.sh n with x | ⟨x, y⟩
    · exact Or.inl x
    · exact Or.inr ⟨x, by omega⟩
  · rcases h.bg n with x | ⟨x, y⟩
    · exact Or.inl x
    · exact Or.inr ⟨x, by omega⟩

theorem SInv.trans {p : Prog} {rk : String → Nat} {R : Nat} {a : St} {ba : Bag} {b : St} {bb : Bag} {c : St} {bc : Bag}
    (h1 : SInv p rk R a ba b bb) (h2 : SInv p rk R b bb c bc) : SInv p rk R a ba c bc := by
  obtain ⟨suf1, l1, m1⟩ := h1.lg
  obtain ⟨suf2, l2, m2⟩ := h2.lg
  refine ⟨h2.ovP.trans h1.ovP, h2.ovS.trans h1.ovS, h2.ctx.trans h1.ctx, fun n => ?_, fun n => ?_, fun n => ?_,
    ⟨suf1 ++ suf2, by rw [l2, l1, List.append_assoc], ?_⟩, Nat.le_trans h1.nx h2.nx⟩
  · rcases h2.sh n with hb | ⟨hb, hlt⟩
    · rcases h1.sh n with ha | ⟨ha, hlt'⟩
      · exact Or.inl (hb.trans ha)
      · exact Or.inr ⟨ha, hlt'⟩
    · rcases h1.sh n with ha | ⟨ha, hlt'⟩
      · exact Or.inr ⟨by rw [← ha]; exact hb, hlt⟩
      · exact Or.inr ⟨ha, hlt'⟩
  · rcases h2.bg n with hb | ⟨hb, hlt⟩
    · rcases h1.bg n with ha | ⟨ha, hlt'⟩
      · exact Or.inl (hb.trans ha)
      · exact Or.inr ⟨ha, hlt'⟩
    · rcases h1.bg n with ha | ⟨ha, hlt'⟩
      · exact Or.inr ⟨by rw [← ha]; exact hb, hlt⟩
      · exact Or.inr ⟨ha, hlt'⟩
  · rcases h2.pc n with hb | hb
    · rcases h1.pc n with ha | ha
      · exact Or.inl (hb.trans ha)
      · exact Or.inr ha
    · rcases h1.pc n with ha | ha
      · exact Or.inr (by rw [← ha]; exact hb)
      · exact Or.inr ha
  · intro e he
    rcases List.mem_append.mp he with he | he
    · exact m1 e he
    · rcases m2 e he with ⟨n, rfl, hn⟩ | ⟨n, rfl, hs, hc⟩
      · left
        refine ⟨n, rfl, ?_⟩
        rcases h1.pc n with ha | ha
        · rw [← ha]; exact hn
        · exact ha
      · right
        refine ⟨n, rfl, ?_, ?_⟩
        · intro hsc
          have := hs (by rw [effScope_congr p a b h1.ovS]; exact hsc)
          rcases h1.sh n with ha | ⟨ha, _⟩
          · rw [← ha]; exact this
          · exact ha
        · intro hsc
          have := hc (by rw [effScope_congr p a b h1.ovS]; exact hsc)
          rcases h1.bg n with ha | ⟨ha, _⟩
          · rw [← ha]; exact this
          · exact ha

/-- a parameter evaluation is a service-level step too -/
theorem SInv.ofPInv {p : Prog} {rk rkP : String → Nat} {R RP : Nat} {st st' : St} (bag : Bag)
    (h : PInv rkP RP st st') : SInv p rk R st bag st' bag := by
  obtain ⟨h1, h2, h3, h4, _, h6, h7, suf, h8, h9⟩ := h
  refine ⟨h1, h2, h4, fun n => Or.inl (by rw [h3]), fun _ => Or.inl rfl, fun n => ?_, ⟨suf, h8, fun e he => Or.inl (h9 e he)⟩, by rw [h6]; exact Nat.le_refl _⟩
  rcases h7 n with x | ⟨x, _⟩
  · exact Or.inl x
  · exact Or.inr x

/-- changes of the object heap only -/
theorem SInv.heapOnly (p : Prog) (rk : String → Nat) (R : Nat) (st : St) (bag : Bag) (h : List (Nat × Obj)) (k : Nat)
    (hk : st.next ≤ k) : SInv p rk R st bag { st with heap := h, next := k } bag :=
  ⟨rfl, rfl, rfl, fun _ => Or.inl rfl, fun _ => Or.inl rfl, fun _ => Or.inl rfl, ⟨[], by simp, by simp⟩, hk⟩

theorem sinv_alloc (p : Prog) (rk : String → Nat) (R : Nat) (st : St) (bag : Bag) (o : Obj) :
    SInv p rk R st bag (alloc st o).1 bag := SInv.heapOnly p rk R st bag _ _ (Nat.le_succ _)

theorem sinv_updObj (p : Prog) (rk : String → Nat) (R : Nat) (st : St) (bag : Bag) (n : Nat) (f : Obj → Obj) :
    SInv p rk R st bag (updObj st n f) bag := SInv.heapOnly p rk R st bag _ _ (Nat.le_refl _)

theorem foldl_inv {α β : Type} (I : β → Prop) (l : List α) (step : β → α → β) (b : β) (hb : I b)
    (hstep : ∀ acc, ∀ a ∈ l, I acc → I (step acc a)) : I (l.foldl step b) := by
  induction l generalizing b with
  | nil => exact hb
  | cons a t ih =>
    simp only [List.foldl_cons]
    exact ih _ (hstep b a (List.mem_cons_self ..) hb) (fun acc x hx => hstep acc x (List.mem_cons_of_mem _ hx))

/-! ### the stages of `get`, over callbacks that keep the invariant -/

section stages
variable (p : Prog) (rk : String → Nat) (R : Nat)

abbrev RA := St → Bag → Output.Arg → St × Bag × Except String RV
abbrev RAS := St → Bag → List Output.Arg → St × Bag × Except String (List RV)

theorem argsFold_inv (ra : RA) (as : List Output.Arg) (st : St) (bag : Bag)
    (hra : ∀ a ∈ as, ∀ s b, SInv p rk R s b (ra s b a).1 (ra s b a).2.1) (acc0 : St × Bag × List RV × List String)
    (h0 : SInv p rk R st bag acc0.1 acc0.2.1) :
    SInv p rk R st bag (as.foldl (argsStep ra) acc0).1 (as.foldl (argsStep ra) acc0).2.1 := by
  refine foldl_inv (fun (acc : St × Bag × List RV × List String) => SInv p rk R st bag acc.1 acc.2.1) _ _ _ h0 ?_
  intro acc a ha hacc
  obtain ⟨s1, b1, vals, errs⟩ := acc
  unfold argsStep
  simp only
  have := hra a ha s1 b1
  rcases hr : ra s1 b1 a with ⟨s2, b2, r⟩
  rw [hr] at this
  cases r <;> exact SInv.trans hacc this

theorem fieldFold_inv (ra : RA) (obj : RV) (fs : List Output.Field) (st : St) (bag : Bag)
    (hra : ∀ fl ∈ fs, ∀ s b, SInv p rk R s b (ra s b fl.value).1 (ra s b fl.value).2.1) (acc0 : St × Bag × List String)
    (h0 : SInv p rk R st bag acc0.1 acc0.2.1) :
    SInv p rk R st bag (fs.foldl (fieldStep ra obj) acc0).1 (fs.foldl (fieldStep ra obj) acc0).2.1 := by
  refine foldl_inv (fun (acc : St × Bag × List String) => SInv p rk R st bag acc.1 acc.2.1) _ _ _ h0 ?_
  intro acc fl hfl hacc
  obtain ⟨s1, b1, errs⟩ := acc
  unfold fieldStep
  simp only
  have := hra fl hfl s1 b1
  rcases hr : ra s1 b1 fl.value with ⟨s2, b2, r⟩
  rw [hr] at this
  cases r with
  | error e => exact SInv.trans hacc this
  | ok v =>
    have this' : SInv p rk R s1 b1 s2 b2 := this
    cases obj <;> simp only <;>
      first | exact SInv.trans hacc this' | exact SInv.trans (SInv.trans hacc this') (sinv_updObj p rk R s2 b2 _ _)

theorem callFold_inv (ras : RAS) (cs : List Output.Call) (st : St) (bag : Bag)
    (hras : ∀ c ∈ cs, ∀ s b, SInv p rk R s b (ras s b c.args).1 (ras s b c.args).2.1) (acc0 : St × Bag × RV × List String)
    (h0 : SInv p rk R st bag acc0.1 acc0.2.1) :
    SInv p rk R st bag (cs.foldl (callStep ras) acc0).1 (cs.foldl (callStep ras) acc0).2.1 := by
  refine foldl_inv (fun (acc : St × Bag × RV × List String) => SInv p rk R st bag acc.1 acc.2.1) _ _ _ h0 ?_
  intro acc c hc hacc
  obtain ⟨s1, b1, cur, errs⟩ := acc
  unfold callStep
  simp only
  have := hras c hc s1 b1
  rcases hr : ras s1 b1 c.args with ⟨s2, b2, r⟩
  rw [hr] at this
  cases r with
  | error e => exact SInv.trans hacc this
  | ok vals =>
    have this' : SInv p rk R s1 b1 s2 b2 := this
    cases cur <;> simp only <;> try exact SInv.trans hacc this'
    split
    · exact SInv.trans (SInv.trans hacc this') (sinv_alloc p rk R s2 b2 _)
    · simp only
      exact SInv.trans (SInv.trans hacc this') (sinv_updObj p rk R s2 b2 _ _)

theorem decoFold_inv (ras : RAS) (s : Output.Service) (id : String) (ds : List Output.Decorator) (st : St) (bag : Bag)
    (hras : ∀ d ∈ ds, s.tags.any (·.name == d.tag) = true → ∀ s' b, SInv p rk R s' b (ras s' b d.args).1 (ras s' b d.args).2.1)
    (acc0 : St × Bag × RV × Option String × Nat) (h0 : SInv p rk R st bag acc0.1 acc0.2.1) :
    SInv p rk R st bag (ds.foldl (decoStep ras p s id) acc0).1 (ds.foldl (decoStep ras p s id) acc0).2.1 := by
  refine foldl_inv (fun (acc : St × Bag × RV × Option String × Nat) => SInv p rk R st bag acc.1 acc.2.1) _ _ _ h0 ?_
  intro acc d hd hacc
  obtain ⟨s1, b1, cur, err, i⟩ := acc
  unfold decoStep
  simp only
  split
  · exact hacc
  · split
    · exact hacc
    · rename_i hcar
      have hcar' : s.tags.any (·.name == d.tag) = true := by simpa using hcar
      have := hras d hd hcar' s1 b1
      rcases hr : ras s1 b1 d.args with ⟨s2, b2, r⟩
      rw [hr] at this
      cases r with
      | error e => exact SInv.trans hacc this
      | ok vals =>
        have this' : SInv p rk R s1 b1 s2 b2 := this
        exact SInv.trans (SInv.trans hacc this') (sinv_alloc p rk R s2 b2 _)

theorem taggedFold_inv (g : St → Bag → String → St × Bag × Except String RV) (cs : List (String × Int)) (st : St) (bag : Bag)
    (hg : ∀ c ∈ cs, ∀ s b, SInv p rk R s b (g s b c.1).1 (g s b c.1).2.1) (acc0 : St × Bag × List RV × Option String)
    (h0 : SInv p rk R st bag acc0.1 acc0.2.1) :
    SInv p rk R st bag (cs.foldl (taggedStep g) acc0).1 (cs.foldl (taggedStep g) acc0).2.1 := by
  refine foldl_inv (fun (acc : St × Bag × List RV × Option String) => SInv p rk R st bag acc.1 acc.2.1) _ _ _ h0 ?_
  intro acc c hc hacc
  obtain ⟨s1, b1, vals, err⟩ := acc
  unfold taggedStep
  simp only
  split
  · exact hacc
  · have := hg c hc s1 b1
    rcases hr : g s1 b1 c.1 with ⟨s2, b2, r⟩
    rw [hr] at this
    cases r <;> exact SInv.trans hacc this

theorem createObj_inv (ras : RAS) (s : Output.Service) (st : St) (bag : Bag)
    (hras : ∀ s' b, SInv p rk R s' b (ras s' b s.args).1 (ras s' b s.args).2.1) :
    SInv p rk R st bag (createObj ras p s st bag).1 (createObj ras p s st bag).2.1 := by
  unfold createObj
  split
  · have := hras st bag
    rcases hr : ras st bag s.args with ⟨s2, b2, r⟩
    rw [hr] at this
    cases r with
    | error e => exact this
    | ok vals =>
      have this' : SInv p rk R st bag s2 b2 := this
      simp only
      split
      · exact this'
      · exact SInv.trans this' (sinv_alloc p rk R s2 b2 _)
  · split
    · split
      · exact sinv_alloc p rk R _ _ _
      · exact SInv.refl _ _ _ _ _
    · exact SInv.refl _ _ _ _ _

theorem lookup_cons_self {α : Type} (id : String) (v : α) (l : List (String × α)) :
    List.lookup id ((id, v) :: l) = some v := by simp [List.lookup]

theorem finishGet_inv (id : String) (obj : RV) (st : St) (bag : Bag)
    (hs : effScope p st id = .shared → st.shared.lookup id = none)
    (hc : effScope p st id = .contextual → bag.lookup id = none) :
    SInv p rk (rk id + 1) st bag (finishGet (effScope p st id) id obj st bag).1 (finishGet (effScope p st id) id obj st bag).2.1 := by
  have hlog : LogOK p st bag ("ctor:" ++ id) := Or.inr ⟨id, rfl, hs, hc⟩
  unfold finishGet
  cases hsc : effScope p st id with
  | shared =>
    refine ⟨rfl, rfl, rfl, fun n => ?_, fun _ => Or.inl rfl, fun _ => Or.inl rfl, ⟨["ctor:" ++ id], rfl, by simpa using hlog⟩, Nat.le_refl _⟩
    by_cases hn : n = id
    · subst hn; exact Or.inr ⟨hs hsc, by omega⟩
    · exact Or.inl (lookup_cons_ne id n obj _ hn)
  | contextual =>
    refine ⟨rfl, rfl, rfl, fun _ => Or.inl rfl, fun n => ?_, fun _ => Or.inl rfl, ⟨["ctor:" ++ id], rfl, by simpa using hlog⟩, Nat.le_refl _⟩
    by_cases hn : n = id
    · subst hn; exact Or.inr ⟨hc hsc, by omega⟩
    · exact Or.inl (lookup_cons_ne id n obj _ hn)
  | default =>
    exact ⟨rfl, rfl, rfl, fun _ => Or.inl rfl, fun _ => Or.inl rfl, fun _ => Or.inl rfl, ⟨["ctor:" ++ id], rfl, by simpa using hlog⟩, Nat.le_refl _⟩
  | nonShared =>
    exact ⟨rfl, rfl, rfl, fun _ => Or.inl rfl, fun _ => Or.inl rfl, fun _ => Or.inl rfl, ⟨["ctor:" ++ id], rfl, by simpa using hlog⟩, Nat.le_refl _⟩

theorem getBody_inv (ra : RA) (ras : RAS) (s : Output.Service) (id : String) (st : St) (bag : Bag)
    (hargs : ∀ s' b, SInv p rk (rk id) s' b (ras s' b s.args).1 (ras s' b s.args).2.1)
    (hfields : ∀ fl ∈ s.fields, ∀ s' b, SInv p rk (rk id) s' b (ra s' b fl.value).1 (ra s' b fl.value).2.1)
    (hcalls : ∀ c ∈ s.calls, ∀ s' b, SInv p rk (rk id) s' b (ras s' b c.args).1 (ras s' b c.args).2.1)
    (hdecos : ∀ d ∈ p.out.decorators, s.tags.any (·.name == d.tag) = true →
      ∀ s' b, SInv p rk (rk id) s' b (ras s' b d.args).1 (ras s' b d.args).2.1)
    (hs : effScope p st id = .shared → st.shared.lookup id = none)
    (hc : effScope p st id = .contextual → bag.lookup id = none) :
    SInv p rk (rk id + 1) st bag (getBody ra ras p s (effScope p st id) id st bag).1
      (getBody ra ras p s (effScope p st id) id st bag).2.1 := by
  unfold getBody
  split
  · exact SInv.refl _ _ _ _ _
  · have h1 := createObj_inv p rk (rk id) ras s st bag hargs
    rcases hcr : createObj ras p s st bag with ⟨s1, b1, created⟩
    rw [hcr] at h1
    have h1' : SInv p rk (rk id) st bag s1 b1 := h1
    simp only
    cases created with
    | error e => exact h1'.mono (by omega)
    | ok obj =>
      simp only
      have h2 := fieldFold_inv p rk (rk id) ra obj s.fields st bag hfields (s1, b1, []) h1'
      rcases hfl : List.foldl (fieldStep ra obj) (s1, b1, []) s.fields with ⟨s2, b2, ferrs⟩
      rw [hfl] at h2
      have h2' : SInv p rk (rk id) st bag s2 b2 := h2
      simp only
      split
      · exact h2'.mono (by omega)
      · have h3 := callFold_inv p rk (rk id) ras s.calls st bag hcalls (s2, b2, obj, []) h2'
        rcases hcl : List.foldl (callStep ras) (s2, b2, obj, []) s.calls with ⟨s3, b3, obj3, cerrs⟩
        rw [hcl] at h3
        have h3' : SInv p rk (rk id) st bag s3 b3 := h3
        simp only
        split
        · exact h3'.mono (by omega)
        · have h4 := decoFold_inv p rk (rk id) ras s id p.out.decorators st bag hdecos (s3, b3, obj3, none, 0) h3'
          rcases hdl : List.foldl (decoStep ras p s id) (s3, b3, obj3, none, 0) p.out.decorators with ⟨s4, b4, obj4, derr, i4⟩
          rw [hdl] at h4
          have h4' : SInv p rk (rk id) st bag s4 b4 := h4
          simp only
          cases derr with
          | some e => exact h4'.mono (by omega)
          | none =>
            simp only
            have hsc : effScope p s4 id = effScope p st id := effScope_congr p st s4 h4'.ovS id
            have hs4 : effScope p s4 id = .shared → s4.shared.lookup id = none := by
              intro h
              rcases h4'.sh id with x | ⟨_, y⟩
              · rw [x]; exact hs (hsc ▸ h)
              · omega
            have hc4 : effScope p s4 id = .contextual → b4.lookup id = none := by
              intro h
              rcases h4'.bg id with x | ⟨_, y⟩
              · rw [x]; exact hc (hsc ▸ h)
              · omega
            have h5 := finishGet_inv p rk id obj4 s4 b4 hs4 hc4
            rw [hsc] at h5
            exact SInv.trans (h4'.mono (by omega)) h5

end stages

/-! ### the four mutually recursive functions -/

theorem svc_of_byName {p : Prog} {id : String} {s : Output.Service} (h : svcByName p id = some s) :
    s ∈ p.out.services ∧ s.name = id := by
  unfold svcByName at h
  refine ⟨List.mem_of_find?_eq_some h, ?_⟩
  have := List.find?_some h
  simpa using this

/-- a number above the rank of every listed name -/
def refBound (rk : String → Nat) (l : List String) : Nat := l.foldl (fun m n => max m (rk n + 1)) 0

theorem le_foldl_max (rk : String → Nat) (l : List String) (m : Nat) :
    m ≤ l.foldl (fun m n => max m (rk n + 1)) m := by
  induction l generalizing m with
  | nil => exact Nat.le_refl _
  | cons y u ih => simp only [List.foldl_cons]; exact Nat.le_trans (Nat.le_max_left _ _) (ih _)

theorem lt_refBound (rk : String → Nat) (l : List String) (n : String) (h : n ∈ l) : rk n < refBound rk l := by
  unfold refBound
  generalize 0 = m
  induction l generalizing m with
  | nil => cases h
  | cons x t ih =>
    simp only [List.foldl_cons]
    rcases List.mem_cons.mp h with rfl | h
    · exact Nat.lt_of_lt_of_le (by omega) (le_foldl_max rk t _)
    · exact ih h _

theorem sinv_main (p : Prog) (rk rkP : String → Nat) (hsr : SRanked p rk) (hpr : Ranked p rkP) :
    ∀ f : Nat,
      (∀ st bag id, SInv p rk (rk id + 1) st bag (get f p st bag id).1 (get f p st bag id).2.1) ∧
      (∀ st bag a R, (∀ d, ArgDep p a d → rk d < R) →
        SInv p rk R st bag (resolveArg f p st bag a).1 (resolveArg f p st bag a).2.1) ∧
      (∀ st bag as R, (∀ a ∈ as, ∀ d, ArgDep p a d → rk d < R) →
        SInv p rk R st bag (resolveArgs f p st bag as).1 (resolveArgs f p st bag as).2.1) ∧
      (∀ st bag tag R, (∀ d, IsCarrier p tag d → rk d < R) →
        SInv p rk R st bag (getTagged f p st bag tag).1 (getTagged f p st bag tag).2.1) := by
  intro f
  induction f with
  | zero =>
    refine ⟨fun st bag id => ?_, fun st bag a R _ => ?_, fun st bag as R _ => ?_, fun st bag tag R _ => ?_⟩ <;>
      exact SInv.refl _ _ _ _ _
  | succ f ih =>
    obtain ⟨ihG, ihA, ihAS, ihT⟩ := ih
    refine ⟨?_, ?_, ?_, ?_⟩
    · -- get
      intro st bag id
      unfold get
      cases hov : st.ovServices.lookup id with
      | some v => exact SInv.refl _ _ _ _ _
      | none =>
        cases hsv : svcByName p id with
        | none => exact SInv.refl _ _ _ _ _
        | some s =>
          obtain ⟨hmem, hname⟩ := svc_of_byName hsv
          simp only
          have hdep : ∀ d, SvcDep p s d → rk d < rk id := fun d hd => hname ▸ hsr s hmem d hd
          have body : (effScope p st id = .shared → st.shared.lookup id = none) →
              (effScope p st id = .contextual → bag.lookup id = none) →
              SInv p rk (rk id + 1) st bag
                (getBody (fun st bag a => resolveArg f p st bag a) (fun st bag as => resolveArgs f p st bag as) p s (effScope p st id) id st bag).1
                (getBody (fun st bag a => resolveArg f p st bag a) (fun st bag as => resolveArgs f p st bag as) p s (effScope p st id) id st bag).2.1 := by
            intro hs hc
            apply getBody_inv p rk _ _ s id st bag
            · intro s' b
              exact ihAS s' b s.args (rk id) (fun a ha d hd => hdep d (Or.inl ⟨a, ha, hd⟩))
            · intro fl hfl s' b
              exact ihA s' b fl.value (rk id) (fun d hd => hdep d (Or.inr (Or.inl ⟨fl, hfl, hd⟩)))
            · intro c hc' s' b
              exact ihAS s' b c.args (rk id) (fun a ha d hd => hdep d (Or.inr (Or.inr (Or.inl ⟨c, hc', a, ha, hd⟩))))
            · intro d hd hcar s' b
              exact ihAS s' b d.args (rk id) (fun a ha d' hd' => hdep d' (Or.inr (Or.inr (Or.inr ⟨d, hd, hcar, a, ha, hd'⟩))))
            · exact hs
            · exact hc
          cases hsc : effScope p st id with
          | shared =>
            simp only
            cases hl : st.shared.lookup id with
            | some v => exact SInv.refl _ _ _ _ _
            | none =>
              simp only
              have := body (fun _ => hl) (fun h => by rw [hsc] at h; cases h)
              rw [hsc] at this
              exact this
          | contextual =>
            simp only
            cases hl : bag.lookup id with
            | some v => exact SInv.refl _ _ _ _ _
            | none =>
              simp only
              have := body (fun h => by rw [hsc] at h; cases h) (fun _ => hl)
              rw [hsc] at this
              exact this
          | default =>
            simp only
            have := body (fun h => by rw [hsc] at h; cases h) (fun h => by rw [hsc] at h; cases h)
            rw [hsc] at this
            exact this
          | nonShared =>
            simp only
            have := body (fun h => by rw [hsc] at h; cases h) (fun h => by rw [hsc] at h; cases h)
            rw [hsc] at this
            exact this
    · -- resolveArg
      intro st bag a R hR
      unfold resolveArg
      cases hk : Compile.argChain.find? (Compile.supports · a.raw) with
      | none => exact SInv.refl _ _ _ _ _
      | some k =>
        cases k with
        | nonStringPrimitive => exact SInv.refl _ _ _ _ _
        | value => exact SInv.refl _ _ _ _ _
        | gontainerValue => exact SInv.refl _ _ _ _ _
        | service =>
          simp only
          exact (ihG st bag (a.depServices.headD "")).mono (hR _ (Or.inl ⟨hk, rfl⟩))
        | tagged =>
          simp only
          exact ihT st bag (a.depTags.headD "") R (fun d hd => hR d (Or.inr ⟨hk, hd⟩))
        | pattern =>
          simp only
          have hE := (pinv_main p rkP hpr f).2 st a.raw (refBound rkP (refsOf p a.raw)) (fun n hn _ => lt_refBound rkP _ n hn)
          rcases hres : evalRaw f p st a.raw with ⟨s1, r⟩
          rw [hres] at hE
          exact SInv.ofPInv bag hE
    · -- resolveArgs
      intro st bag as R hR
      unfold resolveArgs
      have h := argsFold_inv p rk R (fun st bag a => resolveArg f p st bag a) as st bag
        (fun a ha s b => ihA s b a R (hR a ha)) (st, bag, [], []) (SInv.refl _ _ _ _ _)
      rcases hf : List.foldl (argsStep fun st bag a => resolveArg f p st bag a) (st, bag, [], []) as with ⟨s1, b1, vals, errs⟩
      rw [hf] at h
      simp only
      split <;> exact h
    · -- getTagged
      intro st bag tag R hR
      unfold getTagged
      simp only
      have hmemc : ∀ c ∈ (List.filterMap (fun s : Output.Service =>
            if (st.ovServices.lookup s.name).isSome then none
            else Option.map (fun t : Output.Tag => (s.name, t.priority)) (List.find? (fun x => x.name == tag) s.tags)) p.out.services).mergeSort
            (fun a b => if a.2 = b.2 then AMap.strLe a.1 b.1 else decide (a.2 > b.2)), IsCarrier p tag c.1 := by
        intro c hc
        have hc' := (List.mergeSort_perm _ _).subset hc
        obtain ⟨s, hs, hsome⟩ := List.mem_filterMap.mp hc'
        split at hsome
        · cases hsome
        · cases hfind : List.find? (fun x => x.name == tag) s.tags with
          | none => rw [hfind] at hsome; cases hsome
          | some t =>
            rw [hfind] at hsome
            simp at hsome
            exact ⟨s, hs, by rw [← hsome], by rw [hfind]; rfl⟩
      have h := taggedFold_inv p rk R (fun st bag n => get f p st bag n) _ st bag
        (fun c hc s b => (ihG s b c.1).mono (hR c.1 (hmemc c hc))) (st, bag, [], none) (SInv.refl _ _ _ _ _)
      rcases hf : List.foldl (taggedStep fun st bag n => get f p st bag n) (st, bag, [], none) _ with ⟨s1, b1, vals, err⟩
      rw [hf] at h
      simp only
      cases err <;> exact h

end GM.Runtime
