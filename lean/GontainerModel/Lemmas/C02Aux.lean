/- helper lemmas for Props/C02.lean (kept apart so that the property file holds property statements only) -/
import GontainerModel.Model.Runtime
import GontainerModel.Generated.Wiring
namespace GM.C02
open GM GM.Compile

/-- every resolver hands the original value on as `Raw` -/
theorem resolveWith_raw (r : Resolver) (fns : List Token.FnDef) (st : Imports.St) (v : Val) (a : Output.Arg)
    (st' : Imports.St) (h : resolveWith r fns st v = (st', .ok a)) : a.raw = v := by
  unfold resolveWith at h
  split at h <;> try (simp at h; try (obtain ⟨_, rfl⟩ := h); try rfl)
  all_goals (try (split at h <;> simp at h <;> (try (obtain ⟨_, rfl⟩ := h; rfl))))
  all_goals (try (split at h <;> simp at h <;> (try (obtain ⟨_, rfl⟩ := h; rfl))))
  all_goals (try (split at h <;> simp at h <;> (try (obtain ⟨_, rfl⟩ := h; rfl))))
  case h_6 s =>
    rcases ht : Token.tokenize fns st s with ⟨st2, r⟩
    rw [ht] at h
    cases r with
    | error es => simp at h
    | ok ts =>
      simp only at h
      cases hg : Token.goCode ts with
      | error e => rw [hg] at h; simp at h
      | ok c => rw [hg] at h; simp at h; obtain ⟨_, rfl⟩ := h; rfl

theorem resolve_raw (ch : List Resolver) (fns : List Token.FnDef) (st st' : Imports.St) (v : Val) (a : Output.Arg)
    (h : resolve ch fns st v = (st', .ok a)) : a.raw = v := by
  unfold resolve at h
  split at h
  · exact resolveWith_raw _ _ _ _ _ _ h
  · simp at h

theorem tokenize_error_nonempty (fns : List Token.FnDef) (st st' : Imports.St) (s : String) (es : Errs)
    (h : Token.tokenize fns st s = (st', .error es)) : es ≠ [] := by
  unfold Token.tokenize at h
  split at h
  · simp at h; obtain ⟨_, rfl⟩ := h; simp
  · simp only at h
    split at h
    · simp at h
    · rename_i hne
      simp at h
      obtain ⟨_, rfl⟩ := h
      intro e
      simp [e] at hne

theorem resolve_error_nonempty (ch : List Resolver) (fns : List Token.FnDef) (st st' : Imports.St) (v : Val) (es : Errs)
    (h : resolve ch fns st v = (st', .error es)) : es ≠ [] := by
  unfold resolve at h
  split at h
  · unfold resolveWith at h
    split at h
    all_goals (try (simp at h))
    all_goals (try (split at h <;> simp at h <;> (try (obtain ⟨_, rfl⟩ := h; simp))))
    case h_6 =>
      rename_i s _
      rcases ht : Token.tokenize fns st s with ⟨st2, r⟩
      rw [ht] at h
      cases r with
      | error es' =>
        simp at h
        obtain ⟨_, rfl⟩ := h
        exact tokenize_error_nonempty _ _ _ _ _ ht
      | ok ts =>
        simp only at h
        cases hg : Token.goCode ts with
        | error e => rw [hg] at h; simp at h; obtain ⟨_, rfl⟩ := h; simp
        | ok c => rw [hg] at h; simp at h
    all_goals (try (obtain ⟨_, rfl⟩ := h; simp))
  · simp at h; obtain ⟨_, rfl⟩ := h; simp

/-- loop invariant of `resolveArgs`: the output grows by exactly one entry per argument, and if no
error is recorded each entry carries its argument as `Raw`, in order -/
theorem resolveArgs_fold (fns : List Token.FnDef) (args : List Val)
    (st : Imports.St) (out : List Output.Arg) (errs : Errs) (i : Nat) :
    (args.foldl (resolveArgsStep fns) (st, out, errs, i)).2.1.length = out.length + args.length ∧
    ((args.foldl (resolveArgsStep fns) (st, out, errs, i)).2.2.1 = [] →
      errs = [] ∧ (args.foldl (resolveArgsStep fns) (st, out, errs, i)).2.1.map (·.raw) = out.map (·.raw) ++ args) := by
  induction args generalizing st out errs i with
  | nil => simp
  | cons v vs ih =>
    simp only [List.foldl_cons]
    rcases hr : resolve argChain fns st v with ⟨st', r⟩
    cases r with
    | ok a =>
      have hs : resolveArgsStep fns (st, out, errs, i) v = (st', out ++ [a], errs, i + 1) := by
        simp [resolveArgsStep, hr]
      rw [hs]
      have := ih st' (out ++ [a]) errs (i + 1)
      refine ⟨by rw [this.1]; simp; omega, ?_⟩
      intro he
      have h2 := this.2 he
      refine ⟨h2.1, ?_⟩
      rw [h2.2]
      simp [resolve_raw _ _ _ _ _ _ hr]
    | error es =>
      have hs : resolveArgsStep fns (st, out, errs, i) v =
          (st', out ++ [zeroArg], errs ++ Errs.pfx (toString i ++ ": ") es, i + 1) := by
        simp [resolveArgsStep, hr]
      rw [hs]
      have := ih st' (out ++ [zeroArg]) (errs ++ Errs.pfx (toString i ++ ": ") es) (i + 1)
      refine ⟨by rw [this.1]; simp; omega, ?_⟩
      intro he
      have h2 := this.2 he
      have hes : Errs.pfx (toString i ++ ": ") es = [] := by
        have := h2.1
        simp [List.append_eq_nil_iff] at this
        exact this.2
      have : es = [] := by simpa [Errs.pfx] using hes
      exact absurd this (resolve_error_nonempty _ _ _ _ _ _ hr)


/-! ### fields and calls -/

theorem compileFields_fold (fns : List Token.FnDef) (l : List (String × Val)) (acc : Imports.St × List Output.Field × Errs) :
    (l.foldl (compileFieldStep fns) acc).2.1.map (·.name) = acc.2.1.map (·.name) ++ l.map (·.1) := by
  induction l generalizing acc with
  | nil => simp
  | cons nv l ih =>
    rw [List.foldl_cons, ih]
    unfold compileFieldStep
    split <;> simp

theorem compileCalls_fold (fns : List Token.FnDef) (l : List Input.Call) (acc : Imports.St × List Output.Call × Errs × Nat) :
    (l.foldl (compileCallStep fns) acc).2.1.map (fun c => (c.method, c.immutable)) =
      acc.2.1.map (fun c => (c.method, c.immutable)) ++ l.map (fun c => (c.method, c.immutable)) := by
  induction l generalizing acc with
  | nil => simp
  | cons c l ih =>
    rw [List.foldl_cons, ih]
    simp [compileCallStep]

/-- errors only accumulate; if none is recorded at the end, every call's compiled arguments are the declared ones -/
theorem compileCalls_args (fns : List Token.FnDef) (l : List Input.Call) (acc : Imports.St × List Output.Call × Errs × Nat)
    (h : (l.foldl (compileCallStep fns) acc).2.2.1 = []) :
    acc.2.2.1 = [] ∧
    (l.foldl (compileCallStep fns) acc).2.1.map (fun c => c.args.map (·.raw)) =
      acc.2.1.map (fun c => c.args.map (·.raw)) ++ l.map (·.args) := by
  induction l generalizing acc with
  | nil => simpa using h
  | cons c l ih =>
    rw [List.foldl_cons] at h ⊢
    obtain ⟨h1, h2⟩ := ih _ h
    simp only [compileCallStep, List.append_eq_nil_iff] at h1
    refine ⟨h1.1, ?_⟩
    rw [h2]
    have hargs : (resolveArgs fns acc.1 c.args).2.2 = [] := by
      have := h1.2
      simpa [Errs.pfx] using this
    have hraw : (resolveArgs fns acc.1 c.args).2.1.map (·.raw) = c.args := by
      unfold resolveArgs at *
      have := resolveArgs_fold fns c.args acc.1 [] [] 0
      simp only at hargs ⊢
      have he : (c.args.foldl (resolveArgsStep fns) (acc.1, [], [], 0)).2.2.1 = [] := by
        simpa [Errs.pfx] using hargs
      simpa using (this.2 he).2
    simp [compileCallStep, hraw]

end GM.C02
