/- helper lemmas for Props/C20.lean (kept apart so that the property file holds property statements only) -/
import GontainerModel.Model.RuntimeConc
import GontainerModel.Generated.Template
import GontainerModel.Generated.Stub
namespace GM.C20
open GM GM.RuntimeConc

theorem inv_init : CInv {} := by simp [CInv, pending, inFlight]

theorem inv_step (s s' : S) (h : CInv s) (st : Step s s') : CInv s' := by
  obtain ⟨h1, h2⟩ := h
  cases st with
  | acquire t hc => simp_all [CInv, pending, inFlight]
  | hit t hc hcache => simp_all [CInv, pending, inFlight]
  | miss t hc hcache => simp_all [CInv, pending, inFlight]
  | construct t ok hc =>
    have hcache : s.cache = false := h2 (by simp [inFlight, hc])
    cases ok <;> simp_all [CInv, pending, inFlight]
  | publish t hc =>
    have hcache : s.cache = false := h2 (by simp [inFlight, hc])
    simp_all [CInv, pending, inFlight]
  | fail t hc => simp_all [CInv, pending, inFlight]

end GM.C20
