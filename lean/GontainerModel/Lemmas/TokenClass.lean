/-
Classification of a chunk by the first-match factory chain, and when tokenisation fails.
-/
import GontainerModel.Model.Token
namespace GM.Token
open GM

/-- the chunk is `%f(…)%` for the registered function `d` -/
def isCallOf (d : FnDef) (chunk : String) : Bool := supports (.function d) chunk

/-- the factory that handles a chunk, written as the decision list the documentation gives:
registered functions (latest registration first), `%%`, `%name%`, other `%f(…)%` (unknown function),
any other `%…%` (malformed token), plain text -/
def classify (fns : List FnDef) (chunk : String) : Factory :=
  match fns.reverse.find? (isCallOf · chunk) with
  | some d => .function d
  | none =>
    if chunk == "%%" then .percentMark
    else if supports .reference chunk then .reference
    else if supports .unexpectedFunction chunk then .unexpectedFunction
    else if supports .unexpectedToken chunk then .unexpectedToken
    else .string

theorem find_map_function (l : List FnDef) (chunk : String) :
    (l.map Factory.function).find? (supports · chunk) = (l.find? (isCallOf · chunk)).map Factory.function := by
  induction l with
  | nil => rfl
  | cons d t ih =>
    simp only [List.map_cons, List.find?_cons, isCallOf]
    cases h : supports (.function d) chunk <;> simp [ih, isCallOf]

theorem chain_find (fns : List FnDef) (chunk : String) :
    (chain fns).find? (supports · chunk) = some (classify fns chunk) := by
  unfold chain classify
  rw [List.find?_append, find_map_function]
  cases hf : fns.reverse.find? (isCallOf · chunk) with
  | some d => simp
  | none =>
    simp only [Option.map_none, Option.none_or, baseFactories, List.find?_cons]
    have hp : supports .percentMark chunk = (chunk == "%%") := rfl
    rw [hp]
    cases h1 : (chunk == "%%") <;> simp
    cases h2 : supports .reference chunk <;> simp
    cases h3 : supports .unexpectedFunction chunk <;> simp
    cases h4 : supports .unexpectedToken chunk <;> simp [supports]

/-- creating a token fails exactly for the two "unexpected" classes -/
def rejected (fns : List FnDef) (chunk : String) : Bool :=
  match classify fns chunk with
  | .unexpectedFunction => true
  | .unexpectedToken => true
  | _ => false

theorem createFirst_ok (fns : List FnDef) (st : Imports.St) (chunk : String) :
    (∃ t, (createFirst (chain fns) st chunk).2 = .ok t) ↔ rejected fns chunk = false := by
  unfold createFirst rejected
  rw [chain_find]
  cases classify fns chunk <;> simp [create]

theorem createFirst_err (fns : List FnDef) (st : Imports.St) (chunk : String) :
    (∃ e, (createFirst (chain fns) st chunk).2 = .error e) ↔ rejected fns chunk = true := by
  unfold createFirst rejected
  rw [chain_find]
  cases classify fns chunk <;> simp [create]

theorem fold_errs (fns : List FnDef) (cs : List (List Char)) (acc : Imports.St × List Token × Errs) :
    (cs.foldl (tokenizeStep fns) acc).2.2 = [] ↔
      acc.2.2 = [] ∧ ∀ c ∈ cs, rejected fns (String.ofList c) = false := by
  induction cs generalizing acc with
  | nil => simp
  | cons c t ih =>
    simp only [List.foldl_cons, ih, List.mem_cons, forall_eq_or_imp]
    unfold tokenizeStep
    cases hr : rejected fns (String.ofList c)
    · obtain ⟨tk, htk⟩ := (createFirst_ok fns acc.1 (String.ofList c)).mpr hr
      have : createFirst (chain fns) acc.1 (String.ofList c) = ((createFirst (chain fns) acc.1 (String.ofList c)).1, .ok tk) := by
        rw [← htk]
      rw [this]
      simp
    · obtain ⟨e, he⟩ := (createFirst_err fns acc.1 (String.ofList c)).mpr hr
      have : createFirst (chain fns) acc.1 (String.ofList c) = ((createFirst (chain fns) acc.1 (String.ofList c)).1, .error e) := by
        rw [← he]
      rw [this]
      simp

end GM.Token
