/- helper lemmas for Props/C17.lean: the stub flag reaches nothing but the template builder -/
import GontainerModel.Model.Runner
import GontainerModel.Lemmas.C16Aux
namespace GM.C17
open GM GM.Runner

def withStub (w : World) (b : Bool) : World := { w with flags := { w.flags with stub := b } }

theorem codegen_ok_iff (w : World) (o : Output.Output) :
    (codegen w o).2.1 = [] ↔ ∃ t, w.build o w.flags.stub = .ok t ∧ w.write w.outPath t = none := by
  unfold codegen
  cases hbld : w.build o w.flags.stub with
  | error es => simp
  | ok t =>
    simp only
    cases hwr : w.write w.outPath t with
    | none => simp [hwr]
    | some e => simp [hwr]

theorem core_errs_stub (w : World) (c : Output.Output → Errs) (b : Bool)
    (hb : ∀ o, (w.build o true).toOption.isSome = (w.build o false).toOption.isSome)
    (hw : ∀ t t', (w.write w.outPath t).isSome = (w.write w.outPath t').isSome) :
    ((core (withStub w b) c).2.1 = []) ↔ ((core w c).2.1 = []) := by
  have key : ∀ o, ((codegen (withStub w b) o).2.1 = []) ↔ ((codegen w o).2.1 = []) := by
    intro o
    rw [codegen_ok_iff, codegen_ok_iff]
    have hsome : ∀ (x y : Bool), (∃ t, w.build o x = .ok t ∧ w.write w.outPath t = none) →
        (∃ t, w.build o y = .ok t ∧ w.write w.outPath t = none) := by
      intro x y ⟨t, ht, hwt⟩
      have hx : (w.build o x).toOption.isSome = true := by rw [ht]; rfl
      have hy : (w.build o y).toOption.isSome = true := by
        have h1 := hb o
        cases x <;> cases y <;> simp_all [Except.toOption]
      cases hby : w.build o y with
      | error e => rw [hby] at hy; simp [Except.toOption] at hy
      | ok t' =>
        refine ⟨t', rfl, ?_⟩
        have := hw t t'
        rw [hwt] at this
        cases h : w.write w.outPath t' with
        | none => rfl
        | some e => rw [h] at this; simp at this
    exact ⟨hsome _ _, hsome _ _⟩
  unfold core
  simp only
  show _ ↔ _
  have r1 : ∀ ind i0, readConfig (withStub w b) ind i0 = readConfig w ind i0 := fun _ _ => rfl
  have r2 : ∀ ind o ce, validateOutput (withStub w b) ind o ce = validateOutput w ind o ce := fun _ _ _ => rfl
  have r3 : (withStub w b).version = w.version := rfl
  simp only [r1, r2, r3]
  split
  · rfl
  · split
    · rfl
    · split
      · rfl
      · rename_i o _ _ _
        exact key o

end GM.C17
