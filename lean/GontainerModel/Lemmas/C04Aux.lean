/- helper lemmas for Props/C04.lean (kept apart so that the property file holds property statements only) -/
import GontainerModel.Model.Runtime
import GontainerModel.Lemmas.Merge
namespace GM.C04
open GM

/-- the order `GetTaggedBy` uses: priority descending, then service name ascending -/
def tagLe (a b : String × Int) : Bool := if a.2 = b.2 then AMap.strLe a.1 b.1 else decide (a.2 > b.2)

theorem tagLe_trans (a b c : String × Int) : tagLe a b = true → tagLe b c = true → tagLe a c = true := by
  unfold tagLe
  intro h1 h2
  by_cases e1 : a.2 = b.2
  · by_cases e2 : b.2 = c.2
    · have e3 : a.2 = c.2 := e1.trans e2
      simp only [e1, e2, e3, ↓reduceIte] at h1 h2 ⊢
      exact AMap.strLe_trans _ _ _ h1 h2
    · have e3 : ¬ a.2 = c.2 := fun e => e2 (e1.symm.trans e)
      simp only [e2, ↓reduceIte, decide_eq_true_eq] at h2
      simp only [e3, ↓reduceIte, decide_eq_true_eq]
      omega
  · simp only [e1, ↓reduceIte, decide_eq_true_eq] at h1
    by_cases e2 : b.2 = c.2
    · have e3 : ¬ a.2 = c.2 := fun e => e1 (e.trans e2.symm)
      simp only [e3, ↓reduceIte, decide_eq_true_eq]
      omega
    · simp only [e2, ↓reduceIte, decide_eq_true_eq] at h2
      have e3 : ¬ a.2 = c.2 := by omega
      simp only [e3, ↓reduceIte, decide_eq_true_eq]
      omega

theorem tagLe_total (a b : String × Int) : (tagLe a b || tagLe b a) = true := by
  unfold tagLe
  by_cases h : a.2 = b.2
  · simp [h]; exact by simpa using AMap.strLe_total a.1 b.1
  · have h' : ¬ b.2 = a.2 := fun e => h e.symm
    simp [h, h']; omega

theorem compileDecorators_fold (fns : List Token.FnDef) (ds : List Input.Decorator)
    (st : Imports.St) (out : List Output.Decorator) (errs : Errs) (j : Nat) :
    (ds.foldl (Compile.compileDecoratorsStep fns) (st, out, errs, j)).2.1.map (fun d => (d.tag, d.raw))
      = out.map (fun d => (d.tag, d.raw)) ++ ds.map (fun d => (d.tag, d.decorator)) := by
  induction ds generalizing st out errs j with
  | nil => simp
  | cons d ds ih =>
    simp only [List.foldl_cons]
    have hs : ∃ st' x e, Compile.compileDecoratorsStep fns (st, out, errs, j) d = (st', out ++ [x], e, j + 1) ∧
        x.tag = d.tag ∧ x.raw = d.decorator := ⟨_, _, _, rfl, rfl, rfl⟩
    obtain ⟨st', x, e, hs, h1, h2⟩ := hs
    rw [hs, ih]
    simp [h1, h2]

end GM.C04
