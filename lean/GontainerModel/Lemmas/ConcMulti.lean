import GontainerModel.Model.RuntimeConcMulti
namespace GM.RuntimeConcMulti

/-- every successful construction is published in its cache or about to be; nobody constructs for a filled cache entry;
every owned serial was allocated; no serial is owned twice -/
structure MInv (s : S) : Prop where
  count : ∀ c i, s.successes c i = (if (s.cache c i).isSome then 1 else 0) + (if (pendingSerial s c i).isSome then 1 else 0)
  quiet : ∀ c i, inFlight s c i = true → s.cache c i = none
  alloc : ∀ c i n, owned s c i = some n → n < s.next
  inj : ∀ c i c' i' n, owned s c i = some n → owned s c' i' = some n → c = c' ∧ i = i'

theorem inv_init : MInv {} :=
  ⟨fun _ _ => by simp [pendingSerial], fun _ _ h => by simp [inFlight] at h,
   fun _ _ _ h => by simp [owned, pendingSerial] at h, fun _ _ _ _ _ h => by simp [owned, pendingSerial] at h⟩

/-- what (c', i') sees of `crit` when only id `i` changed and it is another id -/
theorem upd_ne {β : Type} (f : Nat → β) (k x : Nat) (v : β) (h : x ≠ k) : upd f k v x = f x := by simp [upd, h]
theorem upd_eq {β : Type} (f : Nat → β) (k : Nat) (v : β) : upd f k v k = v := by simp [upd]

theorem upd2_eq {β : Type} (f : Nat → Nat → β) (a b : Nat) (v : β) : upd2 f a b v a b = v := by simp [upd2]
theorem upd2_ne {β : Type} (f : Nat → Nat → β) (a b x y : Nat) (v : β) (h : ¬ (x = a ∧ y = b)) : upd2 f a b v x y = f x y := by
  simp [upd2, h]

/-- steps that change neither caches nor serial ownership of any pair: acquire, hit, miss, constructFail, fail -/
theorem inv_crit_only (s : S) (h : MInv s) (i : Id) (v : Option (Nat × Cache × Phase))
    (hp : ∀ c, pendingSerial { s with crit := upd s.crit i v } c i = pendingSerial s c i)
    (hf : ∀ c, inFlight { s with crit := upd s.crit i v } c i = true → inFlight s c i = true ∨ s.cache c i = none) :
    MInv { s with crit := upd s.crit i v } := by
  have hpa : ∀ c j, pendingSerial { s with crit := upd s.crit i v } c j = pendingSerial s c j := by
    intro c j
    by_cases hj : j = i
    · subst hj; exact hp c
    · simp [pendingSerial, upd_ne _ _ _ _ hj]
  have hoa : ∀ c j, owned { s with crit := upd s.crit i v } c j = owned s c j := by
    intro c j; simp only [owned, hpa]
  refine ⟨fun c j => ?_, fun c j hfl => ?_, fun c j n ho => ?_, fun c j c' j' n h1 h2 => ?_⟩
  · simpa [hpa] using h.count c j
  · by_cases hj : j = i
    · subst hj
      rcases hf c hfl with x | x
      · exact h.quiet c j x
      · exact x
    · have : inFlight s c j = true := by simpa [inFlight, upd_ne _ _ _ _ hj] using hfl
      exact h.quiet c j this
  · rw [hoa] at ho; exact h.alloc c j n ho
  · rw [hoa] at h1 h2; exact h.inj c j c' j' n h1 h2

theorem inv_step (s s' : S) (h : MInv s) (st : Step s s') : MInv s' := by
  cases st with
  | acquire t c i hc =>
    apply inv_crit_only s h
    · intro c'; simp [pendingSerial, upd_eq, hc]
    · intro c' hfl; simp [inFlight, upd_eq] at hfl
  | hit t c i hc hcache =>
    apply inv_crit_only s h
    · intro c'; simp [pendingSerial, upd_eq, hc]
    · intro c' hfl; simp [inFlight, upd_eq] at hfl
  | miss t c i hc hcache =>
    apply inv_crit_only s h
    · intro c'; simp [pendingSerial, upd_eq, hc]
    · intro c' hfl
      simp [inFlight, upd_eq] at hfl
      subst hfl; exact Or.inr hcache
  | constructFail t c i hc =>
    apply inv_crit_only s h
    · intro c'; simp [pendingSerial, upd_eq, hc]
    · intro c' hfl
      simp [inFlight, upd_eq] at hfl
      subst hfl; left; simp [inFlight, hc]
  | fail t c i hc =>
    apply inv_crit_only s h
    · intro c'; simp [pendingSerial, upd_eq, hc]
    · intro c' hfl; simp [inFlight, upd_eq] at hfl
  | constructOk t c i hc =>
    have hq : s.cache c i = none := h.quiet c i (by simp [inFlight, hc])
    have hpend : ∀ c', pendingSerial s c' i = none := by intro c'; simp [pendingSerial, hc]
    -- the new state, seen from any pair
    have pnew : ∀ c' j, pendingSerial ⟨upd s.crit i (some (t, c, Phase.built (some s.next))), s.cache, s.next + 1,
          upd2 s.successes c i (s.successes c i + 1)⟩ c' j =
        if j = i then (if c = c' then some s.next else none) else pendingSerial s c' j := by
      intro c' j
      by_cases hj : j = i
      · subst hj; simp [pendingSerial, upd_eq]
      · simp [pendingSerial, upd_ne _ _ _ _ hj, hj]
    have onew : ∀ c' j n, owned ⟨upd s.crit i (some (t, c, Phase.built (some s.next))), s.cache, s.next + 1,
          upd2 s.successes c i (s.successes c i + 1)⟩ c' j = some n →
        (c' = c ∧ j = i ∧ n = s.next) ∨ (owned s c' j = some n ∧ ¬ (c' = c ∧ j = i)) := by
      intro c' j n ho
      simp only [owned, pnew] at ho
      by_cases hj : j = i
      · subst hj
        by_cases hcc : c = c'
        · subst hcc
          simp [hq] at ho
          exact Or.inl ⟨rfl, rfl, ho.symm⟩
        · simp [hcc] at ho
          exact Or.inr ⟨by simp [owned, ho], fun x => hcc x.1.symm⟩
      · simp only [hj, ↓reduceIte] at ho
        exact Or.inr ⟨ho, fun x => hj x.2⟩
    refine ⟨fun c' j => ?_, fun c' j hfl => ?_, fun c' j n ho => ?_, fun c1 j1 c2 j2 n h1 h2 => ?_⟩
    · have hc0 := h.count c' j
      simp only [pnew]
      by_cases hk : c' = c ∧ j = i
      · rw [hk.1, hk.2]
        simp only [upd2_eq]
        have hci := h.count c i
        rw [hq, hpend] at hci
        simp [hq] at hci ⊢
        omega
      · simp only [upd2_ne _ _ _ _ _ _ hk]
        by_cases hj : j = i
        · have hcc : ¬ c = c' := fun e => hk ⟨e.symm, hj⟩
          rw [hj] at hc0 ⊢
          rw [hpend] at hc0
          simpa [hcc] using hc0
        · simpa [hj] using hc0
    · by_cases hj : j = i
      · subst hj
        simp [inFlight, upd_eq] at hfl
        subst hfl; exact hq
      · exact h.quiet c' j (by simpa [inFlight, upd_ne _ _ _ _ hj] using hfl)
    · rcases onew c' j n ho with ⟨_, _, rfl⟩ | ⟨o, _⟩
      · exact Nat.lt_succ_self _
      · exact Nat.lt_succ_of_lt (h.alloc c' j n o)
    · rcases onew c1 j1 n h1 with ⟨rfl, rfl, hn1⟩ | ⟨o1, _⟩ <;> rcases onew c2 j2 n h2 with ⟨rfl, rfl, hn2⟩ | ⟨o2, _⟩
      · exact ⟨rfl, rfl⟩
      · have := h.alloc c2 j2 _ o2; omega
      · have := h.alloc c1 j1 _ o1; omega
      · exact h.inj c1 j1 c2 j2 n o1 o2
  | publish t c i n hc =>
    have hq : s.cache c i = none := h.quiet c i (by simp [inFlight, hc])
    have hpn : pendingSerial s c i = some n := by simp [pendingSerial, hc]
    have hpo : ∀ c', c' ≠ c → pendingSerial s c' i = none := by
      intro c' hne
      have hne' : ¬ c = c' := fun e => hne e.symm
      simp [pendingSerial, hc, hne']
    have pnew : ∀ c' j, pendingSerial ⟨upd s.crit i none, upd2 s.cache c i (some n), s.next, s.successes⟩ c' j =
        if j = i then none else pendingSerial s c' j := by
      intro c' j
      by_cases hj : j = i
      · subst hj; simp [pendingSerial, upd_eq]
      · simp [pendingSerial, upd_ne _ _ _ _ hj, hj]
    -- ownership is unchanged: the pending serial moved into the cache
    have hoa : ∀ c' j, owned ⟨upd s.crit i none, upd2 s.cache c i (some n), s.next, s.successes⟩ c' j = owned s c' j := by
      intro c' j
      simp only [owned, pnew]
      by_cases hk : c' = c ∧ j = i
      · rw [hk.1, hk.2]; simp only [upd2_eq, hq, hpn]; simp
      · simp only [upd2_ne _ _ _ _ _ _ hk]
        by_cases hj : j = i
        · have hcc : c' ≠ c := fun e => hk ⟨e, hj⟩
          rw [hj, hpo c' hcc]; simp
        · simp [hj]
    refine ⟨fun c' j => ?_, fun c' j hfl => ?_, fun c' j m ho => ?_, fun c1 j1 c2 j2 m h1 h2 => ?_⟩
    · have hc0 := h.count c' j
      simp only [pnew]
      by_cases hk : c' = c ∧ j = i
      · rw [hk.1, hk.2] at hc0 ⊢
        rw [hq, hpn] at hc0
        simp only [upd2_eq]
        simpa using hc0
      · simp only [upd2_ne _ _ _ _ _ _ hk]
        by_cases hj : j = i
        · have hcc : c' ≠ c := fun e => hk ⟨e, hj⟩
          rw [hj] at hc0 ⊢
          rw [hpo c' hcc] at hc0
          simpa using hc0
        · simpa [hj] using hc0
    · by_cases hj : j = i
      · subst hj; simp [inFlight, upd_eq] at hfl
      · have := h.quiet c' j (by simpa [inFlight, upd_ne _ _ _ _ hj] using hfl)
        simp only [upd2_ne _ _ _ _ _ _ (fun x : c' = c ∧ j = i => hj x.2)]
        exact this
    · rw [hoa] at ho; exact h.alloc c' j m ho
    · rw [hoa] at h1 h2; exact h.inj c1 j1 c2 j2 m h1 h2

end GM.RuntimeConcMulti
