import GontainerModel.Model.Basic
namespace GM
open List

theorem nodup_eraseDups (l : List String) : l.eraseDups.Nodup := by
  generalize hn : l.length = n
  induction n using Nat.strongRecOn generalizing l with
  | _ n ih =>
    cases l with
    | nil => simp
    | cons a as =>
      rw [List.eraseDups_cons]
      refine List.nodup_cons.mpr ⟨?_, ?_⟩
      · intro h
        have := (List.mem_eraseDups.mp h)
        simp at this
      · have hl : (as.filter fun b => !b == a).length < n := by
          have := List.length_filter_le (fun b => !b == a) as
          simp at hn; omega
        exact ih _ hl _ rfl

namespace AMap
variable {V : Type}

theorem strLe_trans (a b c : String) : strLe a b = true → strLe b c = true → strLe a c = true := by
  simp only [strLe, decide_eq_true_eq]; exact String.le_trans

theorem strLe_total (a b : String) : (strLe a b || strLe b a) = true := by
  simp only [strLe, Bool.or_eq_true, decide_eq_true_eq]; exact String.le_total a b

/-- Sorting is a function of the SET of keys: two duplicate-free lists with the same members sort
to the same list (this is what makes `maps.Keys`/`maps.Iterate` independent of Go's map order). -/
theorem sort_eq_of_perm {l₁ l₂ : List String} (h : l₁.Perm l₂) :
    l₁.mergeSort strLe = l₂.mergeSort strLe := by
  have p1 := List.mergeSort_perm l₁ strLe
  have p2 := List.mergeSort_perm l₂ strLe
  have s1 := List.pairwise_mergeSort strLe_trans strLe_total l₁
  have s2 := List.pairwise_mergeSort strLe_trans strLe_total l₂
  refine List.Perm.eq_of_pairwise ?_ s1 s2 (p1.trans (h.trans p2.symm))
  intro a b _ _ hab hba
  simp only [strLe, decide_eq_true_eq] at hab hba
  exact String.le_antisymm hab hba

theorem mem_rawKeys (m : AMap V) (k : String) : k ∈ rawKeys m ↔ (m.get k).isSome := by
  unfold rawKeys get
  rw [List.mem_eraseDups]
  induction m with
  | nil => simp
  | cons p m ih =>
    obtain ⟨a, v⟩ := p
    simp only [List.map_cons, List.mem_cons, List.lookup_cons]
    by_cases h : k = a
    · subst h; simp
    · have : (k == a) = false := by simp [h]
      simp [h, this, ih]

theorem rawKeys_nodup (m : AMap V) : (rawKeys m).Nodup := nodup_eraseDups _

/-- keys depend only on which keys are bound -/
theorem keys_congr (m₁ m₂ : AMap V) (h : ∀ k, (m₁.get k).isSome = (m₂.get k).isSome) :
    keys m₁ = keys m₂ := by
  unfold keys
  apply sort_eq_of_perm
  apply (List.perm_ext_iff_of_nodup (rawKeys_nodup m₁) (rawKeys_nodup m₂)).mpr
  intro k
  rw [mem_rawKeys, mem_rawKeys, h]

/-- `maps.Iterate` visits the same `(key, value)` sequence for any two representations of the
same finite map. -/
theorem sorted_congr (m₁ m₂ : AMap V) (h : ∀ k, m₁.get k = m₂.get k) : sorted m₁ = sorted m₂ := by
  unfold sorted
  rw [keys_congr m₁ m₂ (fun k => by rw [h])]
  congr 1
  funext k
  rw [h]

/-- … in particular for any permutation of the bindings of a map with distinct keys
(Go's randomised iteration order). -/
theorem get_perm {m₁ m₂ : AMap V} (h : m₁.Perm m₂) (nd : (m₁.map Prod.fst).Nodup) (k : String) :
    m₁.get k = m₂.get k := by
  unfold get
  induction h with
  | nil => rfl
  | cons p _ ih =>
    obtain ⟨a, v⟩ := p
    simp only [List.map_cons, List.nodup_cons] at nd
    simp only [List.lookup_cons]
    split
    · rfl
    · exact ih nd.2
  | swap p q l =>
    obtain ⟨a, v⟩ := p
    obtain ⟨b, w⟩ := q
    simp only [List.map_cons, List.nodup_cons, List.mem_cons, not_or] at nd
    have hab : a ≠ b := fun h => nd.1.1 h.symm
    simp only [List.lookup_cons]
    cases h1 : (k == a) <;> cases h2 : (k == b) <;> simp_all
  | trans h₁ _ ih₁ ih₂ =>
    rw [ih₁ nd, ih₂ ((h₁.map Prod.fst).nodup_iff.mp nd)]

theorem sorted_perm {m₁ m₂ : AMap V} (h : m₁.Perm m₂) (nd : (m₁.map Prod.fst).Nodup) :
    sorted m₁ = sorted m₂ := sorted_congr m₁ m₂ (get_perm h nd)

end AMap
end GM
