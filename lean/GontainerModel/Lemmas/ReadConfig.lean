import GontainerModel.Lemmas.SortedMap
import GontainerModel.Model.Runner
/-
Failure kinds of the read-config step: unreadable/unparsable file, glob error, nothing processed,
a file matched (and read) under two patterns.
-/
namespace GM.Runner
open GM

abbrev FS := List String × Errs × ReadSt

theorem pfx_nil (p : String) (e : Errs) : Errs.pfx p e = [] ↔ e = [] := by simp [Errs.pfx]

/-- number of patterns under which `f` has been read successfully so far -/
def cnt (st : ReadSt) (f : String) : Nat := ((st.processed.lookup f).getD []).length

theorem lookup_filter_ne {V : Type} (l : List (String × V)) (g f : String) (h : f ≠ g) :
    (l.filter (·.1 != g)).lookup f = l.lookup f := by
  induction l with
  | nil => rfl
  | cons e l ih =>
    obtain ⟨k, v⟩ := e
    by_cases hk : k = g
    · subst hk
      have hfk : (f == k) = false := by simpa using h
      simp [List.filter_cons, List.lookup_cons, hfk, ih]
    · have hkg : (k != g) = true := by simpa using hk
      simp [List.filter_cons, hkg, List.lookup_cons, ih]

/-- one file: errors only grow, `found` only rises, the per-file count changes only for this file -/
theorem readFileStep_spec (w : World) (ind p : String) (acc : FS) (g : String) :
    (∃ extra, (readFileStep w ind p acc g).2.1 = acc.2.1 ++ extra ∧
        (∀ es, w.read g = .error es → es ≠ [] → extra ≠ [])) ∧
    ((readFileStep w ind p acc g).2.2.found = (acc.2.2.found || (w.read g).isOk)) ∧
    (∀ f, cnt (readFileStep w ind p acc g).2.2 f = cnt acc.2.2 f + (if f = g ∧ (w.read g).isOk then 1 else 0)) := by
  unfold readFileStep
  cases hr : w.read g with
  | error es =>
    refine ⟨⟨Errs.pfx ("`" ++ g ++ "`: ") es, rfl, ?_⟩, by simp [Except.isOk, Except.toBool], by simp [Except.isOk, Except.toBool]⟩
    intro es' he hne
    cases he
    simpa [Errs.pfx] using hne
  | ok doc =>
    refine ⟨⟨[], by simp, by intro es he; cases he⟩, by simp [Except.isOk, Except.toBool], ?_⟩
    intro f
    simp only [cnt, Except.isOk, Except.toBool, and_true]
    by_cases hf : f = g
    · subst hf
      simp [List.lookup_cons]
    · have : (f == g) = false := by simpa using hf
      simp [List.lookup_cons, this, hf, lookup_filter_ne _ g f hf]

theorem files_fold_spec (w : World) (ind p : String) (fs : List String) (acc : FS) :
    (∃ extra, (fs.foldl (readFileStep w ind p) acc).2.1 = acc.2.1 ++ extra ∧
        (∀ g ∈ fs, ∀ es, w.read g = .error es → es ≠ [] → extra ≠ [])) ∧
    ((fs.foldl (readFileStep w ind p) acc).2.2.found = (acc.2.2.found || fs.any fun g => (w.read g).isOk)) ∧
    (∀ f, cnt acc.2.2 f + (if f ∈ fs ∧ (w.read f).isOk then 1 else 0) ≤ cnt (fs.foldl (readFileStep w ind p) acc).2.2 f) := by
  induction fs generalizing acc with
  | nil => exact ⟨⟨[], by simp, by simp⟩, by simp, by simp⟩
  | cons g fs ih =>
    obtain ⟨⟨e1, he1, hx1⟩, hf1, hc1⟩ := readFileStep_spec w ind p acc g
    obtain ⟨⟨e2, he2, hx2⟩, hf2, hc2⟩ := ih (readFileStep w ind p acc g)
    rw [List.foldl_cons]
    refine ⟨⟨e1 ++ e2, by rw [he2, he1]; simp, ?_⟩, ?_, ?_⟩
    · intro g' hg' es hr hne
      rcases List.mem_cons.mp hg' with rfl | hin
      · have := hx1 es hr hne
        intro h; exact this (List.append_eq_nil_iff.mp h).1
      · have := hx2 g' hin es hr hne
        intro h; exact this (List.append_eq_nil_iff.mp h).2
    · rw [hf2, hf1]; simp [Bool.or_assoc]
    · intro f
      have h1 := hc1 f
      have h2 := hc2 f
      by_cases hfg : f = g
      · subst hfg
        by_cases hok : (w.read f).isOk = true
        · simp only [hok, and_true, ↓reduceIte, List.mem_cons, true_or] at h1 h2 ⊢
          split at h2 <;> omega
        · simp only [hok, and_false, ↓reduceIte, Bool.false_eq_true] at h1 h2 ⊢
          omega
      · have hne : ¬ (f = g ∧ (w.read g).isOk = true) := fun h => hfg h.1
        simp only [hne, ↓reduceIte, Nat.add_zero] at h1
        have : (f ∈ g :: fs) ↔ f ∈ fs := by simp [hfg]
        simp only [this]
        omega

/-- one pattern -/
theorem pattern_step_spec (w : World) (ind : String) (acc : List String × Errs × ReadSt × Nat) (p : String) :
    (∃ extra, (readPatternStep w ind acc p).2.1 = acc.2.1 ++ extra ∧
        ((patternFiles w p).2 ≠ [] → extra ≠ []) ∧
        (∀ g ∈ (patternFiles w p).1, ∀ es, w.read g = .error es → es ≠ [] → extra ≠ [])) ∧
    ((readPatternStep w ind acc p).2.2.1.found = (acc.2.2.1.found || (patternFiles w p).1.any fun g => (w.read g).isOk)) ∧
    (∀ f, cnt acc.2.2.1 f + (if f ∈ (patternFiles w p).1 ∧ (w.read f).isOk then 1 else 0) ≤ cnt (readPatternStep w ind acc p).2.2.1 f) := by
  unfold readPatternStep
  simp only
  generalize hl : (if (patternFiles w p).1.isEmpty = true then acc.1 ++ [ind ++ toString (acc.2.2.2 + 1) ++ ". " ++ p] ++ [ind ++ "   No files"]
      else acc.1 ++ [ind ++ toString (acc.2.2.2 + 1) ++ ". " ++ p]) = lines
  obtain ⟨⟨e, he, hx⟩, hf, hc⟩ := files_fold_spec w ind p (patternFiles w p).1 (lines, acc.2.1 ++ (patternFiles w p).2, acc.2.2.1)
  refine ⟨⟨(patternFiles w p).2 ++ e, by rw [he]; simp, ?_, ?_⟩, hf, hc⟩
  · intro h1 h2; exact h1 (List.append_eq_nil_iff.mp h2).1
  · intro g hg es hr hne h2
    exact hx g hg es hr hne (List.append_eq_nil_iff.mp h2).2

theorem patterns_fold_spec (w : World) (ind : String) (ps : List String) (acc : List String × Errs × ReadSt × Nat) :
    (∃ extra, (ps.foldl (readPatternStep w ind) acc).2.1 = acc.2.1 ++ extra ∧
        (∀ p ∈ ps, (patternFiles w p).2 ≠ [] → extra ≠ []) ∧
        (∀ p ∈ ps, ∀ g ∈ (patternFiles w p).1, ∀ es, w.read g = .error es → es ≠ [] → extra ≠ [])) ∧
    ((ps.foldl (readPatternStep w ind) acc).2.2.1.found =
        (acc.2.2.1.found || ps.any fun p => (patternFiles w p).1.any fun g => (w.read g).isOk)) ∧
    (∀ f, cnt acc.2.2.1 f + (ps.filter fun p => decide (f ∈ (patternFiles w p).1) && (w.read f).isOk).length ≤
        cnt (ps.foldl (readPatternStep w ind) acc).2.2.1 f) := by
  induction ps generalizing acc with
  | nil => exact ⟨⟨[], by simp, by simp, by simp⟩, by simp, by simp⟩
  | cons p ps ih =>
    obtain ⟨⟨e1, he1, hg1, hx1⟩, hf1, hc1⟩ := pattern_step_spec w ind acc p
    obtain ⟨⟨e2, he2, hg2, hx2⟩, hf2, hc2⟩ := ih (readPatternStep w ind acc p)
    rw [List.foldl_cons]
    refine ⟨⟨e1 ++ e2, by rw [he2, he1]; simp, ?_, ?_⟩, ?_, ?_⟩
    · intro q hq hne h
      rcases List.mem_cons.mp hq with rfl | hin
      · exact hg1 hne (List.append_eq_nil_iff.mp h).1
      · exact hg2 q hin hne (List.append_eq_nil_iff.mp h).2
    · intro q hq g hg es hr hne h
      rcases List.mem_cons.mp hq with rfl | hin
      · exact hx1 g hg es hr hne (List.append_eq_nil_iff.mp h).1
      · exact hx2 q hin g hg es hr hne (List.append_eq_nil_iff.mp h).2
    · rw [hf2, hf1]; simp [Bool.or_assoc]
    · intro f
      have h1 := hc1 f
      have h2 := hc2 f
      simp only [List.filter_cons]
      by_cases hm : (decide (f ∈ (patternFiles w p).1) && (w.read f).isOk) = true
      · have hm' : f ∈ (patternFiles w p).1 ∧ (w.read f).isOk = true := by simpa using hm
        simp only [hm, ↓reduceIte, List.length_cons]
        simp only [hm', and_self, ↓reduceIte] at h1
        omega
      · simp only [hm, Bool.false_eq_true, ↓reduceIte]
        omega

/-- a key whose recorded pattern list has more than one entry is reported -/
theorem dupErrs_ne_nil (processed : List (String × List String)) (f : String)
    (h : ((processed.lookup f).getD []).length > 1) : dupErrs processed ≠ [] := by
  cases hl : processed.lookup f with
  | none => simp [hl] at h
  | some ps =>
    simp only [hl, Option.getD_some] at h
    have hk : f ∈ AMap.keys processed := by
      unfold AMap.keys
      apply (List.mergeSort_perm _ _).symm.subset
      exact (AMap.mem_rawKeys processed f).mpr (by simp [AMap.get, hl])
    have hmem : (f, ps) ∈ AMap.sorted processed := by
      unfold AMap.sorted
      exact List.mem_filterMap.mpr ⟨f, hk, by simp [AMap.get, hl]⟩
    intro he
    unfold dupErrs at he
    have := List.filterMap_eq_nil_iff.mp he (f, ps) hmem
    simp [h] at this

/-- the step's error list is non-empty as soon as the collected errors are, nothing was processed, or a duplicate exists -/
theorem readConfig_errs_ne_nil (w : World) (ind : String) (i0 : Input.Input) (hpe : w.patterns.isEmpty = false)
    (h : (w.patterns.foldl (readPatternStep w ind) ([ind ++ "Patterns"], [], ⟨i0, false, []⟩, 0)).2.1 ≠ [] ∨
         (w.patterns.foldl (readPatternStep w ind) ([ind ++ "Patterns"], [], ⟨i0, false, []⟩, 0)).2.2.1.found = false ∨
         dupErrs (w.patterns.foldl (readPatternStep w ind) ([ind ++ "Patterns"], [], ⟨i0, false, []⟩, 0)).2.2.1.processed ≠ []) :
    (readConfig w ind i0).errs ≠ [] := by
  unfold readConfig
  simp only [hpe, Bool.false_eq_true, ↓reduceIte]
  generalize w.patterns.foldl (readPatternStep w ind) ([ind ++ "Patterns"], [], ⟨i0, false, []⟩, 0) = r at h
  intro he
  have h2 := (pfx_nil _ _).mp he
  have h3 := List.append_eq_nil_iff.mp h2
  rcases h with h | h | h
  · cases hf : r.2.2.1.found <;> simp [hf] at h3 <;> exact h h3.1
  · simp [h] at h3
  · exact h h3.2

end GM.Runner
