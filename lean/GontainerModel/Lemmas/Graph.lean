import GontainerModel.Model.Graph
namespace GM.Graph
variable {α : Type} [DecidableEq α]

theorem mem_succs (g : G α) (a b : α) : b ∈ succs g a ↔ (a, b) ∈ g.edges := by
  unfold succs
  simp only [List.mem_filterMap]
  constructor
  · rintro ⟨⟨x, y⟩, hm, h⟩
    split at h
    · rename_i hx; simp at h; subst h; subst hx; exact hm
    · simp at h
  · intro h
    exact ⟨(a, b), h, by simp⟩

theorem mem_expand (g : G α) (r : List α) (x : α) :
    x ∈ expand g r ↔ x ∈ r ∨ ∃ y ∈ r, (y, x) ∈ g.edges := by
  unfold expand
  rw [List.mem_eraseDups]
  simp only [List.mem_append, List.mem_flatMap, mem_succs]

theorem Path.snoc {g : G α} {a b c : α} (h : Path g a b) (e : (b, c) ∈ g.edges) : Path g a c := by
  induction h with
  | edge h1 => exact Path.cons h1 (Path.edge e)
  | cons h1 _ ih => exact Path.cons h1 (ih e)

theorem Path.trans {g : G α} {a b c : α} (h1 : Path g a b) (h2 : Path g b c) : Path g a c := by
  induction h1 with
  | edge e => exact Path.cons e h2
  | cons e _ ih => exact Path.cons e (ih h2)

/-- soundness of the expansion: everything collected is reachable -/
theorem iter_sound (g : G α) (a : α) (n : Nat) (r : List α) (h : ∀ x ∈ r, Path g a x) :
    ∀ x ∈ iter g n r, Path g a x := by
  induction n generalizing r with
  | zero => exact h
  | succ n ih =>
    apply ih
    intro x hx
    rcases (mem_expand g r x).mp hx with hx | ⟨y, hy, e⟩
    · exact h x hx
    · exact (h y hy).snoc e

/-- a closed set that contains a node contains everything reachable from it -/
theorem closed_path (g : G α) (r : List α) (hc : closed g r = true) {x c : α} (hx : x ∈ r) (p : Path g x c) : c ∈ r := by
  induction p with
  | @edge a b e =>
    unfold closed at hc
    have := List.all_eq_true.mp hc a hx
    have := List.all_eq_true.mp this b ((mem_succs g a b).mpr e)
    simpa using this
  | @cons a b c e _ ih =>
    unfold closed at hc
    have h1 := List.all_eq_true.mp hc a hx
    have h2 := List.all_eq_true.mp h1 b ((mem_succs g a b).mpr e)
    have hb : b ∈ r := by simpa using h2
    exact ih hb

theorem subset_iter (g : G α) (n : Nat) (r : List α) : ∀ x ∈ r, x ∈ iter g n r := by
  induction n generalizing r with
  | zero => intro x hx; exact hx
  | succ n ih =>
    intro x hx
    exact ih (expand g r) x ((mem_expand g r x).mpr (Or.inl hx))

/-- **reachability is computed exactly**: whenever `reach` answers, its answer is the set of nodes
reachable by a non-empty path -/
theorem reach_sound_complete (g : G α) (a : α) (r : List α) (h : reach g a = some r) (b : α) :
    b ∈ r ↔ Path g a b := by
  unfold reach at h
  simp only at h
  split at h
  · rename_i hc
    simp at h
    subst h
    constructor
    · exact iter_sound g a _ _ (fun x hx => Path.edge ((mem_succs g a x).mp hx)) b
    · intro p
      cases p with
      | edge e =>
        exact subset_iter g _ _ b ((mem_succs g a b).mpr e)
      | @cons _ b' _ e p' =>
        have hb' : b' ∈ iter g g.nodes.length (succs g a) := subset_iter g _ _ b' ((mem_succs g a b').mpr e)
        exact closed_path g _ hc hb' p'
  · simp at h

theorem mem_nodes_of_edge (g : G α) {a b : α} (e : (a, b) ∈ g.edges) : a ∈ g.nodes ∧ b ∈ g.nodes := by
  unfold G.nodes
  simp only [List.mem_eraseDups, List.mem_flatMap]
  exact ⟨⟨(a, b), e, by simp⟩, ⟨(a, b), e, by simp⟩⟩

theorem path_start_mem_nodes (g : G α) {a b : α} (p : Path g a b) : a ∈ g.nodes := by
  cases p with
  | edge e => exact (mem_nodes_of_edge g e).1
  | cons e _ => exact (mem_nodes_of_edge g e).1

/-- **a graph is reported cyclic iff some node reaches itself** (given that `reach` answers for
every node, which the correspondence run checks on every case) -/
theorem cyclic_iff (g : G α) (total : ∀ v ∈ g.nodes, (reach g v).isSome) :
    cyclic g = true ↔ ∃ v, Path g v v := by
  unfold cyclic onCycle reachD
  simp only [List.any_eq_true]
  constructor
  · rintro ⟨v, hv, hc⟩
    obtain ⟨r, hr⟩ := Option.isSome_iff_exists.mp (total v hv)
    rw [hr] at hc
    simp only [Option.getD_some, List.contains_iff_mem] at hc
    exact ⟨v, (reach_sound_complete g v r hr v).mp (by simpa using hc)⟩
  · rintro ⟨v, p⟩
    have hv := path_start_mem_nodes g p
    obtain ⟨r, hr⟩ := Option.isSome_iff_exists.mp (total v hv)
    refine ⟨v, hv, ?_⟩
    rw [hr]
    simp only [Option.getD_some]
    have := (reach_sound_complete g v r hr v).mpr p
    simpa using this

/-- every line accepted by `isCycle` is a genuine closed walk: its first node reaches itself -/
theorem isCycle_sound (g : G α) (c : List α) (h : isCycle g c = true) : ∃ v, c.head? = some v ∧ Path g v v := by
  unfold isCycle at h
  simp only [Bool.and_eq_true, decide_eq_true_eq, beq_iff_eq, List.all_eq_true] at h
  obtain ⟨⟨hl, hh⟩, he⟩ := h
  -- walk along the list: from the head to every later element there is a path
  have walk : ∀ (l : List α) (v : α), (∀ e ∈ (v :: l).zip l, e ∈ g.edges) → ∀ w, l.getLast? = some w → Path g v w := by
    intro l
    induction l with
    | nil => intro v _ w hw; simp at hw
    | cons x xs ih =>
      intro v hz w hw
      have e1 : (v, x) ∈ g.edges := hz (v, x) (by simp)
      cases xs with
      | nil => simp at hw; subst hw; exact Path.edge e1
      | cons y ys =>
        have : Path g x w := ih x (fun e he' => hz e (by simp at he' ⊢; right; exact he')) w (by simpa using hw)
        exact Path.cons e1 this
  cases c with
  | nil => simp at hl
  | cons v l =>
    cases l with
    | nil => simp at hl
    | cons x xs =>
      refine ⟨v, rfl, ?_⟩
      have hlast : (x :: xs).getLast? = some v := by
        simp only [List.head?_cons] at hh
        rw [List.getLast?_cons_cons] at hh
        exact hh.symm
      apply walk (x :: xs) v _ v hlast
      intro e he'
      have := he e (by simpa using he')
      simpa using this

/-! ### totality of `reach`: |V| rounds always close -/

theorem closed_iff (g : G α) (r : List α) : closed g r = true ↔ ∀ x ∈ r, ∀ y, (x, y) ∈ g.edges → y ∈ r := by
  unfold closed
  simp only [List.all_eq_true, List.contains_iff_mem, decide_eq_true_eq]
  constructor
  · intro h x hx y e
    exact h x hx y ((mem_succs g x y).mpr e)
  · intro h x hx y hy
    exact h x hx y ((mem_succs g x y).mp hy)

theorem closed_expand (g : G α) (r : List α) (h : closed g r = true) : closed g (expand g r) = true := by
  rw [closed_iff] at h ⊢
  have same : ∀ x, x ∈ expand g r ↔ x ∈ r := by
    intro x
    rw [mem_expand]
    constructor
    · rintro (hx | ⟨y, hy, e⟩)
      · exact hx
      · exact h y hy x e
    · exact Or.inl
  intro x hx y e
  exact (same y).mpr (h x ((same x).mp hx) y e)

theorem closed_iter (g : G α) (n : Nat) (r : List α) (h : closed g r = true) : closed g (iter g n r) = true := by
  induction n generalizing r with
  | zero => exact h
  | succ n ih => exact ih _ (closed_expand g r h)

/-- the nodes of the graph not yet collected -/
def miss (g : G α) (r : List α) : Nat := (g.nodes.filter fun x => !r.contains x).length

theorem filter_length_lt (l : List α) (p q : α → Bool) (hpq : ∀ x, p x = true → q x = true)
    (y : α) (hy : y ∈ l) (hq : q y = true) (hp : p y = false) : (l.filter p).length < (l.filter q).length := by
  induction l with
  | nil => simp at hy
  | cons a l ih =>
    have hle : ∀ l : List α, (l.filter p).length ≤ (l.filter q).length := by
      intro l
      induction l with
      | nil => simp
      | cons b l ihl =>
        simp only [List.filter_cons]
        cases hpb : p b with
        | true => simp [hpq b hpb]; exact ihl
        | false => cases hqb : q b <;> simp <;> omega
    simp only [List.mem_cons] at hy
    rcases hy with rfl | hy
    · simp only [List.filter_cons, hq, hp, ↓reduceIte, List.length_cons, Bool.false_eq_true]
      have := hle l
      omega
    · have := ih hy
      simp only [List.filter_cons]
      cases hpa : p a with
      | true => simp [hpq a hpa]; exact this
      | false => cases hqa : q a <;> simp <;> omega

theorem miss_expand_lt (g : G α) (r : List α) (h : closed g r = false) : miss g (expand g r) < miss g r := by
  have hn : ¬ (∀ x ∈ r, ∀ y, (x, y) ∈ g.edges → y ∈ r) := by
    intro hall
    have := (closed_iff g r).mpr hall
    rw [h] at this
    cases this
  have : ∃ x ∈ r, ∃ y, (x, y) ∈ g.edges ∧ y ∉ r := by
    apply Classical.byContradiction
    intro hne
    apply hn
    intro x hx y e
    apply Classical.byContradiction
    intro hy
    exact hne ⟨x, hx, y, e, hy⟩
  obtain ⟨x, hx, y, e, hy⟩ := this
  unfold miss
  apply filter_length_lt g.nodes _ _ _ y (mem_nodes_of_edge g e).2
  · simpa using hy
  · have : y ∈ expand g r := (mem_expand g r y).mpr (Or.inr ⟨x, hx, e⟩)
    simpa using this
  · intro z hz
    have hz' : z ∉ expand g r := by simpa using hz
    have : z ∉ r := fun hr => hz' ((mem_expand g r z).mpr (Or.inl hr))
    simpa using this

theorem iter_closes (g : G α) (n : Nat) (r : List α) (h : miss g r ≤ n) : closed g (iter g n r) = true := by
  induction n generalizing r with
  | zero =>
    have h0 : miss g r = 0 := by omega
    show closed g r = true
    rw [closed_iff]
    intro x _ y e
    have hy := (mem_nodes_of_edge g e).2
    unfold miss at h0
    have hnil := List.eq_nil_of_length_eq_zero h0
    have := List.filter_eq_nil_iff.mp hnil y hy
    simpa using this
  | succ n ih =>
    cases hc : closed g r with
    | true => exact closed_iter g (n + 1) r hc
    | false =>
      have := miss_expand_lt g r hc
      exact ih (expand g r) (by omega)

/-- **`reach` always answers**: |V| rounds of expansion reach the closure -/
theorem reach_total (g : G α) (a : α) : (reach g a).isSome = true := by
  unfold reach
  have hm : miss g (succs g a) ≤ g.nodes.length := by
    unfold miss
    exact List.length_filter_le _ _
  simp [iter_closes g g.nodes.length (succs g a) hm]

/-- unconditional form of `cyclic_iff` -/
theorem cyclic_iff' (g : G α) : cyclic g = true ↔ ∃ v, Path g v v :=
  cyclic_iff g (fun v _ => reach_total g v)

/-- unconditional: the computed reachable set is exactly the set of nodes reachable by a path -/
theorem mem_reachD (g : G α) (a b : α) : b ∈ reachD g a ↔ Path g a b := by
  obtain ⟨r, hr⟩ := Option.isSome_iff_exists.mp (reach_total g a)
  unfold reachD
  rw [hr]
  exact reach_sound_complete g a r hr b

end GM.Graph
