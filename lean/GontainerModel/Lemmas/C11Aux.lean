/- helper lemmas for Props/C11.lean (kept apart so that the property file holds property statements only) -/
import GontainerModel.Lemmas.Grammar
import GontainerModel.Model.Validate
import GontainerModel.Props.Pins
namespace GM.C11
open GM GM.Validate GM.Input

theorem pfx_nil (p : String) (e : Errs) : Errs.pfx p e = [] ↔ e = [] := by simp [Errs.pfx]

theorem rx_yaml (s : String) : rx Rx.yamlToken s = Grammar.yamlToken s.toList := by
  unfold rx
  have := Re.accepts_iff Rx.yamlToken s.toList
  rw [Grammar.yamlToken_iff] at this
  cases h1 : Re.accepts Rx.yamlToken s.toList <;> cases h2 : Grammar.yamlToken s.toList <;> simp_all

theorem rx_go (s : String) : rx Rx.goToken s = Grammar.goToken s.toList := by
  unfold rx
  have := Re.accepts_iff Rx.goToken s.toList
  rw [Grammar.goToken_iff] at this
  cases h1 : Re.accepts Rx.goToken s.toList <;> cases h2 : Grammar.goToken s.toList <;> simp_all

theorem unsupported_nil (n : String) (v : Val) : unsupported n v = [] ↔ v.isPrimitive = true := by
  cases v <;> simp [unsupported, Val.isPrimitive]

/-! ### accepted ⇒ getters pairwise distinct and individually well-formed -/

/-- the getters of the non-todo services, in processing order -/
def liveGetters (l : List (String × Service)) : List String :=
  l.filterMap fun ns => if ns.2.todo.getD false then none else ns.2.getter

theorem fold_errs_grow (l : List (String × Service)) (acc : Errs × List (String × String))
    (h : (l.foldl servicesStep acc).1 = []) : acc.1 = [] := by
  induction l generalizing acc with
  | nil => exact h
  | cons ns l ih =>
    have := ih _ h
    unfold servicesStep at this
    simp only at this
    split at this
    · exact (List.append_eq_nil_iff.mp this).1
    · exact (List.append_eq_nil_iff.mp this).1

theorem fold_unique (l : List (String × Service)) (acc : Errs × List (String × String))
    (h : (l.foldl servicesStep acc).1 = []) :
    (liveGetters l).Nodup ∧ (∀ g ∈ liveGetters l, acc.2.lookup g = none) ∧
    (∀ ns ∈ l, ns.2.todo.getD false = false → serviceAttrs ns.2 = []) := by
  induction l generalizing acc with
  | nil => simp [liveGetters]
  | cons ns l ih =>
    have ih' := ih _ h
    have hstep := fold_errs_grow l _ h
    unfold liveGetters at *
    by_cases htodo : ns.2.todo.getD false = true
    · have hs : servicesStep acc ns = (acc.1 ++ Errs.pfx (q ns.1 ++ ": ") (if rx Rx.yamlToken ns.1 then [] else ["invalid name"]), acc.2) := by
        simp [servicesStep, htodo]
      rw [hs] at ih'
      simp only [List.filterMap_cons, htodo, ↓reduceIte]
      refine ⟨ih'.1, ih'.2.1, ?_⟩
      intro ms hm hnt
      rcases List.mem_cons.mp hm with rfl | hm
      · rw [htodo] at hnt; cases hnt
      · exact ih'.2.2 ms hm hnt
    · have htodo' : ns.2.todo.getD false = false := by simpa using htodo
      have hs : servicesStep acc ns =
          (acc.1 ++ Errs.pfx (q ns.1 ++ ": ") ((if rx Rx.yamlToken ns.1 then [] else ["invalid name"]) ++ serviceAttrs ns.2 ++ (dupCheck acc.2 ns.1 ns.2.getter).1),
           (dupCheck acc.2 ns.1 ns.2.getter).2) := by
        simp [servicesStep, htodo']
      rw [hs] at ih' hstep
      simp only at hstep
      have hparts := (pfx_nil _ _).mp (List.append_eq_nil_iff.mp hstep).2
      have hattrs : serviceAttrs ns.2 = [] := (List.append_eq_nil_iff.mp (List.append_eq_nil_iff.mp hparts).1).2
      have hdup : (dupCheck acc.2 ns.1 ns.2.getter).1 = [] := (List.append_eq_nil_iff.mp hparts).2
      have hattrsAll : ∀ ms ∈ ns :: l, ms.2.todo.getD false = false → serviceAttrs ms.2 = [] := by
        intro ms hm hnt
        rcases List.mem_cons.mp hm with rfl | hm
        · exact hattrs
        · exact ih'.2.2 ms hm hnt
      simp only [List.filterMap_cons, htodo', Bool.false_eq_true, ↓reduceIte]
      cases hg : ns.2.getter with
      | none =>
        rw [hg] at ih'
        simp only [dupCheck] at ih'
        exact ⟨ih'.1, ih'.2.1, hattrsAll⟩
      | some g =>
        rw [hg] at ih' hdup
        simp only [dupCheck] at ih' hdup
        cases hl : acc.2.lookup g with
        | some prev => rw [hl] at hdup; simp at hdup
        | none =>
          rw [hl] at ih'
          simp only at ih'
          refine ⟨List.nodup_cons.mpr ⟨?_, ih'.1⟩, ?_, hattrsAll⟩
          · intro hmem
            have := ih'.2.1 g hmem
            simp [List.lookup_cons] at this
          · intro g' hg'
            rcases List.mem_cons.mp hg' with rfl | hg'
            · exact hl
            · have := ih'.2.1 g' hg'
              rw [List.lookup_cons] at this
              split at this
              · cases this
              · exact this

end GM.C11
