/- helper lemmas for Props/C11.lean (kept apart so that the property file holds property statements only) -/
import GontainerModel.Lemmas.Grammar
import GontainerModel.Model.Validate
import GontainerModel.Props.Pins
namespace GM.C11
open GM GM.Validate GM.Input

theorem pfx_nil (p : String) (e : Errs) : Errs.pfx p e = [] ↔ e = [] := by simp [Errs.pfx]

theorem rx_yaml (s : String) : rx Rx.yamlToken s = Grammar.yamlToken s.toList := by
  unfold rx
  have := Re.accepts_iff Rx.yamlToken s.toList
  rw [Grammar.yamlToken_iff] at this
  cases h1 : Re.accepts Rx.yamlToken s.toList <;> cases h2 : Grammar.yamlToken s.toList <;> simp_all

theorem rx_go (s : String) : rx Rx.goToken s = Grammar.goToken s.toList := by
  unfold rx
  have := Re.accepts_iff Rx.goToken s.toList
  rw [Grammar.goToken_iff] at this
  cases h1 : Re.accepts Rx.goToken s.toList <;> cases h2 : Grammar.goToken s.toList <;> simp_all

theorem unsupported_nil (n : String) (v : Val) : unsupported n v = [] ↔ v.isPrimitive = true := by
  cases v <;> simp [unsupported, Val.isPrimitive]

end GM.C11
