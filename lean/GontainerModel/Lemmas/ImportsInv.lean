import GontainerModel.Lemmas.Hex
import GontainerModel.Model.Imports
/-
Reachable states of the import table: one entry per path, pairwise distinct local names.
-/
namespace GM.Imports
open GM

theorem localName_toList (n : Nat) (p : String) :
    (localName n p).toList = 'i' :: (Nat.toDigits 16 n ++ '_' :: (lastSeg p.toList).map fun c => if isAlnum c then c else '_') := by
  unfold localName hexStr
  simp [String.toList_append, String.toList_ofList]

/-- the counter can be read back from a local name: names made under different counters differ -/
theorem localName_counter_inj (n m : Nat) (p q : String) (h : localName n p = localName m q) : n = m := by
  have := congrArg String.toList h
  rw [localName_toList, localName_toList] at this
  simp only [List.cons.injEq, true_and] at this
  exact Hex.toDigits16_inj n m (Hex.split_unique '_' _ _ _ _ (Hex.underscore_not_mem n) (Hex.underscore_not_mem m) this).1

/-- invariant of the table -/
structure TInv (st : St) : Prop where
  paths : (st.imports.map (·.1)).Nodup
  named : ∀ e ∈ st.imports, ∃ k, k < st.counter ∧ e.2 = localName k e.1
  names : (st.imports.map (·.2)).Nodup

theorem tinv_init (pre : List (String × String)) : TInv { counter := 0, imports := [], prefixes := pre } :=
  ⟨by simp, by simp, by simp⟩

theorem lookup_none_not_mem {l : List (String × String)} {k : String} (h : l.lookup k = none) : k ∉ l.map (·.1) := by
  induction l with
  | nil => simp
  | cons e l ih =>
    obtain ⟨a, b⟩ := e
    rw [List.lookup_cons] at h
    split at h
    · cases h
    · rename_i hne
      simp only [List.map_cons, List.mem_cons, not_or]
      exact ⟨by simpa using hne, ih h⟩

theorem lookup_some_mem {l : List (String × String)} {k v : String} (h : l.lookup k = some v) : (k, v) ∈ l := by
  induction l with
  | nil => simp at h
  | cons e l ih =>
    obtain ⟨a, b⟩ := e
    rw [List.lookup_cons] at h
    split at h
    · rename_i heq
      have : k = a := by simpa using heq
      simp at h
      subst this; subst h
      simp
    · exact List.mem_cons_of_mem _ (ih h)

theorem alias_prefixes (st : St) (r : String) : (alias st r).1.prefixes = st.prefixes := by
  unfold alias
  simp only
  split <;> rfl

theorem tinv_alias (st : St) (r : String) (h : TInv st) : TInv (alias st r).1 := by
  unfold alias
  simp only
  split
  · exact h
  · rename_i hl
    refine ⟨?_, ?_, ?_⟩
    · simp only [List.map_cons, List.nodup_cons]
      exact ⟨lookup_none_not_mem hl, h.paths⟩
    · intro e he
      simp only [List.mem_cons] at he
      rcases he with rfl | he
      · exact ⟨st.counter, by simp, rfl⟩
      · obtain ⟨k, hk, e2⟩ := h.named e he
        exact ⟨k, by simp; omega, e2⟩
    · simp only [List.map_cons, List.nodup_cons]
      refine ⟨?_, h.names⟩
      intro hm
      obtain ⟨e, he, e2⟩ := List.mem_map.mp hm
      obtain ⟨k, hk, e3⟩ := h.named e he
      rw [e3] at e2
      have := localName_counter_inj _ _ _ _ e2
      omega

/-- resolving a sequence of references, in order -/
def aliasAll (st : St) (rs : List String) : St := rs.foldl (fun s r => (alias s r).1) st

theorem tinv_aliasAll (st : St) (rs : List String) (h : TInv st) : TInv (aliasAll st rs) := by
  unfold aliasAll
  induction rs generalizing st with
  | nil => exact h
  | cons r rs ih => exact ih _ (tinv_alias st r h)

/-- the name `alias` returns is the one recorded for the resolved path -/
theorem alias_recorded (st : St) (r : String) :
    (decorate st.prefixes r, (alias st r).2) ∈ (alias st r).1.imports := by
  unfold alias
  simp only
  split
  · rename_i a hl
    exact lookup_some_mem hl
  · simp

/-- the table only grows -/
theorem alias_mono (st : St) (r : String) : ∀ e ∈ st.imports, e ∈ (alias st r).1.imports := by
  intro e he
  unfold alias
  simp only
  split
  · exact he
  · exact List.mem_cons_of_mem _ he

theorem aliasAll_mono (st : St) (rs : List String) : ∀ e ∈ st.imports, e ∈ (aliasAll st rs).imports := by
  unfold aliasAll
  induction rs generalizing st with
  | nil => intro e he; exact he
  | cons r rs ih => intro e he; exact ih _ e (alias_mono st r e he)

theorem aliasAll_prefixes (st : St) (rs : List String) : (aliasAll st rs).prefixes = st.prefixes := by
  unfold aliasAll
  induction rs generalizing st with
  | nil => rfl
  | cons r rs ih => rw [List.foldl_cons, ih, alias_prefixes]

theorem eq_of_same_snd {l : List (String × String)} (h : (l.map (·.2)).Nodup) {e1 e2 : String × String}
    (h1 : e1 ∈ l) (h2 : e2 ∈ l) (e : e1.2 = e2.2) : e1 = e2 := by
  induction l with
  | nil => simp at h1
  | cons x l ih =>
    simp only [List.map_cons, List.nodup_cons] at h
    rcases List.mem_cons.mp h1 with rfl | h1' <;> rcases List.mem_cons.mp h2 with rfl | h2'
    · rfl
    · exact absurd (List.mem_map.mpr ⟨e2, h2', e.symm⟩) h.1
    · exact absurd (List.mem_map.mpr ⟨e1, h1', e⟩) h.1
    · exact ih h.2 h1' h2'

theorem eq_of_same_fst {l : List (String × String)} (h : (l.map (·.1)).Nodup) {e1 e2 : String × String}
    (h1 : e1 ∈ l) (h2 : e2 ∈ l) (e : e1.1 = e2.1) : e1 = e2 := by
  induction l with
  | nil => simp at h1
  | cons x l ih =>
    simp only [List.map_cons, List.nodup_cons] at h
    rcases List.mem_cons.mp h1 with rfl | h1' <;> rcases List.mem_cons.mp h2 with rfl | h2'
    · rfl
    · exact absurd (List.mem_map.mpr ⟨e2, h2', e.symm⟩) h.1
    · exact absurd (List.mem_map.mpr ⟨e1, h1', e⟩) h.1
    · exact ih h.2 h1' h2'

end GM.Imports
