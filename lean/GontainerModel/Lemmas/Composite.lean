/-
Language of the composite regular expressions (import, function, type, value, argument forms)
= the readable recognisers of `Model/Grammar.lean`, for every string.
-/
import GontainerModel.Lemmas.Grammar
import GontainerModel.Lemmas.ReInv
namespace GM.Grammar
open GM GM.Re

/-! ### (optional separator, body)* -/

def sepUnit (S B : Cls) : Re := cat (opt (cls S)) (cls B)

theorem sepUnit_shape {S B : Cls} {x : List Char} (h : Lang (sepUnit S B) x) :
    (∃ b, x = [b] ∧ B.mem b = true) ∨ (∃ a b, x = [a, b] ∧ S.mem a = true ∧ B.mem b = true) := by
  cases h with
  | cat ho ha =>
    cases ha with
    | @cls _ b hb =>
      cases ho with
      | altL hsep =>
        cases hsep with
        | @cls _ a hs' => exact Or.inr ⟨a, b, rfl, hs', hb⟩
      | altR he => cases he; exact Or.inl ⟨b, rfl, hb⟩

theorem lang_of_sepTail (S B : Cls) : ∀ (w : List Char), sepTail S.mem B.mem w = true → Lang (star (sepUnit S B)) w
  | [], _ => Lang.starNil
  | [a], h => by
    unfold sepTail at h
    split at h
    · have : Lang (sepUnit S B) ([] ++ [a]) := Lang.cat (Lang.altR Lang.eps) (Lang.cls ‹_›)
      have := Lang.starCons this Lang.starNil
      simpa using this
    · split at h <;> simp at h
  | a :: b :: t, h => by
    unfold sepTail at h
    split at h
    · have ih := lang_of_sepTail S B (b :: t) h
      have : Lang (sepUnit S B) ([] ++ [a]) := Lang.cat (Lang.altR Lang.eps) (Lang.cls ‹_›)
      have := Lang.starCons this ih
      simpa using this
    · split at h
      · simp at h
        have ih := lang_of_sepTail S B t h.2
        have : Lang (sepUnit S B) ([a] ++ [b]) := Lang.cat (Lang.altL (Lang.cls ‹_›)) (Lang.cls h.1)
        have := Lang.starCons this ih
        simpa using this
      · simp at h

theorem sepTail_of_lang (S B : Cls) {w : List Char} (h : Lang (star (sepUnit S B)) w) :
    sepTail S.mem B.mem w = true := by
  generalize hs : star (sepUnit S B) = s at h
  induction h with
  | starNil => rfl
  | @starCons r x y h1 _ _ ih2 =>
    cases hs
    have ih := ih2 rfl
    rcases sepUnit_shape h1 with ⟨b, rfl, hb⟩ | ⟨a, b, rfl, ha, hb⟩
    · show sepTail S.mem B.mem (b :: y) = true
      unfold sepTail; simp [hb, ih]
    · show sepTail S.mem B.mem (a :: b :: y) = true
      unfold sepTail
      split
      · unfold sepTail; simp [hb, ih]
      · simp [ha, hb, ih]
  | _ => cases hs

theorem sepTail_iff (S B : Cls) (w : List Char) :
    Lang (star (sepUnit S B)) w ↔ sepTail S.mem B.mem w = true :=
  ⟨sepTail_of_lang S B, lang_of_sepTail S B w⟩

/-! ### import paths -/

theorem lang_letter_then (R : Re) (P : List Char → Bool) (hP : ∀ w, Lang R w ↔ P w = true) (w : List Char) :
    Lang (cat (cls Rx.letter) R) w ↔ (match w with | [] => false | c :: t => isLetter c && P t) = true := by
  rw [lang_cat_iff]
  constructor
  · rintro ⟨x, y, rfl, hx, hy⟩
    obtain ⟨c, rfl, hc⟩ := (lang_cls_iff _ _).mp hx
    simp [isLetter, hc, (hP y).mp hy]
  · intro h
    cases w with
    | nil => simp at h
    | cons c t =>
      simp only [Bool.and_eq_true] at h
      exact ⟨[c], t, rfl, Lang.cls h.1, (hP t).mpr h.2⟩

theorem baseImportTail_iff (w : List Char) : Lang Rx.baseImportTail w ↔ sepTail isSlash isImportChar w = true :=
  sepTail_iff [(47, 47)] Rx.importTail w

theorem baseImport_iff (w : List Char) : Lang Rx.baseImport w ↔ baseImport w = true := by
  unfold Rx.baseImport
  rw [lang_letter_then _ _ baseImportTail_iff]
  cases w <;> simp [baseImport]

theorem quote_char {c : Char} (h : c.toNat = 34) : c = '"' := char_of_toNat (d := '"') h

theorem unquoted_eq_some (w m : List Char) : unquoted w = some m ↔ w = '"' :: (m ++ ['"']) := by
  constructor
  · intro h
    unfold unquoted at h
    split at h
    · rename_i t
      split at h
      · rename_i hl
        cases h
        obtain ⟨ys, rfl⟩ := List.getLast?_eq_some_iff.mp hl
        simp
      · cases h
    · cases h
  · rintro rfl
    simp [unquoted]

theorem lang_q_iff (w : List Char) : Lang Rx.q w ↔ w = ['"'] := by
  unfold Rx.q
  rw [lang_chr_iff]
  constructor
  · rintro ⟨c, rfl, h⟩; rw [quote_char h]
  · rintro rfl; exact ⟨'"', rfl, rfl⟩

theorem lang_dot_iff (w : List Char) : Lang Rx.dot w ↔ w = ['.'] := by
  unfold Rx.dot
  rw [lang_chr_iff]
  constructor
  · rintro ⟨c, rfl, h⟩; rw [char_of_toNat (d := '.') h]
  · rintro rfl; exact ⟨'.', rfl, rfl⟩

theorem import_iff (w : List Char) : Lang Rx.import_ w ↔ import_ w = true := by
  unfold Rx.import_ import_
  rw [lang_alt_iff, lang_alt_iff, baseImport_iff]
  have hq : ∀ (R : Re) (w : List Char), Lang (cat Rx.q (cat R Rx.q)) w ↔ ∃ m, w = '"' :: (m ++ ['"']) ∧ Lang R m := by
    intro R w
    simp only [lang_cat_iff, lang_q_iff]
    constructor
    · rintro ⟨x, y, rfl, rfl, a, b, rfl, ha, rfl⟩
      exact ⟨a, rfl, ha⟩
    · rintro ⟨m, rfl, hm⟩
      exact ⟨['"'], m ++ ['"'], rfl, rfl, m, ['"'], rfl, hm, rfl⟩
  have h2 : Lang (cat Rx.q (cat (cls Rx.letter) (cat Rx.baseImportTail Rx.q))) w ↔
      ∃ m, w = '"' :: (m ++ ['"']) ∧ baseImport m = true := by
    have hbi : ∀ m, Lang (cat (cls Rx.letter) Rx.baseImportTail) m ↔ baseImport m = true := baseImport_iff
    have e : (∃ m, w = '"' :: (m ++ ['"']) ∧ baseImport m = true) ↔
        (∃ m, w = '"' :: (m ++ ['"']) ∧ Lang (cat (cls Rx.letter) Rx.baseImportTail) m) := by simp only [hbi]
    rw [e, ← hq]
    simp only [lang_cat_iff]
    constructor
    · rintro ⟨x, y, rfl, hx, a, b, rfl, ha, c, d, rfl, hc, hd⟩
      exact ⟨x, (a ++ c) ++ d, by simp, hx, a ++ c, d, rfl, ⟨a, c, rfl, ha, hc⟩, hd⟩
    · rintro ⟨x, y, rfl, hx, ac, d, rfl, ⟨a, c, rfl, ha, hc⟩, hd⟩
      exact ⟨x, a ++ (c ++ d), by simp, hx, a, c ++ d, rfl, ha, c, d, rfl, hc, hd⟩
  have h3 : Lang (cat Rx.q (cat Rx.dot Rx.q)) w ↔ ∃ m, w = '"' :: (m ++ ['"']) ∧ m = ['.'] := by
    rw [hq]; simp only [lang_dot_iff]
  rw [h2, h3]
  constructor
  · rintro (h | ⟨m, rfl, hm⟩ | ⟨m, rfl, rfl⟩)
    · simp [h]
    · simp [(unquoted_eq_some _ m).mpr rfl, hm]
    · have : unquoted ('"' :: (['.'] ++ ['"'])) = some ['.'] := (unquoted_eq_some _ ['.']).mpr rfl
      rw [this]; simp
  · intro h
    simp only [Bool.or_eq_true] at h
    rcases h with h | h
    · exact Or.inl h
    · split at h
      · rename_i m hm
        have hw := (unquoted_eq_some w m).mp hm
        simp only [Bool.or_eq_true, beq_iff_eq] at h
        rcases h with h | h
        · exact Or.inr (Or.inl ⟨m, hw, h⟩)
        · exact Or.inr (Or.inr ⟨m, hw, h⟩)
      · cases h

/-! ### qualification by a package reference -/

theorem mem_splitsAtDot (w a b : List Char) : (a, b) ∈ splitsAtDot w ↔ w = a ++ '.' :: b := by
  induction w generalizing a with
  | nil => simp [splitsAtDot]
  | cons c t ih =>
    simp only [splitsAtDot, List.mem_append, List.mem_map, Prod.mk.injEq]
    constructor
    · rintro (h | ⟨⟨a', b'⟩, hm, rfl, rfl⟩)
      · split at h
        · rename_i hc
          simp at h
          obtain ⟨rfl, rfl⟩ := h
          simp [hc]
        · cases h
      · have := (ih a').mp hm
        simp [this]
    · intro h
      cases a with
      | nil =>
        simp at h
        obtain ⟨rfl, rfl⟩ := h
        left; simp
      | cons a0 a' =>
        simp at h
        obtain ⟨rfl, rfl⟩ := h
        right
        exact ⟨(a', b), (ih a').mpr rfl, rfl, rfl⟩

theorem qualified_iff (n : String) (R : Re) (P : List Char → Bool) (hP : ∀ w, Lang R w ↔ P w = true) (w : List Char) :
    Lang (cat (opt (cat (group n Rx.import_) Rx.dot)) R) w ↔ qualified P w = true := by
  rw [lang_optcat_iff]
  unfold qualified
  simp only [Bool.or_eq_true, List.any_eq_true, Bool.and_eq_true, Prod.exists]
  constructor
  · rintro (h | ⟨x, y, rfl, hx, hy⟩)
    · exact Or.inl ((hP _).mp h)
    · right
      obtain ⟨i, d, rfl, hi, hd⟩ := (lang_cat_iff _ _ _).mp hx
      rw [lang_group_iff, import_iff] at hi
      rw [lang_dot_iff] at hd
      subst hd
      exact ⟨i, y, (mem_splitsAtDot _ _ _).mpr (by simp), hi, (hP _).mp hy⟩
  · rintro (h | ⟨i, y, hm, hi, hy⟩)
    · exact Or.inl ((hP _).mpr h)
    · right
      have hw := (mem_splitsAtDot _ _ _).mp hm
      refine ⟨i ++ ['.'], y, by simp [hw], ?_, (hP _).mpr hy⟩
      exact Lang.cat (Lang.group ((import_iff i).mpr hi)) ((lang_dot_iff _).mpr rfl)

theorem optLead_iff (n : String) (k : Nat) (c : Char) (hc : c.toNat = k) (R : Re) (P : List Char → Bool)
    (hP : ∀ w, Lang R w ↔ P w = true) (w : List Char) :
    Lang (cat (opt (group n (cls [(k, k)]))) R) w ↔ optLead c P w = true := by
  rw [lang_optcat_iff]
  unfold optLead
  simp only [Bool.or_eq_true]
  constructor
  · rintro (h | ⟨x, y, rfl, hx, hy⟩)
    · exact Or.inl ((hP _).mp h)
    · right
      rw [lang_group_iff, lang_chr_iff] at hx
      obtain ⟨a, rfl, ha⟩ := hx
      have : a = c := char_of_toNat (by rw [ha, hc])
      simp [this, (hP _).mp hy]
  · rintro (h | h)
    · exact Or.inl ((hP _).mpr h)
    · right
      cases w with
      | nil => cases h
      | cons a r =>
        simp only [Bool.and_eq_true, beq_iff_eq] at h
        obtain ⟨rfl, hr⟩ := h
        refine ⟨[a], r, rfl, ?_, (hP _).mpr hr⟩
        rw [lang_group_iff, lang_chr_iff]
        exact ⟨a, rfl, hc⟩

theorem goToken_lang (w : List Char) : Lang Rx.goToken w ↔ goToken w = true := goToken_iff w

theorem goFunc_iff (w : List Char) : Lang Rx.goFunc w ↔ goFunc w = true := by
  unfold Rx.goFunc goFunc
  exact qualified_iff "import" _ goToken (fun w => by rw [lang_group_iff]; exact goToken_iff w) w

theorem serviceType_iff (w : List Char) : Lang Rx.serviceType w ↔ serviceType w = true := by
  unfold Rx.serviceType serviceType
  exact optLead_iff "ptr" 42 '*' rfl _ goFunc
    (fun w => by
      have := qualified_iff "import" (group "type" Rx.goToken) goToken (fun w => by rw [lang_group_iff]; exact goToken_iff w) w
      exact this) w

/-! ### `Ident(.Ident)*` -/

def dotSeg : Re := cat Rx.dot (cat (cls Rx.letter) (star (cls Rx.identTail)))

theorem dottedTail_append (ts y : List Char) (h1 : ts.all isIdentTail = true) (h2 : dottedTail y = true) :
    dottedTail (ts ++ y) = true := by
  induction ts with
  | nil => simpa using h2
  | cons a t ih =>
    simp only [List.all_cons, Bool.and_eq_true] at h1
    show dottedTail (a :: (t ++ y)) = true
    unfold dottedTail
    simp [h1.1, ih h1.2]

theorem dot_not_identTail : isIdentTail '.' = false := by decide

theorem dottedTail_of_star {y : List Char} (h : Lang (star dotSeg) y) : dottedTail y = true := by
  generalize hs : star dotSeg = s at h
  induction h with
  | starNil => rfl
  | @starCons r x y h1 _ _ ih2 =>
    cases hs
    have ih := ih2 rfl
    obtain ⟨d, r1, rfl, hd, hr1⟩ := (lang_cat_iff _ _ _).mp h1
    obtain ⟨l, ts, rfl, hl, hts⟩ := (lang_cat_iff _ _ _).mp hr1
    rw [lang_dot_iff] at hd
    subst hd
    obtain ⟨lc, rfl, hlc⟩ := (lang_cls_iff _ _).mp hl
    rw [lang_star_cls_iff] at hts
    show dottedTail ('.' :: lc :: (ts ++ y)) = true
    unfold dottedTail
    simp [dot_not_identTail, isLetter, hlc, dottedTail_append ts y hts ih]
  | _ => cases hs

theorem split_of_dottedTail : ∀ (t : List Char), dottedTail t = true →
    ∃ x y, t = x ++ y ∧ x.all isIdentTail = true ∧ Lang (star dotSeg) y
  | [], _ => ⟨[], [], rfl, rfl, Lang.starNil⟩
  | [a], h => by
    unfold dottedTail at h
    split at h
    · exact ⟨[a], [], rfl, by simp [*], Lang.starNil⟩
    · split at h <;> simp at h
  | a :: b :: t, h => by
    unfold dottedTail at h
    split at h
    · obtain ⟨x, y, hxy, hx, hy⟩ := split_of_dottedTail (b :: t) h
      exact ⟨a :: x, y, by simp [hxy], by simp [*], hy⟩
    · split at h
      · rename_i hdot
        simp at h
        simp at hdot
        subst hdot
        obtain ⟨x, y, hxy, hx, hy⟩ := split_of_dottedTail t h.2
        refine ⟨[], ('.' :: b :: x) ++ y, by simp [hxy], rfl, ?_⟩
        refine Lang.starCons ?_ hy
        have h1 : Lang Rx.dot ['.'] := (lang_dot_iff _).mpr rfl
        have h2 : Lang (cls Rx.letter) [b] := Lang.cls h.1
        have h3 : Lang (star (cls Rx.identTail)) x := (lang_star_cls_iff _ _).mpr hx
        have := Lang.cat h1 (Lang.cat h2 h3)
        simpa [dotSeg] using this
      · simp at h

theorem dottedRe_iff (w : List Char) :
    Lang (cat (cls Rx.letter) (cat (star (cls Rx.identTail)) (star dotSeg))) w ↔ dotted w = true := by
  have ht : ∀ t, Lang (cat (star (cls Rx.identTail)) (star dotSeg)) t ↔ dottedTail t = true := by
    intro t
    constructor
    · intro h
      obtain ⟨x, y, rfl, hx, hy⟩ := (lang_cat_iff _ _ _).mp h
      rw [lang_star_cls_iff] at hx
      exact dottedTail_append x y hx (dottedTail_of_star hy)
    · intro h
      obtain ⟨x, y, rfl, hx, hy⟩ := split_of_dottedTail t h
      exact Lang.cat ((lang_star_cls_iff _ _).mpr hx) hy
  rw [lang_letter_then _ _ ht]
  cases w <;> simp [dotted]

/-! ### `{}` suffix -/

theorem beforeBraces_eq_some (w b : List Char) : beforeBraces w = some b ↔ w = b ++ ['{', '}'] := by
  unfold beforeBraces
  constructor
  · intro h
    split at h
    · rename_i hd
      cases h
      have := List.take_append_drop (w.length - 2) w
      rw [hd] at this
      exact this.symm
    · cases h
  · rintro rfl
    simp

theorem withBraces_iff (R : Re) (P : List Char → Bool) (hP : ∀ w, Lang R w ↔ P w = true) (w : List Char) :
    Lang (cat R (cat (cls [(123, 123)]) (cls [(125, 125)]))) w ↔ withBraces P w = true := by
  have hb : ∀ y, Lang (cat (cls [(123, 123)]) (cls [(125, 125)])) y ↔ y = ['{', '}'] := by
    intro y
    simp only [lang_cat_iff, lang_chr_iff]
    constructor
    · rintro ⟨x, z, rfl, ⟨c, rfl, hc⟩, ⟨d, rfl, hd⟩⟩
      rw [char_of_toNat (d := '{') hc, char_of_toNat (d := '}') hd]; rfl
    · rintro rfl
      exact ⟨['{'], ['}'], rfl, ⟨'{', rfl, rfl⟩, ⟨'}', rfl, rfl⟩⟩
  rw [lang_cat_iff]
  unfold withBraces
  constructor
  · rintro ⟨x, y, rfl, hx, hy⟩
    rw [hb] at hy
    subst hy
    rw [(beforeBraces_eq_some _ x).mpr rfl]
    exact (hP x).mp hx
  · intro h
    split at h
    · rename_i b hbb
      exact ⟨b, ['{', '}'], (beforeBraces_eq_some w b).mp hbb, (hP b).mpr h, (hb _).mpr rfl⟩
    · cases h

/-! ### service values -/

theorem value1_iff (w : List Char) : Lang Rx.value1 w ↔ optLead '&' (qualified dotted) w = true := by
  unfold Rx.value1
  rw [lang_group_iff]
  refine optLead_iff "ptr" 38 '&' rfl _ (qualified dotted) (fun w => ?_) w
  refine qualified_iff "import" _ dotted (fun w => ?_) w
  rw [lang_group_iff]
  exact dottedRe_iff w

theorem value2_iff (w : List Char) : Lang Rx.value2 w ↔ optLead '&' (qualified (withBraces goToken)) w = true := by
  unfold Rx.value2
  rw [lang_group_iff]
  refine optLead_iff "ptr2" 38 '&' rfl _ (qualified (withBraces goToken)) (fun w => ?_) w
  refine qualified_iff "import2" _ (withBraces goToken) (fun w => ?_) w
  exact withBraces_iff (group "struct2" Rx.goToken) goToken (fun w => by rw [lang_group_iff]; exact goToken_iff w) w

theorem serviceValue_iff (w : List Char) : Lang Rx.serviceValue w ↔ serviceValue w = true := by
  unfold Rx.serviceValue serviceValue
  rw [lang_alt_iff, value1_iff, value2_iff, Bool.or_eq_true]

/-! ### argument forms -/

theorem decoratorTag_iff (w : List Char) : Lang Rx.decoratorTag w ↔ decoratorTag w = true := by
  unfold Rx.decoratorTag decoratorTag
  rw [lang_alt_iff, yamlToken_iff, lang_chr_iff, Bool.or_eq_true, beq_iff_eq]
  constructor
  · rintro (⟨c, rfl, hc⟩ | h)
    · left; rw [char_of_toNat (d := '*') hc]
    · exact Or.inr h
  · rintro (rfl | h)
    · exact Or.inl ⟨'*', rfl, rfl⟩
    · exact Or.inr h

theorem argService_iff (w : List Char) : Lang Rx.argService w ↔ argService w = true := by
  unfold Rx.argService
  rw [lang_cat_iff]
  constructor
  · rintro ⟨x, y, rfl, hx, hy⟩
    obtain ⟨c, rfl, hc⟩ := (lang_chr_iff _ _).mp hx
    rw [char_of_toNat (d := '@') hc]
    rw [lang_group_iff, yamlToken_iff] at hy
    simpa [argService] using hy
  · intro h
    unfold argService at h
    split at h
    · rename_i r
      exact ⟨['@'], r, rfl, (lang_chr_iff _ _).mpr ⟨'@', rfl, rfl⟩, by rw [lang_group_iff, yamlToken_iff]; exact h⟩
    · cases h

theorem afterSpaces_iff (P : List Char → Bool) (w : List Char) :
    afterSpaces P w = true ↔ ∃ c x y, w = c :: (x ++ y) ∧ isSpace c = true ∧ x.all isSpace = true ∧ P y = true := by
  induction w with
  | nil => simp [afterSpaces]
  | cons a t ih =>
    simp only [afterSpaces, Bool.and_eq_true, Bool.or_eq_true, ih]
    constructor
    · rintro ⟨ha, h | ⟨c, x, y, rfl, hc, hx, hy⟩⟩
      · exact ⟨a, [], t, rfl, ha, rfl, h⟩
      · exact ⟨a, c :: x, y, rfl, ha, by simp [hc, hx], hy⟩
    · rintro ⟨c, x, y, hw, hc, hx, hy⟩
      simp only [List.cons.injEq] at hw
      obtain ⟨rfl, rfl⟩ := hw
      refine ⟨hc, ?_⟩
      cases x with
      | nil => left; simpa using hy
      | cons c' x' =>
        right
        simp only [List.all_cons, Bool.and_eq_true] at hx
        exact ⟨c', x', y, rfl, hx.1, hx.2, hy⟩

theorem spacesThen_iff (R : Re) (P : List Char → Bool) (hP : ∀ w, Lang R w ↔ P w = true) (w : List Char) :
    Lang (cat (plus (cls Rx.space)) R) w ↔ afterSpaces P w = true := by
  rw [afterSpaces_iff]
  unfold plus
  simp only [lang_cat_iff, lang_cls_iff, lang_star_cls_iff]
  constructor
  · rintro ⟨x, y, rfl, ⟨a, b, rfl, ⟨c, rfl, hc⟩, hb⟩, hy⟩
    exact ⟨c, b, y, by simp, hc, hb, (hP _).mp hy⟩
  · rintro ⟨c, x, y, rfl, hc, hx, hy⟩
    exact ⟨c :: x, y, by simp, ⟨[c], x, rfl, ⟨c, rfl, hc⟩, hx⟩, (hP _).mpr hy⟩

/-- a literal word as `regexp/syntax` prints it: nested concatenation of one-character classes -/
def litCls : List Nat → Re
  | [] => eps
  | [n] => cls [(n, n)]
  | n :: m :: r => cat (cls [(n, n)]) (litCls (m :: r))

theorem litCls_iff : ∀ (ns : List Nat) (w : List Char), Lang (litCls ns) w ↔ w.map Char.toNat = ns
  | [], w => by simp [litCls, lang_eps_iff]
  | [n], w => by
    simp only [litCls, lang_chr_iff]
    constructor
    · rintro ⟨c, rfl, h⟩; simp [h]
    · intro h
      match w, h with
      | [c], h => exact ⟨c, rfl, by simpa using h⟩
  | n :: m :: r, w => by
    simp only [litCls, lang_cat_iff, lang_chr_iff, litCls_iff (m :: r)]
    constructor
    · rintro ⟨x, y, rfl, ⟨c, rfl, hc⟩, hy⟩
      simp [hc, hy]
    · intro h
      match w, h with
      | c :: t, h =>
        simp only [List.map_cons, List.cons.injEq] at h
        exact ⟨[c], t, rfl, ⟨c, rfl, h.1⟩, h.2⟩

theorem toNat_map_eq {w k : List Char} (h : w.map Char.toNat = k.map Char.toNat) : w = k := by
  induction w generalizing k with
  | nil => cases k <;> simp_all
  | cons a t ih =>
    cases k with
    | nil => simp at h
    | cons b u =>
      simp only [List.map_cons, List.cons.injEq] at h
      rw [char_of_toNat h.1, ih h.2]

theorem keyword_iff (k : List Char) (K R : Re) (P : List Char → Bool)
    (hK : ∀ w, Lang K w ↔ w = k) (hP : ∀ w, Lang R w ↔ P w = true) (w : List Char) :
    Lang (cat K R) w ↔ keyword k P w = true := by
  rw [lang_cat_iff]
  unfold keyword
  simp only [Bool.and_eq_true, List.isPrefixOf_iff_prefix]
  constructor
  · rintro ⟨x, y, rfl, hx, hy⟩
    rw [hK] at hx
    subst hx
    exact ⟨List.prefix_append _ _, by simpa using (hP _).mp hy⟩
  · rintro ⟨⟨y, rfl⟩, hy⟩
    exact ⟨k, y, rfl, (hK _).mpr rfl, (hP _).mpr (by simpa using hy)⟩

theorem taggedLit_iff (w : List Char) : Lang Rx.taggedLit w ↔ w = ['!','t','a','g','g','e','d'] := by
  have : Rx.taggedLit = litCls [33, 116, 97, 103, 103, 101, 100] := rfl
  rw [this, litCls_iff]
  constructor
  · intro h; exact toNat_map_eq (k := ['!','t','a','g','g','e','d']) h
  · rintro rfl; rfl

theorem valueLit_iff (w : List Char) : Lang Rx.valueLit w ↔ w = ['!','v','a','l','u','e'] := by
  have : Rx.valueLit = litCls [33, 118, 97, 108, 117, 101] := rfl
  rw [this, litCls_iff]
  constructor
  · intro h; exact toNat_map_eq (k := ['!','v','a','l','u','e']) h
  · rintro rfl; rfl

theorem argTagged_iff (w : List Char) : Lang Rx.argTagged w ↔ argTagged w = true := by
  unfold Rx.argTagged argTagged
  exact keyword_iff _ _ _ _ taggedLit_iff
    (spacesThen_iff _ yamlToken (fun w => by rw [lang_group_iff]; exact yamlToken_iff w)) w

theorem argValue_iff (w : List Char) : Lang Rx.argValue w ↔ argValue w = true := by
  unfold Rx.argValue argValue
  exact keyword_iff _ _ _ _ valueLit_iff
    (spacesThen_iff _ serviceValue (fun w => by rw [lang_group_iff]; exact serviceValue_iff w)) w

end GM.Grammar
