/- helper lemmas for Props/C13.lean -/
import GontainerModel.Lemmas.Methods
import GontainerModel.Lemmas.C11Aux
import GontainerModel.Generated.Template
namespace GM.C13
open GM GM.Validate GM.Methods

theorem nodup_of_map_toList (l : List String) (h : (l.map String.toList).Nodup) : l.Nodup := by
  induction l with
  | nil => simp
  | cons a l ih =>
    simp only [List.map_cons, List.nodup_cons] at h ⊢
    exact ⟨fun hm => h.1 (List.mem_map_of_mem hm), ih h.2⟩

theorem nodup_map_toList (l : List String) (h : l.Nodup) : (l.map String.toList).Nodup := by
  induction l with
  | nil => simp
  | cons a l ih =>
    simp only [List.map_cons, List.nodup_cons] at h ⊢
    refine ⟨?_, ih h.2⟩
    intro hm
    obtain ⟨b, hb, e⟩ := List.mem_map.mp hm
    rw [String.toList_inj.mp e] at hb
    exact h.1 hb

/-- what acceptance of the attribute checks says about a getter -/
theorem getter_ok (s : Input.Service) (g : String) (hg : s.getter = some g) (h : serviceAttrs s = []) :
    Ok g.toList ∧ g ∉ reservedGetters := by
  unfold serviceAttrs at h
  simp only [List.append_eq_nil_iff] at h
  have hget : serviceGetter s = [] := h.1.1.1.1.1.1.2
  unfold serviceGetter at hget
  rw [hg] at hget
  simp only at hget
  split at hget
  · simp at hget
  · rename_i hres
    simp only [List.append_eq_nil_iff] at hget
    refine ⟨⟨?_, ?_⟩, by simpa using hres⟩
    · cases hp : mustPrefix.isPrefixOf g.toList with
      | false => rfl
      | true => have := hget.1.1; rw [hp] at this; simp at this
    · cases hp : inContextSuffix.isSuffixOf g.toList with
      | false => rfl
      | true => have := hget.1.2; rw [hp] at this; simp at this

/-- the regenerated reserved table: no entry starts with "Must"; every "…InContext" entry has its stem in the table -/
theorem reserved_table_closed :
    (∀ r ∈ (Generated.rtContainerMethods ++ Generated.tplStructEmbedded).map String.toList, must.isPrefixOf r = false) ∧
    (∀ r ∈ (Generated.rtContainerMethods ++ Generated.tplStructEmbedded).map String.toList,
        ic.isSuffixOf r = true → r.take (r.length - ic.length) ∈ (Generated.rtContainerMethods ++ Generated.tplStructEmbedded).map String.toList) := by
  decide

theorem stem_of_table (res : List (List Char))
    (h : ∀ r ∈ res, ic.isSuffixOf r = true → r.take (r.length - ic.length) ∈ res) :
    ∀ r ∈ res, ∀ g, r = g ++ ic → g ∈ res := by
  intro r hr g e
  have hs : ic.isSuffixOf r = true := by rw [e]; simp [List.isSuffixOf, List.reverse_append]
  have := h r hr hs
  rw [e] at this
  simpa using this

theorem methods_never_collide_aux (i : Input.Input) (hacc : validateServices i = [])
    {names : List String → List String}
    (hnames : names = fun gs => gs.flatMap fun g => Generated.tplGetterMethods.map fun m => m.1 ++ g ++ m.2.1) :
    (names (C11.liveGetters (AMap.sorted i.services))).Nodup ∧
    ∀ x ∈ names (C11.liveGetters (AMap.sorted i.services)), x ∉ Generated.rtContainerMethods ++ Generated.tplStructEmbedded := by
  have hfold : ((AMap.sorted i.services).foldl servicesStep ([], [])).1 = [] := by
    unfold validateServices at hacc
    exact (C11.pfx_nil _ _).mp hacc
  obtain ⟨hnd, _, hattrs⟩ := C11.fold_unique _ _ hfold
  -- every live getter is individually accepted
  have hok : ∀ g ∈ C11.liveGetters (AMap.sorted i.services), Ok g.toList ∧ g ∉ reservedGetters := by
    intro g hg
    unfold C11.liveGetters at hg
    obtain ⟨ns, hns, hsome⟩ := List.mem_filterMap.mp hg
    split at hsome
    · cases hsome
    · rename_i hnt
      exact getter_ok ns.2 g hsome (hattrs ns hns (by simpa using hnt))
  have hres : reservedGetters = Generated.rtContainerMethods ++ Generated.tplStructEmbedded := by decide
  -- the names, as character lists, are the four forms
  have hforms : ∀ gs : List String, (names gs).map String.toList = allForms (gs.map String.toList) := by
    intro gs
    rw [hnames]
    have ht : Generated.tplGetterMethods = [("", "", false), ("", "InContext", false), ("Must", "", true), ("Must", "InContext", true)] := by decide
    have hic : "InContext".toList = ic := by rfl
    have hmu : "Must".toList = must := by rfl
    induction gs with
    | nil => simp [allForms]
    | cons g gs ih =>
      simp only [List.flatMap_cons, List.map_append, List.map_cons] at ih ⊢
      rw [ih]
      simp [allForms, ht, form, String.toList_append, hic, hmu]
  set_option maxRecDepth 4000 in
  have htab := reserved_table_closed
  constructor
  · apply nodup_of_map_toList
    rw [hforms]
    apply allForms_nodup
    · exact nodup_map_toList _ hnd
    · intro g hg
      obtain ⟨g0, hg0, rfl⟩ := List.mem_map.mp hg
      exact (hok g0 hg0).1
  · intro x hx hr
    have hx' : x.toList ∈ allForms ((C11.liveGetters (AMap.sorted i.services)).map String.toList) := by
      rw [← hforms]; exact List.mem_map_of_mem hx
    refine allForms_disjoint ((Generated.rtContainerMethods ++ Generated.tplStructEmbedded).map String.toList) _ htab.1
      (stem_of_table _ htab.2) ?_ _ hx' (List.mem_map_of_mem hr)
    intro g hg hgr
    obtain ⟨g0, hg0, rfl⟩ := List.mem_map.mp hg
    obtain ⟨r, hr2, e⟩ := List.mem_map.mp hgr
    rw [String.toList_inj.mp e] at hr2
    exact (hok g0 hg0).2 (by rw [hres]; exact hr2)

end GM.C13
