/-
`%fn(args)%` tokens: what the backtracking matcher extracts from the expression between the delimiters
(`regex.Match(regexSimpleFn, expr)`: groups `fn` and `params`) is what a direct parser reads off:
the longest identifier prefix, an opening parenthesis, everything up to the closing parenthesis that ends the expression.
-/
import GontainerModel.Model.Grammar
import GontainerModel.Lemmas.ReInv
namespace GM.Grammar
open GM GM.Re

/-- direct reading of `Ident(params)` -/
def parseSimpleFn (e : List Char) : Option (List Char × List Char) :=
  let f := e.takeWhile isIdentTail
  match e.dropWhile isIdentTail with
  | '(' :: t =>
    if goToken f && t.getLast? == some ')' && t.dropLast.all (· != '\n') then some (f, t.dropLast) else none
  | _ => none

/-- greedy star over a character class: when the continuation refuses every word that starts with a class character, the
only stop that can succeed is the end of the run -/
theorem bt_star_cls (T : Cls) : ∀ (w : List Char) (F : Nat) (cs : Caps) (k : List Char → Caps → Option Caps),
    w.length < F → (∀ c t cs', T.mem c = true → k (c :: t) cs' = none) →
    bt F (star (cls T)) w cs k = k (w.dropWhile T.mem) cs
  | [], F, cs, k, hF, _ => by
    cases F with
    | zero => simp at hF
    | succ F => simp [bt]
  | c :: w, F, cs, k, hF, hk => by
    cases F with
    | zero => simp at hF
    | succ F =>
      simp only [bt, List.length_cons]
      cases hc : T.mem c with
      | false => simp [List.dropWhile, hc]
      | true =>
        simp only [↓reduceIte, Nat.lt_add_one, List.dropWhile, hc]
        have ih := bt_star_cls T w F cs k (by simp at hF; omega) hk
        rw [ih]
        cases hr : k (w.dropWhile T.mem) cs with
        | some r => rfl
        | none => simp [hk c w cs hc]

/-- greedy star over "any character but newline" in front of a continuation that accepts nothing but a lone `)`: the match
succeeds iff the word ends in `)` and has no newline before it -/
theorem bt_star_any : ∀ (w : List Char) (F : Nat) (cs : Caps) (k : List Char → Caps → Option Caps),
    w.length < F → (∀ w' cs', w' ≠ [')'] → k w' cs' = none) →
    bt F (star anyNotNL) w cs k =
      if w.getLast? = some ')' ∧ w.dropLast.all (· != '\n') = true then k [')'] cs else none
  | [], F, cs, k, hF, hk => by
    cases F with
    | zero => simp at hF
    | succ F => simp [bt, hk [] cs (by simp)]
  | c :: w, F, cs, k, hF, hk => by
    cases F with
    | zero => simp at hF
    | succ F =>
      simp only [bt, List.length_cons, Nat.lt_add_one, ↓reduceIte]
      by_cases hc : c = '\n'
      · subst hc
        simp only [bne_self_eq_false, Bool.false_eq_true, ↓reduceIte]
        rw [hk _ cs (by simp)]
        cases w with
        | nil => simp
        | cons d t => simp [List.dropLast]
      · have hc' : (c != '\n') = true := by simpa using hc
        simp only [hc', ↓reduceIte]
        have ih := bt_star_any w F cs k (by simp at hF; omega) hk
        rw [ih]
        cases w with
        | nil =>
          have h0 : k [] cs = none := hk [] cs (by simp)
          by_cases hp : c = ')'
          · subst hp; simp [h0]
          · simp [hp, h0, hk [c] cs (by simp [hp])]
        | cons d t =>
          have hl : (c :: d :: t).getLast? = (d :: t).getLast? := by simp [List.getLast?_cons_cons]
          have hd : (c :: d :: t).dropLast = c :: (d :: t).dropLast := by simp [List.dropLast]
          rw [hl, hd]
          simp only [List.all_cons, hc', Bool.true_and]
          have hfall : k (c :: d :: t) cs = none := hk (c :: d :: t) cs (by simp)
          by_cases hP : (d :: t).getLast? = some ')' ∧ ((d :: t).dropLast.all fun x => x != '\n') = true
          · simp only [hP, and_self, ↓reduceIte]
            cases hr : k [')'] cs with
            | some r => rfl
            | none => simp [hfall]
          · simp only [hP, ↓reduceIte, hfall]

theorem bt_cat (F : Nat) (r s : Re) (w : List Char) (cs : Caps) (k : List Char → Caps → Option Caps) :
    bt F (cat r s) w cs k = bt F r w cs (fun w' cs' => bt F s w' cs' k) := by
  cases F <;> simp only [bt]

theorem bt_group (F : Nat) (n : String) (r : Re) (w : List Char) (cs : Caps) (k : List Char → Caps → Option Caps) :
    bt F (group n r) w cs k =
      bt F r w cs (fun w' cs' => k w' ((n, w.take (w.length - w'.length)) :: cs'.filter (·.1 != n))) := by
  cases F <;> simp only [bt]

theorem bt_cls_cons (F : Nat) (p : Cls) (c : Char) (w : List Char) (cs : Caps) (k : List Char → Caps → Option Caps) :
    bt F (cls p) (c :: w) cs k = if p.mem c then k w cs else none := by
  cases F <;> simp only [bt]

theorem bt_cls_nil (F : Nat) (p : Cls) (cs : Caps) (k : List Char → Caps → Option Caps) :
    bt F (cls p) [] cs k = none := by
  cases F <;> simp only [bt]

theorem letter_identTail (c : Char) (h : isLetter c = true) : isIdentTail c = true := by
  unfold isLetter isIdentTail Rx.letter Rx.identTail Cls.mem at *
  simp only [List.any_cons, List.any_nil, Bool.or_false, Bool.or_eq_true, Bool.and_eq_true, decide_eq_true_eq] at h ⊢
  omega

theorem paren_not_identTail (c : Char) (h : isIdentTail c = true) : Cls.mem [(40, 40)] c = false := by
  unfold isIdentTail Rx.identTail Cls.mem at *
  simp only [List.any_cons, List.any_nil, Bool.or_false, Bool.or_eq_true, Bool.and_eq_true, decide_eq_true_eq] at h
  simp only [List.any_cons, List.any_nil, Bool.or_false, Bool.and_eq_false_iff, decide_eq_false_iff_not]
  omega

theorem mem40 (c : Char) : Cls.mem [(40, 40)] c = true ↔ c = '(' := by
  constructor
  · intro h
    simp [Cls.mem] at h
    exact char_of_toNat (d := '(') (by have : '('.toNat = 40 := rfl; omega)
  · rintro rfl; rfl

theorem mem41 (c : Char) : Cls.mem [(41, 41)] c = true ↔ c = ')' := by
  constructor
  · intro h
    simp [Cls.mem] at h
    exact char_of_toNat (d := ')') (by have : ')'.toNat = 41 := rfl; omega)
  · rintro rfl; rfl

/-- the rest of the expression after the identifier: `(`, the parameters, `)` and nothing more -/
def restRe : Re := cat (cls [(40, 40)]) (cat (group "params" (star anyNotNL)) (cls [(41, 41)]))

def endK : List Char → Caps → Option Caps := fun w' cs => if w' = [] then some cs else none

/-- what the rest of the expression yields: the parameters, when it is `(` … `)` without a line break in between -/
def restResult (r : List Char) (cs : Caps) : Option Caps :=
  match r with
  | '(' :: t =>
    if t.getLast? = some ')' ∧ (t.dropLast.all fun x => x != '\n') = true then
      some (("params", t.dropLast) :: cs.filter (·.1 != "params")) else none
  | _ => none

theorem all_takeWhile {α : Type} (p : α → Bool) (l : List α) : (l.takeWhile p).all p = true := by
  induction l with
  | nil => rfl
  | cons a t ih => simp only [List.takeWhile]; cases h : p a <;> simp [h, ih]

theorem length_dropWhile_le' {α : Type} (p : α → Bool) (l : List α) : (l.dropWhile p).length ≤ l.length := by
  induction l with
  | nil => simp
  | cons a t ih => simp only [List.dropWhile]; cases h : p a <;> simp <;> omega

theorem bt_rest (F : Nat) (r : List Char) (cs : Caps) (hF : r.length < F) :
    bt F restRe r cs endK = restResult r cs := by
  unfold restResult
  unfold restRe
  rw [bt_cat]
  cases r with
  | nil => rw [bt_cls_nil]
  | cons d t =>
    rw [bt_cls_cons]
    by_cases hd : d = '('
    · subst hd
      have h40 : Cls.mem [(40, 40)] '(' = true := rfl
      simp only [h40, ↓reduceIte]
      rw [bt_cat, bt_group]
      rw [bt_star_any t F cs _ (by simp at hF; omega)]
      · by_cases hP : t.getLast? = some ')' ∧ (t.dropLast.all fun x => x != '\n') = true
        · simp only [hP, and_self, ↓reduceIte]
          rw [bt_cls_cons]
          have h41 : Cls.mem [(41, 41)] ')' = true := rfl
          simp only [h41, ↓reduceIte, endK]
          have ht : t ≠ [] := by intro e; rw [e] at hP; simp at hP
          have : t.take (t.length - 1) = t.dropLast := by rw [List.dropLast_eq_take]
          simp [this]
        · simp only [hP, ↓reduceIte]
      · intro w' cs' hw'
        cases w' with
        | nil => rw [bt_cls_nil]
        | cons x y =>
          rw [bt_cls_cons]
          by_cases hx : Cls.mem [(41, 41)] x = true
          · have := (mem41 x).mp hx
            subst this
            simp only [hx, ↓reduceIte, endK]
            cases y with
            | nil => exact absurd rfl hw'
            | cons z zs => simp
          · simp [hx]
    · have h40 : Cls.mem [(40, 40)] d = false := by
        cases h : Cls.mem [(40, 40)] d
        · rfl
        · exact absurd ((mem40 d).mp h) hd
      simp only [h40, Bool.false_eq_true, ↓reduceIte]
      split
      · rename_i t' heq
        injection heq with h1 _
        exact absurd h1 hd
      · rfl

theorem simpleFn_shape : Rx.simpleFn = cat (group "fn" (cat (cls Rx.letter) (star (cls Rx.identTail)))) restRe := rfl

/-- **what the matcher extracts is what the direct parser reads**: for every expression, `regex.Match(regexSimpleFn, e)`
(leftmost-first backtracking, groups `fn` and `params`) succeeds iff `e` is `Ident(…)` with no line break between the
parentheses, and then `fn` is the identifier and `params` the text between the first `(` and the final `)` -/
theorem captures_simpleFn (e : List Char) :
    captures Rx.simpleFn e = (parseSimpleFn e).map fun fp => [("fn", fp.1), ("params", fp.2)] := by
  unfold captures
  have hnames : (groupNames Rx.simpleFn).eraseDups = ["fn", "params"] := by decide
  rw [hnames, simpleFn_shape, bt_cat, bt_group, bt_cat]
  show (match bt (e.length + 1) (cls Rx.letter) e [] _ with | none => none | some cs => _) = _
  cases e with
  | nil => rw [bt_cls_nil]; simp [parseSimpleFn]
  | cons c w =>
    rw [bt_cls_cons]
    by_cases hl : Rx.letter.mem c = true
    · have hci : isIdentTail c = true := letter_identTail c hl
      simp only [hl, ↓reduceIte]
      rw [bt_star_cls Rx.identTail w ((c :: w).length + 1) _ _ (by simp; omega)]
      · have htw : (c :: w).takeWhile isIdentTail = c :: w.takeWhile isIdentTail := by simp [List.takeWhile, hci]
        have hdw : (c :: w).dropWhile isIdentTail = w.dropWhile isIdentTail := by simp [List.dropWhile, hci]
        have hsplit := List.takeWhile_append_dropWhile (p := isIdentTail) (l := w)
        have htake : (c :: w).take ((c :: w).length - (w.dropWhile isIdentTail).length) = c :: w.takeWhile isIdentTail := by
          have h2 : w.length = (w.takeWhile isIdentTail).length + (w.dropWhile isIdentTail).length := by
            rw [← List.length_append, hsplit]
          have h3 : (c :: w).length - (w.dropWhile isIdentTail).length = (w.takeWhile isIdentTail).length + 1 := by
            simp only [List.length_cons]; omega
          rw [h3]
          have key : ∀ (a b : List Char), a ++ b = w → w.take a.length = a := by
            intro a b h; rw [← h]; simp
          simp [List.take_succ_cons, key _ _ hsplit]
        have hgo : goToken (c :: w.takeWhile isIdentTail) = true := by
          simp only [goToken, Bool.and_eq_true]
          refine ⟨hl, ?_⟩
          exact all_takeWhile isIdentTail w
        have hlenr : (w.dropWhile isIdentTail).length < (c :: w).length + 1 := by
          have := length_dropWhile_le' isIdentTail w
          simp only [List.length_cons]; omega
        show (match bt ((c :: w).length + 1) restRe (w.dropWhile isIdentTail) _ endK with | none => none | some cs => _) = _
        rw [bt_rest _ _ _ hlenr]
        -- the parser on the same split
        have hparse : parseSimpleFn (c :: w) =
            match w.dropWhile isIdentTail with
            | '(' :: t =>
              if (t.getLast? == some ')' && t.dropLast.all (· != '\n')) = true then some (c :: w.takeWhile isIdentTail, t.dropLast) else none
            | _ => none := by
          unfold parseSimpleFn
          simp only [htw, hdw, hgo, Bool.true_and]
        rw [hparse]
        cases hr : w.dropWhile isIdentTail with
        | nil => simp [restResult]
        | cons d t =>
          by_cases hd : d = '('
          · subst hd
            simp only [restResult]
            by_cases hP : t.getLast? = some ')' ∧ (t.dropLast.all fun x => x != '\n') = true
            · have hP' : (t.getLast? == some ')' && t.dropLast.all (· != '\n')) = true := by simp [hP.1, hP.2]
              simp only [hP, and_self, ↓reduceIte, hP']
              simp [List.lookup]
              have hlen : (w.dropWhile Rx.identTail.mem).length = (w.dropWhile isIdentTail).length := rfl
              rw [hlen]
              exact htake
            · have hP' : (t.getLast? == some ')' && t.dropLast.all (· != '\n')) = false := by
                by_cases h1 : t.getLast? = some ')'
                · have h2 : (t.dropLast.all fun x => x != '\n') = false := by
                    cases h : (t.dropLast.all fun x => x != '\n')
                    · rfl
                    · exact absurd ⟨h1, h⟩ hP
                  simp [h1, h2]
                · simp [h1]
              simp only [hP, ↓reduceIte, hP', Bool.false_eq_true]
              rfl
          · have h1 : ∀ cs, restResult (d :: t) cs = none := by
              intro cs
              unfold restResult
              split
              · rename_i t' heq
                injection heq with h1 _
                exact absurd h1 hd
              · rfl
            rw [h1]
            have h2 : (match d :: t with
                | '(' :: t => if (t.getLast? == some ')' && t.dropLast.all fun x => x != '\n') = true then
                    some (c :: List.takeWhile isIdentTail w, t.dropLast) else none
                | _ => (none : Option (List Char × List Char))) = none := by
              split
              · rename_i t' heq
                injection heq with h1 _
                exact absurd h1 hd
              · rfl
            rw [h2]
            rfl
      · intro c' t' cs' hc'
        unfold restRe
        rw [bt_cat, bt_cls_cons, paren_not_identTail c' hc']
        simp
    · have hl' : Rx.letter.mem c = false := by simpa using hl
      simp only [hl', Bool.false_eq_true, ↓reduceIte]
      have hgo : goToken ((c :: w).takeWhile isIdentTail) = false := by
        by_cases hci : isIdentTail c = true
        · simp [List.takeWhile, hci, goToken, isLetter, hl']
        · have : isIdentTail c = false := by simpa using hci
          simp [List.takeWhile, this, goToken]
      have : parseSimpleFn (c :: w) = none := by
        unfold parseSimpleFn
        simp only [hgo, Bool.false_and, Bool.false_eq_true, ↓reduceIte]
        split <;> rfl
      rw [this]
      rfl

end GM.Grammar
