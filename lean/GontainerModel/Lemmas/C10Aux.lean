/- helper lemmas for Props/C10.lean (kept apart so that the property file holds property statements only) -/
import GontainerModel.Model.Runner
import GontainerModel.Generated.Wiring
namespace GM.C10
open GM GM.Runner

theorem codegen_file (w : World) (o : Output.Output) :
    ((codegen w o).2.1 = [] ↔ ∃ t, (codegen w o).2.2 = .wrote w.outPath t) ∧
    ((codegen w o).2.1 ≠ [] → (codegen w o).2.2 = .untouched) ∧
    (∀ t, (codegen w o).2.2 = .wrote w.outPath t → w.build o w.flags.stub = .ok t ∧ w.write w.outPath t = none) := by
  unfold codegen
  cases hb : w.build o w.flags.stub with
  | error es => simp
  | ok text =>
    cases hw : w.write w.outPath text <;> simp [hw]

theorem compile_error_nonempty (v : String) (i : Input.Input) (es : Errs)
    (h : Compile.compile v i = .error es) : es ≠ [] := by
  intro e; subst e
  unfold Compile.compile at h
  simp only at h
  repeat' split at h
  all_goals simp_all

/-- every exit point of the step sequence: errors empty iff the file was written -/
theorem core_file (w : World) (c : Output.Output → Errs) :
    ((core w c).2.1 = [] ↔ ∃ t, (core w c).2.2 = .wrote w.outPath t) ∧
    ((core w c).2.1 ≠ [] → (core w c).2.2 = .untouched) := by
  unfold core
  simp only
  split
  · rename_i h
    have : (verbose "" "Read config" true Input.defaults fun ind => readConfig w ind Input.defaults).errs ≠ [] := by
      intro e; simp [e] at h
    simp [this]
  · cases hcomp : Compile.compile w.version
        (verbose "" "Read config" true Input.defaults fun ind => readConfig w ind Input.defaults).st with
    | error es =>
      have hne := compile_error_nonempty _ _ _ hcomp
      simp [hne]
    | ok r =>
      obtain ⟨o, st⟩ := r
      simp only
      split
      · rename_i h4
        have : (verbose "" "Validate output" true () fun ind => validateOutput w ind o (c o)).errs ≠ [] := by
          intro e; simp [e] at h4
        simp [this]
      · have := codegen_file w o
        rcases hcg : codegen w o with ⟨ls, es, f⟩
        simp only [hcg] at this ⊢
        exact ⟨this.1, this.2.1⟩

end GM.C10
