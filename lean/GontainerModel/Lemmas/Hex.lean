/- `Nat.toDigits 16` is injective and never produces `_` (core lemmas only). -/
namespace GM.Hex

theorem digitChar_inj16 {a b : Nat} (ha : a < 16) (hb : b < 16) (h : a.digitChar = b.digitChar) : a = b := by
  have ha' : a = 0 ∨ a = 1 ∨ a = 2 ∨ a = 3 ∨ a = 4 ∨ a = 5 ∨ a = 6 ∨ a = 7 ∨ a = 8 ∨ a = 9 ∨ a = 10 ∨ a = 11 ∨
      a = 12 ∨ a = 13 ∨ a = 14 ∨ a = 15 := by omega
  rcases ha' with rfl | rfl | rfl | rfl | rfl | rfl | rfl | rfl | rfl | rfl | rfl | rfl | rfl | rfl | rfl | rfl
  · exact (Nat.zero_eq_digitChar.mp h).symm
  · exact (Nat.one_eq_digitChar.mp h).symm
  · exact (Nat.two_eq_digitChar.mp h).symm
  · exact (Nat.three_eq_digitChar.mp h).symm
  · exact (Nat.four_eq_digitChar.mp h).symm
  · exact (Nat.five_eq_digitChar.mp h).symm
  · exact (Nat.six_eq_digitChar.mp h).symm
  · exact (Nat.seven_eq_digitChar.mp h).symm
  · exact (Nat.eight_eq_digitChar.mp h).symm
  · exact (Nat.nine_eq_digitChar.mp h).symm
  · exact (Nat.a_eq_digitChar.mp h).symm
  · exact (Nat.b_eq_digitChar.mp h).symm
  · exact (Nat.c_eq_digitChar.mp h).symm
  · exact (Nat.d_eq_digitChar.mp h).symm
  · exact (Nat.e_eq_digitChar.mp h).symm
  · exact (Nat.f_eq_digitChar.mp h).symm

theorem digitChar_ne_underscore (n : Nat) : n.digitChar ≠ '_' := Nat.digitChar_ne '_' (by decide)

theorem underscore_not_mem (n : Nat) : '_' ∉ Nat.toDigits 16 n := by
  induction n using Nat.strongRecOn with
  | _ n ih =>
    rw [Nat.toDigits_eq_if (by omega)]
    split
    · simp only [List.mem_singleton]
      exact fun h => digitChar_ne_underscore n h.symm
    · rename_i hn
      simp only [List.mem_append, List.mem_singleton, not_or]
      exact ⟨ih (n / 16) (Nat.div_lt_self (by omega) (by omega)), fun h => digitChar_ne_underscore _ h.symm⟩

theorem toDigits16_inj (n m : Nat) (h : Nat.toDigits 16 n = Nat.toDigits 16 m) : n = m := by
  induction n using Nat.strongRecOn generalizing m with
  | _ n ih =>
    rw [Nat.toDigits_eq_if (b := 16) (n := n) (by omega), Nat.toDigits_eq_if (b := 16) (n := m) (by omega)] at h
    by_cases hn : n < 16 <;> by_cases hm : m < 16 <;> simp only [hn, hm, ↓reduceIte] at h
    · simp only [List.cons.injEq, and_true] at h
      exact digitChar_inj16 hn hm h
    · have := congrArg List.length h
      have hp := @Nat.length_toDigits_pos 16 (m / 16)
      simp at this
    · have := congrArg List.length h
      have hp := @Nat.length_toDigits_pos 16 (n / 16)
      simp at this
    · have hl := List.append_inj' h rfl
      have h1 := ih (n / 16) (Nat.div_lt_self (by omega) (by omega)) (m / 16) hl.1
      have h2 : n % 16 = m % 16 := by
        have := hl.2
        simp only [List.cons.injEq, and_true] at this
        exact digitChar_inj16 (Nat.mod_lt _ (by omega)) (Nat.mod_lt _ (by omega)) this
      omega

/-- a separator that occurs in neither prefix splits uniquely -/
theorem split_unique {α : Type} (c : α) (d1 d2 r1 r2 : List α) (h1 : c ∉ d1) (h2 : c ∉ d2)
    (e : d1 ++ c :: r1 = d2 ++ c :: r2) : d1 = d2 ∧ r1 = r2 := by
  induction d1 generalizing d2 with
  | nil =>
    cases d2 with
    | nil => simpa using e
    | cons x xs =>
      simp only [List.nil_append, List.cons_append, List.cons.injEq] at e
      exact absurd (by rw [e.1]; simp) h2
  | cons y ys ih =>
    cases d2 with
    | nil =>
      simp only [List.nil_append, List.cons_append, List.cons.injEq] at e
      exact absurd (by rw [← e.1]; simp) h1
    | cons x xs =>
      simp only [List.cons_append, List.cons.injEq] at e
      have := ih xs (fun h => h1 (by simp [h])) (fun h => h2 (by simp [h])) e.2
      exact ⟨by rw [e.1, this.1], this.2⟩

end GM.Hex
