import GontainerModel.Lemmas.Chunk
import GontainerModel.Model.Token
namespace GM.Escape
open GM GM.Chunk

/-- doubling every `%` -/
def escape (s : List Char) : List Char := s.flatMap fun c => if c = '%' then ['%', '%'] else [c]

/-- what a chunk of an escaped string stands for -/
def unescChunk (c : List Char) : List Char := if c = ['%', '%'] then ['%'] else c
def unesc (cs : List (List Char)) : List Char := cs.flatMap unescChunk

/-- a chunk as produced from an escaped string: `%%` or `%`-free -/
def EscChunk (c : List Char) : Prop := c = ['%', '%'] ∨ '%' ∉ c

theorem unescChunk_free (c : List Char) (h : '%' ∉ c) : unescChunk c = c := by
  unfold unescChunk
  split
  · rename_i e; subst e; simp at h
  · rfl

/-- loop invariant on escaped input: from a closed state we reach a closed state, the finished
chunks stay `%%`/`%`-free, and un-escaping what has been consumed gives back the source -/
theorem fold_escape (s : List Char) (st : St) (hc : st.opened = false) (hb : '%' ∉ st.buff)
    (hr : ∀ c ∈ st.r, EscChunk c ∧ c ≠ []) :
    let st' := (escape s).foldl step st
    st'.opened = false ∧ '%' ∉ st'.buff ∧ (∀ c ∈ st'.r, EscChunk c ∧ c ≠ []) ∧
    unesc st'.r ++ st'.buff = unesc st.r ++ st.buff ++ s := by
  induction s generalizing st with
  | nil => simp only [escape, List.flatMap_nil, List.foldl_nil, List.append_nil]; exact ⟨hc, hb, hr, trivial⟩
  | cons c cs ih =>
    by_cases hp : c = '%'
    · subst hp
      have he : escape ('%' :: cs) = '%' :: '%' :: escape cs := by simp [escape]
      rw [he]
      simp only [List.foldl_cons]
      -- two steps on `%%`
      have h2 : step (step st '%') '%' =
          { r := (if st.buff = [] then st.r else st.r ++ [st.buff]) ++ [['%', '%']], opened := false, buff := [] } := by
        simp [step, hc]
      rw [h2]
      have := ih { r := (if st.buff = [] then st.r else st.r ++ [st.buff]) ++ [['%', '%']], opened := false, buff := [] } rfl (by simp)
        (by
          intro c' hc'
          simp only [List.mem_append, List.mem_singleton] at hc'
          rcases hc' with hc' | hc'
          · split at hc'
            · exact hr c' hc'
            · simp only [List.mem_append, List.mem_singleton] at hc'
              rcases hc' with hc' | hc'
              · exact hr c' hc'
              · subst hc'; exact ⟨Or.inr hb, ‹_›⟩
          · subst hc'; exact ⟨Or.inl rfl, by simp⟩)
      simp only at this
      refine ⟨this.1, this.2.1, this.2.2.1, ?_⟩
      rw [this.2.2.2]
      by_cases hbe : st.buff = []
      · simp [hbe, unesc, unescChunk]
      · simp [hbe, unesc, unescChunk_free _ hb]
        simp [unescChunk]
    · have he : escape (c :: cs) = c :: escape cs := by simp [escape, hp]
      rw [he]
      simp only [List.foldl_cons]
      have h1 : step st c = { st with buff := st.buff ++ [c] } := by simp [step, hp]
      rw [h1]
      have := ih { st with buff := st.buff ++ [c] } hc (by simp [hb]; exact fun e => hp e.symm) hr
      simp only at this
      refine ⟨this.1, this.2.1, this.2.2.1, ?_⟩
      rw [this.2.2.2]
      simp

/-- the chunks of an escaped string: all `%%` or `%`-free, and un-escaping them gives the source -/
theorem chunks_escape (s : List Char) :
    ∃ cs, chunksE (escape s) = .ok cs ∧ (∀ c ∈ cs, EscChunk c) ∧ unesc cs = s ∧ cs ≠ [] := by
  by_cases hs : s = []
  · subst hs
    exact ⟨[[]], by simp [chunksE, escape], by intro c hc; simp at hc; subst hc; exact Or.inr (by simp), by simp [unesc, unescChunk], by simp⟩
  · have hne : escape s ≠ [] := by
      cases s with
      | nil => exact absurd rfl hs
      | cons c cs => by_cases hp : c = '%' <;> simp [escape, hp]
    have := fold_escape s init rfl (by simp [init]) (by simp [init])
    simp only [init, unesc, List.flatMap_nil, List.nil_append] at this
    obtain ⟨ho, hb, hr, hu⟩ := this
    unfold chunksE finishE
    simp only [hne, ↓reduceIte, init, ho, Bool.false_eq_true]
    by_cases hbe : (List.foldl step { r := [], opened := false, buff := [] } (escape s)).buff = []
    · refine ⟨_, by simp [hbe], fun c hc => (hr c hc).1, ?_, ?_⟩
      · simpa [unesc, hbe] using hu
      · intro e
        rw [e, hbe] at hu
        simp at hu
        exact hs hu
    · refine ⟨(List.foldl step { r := [], opened := false, buff := [] } (escape s)).r ++
          [(List.foldl step { r := [], opened := false, buff := [] } (escape s)).buff], by simp [hbe], ?_, ?_, by simp⟩
      · intro c hc
        simp only [List.mem_append, List.mem_singleton] at hc
        rcases hc with hc | hc
        · exact (hr c hc).1
        · subst hc; exact Or.inr hb
      · simp only [unesc, List.flatMap_append, List.flatMap_cons, List.flatMap_nil, List.append_nil]
        rw [unescChunk_free _ hb]
        simpa [unesc] using hu

end GM.Escape
