/- helper lemmas for Props/C16.lean (kept apart so that the property file holds property statements only) -/
import GontainerModel.Model.Runner
import GontainerModel.Generated.Wiring
namespace GM.C16
open GM GM.Runner

theorem verbose_errs {σ : Type} (ind name : String) (active : Bool) (st : σ) (body : String → StepOut σ) :
    (verbose ind name active st body).errs = if active then (body (ind ++ "  ")).errs else [] := by
  unfold verbose
  cases active <;> simp

/-- the amalgamated "Validate output" step collects exactly the diagnostics of the active rules -/
theorem validateOutput_errs (w : World) (ind : String) (o : Output.Output) (ce : Errs) :
    (validateOutput w ind o ce).errs = outputErrs w.flags o ce := by
  unfold validateOutput outputErrs
  simp only [List.foldl_cons, List.foldl_nil, verbose_errs, List.nil_append, Bool.not_eq_eq_eq_not, Bool.not_true]
  cases w.flags.ignoreParams <;> cases w.flags.ignoreServices <;> simp

end GM.C16
