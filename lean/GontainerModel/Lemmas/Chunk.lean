import GontainerModel.Model.Chunk
namespace GM.Chunk

/-- invariant: everything consumed so far is `r.flatten ++ buff` -/
theorem foldl_flatten (s : List Char) (st : St) :
    (s.foldl step st).r.flatten ++ (s.foldl step st).buff = st.r.flatten ++ st.buff ++ s := by
  induction s generalizing st with
  | nil => simp
  | cons c cs ih =>
    simp only [List.foldl_cons]
    rw [ih]
    unfold step
    split
    · split
      · simp_all
      · split <;> simp_all
    · simp

/-- `opened` = parity of the `%` seen -/
theorem foldl_opened (s : List Char) (st : St) :
    (s.foldl step st).opened = (st.opened != (s.count '%' % 2 == 1)) := by
  induction s generalizing st with
  | nil => simp
  | cons c cs ih =>
    simp only [List.foldl_cons]
    rw [ih]
    unfold step
    by_cases hc : c = '%'
    · subst hc
      simp only [↓reduceIte, List.count_cons_self]
      cases st.opened <;> cases h : (List.count '%' cs % 2 == 1) <;> simp_all <;> omega
    · have : (c == '%') = false := by simp [hc]
      simp [hc]

theorem chunks_eq_some_iff (s : List Char) (cs : List (List Char)) :
    chunks s = some cs ↔ chunksE s = .ok cs := by
  unfold chunks
  split <;> simp_all

/-- shape invariant of the loop state: every finished chunk is a literal (non-empty, `%`-free)
or a `%…%` token with a `%`-free inside; the buffer is `%`-free when closed and `%` followed by
`%`-free text when opened. -/
def ChunkOk (c : List Char) : Prop :=
  (c ≠ [] ∧ '%' ∉ c) ∨ (∃ x, c = '%' :: x ++ ['%'] ∧ '%' ∉ x)

def StOk (st : St) : Prop :=
  (∀ c ∈ st.r, ChunkOk c) ∧
  (if st.opened then ∃ x, st.buff = '%' :: x ∧ '%' ∉ x else '%' ∉ st.buff)

theorem step_ok (st : St) (c : Char) (h : StOk st) : StOk (step st c) := by
  obtain ⟨hr, hb⟩ := h
  unfold step
  by_cases hc : c = '%'
  · subst hc
    simp only [↓reduceIte]
    by_cases ho : st.opened = true
    · simp only [ho, ↓reduceIte] at hb ⊢
      obtain ⟨x, hx, hnx⟩ := hb
      refine ⟨?_, by simp⟩
      intro c' hc'
      simp only [List.mem_append, List.mem_singleton] at hc'
      rcases hc' with hc' | hc'
      · exact hr _ hc'
      · subst hc'; exact Or.inr ⟨x, by simp [hx], hnx⟩
    · simp only [ho] at hb ⊢
      simp only [Bool.false_eq_true, ↓reduceIte] at hb ⊢
      refine ⟨?_, ⟨[], rfl, by simp⟩⟩
      intro c' hc'
      split at hc'
      · exact hr _ hc'
      · simp only [List.mem_append, List.mem_singleton] at hc'
        rcases hc' with hc' | hc'
        · exact hr _ hc'
        · subst hc'; exact Or.inl ⟨‹_›, hb⟩
  · simp only [hc, ↓reduceIte]
    refine ⟨hr, ?_⟩
    by_cases ho : st.opened = true
    · simp only [ho, ↓reduceIte] at hb ⊢
      obtain ⟨x, hx, hnx⟩ := hb
      exact ⟨x ++ [c], by simp [hx], by simp [hnx]; exact fun h => hc h.symm⟩
    · simp only [ho] at hb ⊢
      simp only [Bool.false_eq_true, ↓reduceIte] at hb ⊢
      simp [hb]; exact fun h => hc h.symm

theorem foldl_ok (s : List Char) (st : St) (h : StOk st) : StOk (s.foldl step st) := by
  induction s generalizing st with
  | nil => exact h
  | cons c cs ih => exact ih _ (step_ok st c h)

theorem init_ok : StOk init := by
  refine ⟨by simp [init], ?_⟩
  simp [init]

end GM.Chunk
