/-
Run-time side of C04 over the runtime model: `getTaggedBy` is a sequence of `get`s in the documented order, and the
decorator fold applies exactly the decorators of carried tags, in declaration order.
-/
import GontainerModel.Model.Runtime
namespace GM.Runtime
open GM

/-- `get` for each name in turn, threading state and bag; the first error stops -/
def getAll (g : St → Bag → String → St × Bag × Except String RV) : St → Bag → List String → St × Bag × Except String (List RV)
  | st, bag, [] => (st, bag, .ok [])
  | st, bag, n :: rest =>
    match g st bag n with
    | (st', bag', .error e) => (st', bag', .error e)
    | (st', bag', .ok v) =>
      match getAll g st' bag' rest with
      | (st'', bag'', .ok vs) => (st'', bag'', .ok (v :: vs))
      | (st'', bag'', .error e) => (st'', bag'', .error e)

/-- once a carrier failed, the rest of the fold changes nothing -/
theorem taggedFold_err (g : St → Bag → String → St × Bag × Except String RV) (cs : List (String × Int))
    (st : St) (bag : Bag) (vals : List RV) (e : String) :
    cs.foldl (taggedStep g) (st, bag, vals, some e) = (st, bag, vals, some e) := by
  induction cs with
  | nil => rfl
  | cons c t ih => simp only [List.foldl_cons, taggedStep, Option.isSome_some, ↓reduceIte, ih]

theorem taggedFold_result (g : St → Bag → String → St × Bag × Except String RV) (cs : List (String × Int))
    (st : St) (bag : Bag) (vals : List RV) :
    match getAll g st bag (cs.map (·.1)) with
    | (st', bag', .ok vs) => cs.foldl (taggedStep g) (st, bag, vals, none) = (st', bag', vals ++ vs, none)
    | (st', bag', .error e) =>
      (cs.foldl (taggedStep g) (st, bag, vals, none)).1 = st' ∧ (cs.foldl (taggedStep g) (st, bag, vals, none)).2.1 = bag' ∧
      (cs.foldl (taggedStep g) (st, bag, vals, none)).2.2.2 = some e := by
  induction cs generalizing st bag vals with
  | nil => simp [getAll]
  | cons c t ih =>
    simp only [List.map_cons, getAll, List.foldl_cons]
    rcases hg : g st bag c.1 with ⟨s1, b1, r⟩
    cases r with
    | error e =>
      have hstep : taggedStep g (st, bag, vals, none) c = (s1, b1, vals, some e) := by simp [taggedStep, hg]
      rw [hstep, taggedFold_err]
      exact ⟨rfl, rfl, rfl⟩
    | ok v =>
      have hstep : taggedStep g (st, bag, vals, none) c = (s1, b1, vals ++ [v], none) := by simp [taggedStep, hg]
      rw [hstep]
      have := ih s1 b1 (vals ++ [v])
      rcases hall : getAll g s1 b1 (t.map (·.1)) with ⟨s2, b2, r2⟩
      rw [hall] at this
      simp only [hg, hall]
      cases r2 with
      | ok vs => simp only at this ⊢; rw [this]; simp
      | error e => simpa using this

/-- **`GetTaggedBy` is a sequence of `Get`s in the documented order** (no service overridden): the carriers of the tag, by
priority descending then name ascending, each obtained with `get`, state and context bag threaded from one to the next; the
first failure is the failure of the whole call -/
theorem getTagged_is_sequence (f : Nat) (p : Prog) (st : St) (bag : Bag) (tag : String) (hov : st.ovServices = []) :
    getTagged (f + 1) p st bag tag =
      match getAll (fun st bag n => get f p st bag n) st bag (taggedOrder p.out tag) with
      | (st', bag', .ok vs) => (st', bag', .ok (.slice vs))
      | (st', bag', .error e) => (st', bag', .error ("getTaggedBy(" ++ Val.quoteStr tag ++ "): " ++ e)) := by
  unfold getTagged taggedOrder
  simp only [hov, List.lookup, Option.isSome_none, Bool.false_eq_true, ↓reduceIte]
  have h := taggedFold_result (fun st bag n => get f p st bag n)
    ((List.filterMap (fun s : Output.Service => Option.map (fun t : Output.Tag => (s.name, t.priority)) (List.find? (fun x => x.name == tag) s.tags)) p.out.services).mergeSort
      (fun a b => if a.2 = b.2 then AMap.strLe a.1 b.1 else decide (a.2 > b.2))) st bag []
  rcases hall : getAll (fun st bag n => get f p st bag n) st bag _ with ⟨s2, b2, r2⟩
  rw [hall] at h
  cases r2 with
  | ok vs =>
    simp only at h ⊢
    rw [h]
    simp
  | error e =>
    simp only at h ⊢
    obtain ⟨h1, h2, h3⟩ := h
    rcases hf : List.foldl (taggedStep fun st bag n => get f p st bag n) (st, bag, [], none) _ with ⟨s3, b3, vals3, err3⟩
    rw [hf] at h1 h2 h3
    simp only at h1 h2 h3
    subst h1; subst h2; subst h3
    rfl

/-! ### decorators -/

/-- a decorator whose tag the service does not carry is skipped -/
theorem decoFold_filter (ras : St → Bag → List Output.Arg → St × Bag × Except String (List RV)) (p : Prog) (s : Output.Service)
    (id : String) (ds : List Output.Decorator) (st : St) (bag : Bag) (cur : RV) (err : Option String) (i : Nat) :
    let r := ds.foldl (decoStep ras p s id) (st, bag, cur, err, i)
    let r' := (ds.filter fun d => s.tags.any (·.name == d.tag)).foldl (decoStep ras p s id) (st, bag, cur, err, i)
    (r.1, r.2.1, r.2.2.1, r.2.2.2.1) = (r'.1, r'.2.1, r'.2.2.1, r'.2.2.2.1) := by
  induction ds generalizing st bag cur err i with
  | nil => rfl
  | cons d t ih =>
    simp only [List.foldl_cons, List.filter_cons]
    cases hcar : s.tags.any (·.name == d.tag) with
    | false =>
      -- skipped: only the position counter moves, which nothing reads
      have hskip : decoStep ras p s id (st, bag, cur, err, i) d = (st, bag, cur, err, i + 1) := by
        unfold decoStep
        simp only [hcar]
        cases err <;> simp
      simp only [hskip, Bool.false_eq_true, ↓reduceIte]
      have h1 := ih st bag cur err (i + 1)
      have h2 := ih st bag cur err i
      -- the counter does not influence the other components
      have hc : ∀ (l : List Output.Decorator) (st : St) (bag : Bag) (cur : RV) (err : Option String) (i j : Nat),
          let a := l.foldl (decoStep ras p s id) (st, bag, cur, err, i)
          let b := l.foldl (decoStep ras p s id) (st, bag, cur, err, j)
          (a.1, a.2.1, a.2.2.1, a.2.2.2.1) = (b.1, b.2.1, b.2.2.1, b.2.2.2.1) := by
        intro l
        induction l with
        | nil => intro st bag cur err i j; rfl
        | cons d' t' ih' =>
          intro st bag cur err i j
          simp only [List.foldl_cons]
          have hs : ∀ k, decoStep ras p s id (st, bag, cur, err, k) d' =
              ((decoStep ras p s id (st, bag, cur, err, 0) d').1, (decoStep ras p s id (st, bag, cur, err, 0) d').2.1,
               (decoStep ras p s id (st, bag, cur, err, 0) d').2.2.1, (decoStep ras p s id (st, bag, cur, err, 0) d').2.2.2.1, k + 1) := by
            intro k
            unfold decoStep
            simp only
            split
            · rfl
            · split
              · rfl
              · rcases ras st bag d'.args with ⟨s2, b2, r⟩
                cases r <;> rfl
          rw [hs i, hs j]
          exact ih' _ _ _ _ _ _
      simp only at h1 h2 ⊢
      rw [h1]
      exact hc _ st bag cur err (i + 1) i
    | true =>
      simp only [↓reduceIte, List.foldl_cons]
      rcases decoStep ras p s id (st, bag, cur, err, i) d with ⟨s2, b2, c2, e2, i2⟩
      exact ih s2 b2 c2 e2 i2

end GM.Runtime
