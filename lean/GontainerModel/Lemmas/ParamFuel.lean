/-
Parameter evaluation needs only bounded recursion: under a rank function that decreases along
`%ref%` edges between declared parameters, `getParam` returns the same result (and state) for every
fuel from `2 * rank + 2` on — the fuel bound of the model is never what decides the answer.
-/
import GontainerModel.Model.Runtime
namespace GM.Runtime
open GM

/-- the parameters a pattern refers to -/
def refsOf (p : Prog) (v : Val) : List String :=
  match v with
  | .str s =>
    match (Token.tokenize p.fns {} s).2 with
    | .ok ts => ts.filterMap fun t => match t.sem with | .ref n => some n | _ => none
    | .error _ => []
  | _ => []

/-- `rk` decreases along every reference from a declared parameter to a declared parameter -/
def Ranked (p : Prog) (rk : String → Nat) : Prop :=
  ∀ prm ∈ p.out.params, ∀ n ∈ refsOf p prm.raw, (∃ q ∈ p.out.params, q.name = n) → rk n < rk prm.name

theorem foldl_congr_mem {α β : Type} (l : List α) (f g : β → α → β) (b : β)
    (h : ∀ acc, ∀ a ∈ l, f acc a = g acc a) : l.foldl f b = l.foldl g b := by
  induction l generalizing b with
  | nil => rfl
  | cons a t ih =>
    simp only [List.foldl_cons]
    rw [h b a (List.mem_cons_self ..)]
    exact ih _ (fun acc x hx => h acc x (List.mem_cons_of_mem _ hx))

theorem find_name {p : Prog} {id : String} {prm : Output.Param}
    (h : p.out.params.find? (·.name == id) = some prm) : prm ∈ p.out.params ∧ prm.name = id := by
  refine ⟨List.mem_of_find?_eq_some h, ?_⟩
  have := List.find?_some h
  simpa using this

/-- an undeclared parameter answers the same for every positive fuel -/
theorem getParam_undeclared (p : Prog) (st : St) (id : String) (f g : Nat)
    (h : p.out.params.find? (·.name == id) = none) : getParam (f + 1) p st id = getParam (g + 1) p st id := by
  unfold getParam
  simp [h]

/-- the step of the token fold only looks parameters up that the pattern refers to -/
theorem evalTokStep_congr (p : Prog) (gp gq : St → String → St × Except String RV) (ts : List Token.Token)
    (h : ∀ t ∈ ts, ∀ n, t.sem = .ref n → ∀ st, gp st n = gq st n) (b : St × List Val × Option String) :
    ts.foldl (evalTokStep gp p) b = ts.foldl (evalTokStep gq p) b := by
  apply foldl_congr_mem
  intro acc t ht
  obtain ⟨s1, vals, err⟩ := acc
  unfold evalTokStep
  cases err with
  | some e => rfl
  | none =>
    simp only [Option.isSome_none, Bool.false_eq_true, ↓reduceIte]
    cases hsem : t.sem with
    | lit x => rfl
    | call a b c => rfl
    | ref n => simp only [h t ht n hsem s1]

/-- evaluation of a value with fuel `f+1` resp. `g+1` agrees when the parameter lookups with `f` resp. `g` agree on
everything the value refers to -/
theorem evalRaw_congr (p : Prog) (v : Val) (f g : Nat)
    (h : ∀ n ∈ refsOf p v, ∀ st, getParam f p st n = getParam g p st n) (st : St) :
    evalRaw (f + 1) p st v = evalRaw (g + 1) p st v := by
  unfold evalRaw
  cases v with
  | str s =>
    simp only
    cases htok : (Token.tokenize p.fns {} s).2 with
    | error es => rfl
    | ok ts =>
      simp only
      rw [evalTokStep_congr p _ _ ts]
      intro t ht n hsem st'
      apply h
      unfold refsOf
      simp only [htok]
      exact List.mem_filterMap.mpr ⟨t, ht, by simp [hsem]⟩
  | _ => rfl

/-- one level of `getParam` -/
theorem getParam_congr (p : Prog) (id : String) (f g : Nat)
    (h : ∀ prm ∈ p.out.params, prm.name = id → ∀ st, evalRaw f p st prm.raw = evalRaw g p st prm.raw) (st : St) :
    getParam (f + 1) p st id = getParam (g + 1) p st id := by
  unfold getParam
  cases st.ovParams.lookup id with
  | some v => rfl
  | none =>
    cases hfind : p.out.params.find? (·.name == id) with
    | none => rfl
    | some prm =>
      cases st.pcache.lookup id with
      | some v => rfl
      | none =>
        obtain ⟨hmem, hname⟩ := find_name hfind
        simp only [h prm hmem hname]

/-- enough fuel for parameter `id` -/
def bound (rk : String → Nat) (id : String) : Nat := 2 * rk id + 3

theorem stable_step (p : Prog) (rk : String → Nat) (hr : Ranked p rk) (id : String)
    (ih : ∀ n, (∃ q ∈ p.out.params, q.name = n) → rk n < rk id →
      ∀ (st : St) (f g : Nat), bound rk n ≤ f → bound rk n ≤ g → getParam f p st n = getParam g p st n)
    (st : St) (f g : Nat) (hf : bound rk id ≤ f) (hg : bound rk id ≤ g) :
    getParam f p st id = getParam g p st id := by
  unfold bound at hf hg
  obtain ⟨f1, rfl⟩ : ∃ f1, f = f1 + 2 := ⟨f - 2, by omega⟩
  obtain ⟨g1, rfl⟩ : ∃ g1, g = g1 + 2 := ⟨g - 2, by omega⟩
  apply getParam_congr
  intro prm hmem hname st1
  apply evalRaw_congr
  intro n hn st2
  cases hq : p.out.params.find? (·.name == n) with
  | none =>
    obtain ⟨f2, rfl⟩ : ∃ f2, f1 = f2 + 1 := ⟨f1 - 1, by omega⟩
    obtain ⟨g2, rfl⟩ : ∃ g2, g1 = g2 + 1 := ⟨g1 - 1, by omega⟩
    exact getParam_undeclared p st2 n f2 g2 hq
  | some q =>
    obtain ⟨hqm, hqn⟩ := find_name hq
    have hlt := hr prm hmem n hn ⟨q, hqm, hqn⟩
    rw [hname] at hlt
    exact ih n ⟨q, hqm, hqn⟩ hlt st2 f1 g1 (by unfold bound; omega) (by unfold bound; omega)

/-- **parameter evaluation terminates**: when references between declared parameters decrease a rank (the dependency
relation of the parameters is acyclic), the result of `getParam` — value or error, and the state it leaves — is the
same for every fuel from `2·rank + 3` on -/
theorem getParam_stable (p : Prog) (rk : String → Nat) (hr : Ranked p rk) (id : String)
    (st : St) (f g : Nat) (hf : bound rk id ≤ f) (hg : bound rk id ≤ g) :
    getParam f p st id = getParam g p st id := by
  have main : ∀ (k : Nat) (id : String), rk id < k →
      ∀ (st : St) (f g : Nat), bound rk id ≤ f → bound rk id ≤ g → getParam f p st id = getParam g p st id := by
    intro k
    induction k with
    | zero => intro id h; omega
    | succ k ih =>
      intro id hk st f g hf hg
      exact stable_step p rk hr id (fun n _ hlt => ih n (by omega)) st f g hf hg
  exact main (rk id + 1) id (by omega) st f g hf hg

end GM.Runtime
