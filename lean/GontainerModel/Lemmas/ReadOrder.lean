/-
The input a run compiles is the left fold of `merge` over the documents in DOCUMENTED read order: the patterns in the order
of the -i options, and within one pattern the cleaned paths in byte-wise ascending order; a file that cannot be read adds
nothing. (Model of `StepReadConfig.Run`; glob, clean and read are parameters of the runner model.)
-/
import GontainerModel.Model.Runner
import GontainerModel.Lemmas.SortedMap
namespace GM.Runner
open GM

/-- what reading one file adds to the input -/
def mergeFile (w : World) (acc : Input.Input) (f : String) : Input.Input :=
  match w.read f with
  | .ok doc => Input.merge acc doc
  | .error _ => acc

/-- the files of a run in read order -/
def filesInOrder (w : World) : List String := w.patterns.flatMap fun p => (patternFiles w p).1

theorem readFile_fold_input (w : World) (ind p : String) (fs : List String) (acc : List String × Errs × ReadSt) :
    (fs.foldl (readFileStep w ind p) acc).2.2.input = fs.foldl (mergeFile w) acc.2.2.input := by
  induction fs generalizing acc with
  | nil => rfl
  | cons f t ih =>
    simp only [List.foldl_cons]
    rw [ih]
    congr 1
    unfold readFileStep mergeFile
    cases w.read f <;> rfl

theorem readPattern_fold_input (w : World) (ind : String) (ps : List String) (acc : List String × Errs × ReadSt × Nat) :
    (ps.foldl (readPatternStep w ind) acc).2.2.1.input =
      (ps.flatMap fun p => (patternFiles w p).1).foldl (mergeFile w) acc.2.2.1.input := by
  induction ps generalizing acc with
  | nil => rfl
  | cons p t ih =>
    simp only [List.foldl_cons, List.flatMap_cons, List.foldl_append]
    rw [ih]
    congr 1
    unfold readPatternStep
    simp only
    exact readFile_fold_input w ind p _ _

/-- **the merged input is the fold of `merge` over the files in documented order** -/
theorem readConfig_input (w : World) (ind : String) (i0 : Input.Input) :
    (readConfig w ind i0).st = (filesInOrder w).foldl (mergeFile w) i0 := by
  unfold readConfig filesInOrder
  split
  · rename_i h
    have : w.patterns = [] := by simpa using h
    simp [this]
  · simp only
    exact readPattern_fold_input w ind w.patterns _

/-- within one pattern: the cleaned matches, each exactly as often as it was matched, in byte-wise ascending order -/
theorem patternFiles_sorted (w : World) (p : String) (ms : List String) (h : w.glob p = .ok ms) :
    (patternFiles w p).1.Perm (ms.map w.clean) ∧ (patternFiles w p).1.Pairwise (fun a b => AMap.strLe a b = true) := by
  unfold patternFiles
  rw [h]
  simp only
  refine ⟨List.mergeSort_perm _ _, ?_⟩
  exact List.pairwise_mergeSort (le := AMap.strLe) (fun a b c hab hbc => AMap.strLe_trans a b c hab hbc)
    (fun a b => AMap.strLe_total a b) _

end GM.Runner
