/-
Invariants of whole histories of container calls.
-/
import GontainerModel.Model.History
import GontainerModel.Lemmas.ServiceOnce
namespace GM.Runtime
open GM

/-- what any history of calls guarantees about the state it ends in, relative to the state it started from -/
structure HInv (p : Prog) (st st' : St) : Prop where
  ovP : st'.ovParams = st.ovParams
  ovS : st'.ovServices = st.ovServices
  sh : ∀ n, st'.shared.lookup n = st.shared.lookup n ∨ st.shared.lookup n = none
  pc : ∀ n, st'.pcache.lookup n = st.pcache.lookup n ∨ st.pcache.lookup n = none
  lg : ∃ suf, st'.evalLog = st.evalLog ++ suf ∧ ∀ e ∈ suf,
        (∃ n, e = "param:" ++ n ∧ st.pcache.lookup n = none) ∨
        (∃ n, e = "ctor:" ++ n ∧ (effScope p st n = .shared → st.shared.lookup n = none))

theorem HInv.refl (p : Prog) (st : St) : HInv p st st :=
  ⟨rfl, rfl, fun _ => Or.inl rfl, fun _ => Or.inl rfl, [], by simp, by simp⟩

theorem HInv.trans {p : Prog} {a b c : St} (h1 : HInv p a b) (h2 : HInv p b c) : HInv p a c := by
  obtain ⟨suf1, l1, m1⟩ := h1.lg
  obtain ⟨suf2, l2, m2⟩ := h2.lg
  refine ⟨h2.ovP.trans h1.ovP, h2.ovS.trans h1.ovS, fun n => ?_, fun n => ?_, suf1 ++ suf2, by rw [l2, l1, List.append_assoc], ?_⟩
  · rcases h2.sh n with hb | hb
    · rcases h1.sh n with ha | ha
      · exact Or.inl (hb.trans ha)
      · exact Or.inr ha
    · rcases h1.sh n with ha | ha
      · exact Or.inr (by rw [← ha]; exact hb)
      · exact Or.inr ha
  · rcases h2.pc n with hb | hb
    · rcases h1.pc n with ha | ha
      · exact Or.inl (hb.trans ha)
      · exact Or.inr ha
    · rcases h1.pc n with ha | ha
      · exact Or.inr (by rw [← ha]; exact hb)
      · exact Or.inr ha
  · intro e he
    rcases List.mem_append.mp he with he | he
    · exact m1 e he
    · rcases m2 e he with ⟨n, rfl, hn⟩ | ⟨n, rfl, hs⟩
      · left
        refine ⟨n, rfl, ?_⟩
        rcases h1.pc n with ha | ha
        · rw [← ha]; exact hn
        · exact ha
      · right
        refine ⟨n, rfl, fun hsc => ?_⟩
        have := hs (by rw [effScope_congr p a b h1.ovS]; exact hsc)
        rcases h1.sh n with ha | ha
        · rw [← ha]; exact this
        · exact ha

theorem HInv.ofSInv {p : Prog} {rk : String → Nat} {R : Nat} {st : St} {bag : Bag} {st' : St} {bag' : Bag}
    (h : SInv p rk R st bag st' bag') : HInv p st st' := by
  obtain ⟨suf, l, m⟩ := h.lg
  refine ⟨h.ovP, h.ovS, fun n => ?_, h.pc, suf, l, fun e he => ?_⟩
  · rcases h.sh n with x | ⟨x, _⟩
    · exact Or.inl x
    · exact Or.inr x
  · rcases m e he with x | ⟨n, hn, hs, _⟩
    · exact Or.inl x
    · exact Or.inr ⟨n, hn, hs⟩

theorem HInv.ofPInv {p : Prog} {rk : String → Nat} {R : Nat} {st st' : St} (h : PInv rk R st st') : HInv p st st' :=
  HInv.ofSInv (SInv.ofPInv (p := p) (rk := rk) (R := R) [] h)

/-- re-attaching a bag changes nothing the history invariant speaks about -/
theorem HInv.setBag (p : Prog) (st : St) (ctx : String) (bag : Bag) : HInv p st (setBag st ctx bag) :=
  ⟨rfl, rfl, fun _ => Or.inl rfl, fun _ => Or.inl rfl, [], by simp [Runtime.setBag], by simp⟩

theorem stepOp_inv (p : Prog) (rk rkP : String → Nat) (hsr : SRanked p rk) (hpr : Ranked p rkP) (F : Nat) (st : St) (o : Op) :
    HInv p st (stepOp F p st o).1 := by
  obtain ⟨hG, _, _, hT⟩ := sinv_main p rk rkP hsr hpr F
  cases o with
  | get id =>
    have := hG st [] id
    simp only [stepOp]
    rcases h : get F p st [] id with ⟨s1, b1, r⟩
    rw [h] at this
    exact HInv.ofSInv (show SInv p rk _ st [] s1 b1 from this)
  | getCtx ctx id =>
    have := hG st (bagOf st ctx) id
    simp only [stepOp]
    rcases h : get F p st (bagOf st ctx) id with ⟨s1, b1, r⟩
    rw [h] at this
    exact HInv.trans (HInv.ofSInv (show SInv p rk _ st _ s1 b1 from this)) (HInv.setBag p s1 ctx b1)
  | tagged tag =>
    have := hT st [] tag (refBound rk (p.out.services.map (·.name)))
      (fun d ⟨s, hs, hn, _⟩ => lt_refBound rk _ d (hn ▸ List.mem_map_of_mem hs))
    simp only [stepOp]
    rcases h : getTagged F p st [] tag with ⟨s1, b1, r⟩
    rw [h] at this
    exact HInv.ofSInv (show SInv p rk _ st [] s1 b1 from this)
  | taggedCtx ctx tag =>
    have := hT st (bagOf st ctx) tag (refBound rk (p.out.services.map (·.name)))
      (fun d ⟨s, hs, hn, _⟩ => lt_refBound rk _ d (hn ▸ List.mem_map_of_mem hs))
    simp only [stepOp]
    rcases h : getTagged F p st (bagOf st ctx) tag with ⟨s1, b1, r⟩
    rw [h] at this
    exact HInv.trans (HInv.ofSInv (show SInv p rk _ st _ s1 b1 from this)) (HInv.setBag p s1 ctx b1)
  | param id =>
    simp only [stepOp]
    exact HInv.ofPInv ((pinv_main p rkP hpr F).1 st id)
  | newCtx ctx =>
    exact ⟨rfl, rfl, fun _ => Or.inl rfl, fun _ => Or.inl rfl, [], by simp [stepOp], by simp⟩

theorem runOps_inv (p : Prog) (rk rkP : String → Nat) (hsr : SRanked p rk) (hpr : Ranked p rkP) (F : Nat)
    (ops : List Op) (st : St) : HInv p st (runOps F p st ops) := by
  induction ops generalizing st with
  | nil => exact HInv.refl p st
  | cons o rest ih => exact HInv.trans (stepOp_inv p rk rkP hsr hpr F st o) (ih _)

/-- a construction that succeeds ends in the bookkeeping step -/
theorem getBody_ok (ra : RA) (ras : RAS) (p : Prog) (s : Output.Service) (sc : Output.Scope) (id : String) (st : St) (bag : Bag)
    (st' : St) (bag' : Bag) (v : RV) (h : getBody ra ras p s sc id st bag = (st', bag', .ok v)) :
    ∃ s4 b4, finishGet sc id v s4 b4 = (st', bag', .ok v) := by
  unfold getBody at h
  split at h
  · simp at h
  · rcases hcr : createObj ras p s st bag with ⟨s1, b1, created⟩
    rw [hcr] at h
    cases created with
    | error e => simp at h
    | ok obj =>
      simp only at h
      rcases hfl : List.foldl (fieldStep ra obj) (s1, b1, []) s.fields with ⟨s2, b2, ferrs⟩
      rw [hfl] at h
      simp only at h
      split at h
      · simp at h
      · rcases hcl : List.foldl (callStep ras) (s2, b2, obj, []) s.calls with ⟨s3, b3, obj3, cerrs⟩
        rw [hcl] at h
        simp only at h
        split at h
        · simp at h
        · rcases hdl : List.foldl (decoStep ras p s id) (s3, b3, obj3, none, 0) p.out.decorators with ⟨s4, b4, obj4, derr, i4⟩
          rw [hdl] at h
          simp only at h
          cases derr with
          | some e => simp at h
          | none =>
            simp only at h
            have hv : obj4 = v := by
              unfold finishGet at h
              cases sc <;> simp at h <;> exact h.2.2
            subst hv
            exact ⟨s4, b4, h⟩

/-- a successful `get` of a service whose scope is shared leaves it in the shared cache -/
theorem get_shared_caches (p : Prog) (f : Nat) (st : St) (bag : Bag) (id : String) (s : Output.Service) (v : RV)
    (st' : St) (bag' : Bag)
    (hov : st.ovServices.lookup id = none) (hs : svcByName p id = some s) (hsc : effScope p st id = .shared)
    (hok : get f p st bag id = (st', bag', .ok v)) : st'.shared.lookup id = some v := by
  cases f with
  | zero => simp [get] at hok
  | succ f =>
    unfold get at hok
    simp only [hov, hs, hsc] at hok
    cases hl : st.shared.lookup id with
    | some w =>
      simp only [hl] at hok
      simp at hok
      obtain ⟨rfl, _, rfl⟩ := hok
      exact hl
    | none =>
      simp only [hl] at hok
      obtain ⟨s4, b4, hfin⟩ := getBody_ok _ _ p s .shared id st bag st' bag' v hok
      unfold finishGet at hfin
      simp at hfin
      obtain ⟨rfl, _⟩ := hfin
      simp [List.lookup]

/-! ### context bags -/

theorem lookup_filter_ne {α : Type} (c c' : String) (l : List (String × α)) (h : c' ≠ c) :
    List.lookup c' (l.filter (·.1 != c)) = List.lookup c' l := by
  induction l with
  | nil => rfl
  | cons x t ih =>
    obtain ⟨k, v⟩ := x
    by_cases hk : k = c
    · subst hk
      have : ((k, v).1 != k) = false := by simp
      simp only [List.filter_cons, this, Bool.false_eq_true, ↓reduceIte, ih]
      simp [List.lookup, beq_eq_false_iff_ne.mpr h]
    · have : ((k, v).1 != c) = true := by simpa using hk
      simp only [List.filter_cons, this, ↓reduceIte, List.lookup, ih]

theorem bagOf_setBag_same (st : St) (c : String) (b : Bag) : bagOf (setBag st c b) c = b := by
  simp [bagOf, setBag, List.lookup]

theorem bagOf_setBag_ne (st : St) (c c' : String) (b : Bag) (h : c' ≠ c) : bagOf (setBag st c b) c' = bagOf st c' := by
  unfold bagOf setBag
  simp only [List.lookup, beq_eq_false_iff_ne.mpr h]
  rw [lookup_filter_ne c c' _ h]

theorem bagOf_congr (st st' : St) (h : st'.ctxBags = st.ctxBags) (c : String) : bagOf st' c = bagOf st c := by
  unfold bagOf; rw [h]

/-- one call keeps what a context's bag holds (unless the call attaches that very context anew) and never touches the
bag of another context -/
theorem stepOp_bags (p : Prog) (rk rkP : String → Nat) (hsr : SRanked p rk) (hpr : Ranked p rkP) (F : Nat) (st : St) (o : Op)
    (c : String) (hnew : o ≠ .newCtx c) :
    (∀ n v, (bagOf st c).lookup n = some v → (bagOf (stepOp F p st o).1 c).lookup n = some v) ∧
    ((∀ id, o ≠ .getCtx c id) → (∀ tag, o ≠ .taggedCtx c tag) → bagOf (stepOp F p st o).1 c = bagOf st c) := by
  obtain ⟨hG, _, _, hT⟩ := sinv_main p rk rkP hsr hpr F
  have keep : ∀ (bag b1 : Bag), (∀ n, b1.lookup n = bag.lookup n ∨ (bag.lookup n = none ∧ True)) →
      ∀ n v, bag.lookup n = some v → b1.lookup n = some v := by
    intro bag b1 h n v hv
    rcases h n with x | ⟨x, _⟩
    · rw [x]; exact hv
    · rw [hv] at x; cases x
  cases o with
  | get id =>
    have := hG st [] id
    simp only [stepOp]
    rcases h : get F p st [] id with ⟨s1, b1, r⟩
    rw [h] at this
    have hctx := bagOf_congr st s1 (show SInv p rk _ st [] s1 b1 from this).ctx c
    exact ⟨fun n v hv => by simp only [hctx]; exact hv, fun _ _ => hctx⟩
  | tagged tag =>
    have := hT st [] tag (refBound rk (p.out.services.map (·.name)))
      (fun d ⟨s, hs, hn, _⟩ => lt_refBound rk _ d (hn ▸ List.mem_map_of_mem hs))
    simp only [stepOp]
    rcases h : getTagged F p st [] tag with ⟨s1, b1, r⟩
    rw [h] at this
    have hctx := bagOf_congr st s1 (show SInv p rk _ st [] s1 b1 from this).ctx c
    exact ⟨fun n v hv => by simp only [hctx]; exact hv, fun _ _ => hctx⟩
  | param id =>
    simp only [stepOp]
    have := (pinv_main p rkP hpr F).1 st id
    have hctx := bagOf_congr st (getParam F p st id).1 this.2.2.2.1 c
    exact ⟨fun n v hv => by rw [hctx]; exact hv, fun _ _ => hctx⟩
  | newCtx c' =>
    have hne : c ≠ c' := fun e => hnew (e ▸ rfl)
    have : bagOf (stepOp F p st (.newCtx c')).1 c = bagOf st c := by
      simp [stepOp, bagOf, List.lookup, beq_eq_false_iff_ne.mpr hne]
    exact ⟨fun n v hv => by rw [this]; exact hv, fun _ _ => this⟩
  | getCtx c' id =>
    have := hG st (bagOf st c') id
    simp only [stepOp]
    rcases h : get F p st (bagOf st c') id with ⟨s1, b1, r⟩
    rw [h] at this
    have hS : SInv p rk _ st (bagOf st c') s1 b1 := this
    by_cases hc : c = c'
    · subst hc
      refine ⟨fun n v hv => ?_, fun h1 _ => absurd rfl (h1 id)⟩
      rw [bagOf_setBag_same]
      exact keep _ _ (fun n => (hS.bg n).imp (fun x => x) (fun x => ⟨x.1, trivial⟩)) n v hv
    · have e : bagOf (setBag s1 c' b1) c = bagOf st c := by
        rw [bagOf_setBag_ne s1 c' c b1 hc, bagOf_congr st s1 hS.ctx]
      exact ⟨fun n v hv => by rw [e]; exact hv, fun _ _ => e⟩
  | taggedCtx c' tag =>
    have := hT st (bagOf st c') tag (refBound rk (p.out.services.map (·.name)))
      (fun d ⟨s, hs, hn, _⟩ => lt_refBound rk _ d (hn ▸ List.mem_map_of_mem hs))
    simp only [stepOp]
    rcases h : getTagged F p st (bagOf st c') tag with ⟨s1, b1, r⟩
    rw [h] at this
    have hS : SInv p rk _ st (bagOf st c') s1 b1 := this
    by_cases hc : c = c'
    · subst hc
      refine ⟨fun n v hv => ?_, fun _ h2 => absurd rfl (h2 tag)⟩
      rw [bagOf_setBag_same]
      exact keep _ _ (fun n => (hS.bg n).imp (fun x => x) (fun x => ⟨x.1, trivial⟩)) n v hv
    · have e : bagOf (setBag s1 c' b1) c = bagOf st c := by
        rw [bagOf_setBag_ne s1 c' c b1 hc, bagOf_congr st s1 hS.ctx]
      exact ⟨fun n v hv => by rw [e]; exact hv, fun _ _ => e⟩

theorem runOps_bags (p : Prog) (rk rkP : String → Nat) (hsr : SRanked p rk) (hpr : Ranked p rkP) (F : Nat)
    (ops : List Op) (st : St) (c : String) (hnew : Op.newCtx c ∉ ops) :
    ∀ n v, (bagOf st c).lookup n = some v → (bagOf (runOps F p st ops) c).lookup n = some v := by
  induction ops generalizing st with
  | nil => intro n v h; exact h
  | cons o rest ih =>
    intro n v h
    have ho : o ≠ .newCtx c := fun e => hnew (e ▸ List.mem_cons_self ..)
    have h1 := (stepOp_bags p rk rkP hsr hpr F st o c ho).1 n v h
    exact ih (stepOp F p st o).1 (fun hm => hnew (List.mem_cons_of_mem _ hm)) n v h1

end GM.Runtime
