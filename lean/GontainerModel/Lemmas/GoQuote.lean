import GontainerModel.Model.GoQuote
/-
`unquote ∘ quote = id`: the Go literal `%+q` emits denotes the original string, for every string.
-/
namespace GM.GoQuote

theorem hexVal_hexDigit : ∀ d, d < 16 → hexVal (hexDigit d) = some d := by decide

theorem mkChar_toNat (c : Char) : mkChar c.toNat = some c := by
  unfold mkChar
  have hv : c.toNat.isValidChar := c.valid
  rw [dif_pos hv]
  congr 1
  apply Char.ext
  show UInt32.ofNat c.val.toNat = c.val
  exact UInt32.ofNat_toNat

theorem hexValN2 (x y : Nat) (hx : x < 16) (hy : y < 16) : hexValN [hexDigit x, hexDigit y] = some (x * 16 + y) := by
  simp [hexValN, hexVal_hexDigit x hx, hexVal_hexDigit y hy]

theorem hexValN4 (a b c d : Nat) (ha : a < 16) (hb : b < 16) (hc : c < 16) (hd : d < 16) :
    hexValN [hexDigit a, hexDigit b, hexDigit c, hexDigit d] = some (((a * 16 + b) * 16 + c) * 16 + d) := by
  simp [hexValN, hexVal_hexDigit a ha, hexVal_hexDigit b hb, hexVal_hexDigit c hc, hexVal_hexDigit d hd]

theorem hexValN8 (a b c d e f g h : Nat) (ha : a < 16) (hb : b < 16) (hc : c < 16) (hd : d < 16)
    (he : e < 16) (hf : f < 16) (hg : g < 16) (hh : h < 16) :
    hexValN [hexDigit a, hexDigit b, hexDigit c, hexDigit d, hexDigit e, hexDigit f, hexDigit g, hexDigit h] =
      some (((((((a * 16 + b) * 16 + c) * 16 + d) * 16 + e) * 16 + f) * 16 + g) * 16 + h) := by
  simp [hexValN, hexVal_hexDigit a ha, hexVal_hexDigit b hb, hexVal_hexDigit c hc, hexVal_hexDigit d hd,
    hexVal_hexDigit e he, hexVal_hexDigit f hf, hexVal_hexDigit g hg, hexVal_hexDigit h hh]

theorem hexN2 (n : Nat) : hexN 2 n = [hexDigit (n / 16 % 16), hexDigit (n % 16)] := by
  simp [hexN]

theorem hexN4 (n : Nat) : hexN 4 n =
    [hexDigit (n / 16 / 16 / 16 % 16), hexDigit (n / 16 / 16 % 16), hexDigit (n / 16 % 16), hexDigit (n % 16)] := by
  simp [hexN]

theorem hexN8 (n : Nat) : hexN 8 n =
    [hexDigit (n / 16 / 16 / 16 / 16 / 16 / 16 / 16 % 16), hexDigit (n / 16 / 16 / 16 / 16 / 16 / 16 % 16),
     hexDigit (n / 16 / 16 / 16 / 16 / 16 % 16), hexDigit (n / 16 / 16 / 16 / 16 % 16),
     hexDigit (n / 16 / 16 / 16 % 16), hexDigit (n / 16 / 16 % 16), hexDigit (n / 16 % 16), hexDigit (n % 16)] := by
  simp [hexN]

theorem unq_x (c : Char) (rest : List Char) (h : c.toNat < 256) :
    unquoteBody ('\\' :: 'x' :: (hexN 2 c.toNat ++ rest)) = (unquoteBody rest).map (c :: ·) := by
  rw [hexN2]
  simp only [List.cons_append, List.nil_append]
  rw [unquoteBody]
  rw [hexValN2 _ _ (Nat.mod_lt _ (by omega)) (Nat.mod_lt _ (by omega))]
  have : c.toNat / 16 % 16 * 16 + c.toNat % 16 = c.toNat := by omega
  rw [this]
  cases unquoteBody rest <;> simp [mkChar_toNat]

theorem unq_u (c : Char) (rest : List Char) (h : c.toNat < 65536) :
    unquoteBody ('\\' :: 'u' :: (hexN 4 c.toNat ++ rest)) = (unquoteBody rest).map (c :: ·) := by
  rw [hexN4]
  simp only [List.cons_append, List.nil_append]
  rw [unquoteBody]
  rw [hexValN4 _ _ _ _ (Nat.mod_lt _ (by omega)) (Nat.mod_lt _ (by omega)) (Nat.mod_lt _ (by omega)) (Nat.mod_lt _ (by omega))]
  have : ((c.toNat / 16 / 16 / 16 % 16 * 16 + c.toNat / 16 / 16 % 16) * 16 + c.toNat / 16 % 16) * 16 + c.toNat % 16 = c.toNat := by omega
  rw [this]
  cases unquoteBody rest <;> simp [mkChar_toNat]

theorem toNat_lt (c : Char) : c.toNat < 1114112 := by
  have := c.valid
  simp [UInt32.isValidChar, Nat.isValidChar] at this
  omega

theorem unq_U (c : Char) (rest : List Char) :
    unquoteBody ('\\' :: 'U' :: (hexN 8 c.toNat ++ rest)) = (unquoteBody rest).map (c :: ·) := by
  rw [hexN8]
  simp only [List.cons_append, List.nil_append]
  rw [unquoteBody]
  rw [hexValN8 _ _ _ _ _ _ _ _ (Nat.mod_lt _ (by omega)) (Nat.mod_lt _ (by omega)) (Nat.mod_lt _ (by omega)) (Nat.mod_lt _ (by omega))
    (Nat.mod_lt _ (by omega)) (Nat.mod_lt _ (by omega)) (Nat.mod_lt _ (by omega)) (Nat.mod_lt _ (by omega))]
  have hlt := toNat_lt c
  have : ((((((c.toNat / 16 / 16 / 16 / 16 / 16 / 16 / 16 % 16 * 16 + c.toNat / 16 / 16 / 16 / 16 / 16 / 16 % 16) * 16 +
      c.toNat / 16 / 16 / 16 / 16 / 16 % 16) * 16 + c.toNat / 16 / 16 / 16 / 16 % 16) * 16 + c.toNat / 16 / 16 / 16 % 16) * 16 +
      c.toNat / 16 / 16 % 16) * 16 + c.toNat / 16 % 16) * 16 + c.toNat % 16 = c.toNat := by omega
  rw [this]
  cases unquoteBody rest <;> simp [mkChar_toNat]

theorem unq_plain (c : Char) (rest : List Char) (hc : c ≠ '\\') :
    unquoteBody (c :: rest) = if c = '"' ∨ c = '\n' then none else (unquoteBody rest).map (c :: ·) := by
  rw [unquoteBody]
  all_goals (intros; simp_all)

theorem unq_simple (e v : Char) (rest : List Char)
    (he : (if e = 'a' then some (Char.ofNat 7) else if e = 'b' then some (Char.ofNat 8)
      else if e = 'f' then some (Char.ofNat 12) else if e = 'n' then some '\n'
      else if e = 'r' then some '\r' else if e = 't' then some '\t'
      else if e = 'v' then some (Char.ofNat 11) else if e = '\\' then some '\\'
      else if e = '"' then some '"' else none) = some v)
    (hx : e ≠ 'x') (hu : e ≠ 'u') (hU : e ≠ 'U') :
    unquoteBody ('\\' :: e :: rest) = (unquoteBody rest).map (v :: ·) := by
  rw [unquoteBody]
  · rw [he]
    cases unquoteBody rest <;> simp
  · intro _ _ _ h _; exact hx h
  · intro _ _ _ _ _ h _; exact hu h
  · intro _ _ _ _ _ _ _ _ _ h _; exact hU h

theorem char_of_toNat (c : Char) (n : Nat) (h : c.toNat = n) : c = Char.ofNat n := by
  rw [← h, Char.ofNat_toNat]

theorem quoteChar_eq (c : Char) : quoteChar c =
    if c = '"' then ['\\', '"']
    else if c = '\\' then ['\\', '\\']
    else if 32 ≤ c.toNat ∧ c.toNat < 127 then [c]
    else if c.toNat = 7 then ['\\', 'a']
    else if c.toNat = 8 then ['\\', 'b']
    else if c.toNat = 12 then ['\\', 'f']
    else if c.toNat = 10 then ['\\', 'n']
    else if c.toNat = 13 then ['\\', 'r']
    else if c.toNat = 9 then ['\\', 't']
    else if c.toNat = 11 then ['\\', 'v']
    else if c.toNat < 32 ∨ c.toNat = 127 then '\\' :: 'x' :: hexN 2 c.toNat
    else if c.toNat < 65536 then '\\' :: 'u' :: hexN 4 c.toNat
    else '\\' :: 'U' :: hexN 8 c.toNat := rfl

/-- one escaped rune is read back as that rune -/
theorem unquote_quoteChar (c : Char) (rest : List Char) :
    unquoteBody (quoteChar c ++ rest) = (unquoteBody rest).map (c :: ·) := by
  rw [quoteChar_eq]
  by_cases h1 : c = '"'
  · rw [if_pos h1]; subst h1
    exact unq_simple '"' '"' rest (by decide) (by decide) (by decide) (by decide)
  rw [if_neg h1]
  by_cases h2 : c = '\\'
  · rw [if_pos h2]; subst h2
    exact unq_simple '\\' '\\' rest (by decide) (by decide) (by decide) (by decide)
  rw [if_neg h2]
  by_cases h3 : 32 ≤ c.toNat ∧ c.toNat < 127
  · rw [if_pos h3]
    show unquoteBody (c :: rest) = _
    rw [unq_plain c rest h2]
    have : c ≠ '\n' := by
      intro e; rw [e] at h3; simp at h3
    simp [h1, this]
  rw [if_neg h3]
  by_cases h : c.toNat = 7
  · rw [if_pos h]; have := char_of_toNat c 7 h; subst this
    exact unq_simple 'a' _ rest (by decide) (by decide) (by decide) (by decide)
  rw [if_neg h]
  by_cases h : c.toNat = 8
  · rw [if_pos h]; have := char_of_toNat c 8 h; subst this
    exact unq_simple 'b' _ rest (by decide) (by decide) (by decide) (by decide)
  rw [if_neg h]
  by_cases h : c.toNat = 12
  · rw [if_pos h]; have := char_of_toNat c 12 h; subst this
    exact unq_simple 'f' _ rest (by decide) (by decide) (by decide) (by decide)
  rw [if_neg h]
  by_cases h : c.toNat = 10
  · rw [if_pos h]; have := char_of_toNat c 10 h; subst this
    exact unq_simple 'n' _ rest (by decide) (by decide) (by decide) (by decide)
  rw [if_neg h]
  by_cases h : c.toNat = 13
  · rw [if_pos h]; have := char_of_toNat c 13 h; subst this
    exact unq_simple 'r' _ rest (by decide) (by decide) (by decide) (by decide)
  rw [if_neg h]
  by_cases h : c.toNat = 9
  · rw [if_pos h]; have := char_of_toNat c 9 h; subst this
    exact unq_simple 't' _ rest (by decide) (by decide) (by decide) (by decide)
  rw [if_neg h]
  by_cases h : c.toNat = 11
  · rw [if_pos h]; have := char_of_toNat c 11 h; subst this
    exact unq_simple 'v' _ rest (by decide) (by decide) (by decide) (by decide)
  rw [if_neg h]
  by_cases h : c.toNat < 32 ∨ c.toNat = 127
  · rw [if_pos h]
    exact unq_x c rest (by omega)
  rw [if_neg h]
  by_cases h : c.toNat < 65536
  · rw [if_pos h]
    exact unq_u c rest h
  · rw [if_neg h]
    exact unq_U c rest

theorem unquoteBody_quoteBody (s : List Char) : unquoteBody (quoteBody s) = some s := by
  induction s with
  | nil => simp [quoteBody, unquoteBody]
  | cons c s ih =>
    have : quoteBody (c :: s) = quoteChar c ++ quoteBody s := by simp [quoteBody]
    rw [this, unquote_quoteChar, ih]
    rfl

/-- **the emitted literal denotes the original string** -/
theorem unquote_quote (s : List Char) : unquote (quote s) = some s := by
  unfold unquote quote
  simp
  exact unquoteBody_quoteBody s

/-! ### `%+q` output is pure ASCII -/

theorem hexDigit_ascii : ∀ d, d < 16 → (hexDigit d).toNat < 128 := by decide

theorem hexN_ascii (k n : Nat) : ∀ x ∈ hexN k n, x.toNat < 128 := by
  induction k generalizing n with
  | zero => simp [hexN]
  | succ k ih =>
    intro x hx
    simp only [hexN, List.mem_append, List.mem_singleton] at hx
    rcases hx with hx | rfl
    · exact ih _ x hx
    · exact hexDigit_ascii _ (Nat.mod_lt _ (by omega))

theorem quoteChar_ascii (c : Char) : ∀ x ∈ quoteChar c, x.toNat < 128 := by
  intro x hx
  rw [quoteChar_eq] at hx
  have lit : ∀ (a b : Char), a.toNat < 128 → b.toNat < 128 → x ∈ [a, b] → x.toNat < 128 := by
    intro a b ha hb hm
    simp only [List.mem_cons, List.not_mem_nil, or_false] at hm
    rcases hm with rfl | rfl <;> assumption
  have pre : ∀ (a b : Char) (k n : Nat), a.toNat < 128 → b.toNat < 128 → x ∈ a :: b :: hexN k n → x.toNat < 128 := by
    intro a b k n ha hb hm
    simp only [List.mem_cons] at hm
    rcases hm with rfl | rfl | hm
    · exact ha
    · exact hb
    · exact hexN_ascii k n x hm
  by_cases h1 : c = '"'
  · rw [if_pos h1] at hx; exact lit _ _ (by decide) (by decide) hx
  rw [if_neg h1] at hx
  by_cases h2 : c = '\\'
  · rw [if_pos h2] at hx; exact lit _ _ (by decide) (by decide) hx
  rw [if_neg h2] at hx
  by_cases h3 : 32 ≤ c.toNat ∧ c.toNat < 127
  · rw [if_pos h3] at hx
    simp only [List.mem_singleton] at hx
    subst hx; omega
  rw [if_neg h3] at hx
  by_cases h : c.toNat = 7
  · rw [if_pos h] at hx; exact lit _ _ (by decide) (by decide) hx
  rw [if_neg h] at hx
  by_cases h : c.toNat = 8
  · rw [if_pos h] at hx; exact lit _ _ (by decide) (by decide) hx
  rw [if_neg h] at hx
  by_cases h : c.toNat = 12
  · rw [if_pos h] at hx; exact lit _ _ (by decide) (by decide) hx
  rw [if_neg h] at hx
  by_cases h : c.toNat = 10
  · rw [if_pos h] at hx; exact lit _ _ (by decide) (by decide) hx
  rw [if_neg h] at hx
  by_cases h : c.toNat = 13
  · rw [if_pos h] at hx; exact lit _ _ (by decide) (by decide) hx
  rw [if_neg h] at hx
  by_cases h : c.toNat = 9
  · rw [if_pos h] at hx; exact lit _ _ (by decide) (by decide) hx
  rw [if_neg h] at hx
  by_cases h : c.toNat = 11
  · rw [if_pos h] at hx; exact lit _ _ (by decide) (by decide) hx
  rw [if_neg h] at hx
  by_cases h : c.toNat < 32 ∨ c.toNat = 127
  · rw [if_pos h] at hx; exact pre _ _ _ _ (by decide) (by decide) hx
  rw [if_neg h] at hx
  by_cases h : c.toNat < 65536
  · rw [if_pos h] at hx; exact pre _ _ _ _ (by decide) (by decide) hx
  · rw [if_neg h] at hx; exact pre _ _ _ _ (by decide) (by decide) hx

/-- every character of a `%+q` literal is ASCII -/
theorem quote_ascii (s : List Char) : ∀ x ∈ quote s, x.toNat < 128 := by
  intro x hx
  unfold quote quoteBody at hx
  simp only [List.mem_cons, List.mem_append, List.mem_flatMap, List.not_mem_nil, or_false] at hx
  rcases hx with (rfl | ⟨c, _, hc⟩) | rfl
  · decide
  · exact quoteChar_ascii c x hc
  · decide

end GM.GoQuote
