import GontainerModel.Model.Re
namespace GM.Re

theorem nullable_iff (r : Re) : nullable r = true ↔ Lang r [] := by
  induction r with
  | empty => simp [nullable]; intro h; cases h
  | eps => simp [nullable]; exact Lang.eps
  | cls k => simp [nullable]; intro h; cases h
  | anyNotNL => simp [nullable]; intro h; cases h
  | cat r s ihr ihs =>
    simp [nullable, ihr, ihs]
    constructor
    · intro ⟨h1, h2⟩; exact (List.append_nil [] ▸ Lang.cat h1 h2 : Lang (cat r s) [])
    · intro h
      generalize hx : ([] : List Char) = z at h
      cases h with
      | cat h1 h2 =>
        have := List.append_eq_nil_iff.mp hx.symm
        obtain ⟨rfl, rfl⟩ := this
        exact ⟨h1, h2⟩
  | alt r s ihr ihs =>
    simp [nullable, ihr, ihs]
    constructor
    · intro h; cases h with
      | inl h => exact Lang.altL h
      | inr h => exact Lang.altR h
    · intro h; cases h with
      | altL h => exact Or.inl h
      | altR h => exact Or.inr h
  | star r _ => simp [nullable]; exact Lang.starNil
  | group n r ih =>
    simp [nullable, ih]
    constructor
    · intro h; exact Lang.group h
    · intro h; cases h; assumption

theorem star_cons_inv_aux {s : Re} {z : List Char} (h : Lang s z) :
    ∀ r c w, s = star r → z = c :: w →
    ∃ x y, w = x ++ y ∧ Lang r (c :: x) ∧ Lang (star r) y := by
  induction h with
  | starNil => intro r c w _ hz; cases hz
  | @starCons r' x y h1 h2 _ ih2 =>
    intro r c w hs hz
    cases hs
    cases x with
    | nil => exact ih2 _ c w rfl (by simpa using hz)
    | cons a x =>
      simp only [List.cons_append, List.cons.injEq] at hz
      obtain ⟨rfl, rfl⟩ := hz
      exact ⟨x, y, rfl, h1, h2⟩
  | eps => intro r c w hs; cases hs
  | cls _ => intro r c w hs; cases hs
  | any _ => intro r c w hs; cases hs
  | cat _ _ => intro r c w hs; cases hs
  | altL _ => intro r c w hs; cases hs
  | altR _ => intro r c w hs; cases hs
  | group _ => intro r c w hs; cases hs

theorem star_cons_inv {r : Re} {c : Char} {w : List Char} (h : Lang (star r) (c :: w)) :
    ∃ x y, w = x ++ y ∧ Lang r (c :: x) ∧ Lang (star r) y :=
  star_cons_inv_aux h r c w rfl rfl

theorem deriv_iff (r : Re) (c : Char) (w : List Char) : Lang (deriv r c) w ↔ Lang r (c :: w) := by
  induction r generalizing w with
  | empty => simp [deriv]; constructor <;> (intro h; cases h)
  | eps => simp [deriv]; constructor <;> (intro h; cases h)
  | cls k =>
    simp only [deriv]
    split
    · constructor
      · intro h; cases h; exact Lang.cls ‹_›
      · intro h; cases h; exact Lang.eps
    · constructor
      · intro h; cases h
      · intro h; cases h; simp_all
  | anyNotNL =>
    simp only [deriv]
    split
    · constructor
      · rename_i hc; intro h; cases h; exact Lang.any (by simpa using hc)
      · intro h; cases h; exact Lang.eps
    · constructor
      · intro h; cases h
      · intro h; cases h; simp_all
  | cat r s ihr ihs =>
    have catDir : ∀ w, Lang (cat (deriv r c) s) w → Lang (cat r s) (c :: w) := by
      intro w h
      cases h with
      | cat h1 h2 => exact Lang.cat (x := c :: _) ((ihr _).mp h1) h2
    have catInv : ∀ w, Lang (cat r s) (c :: w) →
        Lang (cat (deriv r c) s) w ∨ (Lang r [] ∧ Lang s (c :: w)) := by
      intro w h
      generalize hz : c :: w = z at h
      cases h with
      | cat h1 h2 =>
        rename_i x y
        cases x with
        | nil => simp at hz; subst hz; exact Or.inr ⟨h1, h2⟩
        | cons a x =>
          simp at hz
          obtain ⟨rfl, rfl⟩ := hz
          exact Or.inl (Lang.cat ((ihr _).mpr h1) h2)
    simp only [deriv]
    split
    · rename_i hn
      constructor
      · intro h
        cases h with
        | altL h => exact catDir _ h
        | altR h =>
          have := Lang.cat ((nullable_iff r).mp hn) ((ihs _).mp h)
          simpa using this
      · intro h
        cases catInv _ h with
        | inl h => exact Lang.altL h
        | inr h => exact Lang.altR ((ihs _).mpr h.2)
    · rename_i hn
      constructor
      · exact catDir _
      · intro h
        cases catInv _ h with
        | inl h => exact h
        | inr h => exact absurd ((nullable_iff r).mpr h.1) hn
  | alt r s ihr ihs =>
    simp only [deriv]
    constructor
    · intro h; cases h with
      | altL h => exact Lang.altL ((ihr _).mp h)
      | altR h => exact Lang.altR ((ihs _).mp h)
    · intro h; cases h with
      | altL h => exact Lang.altL ((ihr _).mpr h)
      | altR h => exact Lang.altR ((ihs _).mpr h)
  | star r ih =>
    simp only [deriv]
    constructor
    · intro h
      cases h with
      | cat h1 h2 => exact Lang.starCons (x := c :: _) ((ih _).mp h1) h2
    · intro h
      obtain ⟨x, y, rfl, h1, h2⟩ := star_cons_inv h
      exact Lang.cat ((ih _).mpr h1) h2
  | group n r ih =>
    simp only [deriv]
    constructor
    · intro h; exact Lang.group ((ih _).mp h)
    · intro h; cases h with
      | group h => exact (ih _).mpr h

/-- the derivative matcher decides the denotation -/
theorem accepts_iff (r : Re) (w : List Char) : accepts r w = true ↔ Lang r w := by
  induction w generalizing r with
  | nil => simp [accepts, nullable_iff]
  | cons c w ih => simp [accepts, ih, deriv_iff]

end GM.Re
