import GontainerModel.Model.Validate
/-
Injectivity of the method-name scheme of the getter template: G, GInContext, MustG, MustGInContext
over getters that the validator accepts (no "Must" prefix, no "InContext" suffix).
-/
namespace GM.Methods
open GM GM.Validate

abbrev must : List Char := mustPrefix
abbrev ic : List Char := inContextSuffix

/-- the four method names derived from getter `g` -/
def form : Nat → List Char → List Char
  | 0, g => g
  | 1, g => g ++ ic
  | 2, g => must ++ g
  | _, g => must ++ (g ++ ic)

/-- what the validator guarantees of an accepted getter -/
def Ok (g : List Char) : Prop := must.isPrefixOf g = false ∧ ic.isSuffixOf g = false

theorem not_prefix {g : List Char} (h : Ok g) (r : List Char) : g ≠ must ++ r := by
  intro e
  have : must.isPrefixOf g = true := by rw [e]; simp [must, mustPrefix]
  rw [h.1] at this
  cases this

theorem not_suffix {g : List Char} (h : Ok g) (r : List Char) : g ≠ r ++ ic := by
  intro e
  have : ic.isSuffixOf g = true := by
    rw [e]
    simp [List.isSuffixOf, List.reverse_append]
  rw [h.2] at this
  cases this

/-- `g ++ "InContext"` never starts with "Must" unless `g` does -/
theorem ic_not_must {g : List Char} (h : Ok g) (r : List Char) : g ++ ic ≠ must ++ r := by
  intro e
  match g, h with
  | [], _ => simp [ic, inContextSuffix, must, mustPrefix] at e
  | [a], _ => simp [ic, inContextSuffix, must, mustPrefix] at e
  | [a, b], _ => simp [ic, inContextSuffix, must, mustPrefix] at e
  | [a, b, c], _ => simp [ic, inContextSuffix, must, mustPrefix] at e
  | a :: b :: c :: d :: rest, h =>
    simp only [must, mustPrefix, List.cons_append, List.nil_append, List.cons.injEq] at e
    obtain ⟨rfl, rfl, rfl, rfl, _⟩ := e
    have := h.1
    simp [must, mustPrefix] at this

theorem form_inj {g h : List Char} (hg : Ok g) (hh : Ok h) {k l : Nat} (hk : k < 4) (hl : l < 4)
    (e : form k g = form l h) : k = l ∧ g = h := by
  have k4 : k = 0 ∨ k = 1 ∨ k = 2 ∨ k = 3 := by omega
  have l4 : l = 0 ∨ l = 1 ∨ l = 2 ∨ l = 3 := by omega
  rcases k4 with rfl | rfl | rfl | rfl <;> rcases l4 with rfl | rfl | rfl | rfl <;> simp only [form] at e
  · exact ⟨rfl, e⟩
  · exact absurd e (not_suffix hg h)
  · exact absurd e (not_prefix hg h)
  · exact absurd e (not_prefix hg _)
  · exact absurd e.symm (not_suffix hh g)
  · exact ⟨rfl, List.append_cancel_right e⟩
  · exact absurd e (ic_not_must hg h)
  · exact absurd e (ic_not_must hg _)
  · exact absurd e.symm (not_prefix hh g)
  · exact absurd e.symm (ic_not_must hh g)
  · exact ⟨rfl, List.append_cancel_left e⟩
  · exact absurd (List.append_cancel_left e) (not_suffix hg h)
  · exact absurd e.symm (not_prefix hh _)
  · exact absurd e.symm (ic_not_must hh _)
  · exact absurd (List.append_cancel_left e).symm (not_suffix hh g)
  · exact ⟨rfl, List.append_cancel_right (List.append_cancel_left e)⟩

/-- all four method names of every getter -/
def allForms (gs : List (List Char)) : List (List Char) := gs.flatMap fun g => [form 0 g, form 1 g, form 2 g, form 3 g]

theorem mem_allForms (gs : List (List Char)) (x : List Char) : x ∈ allForms gs ↔ ∃ g ∈ gs, ∃ k, k < 4 ∧ x = form k g := by
  unfold allForms
  simp only [List.mem_flatMap, List.mem_cons, List.not_mem_nil, or_false]
  constructor
  · rintro ⟨g, hg, (hx | hx | hx | hx)⟩
    · exact ⟨g, hg, 0, by omega, hx⟩
    · exact ⟨g, hg, 1, by omega, hx⟩
    · exact ⟨g, hg, 2, by omega, hx⟩
    · exact ⟨g, hg, 3, by omega, hx⟩
  · rintro ⟨g, hg, k, hk, rfl⟩
    have k4 : k = 0 ∨ k = 1 ∨ k = 2 ∨ k = 3 := by omega
    rcases k4 with rfl | rfl | rfl | rfl <;> exact ⟨g, hg, by simp⟩

/-- **no two generated methods share a name**: over pairwise distinct accepted getters, the full
method set (all four forms of each) has no duplicates -/
theorem allForms_nodup (gs : List (List Char)) (hnd : gs.Nodup) (hok : ∀ g ∈ gs, Ok g) : (allForms gs).Nodup := by
  induction gs with
  | nil => simp [allForms]
  | cons g gs ih =>
    have hg := hok g (by simp)
    have hrest : ∀ h ∈ gs, Ok h := fun h hh => hok h (by simp [hh])
    have hnd' := List.nodup_cons.mp hnd
    have : allForms (g :: gs) = [form 0 g, form 1 g, form 2 g, form 3 g] ++ allForms gs := by simp [allForms]
    rw [this]
    apply List.nodup_append.mpr
    refine ⟨?_, ih hnd'.2 hrest, ?_⟩
    · -- the four forms of one getter differ
      have ne : ∀ k l, k < 4 → l < 4 → k ≠ l → form k g ≠ form l g := fun k l hk hl hkl e => hkl (form_inj hg hg hk hl e).1
      simp only [List.nodup_cons, List.mem_cons, List.not_mem_nil, or_false, not_or, List.nodup_nil, and_true, not_false_eq_true]
      exact ⟨⟨ne 0 1 (by omega) (by omega) (by omega), ne 0 2 (by omega) (by omega) (by omega), ne 0 3 (by omega) (by omega) (by omega)⟩,
             ⟨ne 1 2 (by omega) (by omega) (by omega), ne 1 3 (by omega) (by omega) (by omega)⟩, ne 2 3 (by omega) (by omega) (by omega)⟩
    · intro a ha b hb e
      subst e
      obtain ⟨h, hh, l, hl, e2⟩ := (mem_allForms gs a).mp hb
      have ha' : ∃ k, k < 4 ∧ a = form k g := by
        simp only [List.mem_cons, List.not_mem_nil, or_false] at ha
        rcases ha with hx | hx | hx | hx
        · exact ⟨0, by omega, hx⟩
        · exact ⟨1, by omega, hx⟩
        · exact ⟨2, by omega, hx⟩
        · exact ⟨3, by omega, hx⟩
      obtain ⟨k, hk, e1⟩ := ha'
      have := (form_inj hg (hrest h hh) hk hl (e1.symm.trans e2)).2
      subst this
      exact hnd'.1 hh

/-- no generated method collides with a name from a table `res`, provided the table has no
"Must…" entry and every "…InContext" entry has its stem in the table too, and no getter is in it -/
theorem allForms_disjoint (res : List (List Char)) (gs : List (List Char))
    (hmust : ∀ r ∈ res, must.isPrefixOf r = false)
    (hstem : ∀ r ∈ res, ∀ g, r = g ++ ic → g ∈ res)
    (hout : ∀ g ∈ gs, g ∉ res) : ∀ x ∈ allForms gs, x ∉ res := by
  intro x hx hr
  obtain ⟨g, hg, k, hk, rfl⟩ := (mem_allForms gs x).mp hx
  have k4 : k = 0 ∨ k = 1 ∨ k = 2 ∨ k = 3 := by omega
  rcases k4 with rfl | rfl | rfl | rfl
  · exact hout g hg hr
  · exact hout g hg (hstem _ hr g rfl)
  · have := hmust _ hr
    simp [form, must, mustPrefix] at this
  · have := hmust _ hr
    simp [form, must, mustPrefix] at this

end GM.Methods
