import GontainerModel.Model.Input
import GontainerModel.Lemmas.SortedMap
namespace GM.Input
open GM

theorem mergePtr_assoc {α : Type} (a b c : Option α) : mergePtr (mergePtr a b) c = mergePtr a (mergePtr b c) := by
  cases a <;> cases b <;> cases c <;> rfl
theorem mergePtr_none_left {α : Type} (a : Option α) : mergePtr none a = a := by cases a <;> rfl
theorem mergePtr_none_right {α : Type} (a : Option α) : mergePtr a none = a := rfl

theorem mergeMap_assoc {V : Type} (a b c : AMap V) : mergeMap (mergeMap a b) c = mergeMap a (mergeMap b c) := by
  simp [mergeMap, List.append_assoc]
theorem mergeMap_nil_left {V : Type} (a : AMap V) : mergeMap [] a = a := by simp [mergeMap]
theorem mergeMap_nil_right {V : Type} (a : AMap V) : mergeMap a [] = a := by simp [mergeMap]

theorem mergeArgs_assoc (a b c : List Val) : mergeArgs (mergeArgs a b) c = mergeArgs a (mergeArgs b c) := by
  unfold mergeArgs
  cases c <;> cases b <;> simp
theorem mergeArgs_nil_left (a : List Val) : mergeArgs [] a = a := by
  unfold mergeArgs; cases a <;> simp
theorem mergeArgs_nil_right (a : List Val) : mergeArgs a [] = a := by simp [mergeArgs]

theorem mergeMeta_assoc (a b c : Meta) : mergeMeta (mergeMeta a b) c = mergeMeta a (mergeMeta b c) := by
  simp [mergeMeta, mergePtr_assoc, mergeMap_assoc]

theorem mergeService_assoc (a b c : Service) :
    mergeService (mergeService a b) c = mergeService a (mergeService b c) := by
  simp [mergeService, mergePtr_assoc, mergeMap_assoc, mergeArgs_assoc, List.append_assoc]

/-- the key-wise operation `mergeServices` performs, on optional values -/
def optMerge : Option Service → Option Service → Option Service
  | some x, some y => some (mergeService x y)
  | some x, none => some x
  | none, some y => some y
  | none, none => none

theorem optMerge_assoc (a b c : Option Service) :
    optMerge (optMerge a b) c = optMerge a (optMerge b c) := by
  cases a <;> cases b <;> cases c <;> simp [optMerge, mergeService_assoc]

theorem mergeSvcAt_eq (a b : AMap Service) (k : String) : mergeSvcAt a b k = optMerge (a.get k) (b.get k) := by
  unfold mergeSvcAt optMerge
  cases a.get k <;> cases b.get k <;> rfl

theorem lookup_filterMap_key {V : Type} (ks : List String) (f : String → Option V) (k : String) :
    List.lookup k (ks.filterMap fun x => (f x).map (x, ·)) = if k ∈ ks then f k else none := by
  induction ks with
  | nil => simp
  | cons x xs ih =>
    simp only [List.filterMap_cons, List.mem_cons]
    cases hfx : f x with
    | none =>
      simp only [Option.map_none, ih]
      by_cases hk : k = x
      · subst hk; simp [hfx]
      · simp [hk]
    | some v =>
      simp only [Option.map_some, List.lookup_cons]
      by_cases hk : k = x
      · subst hk; simp [hfx]
      · have : (k == x) = false := by simp [hk]
        simp [this, hk, ih]

/-- lookup in a merged service map is the key-wise merge of the lookups -/
theorem get_mergeServices (a b : AMap Service) (k : String) :
    (mergeServices a b).get k = optMerge (a.get k) (b.get k) := by
  unfold mergeServices AMap.get
  rw [lookup_filterMap_key]
  simp only [mergeSvcAt_eq]
  split
  · rfl
  · rename_i h
    rw [AMap.mem_rawKeys] at h
    have h0 : List.lookup k (a ++ b) = none := by
      unfold AMap.get at h
      cases hl : List.lookup k (a ++ b) with
      | none => rfl
      | some v => rw [hl] at h; exact absurd rfl h
    rw [List.lookup_append] at h0
    cases ha : List.lookup k a with
    | some v => simp [ha] at h0
    | none =>
      simp only [ha, Option.none_or] at h0
      simp [h0, optMerge]

theorem lookup_filter_key {V : Type} (m : AMap V) (p : String → Bool) (k : String) :
    List.lookup k (m.filter fun e => p e.1) = if p k then List.lookup k m else none := by
  induction m with
  | nil => simp
  | cons e m ih =>
    obtain ⟨a, v⟩ := e
    simp only [List.filter_cons]
    by_cases hk : k = a
    · subst hk
      cases hp : p k <;> simp [hp, ih]
    · have hka : (k == a) = false := by simp [hk]
      cases hp : p a <;> simp [List.lookup_cons, hka, ih]

end GM.Input
