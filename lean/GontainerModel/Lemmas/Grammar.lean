import GontainerModel.Model.Grammar
import GontainerModel.Lemmas.Re
namespace GM.Grammar
open GM GM.Re

/-! ### GoToken -/

theorem star_cls_of_all (k : Cls) : ∀ (w : List Char), w.all k.mem = true → Lang (star (cls k)) w
  | [], _ => Lang.starNil
  | c :: t, h => by
    simp only [List.all_cons, Bool.and_eq_true] at h
    have := Lang.starCons (Lang.cls h.1) (star_cls_of_all k t h.2)
    simpa using this

theorem all_of_star_cls_aux {s : Re} {w : List Char} (h : Lang s w) (k : Cls) : s = star (cls k) → w.all k.mem = true := by
  induction h with
  | starNil => intro _; rfl
  | @starCons r x y h1 _ _ ih2 =>
    intro hs
    cases hs
    cases h1 with
    | cls hc => simp [hc, ih2 rfl]
  | _ => intro hs; cases hs

theorem goToken_iff (w : List Char) : Lang Rx.goToken w ↔ goToken w = true := by
  constructor
  · intro h
    cases h with
    | cat h1 h2 =>
      cases h1 with
      | cls hc =>
        have ha := all_of_star_cls_aux h2 Rx.identTail rfl
        simp only [goToken, List.cons_append, List.nil_append, Bool.and_eq_true]
        exact ⟨hc, ha⟩
  · intro h
    cases w with
    | nil => simp [goToken] at h
    | cons c t =>
      simp only [goToken, Bool.and_eq_true] at h
      exact Lang.cat (x := [c]) (Lang.cls h.1) (star_cls_of_all Rx.identTail t h.2)

/-! ### YamlToken -/

def yamlUnit : Re := cat (opt (cls Rx.yamlSep)) (cls Rx.alnum)

theorem tail_lang_of_ok : ∀ (w : List Char), yamlTail w = true → Lang (star yamlUnit) w
  | [], _ => Lang.starNil
  | [a], h => by
    unfold yamlTail at h
    split at h
    · have : Lang yamlUnit ([] ++ [a]) := Lang.cat (Lang.altR Lang.eps) (Lang.cls ‹_›)
      have := Lang.starCons this Lang.starNil
      simpa using this
    · split at h <;> simp at h
  | a :: b :: t, h => by
    unfold yamlTail at h
    split at h
    · have ih := tail_lang_of_ok (b :: t) h
      have : Lang yamlUnit ([] ++ [a]) := Lang.cat (Lang.altR Lang.eps) (Lang.cls ‹_›)
      have := Lang.starCons this ih
      simpa using this
    · split at h
      · simp at h
        have ih := tail_lang_of_ok t h.2
        have : Lang yamlUnit ([a] ++ [b]) := Lang.cat (Lang.altL (Lang.cls ‹_›)) (Lang.cls h.1)
        have := Lang.starCons this ih
        simpa using this
      · simp at h

theorem unit_shape {x : List Char} (h : Lang yamlUnit x) :
    (∃ b, x = [b] ∧ isAlnum b = true) ∨ (∃ a b, x = [a, b] ∧ isYamlSep a = true ∧ isAlnum b = true) := by
  cases h with
  | cat ho ha =>
    cases ha with
    | @cls _ b hb =>
      cases ho with
      | altL hsep =>
        cases hsep with
        | @cls _ a hs' => exact Or.inr ⟨a, b, rfl, hs', hb⟩
      | altR he => cases he; exact Or.inl ⟨b, rfl, hb⟩

theorem tail_ok_of_lang_aux {s : Re} {w : List Char} (h : Lang s w) : s = star yamlUnit → yamlTail w = true := by
  induction h with
  | starNil => intro _; rfl
  | @starCons r x y h1 _ _ ih2 =>
    intro hs
    cases hs
    have ih := ih2 rfl
    rcases unit_shape h1 with ⟨b, rfl, hb⟩ | ⟨a, b, rfl, ha, hb⟩
    · show yamlTail (b :: y) = true
      unfold yamlTail; simp [hb, ih]
    · show yamlTail (a :: b :: y) = true
      unfold yamlTail
      split
      · unfold yamlTail; simp [hb, ih]
      · simp [ha, hb, ih]
  | _ => intro hs; cases hs

theorem yamlToken_iff (w : List Char) : Lang Rx.yamlToken w ↔ yamlToken w = true := by
  constructor
  · intro h
    cases h with
    | cat h1 h2 =>
      cases h1 with
      | cls hc => simp [yamlToken, isLetter, hc, tail_ok_of_lang_aux h2 rfl]
  · intro h
    cases w with
    | nil => simp [yamlToken] at h
    | cons c t =>
      simp only [yamlToken, Bool.and_eq_true] at h
      exact Lang.cat (x := [c]) (Lang.cls h.1) (tail_lang_of_ok t h.2)

end GM.Grammar
