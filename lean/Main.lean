import Driver
def main : IO Unit := do
  Drv.loop (← IO.getStdin) (← IO.getStdout)
