import GontainerModel.Model.Chunk
import GontainerModel.Model.Re
import GontainerModel.Model.GoQuote
import GontainerModel.Model.Basic
import GontainerModel.Model.Imports
