import GontainerModel.Model.Chunk
import GontainerModel.Model.Re
import GontainerModel.Model.GoQuote
import GontainerModel.Model.Basic
import GontainerModel.Model.Imports
import GontainerModel.Model.Regexes
import GontainerModel.Model.Token
import GontainerModel.Model.Input
