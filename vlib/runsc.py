"""Scenario harness for whole-command runs: sets up a scratch directory, runs the real command
(in-process through implsrv and as a fresh CLI process), collects the external-call results the
runner model is parameterised by, asks the model for its prediction, and compares."""
import hashlib, json, os, shutil, stat
from vlib import core, gen


def setup_dir(root, sc):
    shutil.rmtree(root, ignore_errors=True)
    os.makedirs(root)
    for name, content in sc.get("files", {}).items():
        p = os.path.join(root, name)
        os.makedirs(os.path.dirname(p), exist_ok=True)
        if content == "<dir>":
            os.makedirs(p)
        elif isinstance(content, str) and content.startswith("<symlink:"):
            os.symlink(content[len("<symlink:"):-1], p)
        else:
            with open(p, "wb") as f:
                f.write(content.encode("utf-8") if isinstance(content, str) else content)
    out = sc["out"]
    pre = sc.get("pre", "absent")
    op = os.path.join(root, out)
    if pre == "present":
        os.makedirs(os.path.dirname(op), exist_ok=True)
        open(op, "w").write("// previous content\n")
    elif pre == "present-long":
        # longer than anything the tool generates: a successful run must REPLACE it, not overwrite its head
        os.makedirs(os.path.dirname(op), exist_ok=True)
        open(op, "w").write("// previous content\n" * 20000)
    elif pre == "dir":
        os.makedirs(op)
    elif pre == "parent-missing":
        pass
    else:
        os.makedirs(os.path.dirname(op) or root, exist_ok=True)


def out_state(root, out):
    p = os.path.join(root, out)
    if os.path.isdir(p):
        return "dir"
    if not os.path.exists(p):
        return "absent"
    import re
    data = re.sub(rb"(?m)^// gontainer version: .*$", b"// gontainer version: -", open(p, "rb").read())
    return "file:" + hashlib.sha256(data).hexdigest()


def flags_args(fl):
    a = []
    if fl.get("quiet"):
        a.append("--quiet")
    if fl.get("stub"):
        a.append("--stub")
    if fl.get("ignoreParams"):
        a.append("--ignore-missing-params")
    if fl.get("ignoreServices"):
        a.append("--ignore-missing-services")
    return a


def run_scenario(ctx, sc, root=None, with_model=True):
    """sc: {files:{rel:text|'<dir>'}, patterns:[..], out:rel, pre:absent|present|dir|parent-missing, flags:{}, version:""}
    returns dict(cli=…, inproc=…, model=…, diffs=[…])"""
    root = root or os.path.join(ctx.scratch(), "run")
    fl = sc.get("flags", {})
    args = []
    for p in sc["patterns"]:
        args += ["-i", p]
    args += ["-o", sc["out"]] + flags_args(fl)
    # 1. CLI process
    setup_dir(root, sc)
    before = out_state(root, sc["out"])
    rc, so, se = core.cli(["build"] + args, cwd=root, env=sc.get("env"), stdout=sc.get("stdout"))
    after = out_state(root, sc["out"])
    text = None
    if after.startswith("file:") and after != before:
        text = open(os.path.join(root, sc["out"]), encoding="utf-8", errors="replace").read()
    cli = {"exit": rc, "stdout": so, "stderr": se, "before": before, "after": after, "text": text}
    res = {"cli": cli, "diffs": []}
    if not getattr(ctx, "have_impl", True) or sc.get("stdout"):
        # a standard output that rejects writes is a property of the process: judged on the CLI observation alone
        return res
    # 2. in-process (structured errors), same directory state
    setup_dir(root, sc)
    ctx.impl.ask({"op": "chdir", "dir": root})
    ip = ctx.impl.ask({"op": "build", "version": sc.get("version", ""), "buildInfo": "verif", "args": args})
    after2 = out_state(root, sc["out"])
    text2 = None
    if after2.startswith("file:") and after2 != before:
        text2 = open(os.path.join(root, sc["out"]), encoding="utf-8", errors="replace").read()
    res["inproc"] = dict(ip, after=after2, text=text2)
    if "panic" in ip:
        return res
    if not with_model or not ctx.have_model:
        return res
    # 3. external-call tables for the model
    globT, cleanT, readT = {}, {}, {}
    setup_dir(root, sc)
    ctx.impl.ask({"op": "chdir", "dir": root})
    for p in sc["patterns"]:
        g = ctx.impl.ask({"op": "glob", "pattern": p})
        globT[p] = g
        for m in g.get("ok", []):
            c = ctx.impl.ask({"op": "clean", "s": m})["ok"]
            cleanT[m] = c
            if c not in readT:
                readT[c] = ctx.impl.ask({"op": "readfile", "path": c})
    errs = ip.get("errs", [])
    cyc = [e[len("output.ValidateCircularDeps: "):] and e for e in errs if e.startswith("output.ValidateCircularDeps: ")]
    build = {"ok": text2} if ip["exit"] == 0 and text2 is not None else {"err": errs}
    write = None
    if sc.get("pre") == "dir":
        write = "open %s: is a directory" % os.path.normpath(sc["out"])
    elif sc.get("pre") == "parent-missing":
        write = "open %s: no such file or directory" % os.path.normpath(sc["out"])
    if write and ip["exit"] == 0:
        write = None
    if write and errs and errs[-1].startswith("open "):
        build = {"ok": "<text not observable: write failed>"}
    m = ctx.model.ask({"op": "run", "flags": fl, "patterns": sc["patterns"], "out": sc["out"], "version": sc.get("version", ""),
                       "glob": globT, "clean": cleanT, "read": readT, "build": build, "write": write, "cycles": cyc})
    res["model"] = m
    # compare model with in-process observation (same version string) and with CLI (version "" / devel: version gate off unless set)
    want_stdout = "".join(l + "\n" for l in m.get("printed", []))
    if m.get("exit") != ip["exit"]:
        res["diffs"].append(("exit", ip["exit"], m.get("exit")))
    if m.get("errors") != errs:
        res["diffs"].append(("errors", errs, m.get("errors")))
    if want_stdout != ip["stdout"]:
        res["diffs"].append(("stdout", ip["stdout"], want_stdout))
    mf = m.get("file")
    wrote = isinstance(mf, dict)
    if wrote != (text2 is not None):
        res["diffs"].append(("file-effect", after2, mf if not wrote else "wrote"))
    elif wrote and mf["wrote"] != text2:
        res["diffs"].append(("file-text", text2[:200], mf["wrote"][:200]))
    return res
