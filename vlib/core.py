"""Shared machinery of ./check: building the tools from /repo's working tree, regenerating the
Lean facts, building/auditing the Lean theorems, line-protocol drivers, evidence, findings."""
import fcntl, hashlib, json, os, random, re, shutil, subprocess, sys, tempfile, time

VERIF = os.path.dirname(os.path.dirname(os.path.abspath(__file__)))
REPO = os.environ.get("VERIF_REPO", "/repo")
CACHE = os.path.join(VERIF, ".cache")
LEAN = os.path.join(VERIF, "lean")
GOENV = dict(os.environ, GOFLAGS="-mod=mod", GOPROXY="off", GOSUMDB="off", GOTOOLCHAIN="local",
             CGO_ENABLED=os.environ.get("CGO_ENABLED", "0"))
ALLOWED_AXIOMS = {"propext", "Classical.choice", "Quot.sound"}
FORBIDDEN = re.compile(r"\b(sorry|admit|native_decide|bv_decide|implemented_by|unsafe)\b|^axiom\s|maxHeartbeats\s+0", re.M)


class TieBroken(Exception):
    """the model/code tie (build of hooks, fact extraction, theorem, correspondence) does not check"""
    def __init__(self, what, detail=""):
        super().__init__(what)
        self.what, self.detail = what, detail


def sh(cmd, cwd=None, env=None, timeout=1800, check=False, inp=None):
    p = subprocess.run(cmd, cwd=cwd, env=env, timeout=timeout, input=inp, text=True,
                       stdout=subprocess.PIPE, stderr=subprocess.STDOUT)
    if check and p.returncode != 0:
        raise RuntimeError("command failed: %s\n%s" % (cmd, p.stdout[-4000:]))
    return p.returncode, p.stdout


class Lock:
    def __enter__(self):
        os.makedirs(CACHE, exist_ok=True)
        self.f = open(os.path.join(CACHE, "lock"), "w")
        fcntl.flock(self.f, fcntl.LOCK_EX)
        return self

    def __exit__(self, *a):
        fcntl.flock(self.f, fcntl.LOCK_UN)
        self.f.close()


def helpers_dir():
    rc, out = sh(["go", "list", "-m", "-f", "{{.Dir}}", "github.com/gontainer/gontainer-helpers/v3"], cwd=REPO, env=GOENV)
    return out.strip().splitlines()[-1] if rc == 0 else ""


def build_tools():
    """hookgen (own module) → overlay → implsrv built inside /repo's module; CLI binary of /repo."""
    os.makedirs(CACHE, exist_ok=True)
    hg = os.path.join(CACHE, "hookgen")
    rc, out = sh(["go", "build", "-o", hg, "."], cwd=os.path.join(VERIF, "tools", "hookgen"), env=GOENV)
    if rc != 0:
        raise RuntimeError("hookgen does not build: " + out)
    shutil.rmtree(os.path.join(CACHE, "hooks"), ignore_errors=True)
    rc, out = sh([hg, REPO, CACHE, os.path.join(VERIF, "tools", "implsrv")])
    if rc != 0:
        raise TieBroken("hookgen", out)
    cover = ["-cover", "-coverpkg=github.com/gontainer/gontainer/..."] if os.environ.get("VERIF_COVER") else []
    rc, out = sh(["go", "build"] + cover + ["-o", os.path.join(CACHE, "gontainer"), "."], cwd=REPO, env=GOENV)
    if rc != 0:
        raise TieBroken("repo-build", out)
    ov = ["-overlay", os.path.join(CACHE, "overlay.json")]
    if cover:
        # diagnostic mode only (tools/coverage.sh): `go build -cover` ignores -overlay, so the hook files are
        # materialised — allowed only in a scratch copy of the repository, never in /repo itself
        assert REPO != "/repo", "VERIF_COVER needs VERIF_REPO to point at a scratch copy"
        for virt, real in json.load(open(os.path.join(CACHE, "overlay.json")))["Replace"].items():
            os.makedirs(os.path.dirname(virt), exist_ok=True)
            shutil.copy(real, virt)
        ov = []
    rc, out = sh(["go", "build"] + cover + ["-tags", "verif"] + ov + ["-o", os.path.join(CACHE, "implsrv"), "./internal/verifdrv"], cwd=REPO, env=GOENV)
    if rc != 0:
        raise TieBroken("implsrv-build", out)


def gen_facts():
    env = dict(GOENV, VERIF_HELPERS_DIR=helpers_dir(), VERIF_REPO=REPO, VERIF_ROLES=os.path.join(VERIF, "tools", "implsrv", "roles.json"))
    gdir = os.path.join(LEAN, "GontainerModel", "Generated")
    rc, out = sh([os.path.join(CACHE, "implsrv"), "facts", gdir], env=env)
    if rc != 0:
        raise TieBroken("facts", out)
    gen_sites()


def gen_sites():
    """typed inventory (go/types, ~15 s) cached by the content hash of /repo's non-test .go files"""
    h = hashlib.sha256()
    for root, dirs, files in os.walk(REPO):
        dirs[:] = sorted(d for d in dirs if d != ".git")
        for f in sorted(files):
            if f.endswith(".go") and not f.endswith("_test.go") or f == "go.mod":
                h.update(os.path.join(root, f).encode())
                h.update(open(os.path.join(root, f), "rb").read())
    h.update(open(os.path.join(VERIF, "tools", "sites", "main.go"), "rb").read())
    key = h.hexdigest()[:24]
    cached = os.path.join(CACHE, "sites-%s.lean" % key)
    target = os.path.join(LEAN, "GontainerModel", "Generated", "Sites.lean")
    if not os.path.exists(cached):
        exe = os.path.join(CACHE, "sites")
        rc, out = sh(["go", "build", "-o", exe, "."], cwd=os.path.join(VERIF, "tools", "sites"), env=GOENV)
        if rc != 0:
            raise RuntimeError("sites tool does not build: " + out)
        tmpd = tempfile.mkdtemp(prefix="verif-sites-")
        try:
            rc, out = sh([exe, tmpd], cwd=REPO, env=GOENV, timeout=600)
            if rc != 0:
                raise TieBroken("sites", out)
            shutil.copy(os.path.join(tmpd, "Sites.lean"), cached)
        finally:
            shutil.rmtree(tmpd, ignore_errors=True)
    new = open(cached).read()
    if not os.path.exists(target) or open(target).read() != new:
        open(target, "w").write(new)


def lake_build(targets, timeout=3000):
    rc, out = sh(["lake", "build"] + targets, cwd=LEAN, timeout=timeout)
    return rc == 0, out


def theorems_of(prop):
    """names of the theorems stated in Props/<prop>.lean"""
    src = open(os.path.join(LEAN, "GontainerModel", "Props", prop + ".lean")).read()
    ns = re.search(r"^namespace\s+(\S+)", src, re.M).group(1)
    names = re.findall(r"^theorem\s+(\S+)", src, re.M)
    return ns, names, src


def audit(props):
    """`#print axioms` of every property theorem of the given Props modules.
    returns (obligations, discharged, details, problems)"""
    lines = ["import GontainerModel.Props." + p for p in props]
    allnames = []
    for p in props:
        ns, names, src = theorems_of(p)
        stripped = re.sub(r"/-.*?-/", "", src, flags=re.S)
        stripped = re.sub(r"--.*", "", stripped)
        if FORBIDDEN.search(stripped):
            return len(names), 0, {}, ["forbidden construct in Props/%s.lean" % p]
        for n in names:
            allnames.append(ns + "." + n)
            lines.append("#print axioms %s.%s" % (ns, n))
    os.makedirs(os.path.join(LEAN, "GontainerModel", "Audit"), exist_ok=True)
    fn = os.path.join(LEAN, "GontainerModel", "Audit", "Audit_" + "_".join(props) + ".lean")
    open(fn, "w").write("\n".join(lines) + "\n")
    rc, out = sh(["lake", "env", "lean", fn], cwd=LEAN, timeout=1200)
    details, problems = {}, []
    # output: 'Name' depends on axioms: [a, b]   |  'Name' does not depend on any axioms
    for m in re.finditer(r"'([^']+)' (?:depends on axioms: \[([^\]]*)\]|does not depend on any axioms)", out.replace("\n ", " ")):
        ax = [a.strip() for a in (m.group(2) or "").split(",") if a.strip()]
        details[m.group(1)] = ax
    discharged = 0
    for n in allnames:
        if n not in details:
            problems.append("theorem %s not checked: %s" % (n, out[-600:]))
        elif set(details[n]) - ALLOWED_AXIOMS:
            problems.append("theorem %s uses axioms %s" % (n, details[n]))
        else:
            discharged += 1
    # forbidden constructs in lemma files too
    for root, _, files in os.walk(os.path.join(LEAN, "GontainerModel")):
        for f in files:
            if f.endswith(".lean") and "Audit" not in root:
                s = open(os.path.join(root, f)).read()
                s = re.sub(r"/-.*?-/", "", s, flags=re.S)
                s = re.sub(r"--.*", "", s)
                if FORBIDDEN.search(s):
                    problems.append("forbidden construct in " + f)
    return len(allnames), discharged, details, problems


class Hang(Exception):
    """a driver did not answer a request within the deadline (the process has been killed)"""
    def __init__(self, argv0, req, seconds):
        super().__init__("no answer within %ds: %s" % (seconds, json.dumps(req)[:300]))
        self.argv0, self.req, self.seconds = argv0, req, seconds


REQUEST_TIMEOUT = int(os.environ.get("VERIF_REQUEST_TIMEOUT", "120"))


def patience(seconds):
    """a deadline stretched by the machine's load (runnable tasks per core above one, at most tenfold)"""
    try:
        over = max(0.0, os.getloadavg()[0] / (os.cpu_count() or 1) - 1.0)
    except OSError:
        over = 0.0
    return int(seconds * (1.0 + min(over, 9.0)))


class Proc:
    """a line-protocol process (implsrv or modeldrv); every answer has a deadline"""
    def __init__(self, argv, env=None):
        import queue, threading
        self.argv = argv
        self.p = subprocess.Popen(argv, stdin=subprocess.PIPE, stdout=subprocess.PIPE, stderr=subprocess.DEVNULL,
                                  text=True, bufsize=1, env=env)
        self.q = queue.Queue()

        def pump():
            try:
                for line in self.p.stdout:
                    self.q.put(line)
            except Exception:
                pass
            self.q.put("")           # end of stream
        threading.Thread(target=pump, daemon=True).start()

    def _readline(self, req):
        import queue
        # the deadline is stretched by the machine's load (runnable tasks per core above one): a busy machine is not a hang
        deadline = patience(REQUEST_TIMEOUT)
        try:
            return self.q.get(timeout=deadline)
        except queue.Empty:
            self.p.kill()
            raise Hang(self.argv[0], req, deadline)

    def ask(self, req):
        try:
            self.p.stdin.write(json.dumps(req) + "\n")
            self.p.stdin.flush()
        except BrokenPipeError:
            raise RuntimeError("driver died: %s on %s" % (self.argv[0], json.dumps(req)[:400]))
        line = self._readline(req)
        if not line:
            raise RuntimeError("driver died: %s on %s" % (self.argv[0], json.dumps(req)[:400]))
        return json.loads(line)

    def ask_many(self, reqs):
        """pipelined: write all, then read all (both sides answer in order)"""
        import threading
        def w():
            try:
                for r in reqs:
                    self.p.stdin.write(json.dumps(r) + "\n")
                self.p.stdin.flush()
            except (BrokenPipeError, ValueError):
                pass
        t = threading.Thread(target=w, daemon=True)
        t.start()
        out = []
        for k in range(len(reqs)):
            line = self._readline(reqs[k])
            if not line:
                raise RuntimeError("driver died: %s on request %d: %s" % (self.argv[0], k, json.dumps(reqs[k])[:300]))
            out.append(json.loads(line))
        t.join(timeout=5)
        return out

    def close(self):
        try:
            self.p.stdin.close()
            self.p.wait(timeout=10)
        except Exception:
            self.p.kill()


def impl():
    return Proc([os.path.join(CACHE, "implsrv"), "serve"], env=dict(os.environ, NO_COLOR="1", VERIF_ROLES=os.path.join(VERIF, "tools", "implsrv", "roles.json")))


def model():
    return Proc([os.path.join(LEAN, ".lake", "build", "bin", "modeldrv")])


def canon(x):
    return json.dumps(x, sort_keys=True, ensure_ascii=False)


def scratch():
    d = tempfile.mkdtemp(prefix="verif-")
    return d


def cli(args, cwd, env=None, timeout=60, stdout=None):
    """run the CLI binary built from the tree; stdout: None (captured), a path to open for writing (e.g. /dev/full) or "closed" """
    e = dict(os.environ, NO_COLOR="1")
    if env:
        e.update(env)
    try:
        timeout = patience(timeout)
        if stdout is None:
            p = subprocess.run([os.path.join(CACHE, "gontainer")] + args, cwd=cwd, env=e, timeout=timeout,
                               stdout=subprocess.PIPE, stderr=subprocess.PIPE)
            return p.returncode, p.stdout.decode("utf-8", "replace"), p.stderr.decode("utf-8", "replace")
        if stdout == "closed":
            p = subprocess.run(["/bin/sh", "-c", 'exec "$0" "$@" >&-', os.path.join(CACHE, "gontainer")] + args, cwd=cwd, env=e,
                               timeout=timeout, stderr=subprocess.PIPE)
        else:
            with open(stdout, "wb") as f:
                p = subprocess.run([os.path.join(CACHE, "gontainer")] + args, cwd=cwd, env=e, timeout=timeout, stdout=f, stderr=subprocess.PIPE)
        return p.returncode, "", p.stderr.decode("utf-8", "replace")
    except subprocess.TimeoutExpired:
        return -9, "", "timeout"


def load_findings():
    fn = os.path.join(VERIF, "known-findings.json")
    if not os.path.exists(fn):
        return []
    return json.load(open(fn))["findings"]


def write_replay(prop, payload):
    os.makedirs(os.path.join(VERIF, "replays"), exist_ok=True)
    h = hashlib.sha256(canon(payload).encode()).hexdigest()[:12]
    fn = os.path.join(VERIF, "replays", "%s-%s.json" % (prop, h))
    payload = dict(payload, property=prop, replay="./check %s --replay replays/%s-%s.json" % (prop, prop, h))
    json.dump(payload, open(fn, "w"), indent=1, ensure_ascii=False)
    return fn


def write_evidence(prop, ev):
    os.makedirs(os.path.join(VERIF, "evidence"), exist_ok=True)
    json.dump(ev, open(os.path.join(VERIF, "evidence", prop + ".json"), "w"), indent=1, ensure_ascii=False)
