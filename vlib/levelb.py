"""Level B: generated containers are compiled against the pinned runtime and a fixture universe
in a scratch Go module, type-checked (`go vet`/`go build`) and executed through a probe main."""
import json, os, re, shutil, subprocess
from vlib import core, gen


def helpers_version():
    for l in open(os.path.join(core.REPO, "go.mod")):
        m = re.search(r"github.com/gontainer/gontainer-helpers/v3\s+(\S+)", l)
        if m:
            return m.group(1)
    raise RuntimeError("helpers version not found in go.mod")


class Module:
    """scratch module `probe` with fixtures probe/fx and probe/fx2/pkg"""
    def __init__(self, root):
        self.root = root
        os.makedirs(root, exist_ok=True)
        open(os.path.join(root, "go.mod"), "w").write(
            "module probe\n\ngo 1.21\n\nrequire github.com/gontainer/gontainer-helpers/v3 %s\n" % helpers_version())
        shutil.copy(os.path.join(core.REPO, "go.sum"), os.path.join(root, "go.sum"))
        src = open(os.path.join(core.VERIF, "tools", "probe", "fx.go.txt")).read()
        self.thin = open(os.path.join(core.VERIF, "tools", "probe", "fxthin.go.txt")).read()
        for path, name in ((gen.FX, "fx"), (gen.FX2, "pkg"), ("probe/exp1/os", "os"), ("probe/deep/fx", "fx"), ("probe/x-y/v2", "v2"), ("probe/a.b/fx", "fx"), ("probe/gopkg/yaml.v3", "yaml")):
            d = os.path.join(root, path[len("probe/"):])
            os.makedirs(d, exist_ok=True)
            text = src if path == gen.FX else self.thin
            open(os.path.join(d, "fx.go"), "w").write(text.replace("PKGNAME", name).replace("PKGID", path))
        self.pkgs = []

    def add_local(self, name, pkgname):
        """symbols of the generated package itself (for `"."` references): unlabelled copies of the fixture symbols"""
        self.write(name + "/zz_local.go", self.thin.replace("PKGNAME", pkgname).replace("PKGID", ""))

    def gen_pkg(self, name, yaml_files, flags=(), env=None, pkgname=None, over_previous_output=False):
        """run the CLI on the yaml files, writing <name>/gen.go; returns (exit, stdout)"""
        d = os.path.join(self.root, name)
        os.makedirs(os.path.join(d, "cfg"), exist_ok=True)
        args = ["build"]
        # the files are merged in the order of the -i options, whatever their names: for every second package the names sort
        # in the OPPOSITE order
        import zlib
        rev = len(yaml_files) > 1 and zlib.crc32(name.encode()) % 2 == 1
        for i, y in enumerate(yaml_files):
            fn = os.path.join(d, "cfg", "f%02d.yaml" % ((len(yaml_files) - 1 - i) if rev else i))
            open(fn, "w").write(y)
            args += ["-i", fn]
        out = os.path.join(d, "gen_stub.go" if "--stub" in flags else "gen.go")
        # a (longer) previous generation is already there: the tool must replace it
        if over_previous_output:
            pass        # whatever is at the output path now (nothing, or what an earlier call generated) stays there
        else:
            open(out, "w").write("// previous generation of this file\n" * 4000)
        args += ["-o", out] + list(flags)
        rc, so, se = core.cli(args, cwd=d, env=env)
        if rc != 0 and os.path.exists(out):
            os.remove(out)      # a rejected configuration leaves the placeholder alone (C10's business); drop it from the module
        return rc, so + se, out

    def go(self, args, timeout=600, env=None):
        e = dict(core.GOENV)
        if env:
            e.update(env)
        p = subprocess.run(["go"] + args, cwd=self.root, env=e, timeout=core.patience(timeout), stdout=subprocess.PIPE,
                           stderr=subprocess.STDOUT, text=True)
        return p.returncode, p.stdout

    def write(self, rel, text):
        fn = os.path.join(self.root, rel)
        os.makedirs(os.path.dirname(fn), exist_ok=True)
        open(fn, "w").write(text)
        return fn


def build_probe(mod, pkgs, race=False):
    """pkgs: list of (dirname, constructorName). Writes probemain and builds it; returns (ok, output, binary path)"""
    src = open(os.path.join(core.VERIF, "tools", "probe", "probemain.go.txt")).read()
    imports = "\n".join('\t%s "probe/%s"' % (d, d) for d, _ in pkgs)
    reg = "\n".join('\t"%s": func() any { return %s.%s() },' % (d, d, c) for d, c in pkgs)
    mod.write("probemain/main.go", src.replace("//IMPORTS", imports).replace("//REGISTRY", reg))
    exe = os.path.join(mod.root, "probemain.bin")
    args = ["build"] + (["-race"] if race else []) + ["-o", exe, "./probemain"]
    env = {"CGO_ENABLED": "1"} if race else None
    rc, out = mod.go(args, env=env)
    return rc == 0, out, exe


def run_probe(exe, scripts, env=None, timeout=300):
    """scripts: list of {"c": name, "ops": [...]}; returns list of result dicts (one per script)"""
    inp = "".join(json.dumps(s) + "\n" for s in scripts)
    e = dict(os.environ)
    if env:
        e.update(env)
    p = subprocess.run([exe], input=inp, text=True, stdout=subprocess.PIPE, stderr=subprocess.PIPE, env=e, timeout=core.patience(timeout))
    out = []
    for l in p.stdout.splitlines():
        try:
            out.append(json.loads(l))
        except Exception:
            out.append({"garbled": l[:200]})
    return out, p.returncode, p.stderr


def canon_serials(x, table=None):
    """rename object serial numbers by first occurrence (identity, not allocation order, is compared); serial 0 = anonymous"""
    if table is None:
        table = {}
    if isinstance(x, dict):
        r = {}
        for k in sorted(x):
            v = x[k]
            if k == "serial":
                if v == 0:
                    r[k] = 0
                else:
                    r[k] = table.setdefault(v, len(table) + 1)
            else:
                r[k] = canon_serials(v, table)
        return r
    if isinstance(x, list):
        return [canon_serials(v, table) for v in x]
    return x
