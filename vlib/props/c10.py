"""C10 — exit status, diagnostics and output-file contract of `build`."""
import re
from vlib import core, gen, runsc

LEVEL = "proof"
TEXT = ("exit 0 iff the complete text was written, any failure leaves the -o path untouched, exit is 0 or 1, the numbered list has the length of the "
        "returned error and the failing step's END line carries that count, --quiet prints nothing and changes nothing else: Lean theorems over the runner "
        "model for every world (glob/read/decode/build/write results are parameters). The model is tied by fault enumeration: the real binary and the "
        "in-process command run on every combination of defect class x flags x output-path state x input faults, and exit code, stdout and the -o file "
        "before/after are compared with the model's prediction and judged directly against the property. The failure kinds of reading the configuration are theorems over the read-config model: unreadable_input_fails, glob_error_fails, nothing_processed_fails, duplicate_match_fails (a file read under two patterns), each leading to exit 1 with the -o path untouched (read_failure_exits). Scenarios include a long pre-existing -o file that a successful run must replace completely.")
TECHNIQUE = "Lean 4 theorems over a model of the runner (case analysis over all exit points) + fault-enumeration correspondence against the real command"
LEAN_PROPS = ["C10"]
TRUSTED = ["os.WriteFile leaves the file unmodified when it fails to open it (World.write contract; short writes are an OS matter)",
           "cobra flag parsing; filepath.Glob/Clean; yaml.v3; text/template+gofmt+goimports are parameters of the model"]
ASSUMPTIONS = ["stdout is not a terminal (fatih/color off)"]

VALID = {"meta": {"pkg": "gen", "imports": {"fx": gen.FX}}, "parameters": {"p": 1}, "services": {"a": {"constructor": "fx.NewA", "arguments": ["%p%"]}}}


def defect_configs():
    d = {}
    d["valid"] = VALID
    d["missing-param"] = {"services": {"a": {"constructor": "NewA", "arguments": ["%nope%"]}}}
    d["missing-service"] = {"services": {"a": {"constructor": "NewA", "arguments": ["@nope"]}}}
    d["missing-both"] = {"services": {"a": {"constructor": "NewA", "arguments": ["@nope", "%nope%", "%nope2%"]}}}
    d["cycle"] = {"services": {"a": {"constructor": "NewA", "arguments": ["@b"]}, "b": {"constructor": "NewA", "arguments": ["@a"]}}}
    d["param-cycle"] = {"parameters": {"x": "%y%", "y": "%x%"}}
    d["scope"] = {"services": {"a": {"constructor": "NewA", "arguments": ["@b"], "scope": "shared"}, "b": {"constructor": "NewA", "scope": "contextual"}}}
    d["grammar"] = {"services": {"a b": {"constructor": "New A"}, "c": {"getter": "MustX", "value": "1x"}}}
    d["grammar3"] = {"meta": {"pkg": "1x"}, "parameters": {"bad name": [1]}, "services": {"c": {}}}
    d["token"] = {"parameters": {"x": "%unknown(1)%", "y": "%%%"}}
    d["format"] = {"services": {"a": {"constructor": "func"}}}
    d["empty"] = {}
    # the same diagnostic text twice (one service referring twice to the same missing parameter / service): the numbered list
    # still has one entry per error of the failing step
    d["same-error-twice"] = {"services": {"a": {"constructor": "NewA", "arguments": ["%nope%", "%nope%"], "fields": {"F": "%nope%"}},
                                         "b": {"constructor": "NewA", "arguments": ["@zz", "@zz"]}}}
    d["same-grammar-error-twice"] = {"services": {"a": {"constructor": "NewA", "tags": ["t t", "t t"], "calls": [["bad name"], ["bad name"]]}}}
    return d


def scenarios(ctx):
    cfgs = defect_configs()
    out = []
    flagsets = [{}, {"quiet": True}, {"stub": True}, {"ignoreParams": True}, {"ignoreServices": True}, {"ignoreParams": True, "ignoreServices": True, "quiet": True}]
    pres = ["absent", "present", "present-long", "dir", "parent-missing"]
    for name, cfg in cfgs.items():
        for fl in flagsets:
            for pre in pres:
                # quick tier: a third of the remaining combinations, chosen by the seed (reproducible: no salted hash)
                import zlib
                if ctx.quick and ((zlib.crc32(("%s|%s|%s" % (name, sorted(fl), pre)).encode()) + ctx.seed) % 3) and not (name == "valid" or pre in ("present", "present-long")):
                    continue
                outp = "outdir/sub/gen.go" if pre == "parent-missing" else "out/gen.go"
                out.append({"name": "%s|%s|%s" % (name, ",".join(sorted(fl)) or "-", pre), "files": {"cfg/a.yaml": gen.yaml_doc(cfg)},
                            "patterns": ["cfg/a.yaml"], "out": outp, "pre": pre, "flags": fl})
    # input faults
    v = gen.yaml_doc(VALID)
    faults = [
        ("missing-input", {}, ["cfg/none.yaml"]),
        ("input-is-dir", {"cfg/d.yaml": "<dir>"}, ["cfg/d.yaml"]),
        ("empty-glob", {"cfg/a.yaml": v}, ["cfg/*.yml"]),
        ("invalid-glob", {"cfg/a.yaml": v}, ["cfg/[.yaml"]),
        ("two-patterns-same-file", {"cfg/a.yaml": v}, ["cfg/a.yaml", "cfg/*.yaml"]),
        ("two-files-two-patterns-dup", {"cfg/a.yaml": v, "cfg/b.yaml": "{}"}, ["cfg/*.yaml", "cfg/a.yaml", "cfg/b.yaml"]),
        ("unparsable", {"cfg/a.yaml": "services: [1, 2\n"}, ["cfg/a.yaml"]),
        ("bad-scope-kw", {"cfg/a.yaml": "services: {a: {constructor: NewA, scope: bogus}}\n"}, ["cfg/a.yaml"]),
        ("binary-garbage", {"cfg/a.yaml": b"\x00\xff\xfe\x01"}, ["cfg/a.yaml"]),
        ("valid+unreadable", {"cfg/a.yaml": v, "cfg/b.yaml": "<dir>"}, ["cfg/*.yaml"]),
        ("glob-order", {"cfg/b.yaml": gen.yaml_doc({"parameters": {"p": 2}}), "cfg/a/../z.yaml": "{}", "cfg/a.yaml": v}, ["cfg/*.yaml"]),
        ("unclean-pattern", {"cfg/a.yaml": v}, ["./cfg//a.yaml"]),
        # one pattern, several files, a failing one anywhere in the read order: the step fails whatever follows it
        ("broken-then-ok", {"cfg/10.yaml": "services: [1, 2\n", "cfg/20.yaml": v}, ["cfg/*.yaml"]),
        ("ok-then-broken", {"cfg/10.yaml": v, "cfg/20.yaml": "services: [1, 2\n"}, ["cfg/*.yaml"]),
        ("broken-ok-ok", {"cfg/10.yaml": "parameters: {a: [\n", "cfg/20.yaml": v, "cfg/30.yaml": "{}"}, ["cfg/*.yaml"]),
        ("unreadable-then-ok", {"cfg/10.yaml": "<dir>", "cfg/20.yaml": v}, ["cfg/*.yaml"]),
        ("bad-shape-then-ok", {"cfg/10.yaml": "services: {a: {constructor: NewA, scope: bogus}}\n", "cfg/20.yaml": v}, ["cfg/*.yaml"]),
        ("broken-first-pattern", {"cfg/10.yaml": "services: [1, 2\n", "cfg/20.yaml": v}, ["cfg/10.yaml", "cfg/20.yaml"]),
        # ONE error whose message spans several lines (yaml.TypeError lists its lines): still one entry of the numbered list
        # matches that cannot be read because they lead nowhere: a dangling symbolic link, a link loop — next to a readable file
        ("dangling-symlink", {"cfg/a.yaml": v, "cfg/b.yaml": "<symlink:nowhere.yaml>"}, ["cfg/*.yaml"]),
        ("dangling-symlink-literal", {"cfg/a.yaml": v, "cfg/b.yaml": "<symlink:nowhere.yaml>"}, ["cfg/a.yaml", "cfg/b.yaml"]),
        ("symlink-loop", {"cfg/a.yaml": v, "cfg/b.yaml": "<symlink:c.yaml>", "cfg/c.yaml": "<symlink:b.yaml>"}, ["cfg/*.yaml"]),
        ("symlink-to-file", {"cfg/a.yaml": v, "cfg/b.yaml": "<symlink:a.yaml>"}, ["cfg/b.yaml"]),
        ("multi-line-error", {"cfg/a.yaml": "services: \"none\"\nparameters: 5\n"}, ["cfg/a.yaml"]),
        ("multi-line-error-2", {"cfg/a.yaml": "services: {a: {arguments: 1, calls: 2, tags: 3}}\n"}, ["cfg/a.yaml"]),
        ("two-multi-line-errors", {"cfg/a.yaml": "services: \"none\"\nparameters: 5\n", "cfg/b.yaml": "meta: [1]\nservices: 7\n"}, ["cfg/a.yaml", "cfg/b.yaml"]),
    ]
    for name, files, pats in faults:
        for pre in (["present", "absent"] if ctx.quick else pres):
            for fl in ({}, {"quiet": True}):
                out.append({"name": "%s|%s|%s" % (name, ",".join(sorted(fl)) or "-", pre), "files": files, "patterns": pats,
                            "out": "out/gen.go", "pre": pre, "flags": fl})
    # the standard output rejects every write (full device) or is closed: whatever the command does about printing, it exits 0
    # exactly when it wrote the complete output, and a failing run leaves the -o path alone
    for so in ("/dev/full", "closed"):
        for name, cfg in (("valid", cfgs["valid"]), ("missing-param", cfgs["missing-param"]), ("cycle", cfgs["cycle"])):
            for pre in ("present", "absent"):
                for fl in ({}, {"quiet": True}):
                    out.append({"name": "%s|%s|%s|stdout=%s" % (name, ",".join(sorted(fl)) or "-", pre, so), "files": {"cfg/a.yaml": gen.yaml_doc(cfg)},
                                "patterns": ["cfg/a.yaml"], "out": "out/gen.go", "pre": pre, "flags": fl, "stdout": so})
    return out


def judge(sc, r):
    """the property itself, on the CLI observation"""
    c = r["cli"]
    v = []
    name = sc["name"]
    if c["exit"] not in (0, 1) and not sc.get("stdout"):
        v.append(("exit-not-0-or-1", "exit status %r (stderr %r)" % (c["exit"], c["stderr"][-300:])))
    wrote = c["after"] != c["before"]
    if c["exit"] == 0 and not (wrote or (c["before"].startswith("file:") and c["text"] is None and False)):
        # same content as before cannot happen: 'present' holds a marker text
        v.append(("exit0-without-output", "exit 0 but the -o path was not written (before=%s after=%s)" % (c["before"], c["after"])))
    if c["exit"] == 0 and c["text"] is not None and not (c["text"].startswith("// Code generated") or c["text"].lstrip().startswith("//go:build gontainerstub")):
        v.append(("incomplete-output", "exit 0 but the file does not start like a generated source"))
    if c["exit"] == 0 and c["text"] is not None and "// previous content" in c["text"]:
        v.append(("output-not-replaced", "exit 0 but the -o file still holds remains of its previous content: it is not exactly the generated source"))
    if c["exit"] != 0 and wrote:
        v.append(("failure-touched-output", "exit %d but the -o path changed: before=%s after=%s" % (c["exit"], c["before"], c["after"])))
    quiet = sc["flags"].get("quiet")
    if quiet and c["stdout"] != "":
        v.append(("quiet-prints", "--quiet printed %r" % c["stdout"][:200]))
    if quiet and c["stderr"] != "" and not sc.get("stdout"):
        v.append(("quiet-prints", "--quiet printed to the standard error: %r" % c["stderr"][:200]))
    if sc.get("stdout") and quiet and name.startswith("valid|") and c["exit"] != 0:
        v.append(("quiet-depends-on-stdout", "--quiet prints nothing, yet the run fails when the standard output is unusable: exit %r" % c["exit"]))
    if c["exit"] != 0 and not quiet and not sc.get("stdout"):
        m = re.search(r"^(.*END·*\[⨉\] \((\d+) errors?\))\nErrors:\n((?:.|\n)*)\Z", c["stdout"], re.M)
        if not m:
            v.append(("no-error-list", "failing run does not end with the failing step's END line and a numbered list: %r" % c["stdout"][-300:]))
        else:
            n = int(m.group(2))
            nums = re.findall(r"^(\d+)\. ", m.group(3), re.M)
            # numbered entries are 1..k in order (messages may contain newlines)
            seq = [int(x) for x in nums]
            k = 0
            for x in seq:
                if x == k + 1:
                    k += 1
            if k != n:
                v.append(("error-count-mismatch", "END line says %d errors, numbered list has %d" % (n, k)))
    return v


def run(ctx, scs=None):
    scs = scs or scenarios(ctx)
    violations, corr_fail, seen = [], [], set()
    dist = {"exit0": 0, "exit1": 0, "quiet": 0, "pre_present": 0, "write_fault": 0}
    byname = {}
    for sc in scs:
        r = runsc.run_scenario(ctx, sc)
        byname[sc["name"]] = r
        c = r["cli"]
        dist["exit0" if c["exit"] == 0 else "exit1"] += 1
        dist["quiet"] += bool(sc["flags"].get("quiet"))
        dist["pre_present"] += sc.get("pre") in ("present", "present-long")
        dist["write_fault"] += sc.get("pre") in ("dir", "parent-missing")
        dist["stdout_fault"] = dist.get("stdout_fault", 0) + bool(sc.get("stdout"))
        seen.add(sc["name"].split("|")[0] + "|" + sc.get("pre", ""))
        for sig, what in judge(sc, r):
            violations.append({"sig": sig, "what": what, "scenario": sc, "observed": {k: c[k] for k in ("exit", "stdout", "before", "after")}})
        ip = r.get("inproc")
        if ip and "panic" in ip:
            violations.append({"sig": "panic", "what": "panic: " + ip["panic"], "scenario": sc})
        elif ip:
            if ip["exit"] != c["exit"] or ip["after"] != c["after"]:
                violations.append({"sig": "inproc-vs-cli", "what": "in-process command and CLI binary differ: %r vs %r" % ((ip["exit"], ip["after"]), (c["exit"], c["after"])), "scenario": sc})
        for d in r["diffs"][:1]:
            if len(corr_fail) < 10:
                corr_fail.append({"op": "run:" + d[0], "scenario": sc, "impl": d[1], "model": d[2]})
    # --quiet: same exit and file effect as the non-quiet twin
    for sc in scs:
        if sc["flags"].get("quiet") and len(sc["flags"]) == 1 and not sc.get("stdout"):
            twin = sc["name"].replace("|quiet|", "|-|")
            if twin in byname:
                a, b = byname[sc["name"]]["cli"], byname[twin]["cli"]
                if (a["exit"], a["after"]) != (b["exit"], b["after"]):
                    violations.append({"sig": "quiet-changes-effects", "what": "--quiet changes exit/file effect: %r vs %r" % ((a["exit"], a["after"]), (b["exit"], b["after"])), "scenario": sc})
    return {"evaluations": len(scs), "distinct_nontrivial": len(seen),
            "rule": "fault enumeration: {valid, each defect class} x flag sets x {output absent, present, directory, parent missing} + input faults (missing, directory, empty glob, invalid glob, file matched by two patterns, unparsable, unclean paths); each run as CLI process and in-process, compared with the runner model; distinct = (defect class, output state)",
            "samples": [{k: sc[k] for k in ("name", "patterns", "out", "pre", "flags")} for sc in scs[:3]],
            "distribution": dist, "violations": violations, "corr_fail": corr_fail, "exhaustive": not ctx.quick}


def replay(ctx, payload):
    return run(ctx, [payload["scenario"]])
