"""C17 — --stub output has the same API surface as the real output."""
import json, os, re, shutil
from vlib import core, gen, levelb
from vlib.props import c01, c10

LEVEL = "translation_validation"
TEXT = ("For every configuration of the generator (and the fault classes) both modes are run: the verdict must be the same; for accepted ones both outputs are read "
        "with go/parser and compared (package, build constraint, type declarations, constructor and method set with signatures, names erased), the stub must reference "
        "user packages in signatures/type declarations only and every stub body except init() must be panic(\"stub\"); both are type-checked (the stub with -tags "
        "gontainerstub). The structural reason parity holds is proved in Lean over the templates rendered symbolically in both modes (regenerated): "
        "stub_same_surface, stub_same_types, stub_bodies_panic, stub_init_same, stub_constraint, stub_has_no_helpers. Type checking is observed, not proved.")
TECHNIQUE = "pairwise translation validation of the two outputs (go/parser surface comparison + go vet in both modes) + Lean 4 theorems over the templates symbolically rendered in stub/normal mode"
LEAN_PROPS = ["C17"]
TRUSTED = ["Go type checker and go/parser", "goimports pruning of unused imports in the stub (observed)"]
ASSUMPTIONS = []

USER_PKGS = (gen.FX, gen.FX2, "probe/")


def surface_key(s, drop_helpers=True):
    fs = []
    for f in s["funcs"]:
        if drop_helpers and f["name"].startswith("_"):
            continue
        fs.append((f["recv"], f["name"], tuple(f["in"] or []), tuple(f["out"] or [])))
    return {"package": s["package"], "types": s["types"], "funcs": sorted(fs)}


GO_KEYWORDS = set("break default func interface select case defer go map struct chan else goto package switch const fallthrough if range type continue for import return var".split())


def keyword_in_go_position(cfg):
    """finding D13 is about exactly this: a Go keyword where the grammar of the configuration accepts an identifier (constructor, value,
    decorator, function, `!value` argument, method of a call, field name), which only the formatter of the normal mode sees"""
    vs = []
    for s_ in (cfg.get("services") or {}).values():
        if not isinstance(s_, dict):
            continue
        vs += [s_.get("constructor"), s_.get("value"), s_.get("getter"), s_.get("type")]
        vs += [c[0] for c in s_.get("calls") or [] if isinstance(c, list) and c]
        vs += list((s_.get("fields") or {}).keys())
        vs += [a for a in gen._all_args(s_) if isinstance(a, str) and a.startswith("!value")]
    for d in cfg.get("decorators") or []:
        vs += [d.get("decorator")] + [a for a in d.get("arguments") or [] if isinstance(a, str) and a.startswith("!value")]
    m = cfg.get("meta") or {}
    vs += list((m.get("functions") or {}).values()) + [m.get("container_type"), m.get("container_constructor"), m.get("pkg")]
    for v in vs:
        if isinstance(v, str) and GO_KEYWORDS & set(re.findall(r"[A-Za-z_][A-Za-z0-9_]*", re.sub(r'"[^"]*"', "", v.replace("!value", "")))):
            return True
    return False


def fixed_cases():
    fxm = {"pkg": "gen", "imports": {"fx": gen.FX}}
    out = []
    # getters that are legal but not exported (lower-case first letter), typed and not, with and without must-getters
    out.append({"meta": dict(fxm), "services": {"a": {"constructor": "fx.NewA", "getter": "logger"}, "b": {"constructor": "fx.NewA", "type": "*fx.Obj", "getter": "db", "must_getter": True},
                                                "c": {"value": "fx.GlobalVal", "type": "fx.Obj", "getter": "x_1", "scope": "contextual"}, "d": {"constructor": "fx.NewA", "getter": "Public"}}})
    out.append({"meta": dict(fxm, default_must_getter=True, container_type="registry", container_constructor="build"),
                "services": {"a": {"constructor": "fx.NewA", "type": "*fx.Obj", "getter": "a"}}})
    # strings with line breaks and comment delimiters wherever a string can stand: whatever a mode does with them, both modes agree
    for v in ("line1\nline2", "a\r\nb", "x */ y /* z", "// c\n// d", "tab\tand `backtick`", "\u2028sep", "end\n"):
        out.append({"meta": dict(fxm), "parameters": {"p": v, "q": "pre-%p%"},
                    "services": {"a": {"constructor": "fx.NewA", "arguments": [v, "%p%"], "calls": [["Call1", [v]]], "fields": {"F1": v}, "getter": "GetA"}},
                    "decorators": [{"tag": "t", "decorator": "fx.Dec1", "arguments": [v]}]})
    return out


def run(ctx, n=None):
    n = n or (40 if ctx.quick else 500)
    root = os.path.join(ctx.scratch(), "c17")
    shutil.rmtree(root, ignore_errors=True)
    mod = levelb.Module(root)
    cfgs = c01.special_cases()[:10] + c01.template_pkg_cases() + [gen.gen_config(ctx.rng) for _ in range(n)]
    cfgs += list(c10.defect_configs().values())
    cfgs += fixed_cases()
    violations, nontriv = [], set()
    dist = {"both_accepted": 0, "both_rejected": 0, "user_type_refs_in_stub": 0, "getters": 0}
    both = []
    for i, cfg in enumerate(cfgs):
        files = [gen.yaml_doc(cfg)]
        if i % 7 == 0:
            # the everyday history: generate into a fresh path, then generate again over what the same mode wrote before —
            # accepted every time, in both modes, with the same bytes
            hist = []
            for rnd in range(3):
                rn2, on2, pn2 = mod.gen_pkg("rn%03d" % i, files, over_previous_output=True)
                rs2, os2, ps2 = mod.gen_pkg("rs%03d" % i, files, flags=["--stub"], over_previous_output=True)
                hist.append((rn2, rs2, open(pn2, "rb").read() if rn2 == 0 else None, open(ps2, "rb").read() if rs2 == 0 else None, on2, os2))
            dist["regenerated"] = dist.get("regenerated", 0) + 1
            for d_ in ("rn%03d" % i, "rs%03d" % i):
                shutil.rmtree(os.path.join(root, d_), ignore_errors=True)
            bad = [(k, h) for k, h in enumerate(hist) if (h[0] != 0 or h[1] != 0) and (hist[0][0], hist[0][1]) == (0, 0)]
            if bad:
                k, h = bad[0]
                violations.append({"sig": "verdict-differs" if (h[0] == 0) != (h[1] == 0) else "regeneration-rejected",
                                   "what": "generation #%d into the same path (previous output of the same mode present from #2 on): normal exits %d, --stub exits %d: %s" % (k + 1, h[0], h[1], (h[4] if h[0] else h[5])[-300:]), "files": files})
            elif any(h[2] != hist[0][2] or h[3] != hist[0][3] for h in hist):
                violations.append({"sig": "regeneration-differs", "what": "a later generation over the previous output differs from the first", "files": files})
        rn, on, pn = mod.gen_pkg("n%03d" % i, files)
        rs, os_, ps = mod.gen_pkg("s%03d" % i, files, flags=["--stub"])
        if (rn == 0) != (rs == 0):
            fmt_only = rn != 0 and "CodeFormatter.Format" in on and keyword_in_go_position(cfg)
            violations.append({"sig": "D13:verdict-differs-formatter-only" if fmt_only else "verdict-differs",
                               "what": "normal mode exits %d, --stub exits %d for the same configuration: %s" % (rn, rs, (on if rn else os_)[-300:]), "files": files})
            for d in ("n%03d" % i, "s%03d" % i):
                shutil.rmtree(os.path.join(root, d), ignore_errors=True)
            continue
        if rn != 0:
            dist["both_rejected"] += 1
            for d in ("n%03d" % i, "s%03d" % i):
                shutil.rmtree(os.path.join(root, d), ignore_errors=True)
            continue
        dist["both_accepted"] += 1
        a = ctx.impl.ask({"op": "surface", "path": pn})
        b = ctx.impl.ask({"op": "surface", "path": ps})
        if "err" in a or "err" in b:
            violations.append({"sig": "unparsable-output", "what": "%r %r" % (a.get("err"), b.get("err")), "files": files}); continue
        if b["constraint"] != "gontainerstub" or a["constraint"] != "":
            violations.append({"sig": "stub-constraint", "what": "build constraints: normal %r, stub %r" % (a["constraint"], b["constraint"]), "files": files})
        ka, kb = surface_key(a), surface_key(b)
        if ka != kb:
            diff = {"only_normal": [f for f in ka["funcs"] if f not in kb["funcs"]], "only_stub": [f for f in kb["funcs"] if f not in ka["funcs"]],
                    "package": (ka["package"], kb["package"]), "types": (ka["types"], kb["types"])}
            violations.append({"sig": "surface-differs", "what": "API surface of --stub differs from the normal output: %r" % (diff,), "files": files})
        for f in b["funcs"]:
            if f["name"] != "init" and f["body"] != 'func() { panic("stub") }()':
                violations.append({"sig": "stub-body", "what": "stub function %s has body %r" % (f["name"], f["body"][:200]), "files": files})
        for r in b["refs"]:
            if r["pkg"].startswith(USER_PKGS) and r["where"] not in ("signature", "typedecl") and not r["where"].startswith("body:init"):
                violations.append({"sig": "stub-references-user-value", "what": "stub references %s.%s in %s" % (r["pkg"], r["sym"], r["where"]), "files": files})
            if r["pkg"].startswith(USER_PKGS):
                dist["user_type_refs_in_stub"] += 1
        dist["getters"] += sum(1 for f in b["funcs"] if f["recv"] and f["name"] != "init")
        nontriv.add(json.dumps(kb["funcs"]))
        src = open(pn).read()
        for name, path in (("n%03d" % i, pn), ("s%03d" % i, ps)):
            if re.search(r"^package main$", open(path).read(), re.M):
                mod.write(name + "/zz_main.go", ("//go:build gontainerstub\n\n" if name[0] == "s" else "") + "package main\n\nfunc main() {}\n")
        both.append((i, files))
    # type-check both modes
    if both:
        rc, out = mod.go(["vet"] + ["./n%03d" % i for i, _ in both])
        rc2, out2 = mod.go(["vet", "-tags", "gontainerstub"] + ["./s%03d" % i for i, _ in both])
        for rcx, outx, pre in ((rc, out, "n"), (rc2, out2, "s")):
            if rcx != 0:
                bad = sorted(set(re.findall(r"\b%s(\d{3})/" % pre, outx)))
                for k in bad[:5] or ["?"]:
                    fl = next((f for i, f in both if "%03d" % i == k), [])
                    msgs = re.findall(r"%s%s/\S+: (.*)" % (pre, k), outx)[:3] or [outx[-300:]]
                    sig = c01.classify(msgs, fl)
                    violations.append({"sig": sig if sig.startswith("D") else "typecheck-" + ("stub" if pre == "s" else "normal"), "what": "%s output does not type-check: %s" % ("stub" if pre == "s" else "normal", "; ".join(msgs)), "files": fl})
    return {"evaluations": len(cfgs) * 2, "distinct_nontrivial": len(nontriv), "programs": dist["both_accepted"] * 2, "disagreements_checked": dist["both_accepted"],
            "rule": "special combinations + seeded random configurations + every defect class, each built in normal and --stub mode and compared pairwise (verdict, go/parser surface, stub bodies, user-package references, go vet in both modes); distinct = distinct method sets",
            "samples": [{"files": f} for _, f in both[:2]], "distribution": dist, "violations": violations, "corr_fail": []}


def search(ctx):
    return run(ctx, n=150)


def replay(ctx, payload):
    root = os.path.join(ctx.scratch(), "c17r")
    mod = levelb.Module(root)
    rn, on, pn = mod.gen_pkg("n000", payload["files"])
    rs, os_, ps = mod.gen_pkg("s000", payload["files"], flags=["--stub"])
    v = []
    if (rn == 0) != (rs == 0):
        v.append({"sig": payload.get("sig", "verdict-differs"), "what": "normal %d stub %d" % (rn, rs), "files": payload["files"]})
    return {"evaluations": 2, "distinct_nontrivial": 2, "programs": 2, "violations": v, "samples": [payload["files"]]}
