"""C16 — ignore flags only narrow the set of diagnostics."""
import copy, re
from vlib import core, gen, runsc
from vlib.props import c05, c06, c07

LEVEL = "proof"
TEXT = ("flags_narrow / accept_iff_rest_ignored / accepted_output_flag_independent are Lean theorems over the runner model for every world and every flag "
        "combination; flag_wiring pins (decide) the chain command-line flag -> payload field -> Active(!flag) -> getter -> service -> validator function as "
        "regenerated from cmd_build.go, runner_builder.go and the shipped container. The model is tied by running the real command on configurations with "
        "every mix of defect classes under all four flag combinations and comparing exit, stdout and output bytes; the implementation is also judged directly.")
TECHNIQUE = "Lean 4 theorems over the runner model + regenerated flag-wiring table (decide) + 4-way flag differential runs of the real command"
LEAN_PROPS = ["C16"]
TRUSTED = ["cobra flag parsing", "template/gofmt are parameters of the runner model"]
ASSUMPTIONS = []

FLAGSETS = [{}, {"ignoreParams": True}, {"ignoreServices": True}, {"ignoreParams": True, "ignoreServices": True}]


def mixes(rng, n):
    base = {"meta": {"pkg": "gen", "imports": {"fx": gen.FX}}, "parameters": {"p": 1},
            "services": {"a": {"constructor": "fx.NewA", "arguments": ["%p%"]}, "b": {"constructor": "fx.NewA", "arguments": ["@a"]}}}
    out = []
    # the missing names come in two spellings: one sorting after and one sorting before every declared name
    # (validators walk dependencies in sorted order, so the relative position of a missing and a present name matters)
    for mask, miss in [(m, x) for m in range(32) for x in (("nope",) if not m & 3 else ("nope", "a0"))]:
        c = copy.deepcopy(base)
        if mask & 1:
            c["services"]["a"]["arguments"].append("%" + miss + "%")
        if mask & 2:
            c["services"]["b"]["arguments"].insert(0, "@" + miss)
        if mask & 4:
            c["services"]["a"]["arguments"].append("@b")
        if mask & 8:
            c["services"]["b"]["scope"] = "shared"
            c["services"]["c"] = {"constructor": "fx.NewA", "scope": "contextual"}
            c["services"]["b"]["arguments"].append("@c")
        if mask & 16:
            c["services"]["d e"] = {"constructor": "New A"}
        out.append(("mask%02d%s" % (mask, miss), c))
    # further constellations: a contextual service that sorts FIRST next to a shared service with an undefined dependency;
    # a parameter cycle one of whose members references an undefined parameter before the reference that closes the cycle
    c = copy.deepcopy(base)
    c["services"]["A0ctx"] = {"constructor": "fx.NewA", "scope": "contextual"}      # 'A' sorts before every lower-case name
    c["services"]["b"]["scope"] = "shared"
    c["services"]["b"]["arguments"].append("@zz_undefined")
    out.append(("ctx-first+missing-service", c))
    c = copy.deepcopy(base)
    c["parameters"].update({"baseUrl": "%scheme%://%host%/api", "host": "mirror.%baseUrl%"})
    out.append(("param-cycle+missing-param-before", c))
    c = copy.deepcopy(base)
    c["parameters"].update({"baseUrl": "%host%:%port%", "host": "mirror.%baseUrl%"})
    out.append(("param-cycle+missing-param-after", c))
    # many diagnostics of one class followed by violations of the other classes: no rule stops the later ones, whatever the count
    for many, k in (("params", 12), ("params", 40), ("services", 12), ("services", 40), ("both", 15)):
        c = copy.deepcopy(base)
        for j in range(k):
            args = []
            if many in ("params", "both"):
                args += ["%%missing_p%02d%%" % j, "%%missing_q%02d%%" % j]
            if many in ("services", "both"):
                args += ["@missing_s%02d" % j]
            c["services"]["m%02d" % j] = {"constructor": "fx.NewA", "arguments": args}
        c["services"]["zlast"] = {"constructor": "fx.NewA", "arguments": ["@teamLeader" if many == "params" else "%finalParam%"]}
        c["services"]["y1"] = {"constructor": "fx.NewA", "arguments": ["@y2"]}
        c["services"]["y2"] = {"constructor": "fx.NewA", "arguments": ["@y1"]}
        out.append(("many-%s-%d" % (many, k), c))
    for i in range(n):
        c = gen.gen_config(rng)
        if i % 2:
            c = c06.mutate(rng, c)
        c.setdefault("meta", {})["pkg"] = "gen"
        out.append(("rand%03d" % i, c))
    return out


def expected_classes(cfg):
    """ground truth, from the documentation-level oracles of C05/C06/C07: which diagnostic classes the configuration has"""
    mp, ms = c06.expected_missing(cfg)
    out = set()
    if c05.expected_pairs(cfg):
        out.add("scope")
    if c07.doc_cyclic(cfg):
        out.add("cycles")
    if mp:
        out.add("params")
    if ms:
        out.add("services")
    return out


def class4(line):
    if line.startswith("output.ValidateServicesScopes:"):
        return "scope"
    if line.startswith("output.ValidateCircularDeps:"):
        return "cycles"
    return classify(line)


def classify(line):
    if line.startswith("output.ValidateParamsExist:"):
        return "params"
    if line.startswith("output.ValidateServicesExist:"):
        return "services"
    return "other"


def run(ctx, n=None):
    n = n if n is not None else (25 if ctx.quick else 300)
    cases = mixes(ctx.rng, n)
    violations, corr_fail, nontriv = [], [], set()
    dist = {"accepted_noflags": 0, "accepted_only_with_flags": 0, "reaches_output_validation": 0, "mixed_classes": 0}
    for name, cfg in cases:
        obs = []
        for fl in FLAGSETS:
            sc = {"name": name, "files": {"cfg/a.yaml": gen.yaml_doc(cfg)}, "patterns": ["cfg/a.yaml"], "out": "out/gen.go", "pre": "absent", "flags": fl}
            r = runsc.run_scenario(ctx, sc)
            for d in r["diffs"][:1]:
                if len(corr_fail) < 10:
                    corr_fail.append({"op": "run:" + d[0], "scenario": sc, "impl": d[1], "model": d[2]})
            ip = r.get("inproc") or {}
            if "panic" in ip:
                violations.append({"sig": "panic", "what": ip["panic"], "scenario": sc})
            obs.append((fl, r["cli"], ip.get("errs", [])))
        c0, e0 = obs[0][1], obs[0][2]
        reaches = c0["exit"] == 0 or (e0 and all(l.startswith("output.") for l in e0))
        dist["reaches_output_validation"] += bool(reaches)
        dist["accepted_noflags"] += c0["exit"] == 0
        classes = {classify(l) for l in e0}
        dist["mixed_classes"] += len(classes) > 1
        # the flag-free run against the ground truth: exactly the classes the configuration really has (a flag can only
        # be judged to "suppress exactly its class" if the unsuppressed list is right in the first place)
        if reaches:
            try:
                want_cls = expected_classes(cfg)
            except Exception:
                want_cls = None
            got_cls = {class4(l) for l in e0} - {"other"}
            if want_cls is not None and got_cls != want_cls:
                violations.append({"sig": "diagnostic-classes", "what": "without flags the diagnostics are of classes %r, the configuration has %r: %r" % (sorted(got_cls), sorted(want_cls), e0[:4]),
                                   "scenario": {"name": name, "files": {"cfg/a.yaml": gen.yaml_doc(cfg)}, "patterns": ["cfg/a.yaml"], "out": "out/gen.go", "pre": "absent", "flags": {}}})
        if reaches and e0:
            nontriv.add(core.canon(sorted(classes)) + name[:4])
        for fl, c, e in obs[1:]:
            ign = {"params"} if fl.get("ignoreParams") else set()
            ign |= {"services"} if fl.get("ignoreServices") else set()
            scn = {"name": name, "files": {"cfg/a.yaml": gen.yaml_doc(cfg)}, "patterns": ["cfg/a.yaml"], "out": "out/gen.go", "pre": "absent", "flags": fl}
            if reaches:
                want = [l for l in e0 if classify(l) not in ign]
                if c0["exit"] == 0:
                    if c["exit"] != 0 or c["after"] != c0["after"]:
                        violations.append({"sig": "flags-change-accepted-output", "what": "accepted without flags, but with %r exit=%d / different bytes" % (fl, c["exit"]), "scenario": scn})
                else:
                    if e != want and c["exit"] != 0:
                        violations.append({"sig": "flags-not-exact", "what": "with %r the diagnostics are %r, expected the flag-free ones minus the ignored class: %r" % (fl, e, want), "scenario": scn})
                    if (c["exit"] == 0) != (not want):
                        violations.append({"sig": "flags-accept-iff", "what": "with %r exit=%d but remaining violations are %r" % (fl, c["exit"], want), "scenario": scn})
                    dist["accepted_only_with_flags"] += c["exit"] == 0
            else:
                if e != e0 or c["exit"] != c0["exit"]:
                    violations.append({"sig": "flags-affect-earlier-steps", "what": "flags %r change a run that fails before output validation: %r vs %r" % (fl, e, e0), "scenario": scn})
    return {"evaluations": len(cases) * 4, "distinct_nontrivial": len(nontriv),
            "rule": "all 32 subsets of {missing param, missing service, cycle, scope, grammar} on a base configuration (missing names sorting before and after the declared ones) + random (mutated) configurations, each under the 4 flag combinations; non-trivial = reaches output validation with at least one diagnostic",
            "samples": [{"name": n_, "cfg": gen.yaml_doc(c)[:400]} for n_, c in cases[:2] + cases[57:59]], "distribution": dist,
            "violations": violations, "corr_fail": corr_fail}


def search(ctx):
    return run(ctx, n=100)


def replay(ctx, payload):
    sc = payload["scenario"]
    import json
    cfg = json.loads(sc["files"]["cfg/a.yaml"])
    saved = ctx.rng
    r = run_one(ctx, sc["name"], cfg)
    return r


def run_one(ctx, name, cfg):
    import types
    class R:  # tiny rng stub: no random cases
        pass
    old = mixes
    res = None
    try:
        globals()["mixes"] = lambda rng, n: [(name, cfg)]
        res = run(ctx, n=0)
    finally:
        globals()["mixes"] = old
    return res
