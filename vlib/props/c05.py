"""C05 — scope semantics and the shared-on-contextual rule."""
import itertools, json, re
from vlib import core, gen, corr, behave, spec, levelb

LEVEL = "proof"
TEXT = ("shared_once_for_compiled / contextual_once_for_compiled: for every program that runs what Compile.compile returned (CompiledFrom) and whose compiled graph is acyclic, across ANY history of calls a shared service is instantiated once per container and a contextual one once per context — no recording hypothesis left (compiled_recorded: every argument, field, call argument and decorator argument the compiler emits records the dependency the runtime follows). scope_errors_exact: a pair (s, c) is reported iff s is declared shared, c declared contextual and c is reachable from s in the dependency graph — so no other "
        "configuration is rejected for scope reasons (uses reach_sound_complete); scope_accept_iff; resolved_scope (unset resolves to contextual iff a declared-contextual "
        "service is reachable, else shared); scope_keyword_mapping (keyword -> compiled scope -> emitted setter, regenerated template table); shared_once and "
        "contextual_once_per_bag over the runtime model. Build-time rule: all graphs over <= 3 services with every scope assignment (thorough) compared with the "
        "implementation and with an independent Python oracle. Run time: the runtime model and the probe are run on the same histories of Get/GetInContext (same "
        "context, different contexts, none) and instance identity (serial numbers) is compared and judged directly. The dependency notion is the documented one: graph_faithful (C07) relates the built graph to ConfigDep (own arguments incl. calls and fields, carriers of requested tags, dependencies of decorators of carried tags), scope_errors_exact and default_scope_documented are stated over it, and reachability needs no totality assumption (reach_total). Histories include the generated getters (a getter call is judged as the Get it stands for), arg-less decorated services and multi-file distributions. Whole histories (runtime model, any length, any mix of Get / GetInContext / GetTaggedBy / GetTaggedByInContext / GetParam / attached contexts, acyclicity as a rank): shared_once_per_container, shared_first_get_caches, contextual_once_per_context, contexts_are_separate, plain_get_has_fresh_bag — by one induction over the mutually recursive get / resolveArg / resolveArgs / getTagged; the driver executes its scripts through the same step function (Model/History.stepOp).")
TECHNIQUE = "Lean 4 theorem (exact characterisation of the scope validator through graph reachability) + exhaustive small graphs x scope assignments + runtime model vs probe on Get/GetInContext histories"
LEAN_PROPS = ["C05"]
TRUSTED = ["gontainer-helpers/v3 scope resolution and caches are modelled (Model/Runtime.lean), tied by level B", "graph_faithful (C07) proves the built graph equal to the documented relation; the Python oracle judges the implementation against that relation per case"]
ASSUMPTIONS = []

SCOPES = [None, "shared", "contextual", "non_shared"]


def expected_pairs(cfg):
    clo = gen.dep_closure(cfg)
    sv = cfg["services"]
    return sorted((s, c) for s in sv for c in clo[s] if sv[s].get("scope") == "shared" and c in sv and sv[c].get("scope") == "contextual")


def graphs(k, with_tags):
    names = ["s%d" % i for i in range(k)]
    opts = ["@" + n for n in names] + (["!tagged t"] if with_tags else [])
    for deps in itertools.product(*[range(2 ** len(opts))] * k):
        # only acyclic-by-index service edges plus optional tag edges keep the space small and mostly valid
        for carry in (itertools.product([0, 1], repeat=k) if with_tags else [tuple([0] * k)]):
            svcs = {}
            for i, n in enumerate(names):
                args = [o for j, o in enumerate(opts) if deps[i] >> j & 1 and not (o.startswith("@") and int(o[2:]) <= i)]
                s = {"constructor": "fx.NewA", "arguments": [n] + args}
                if carry[i]:
                    s["tags"] = ["t"]
                svcs[n] = s
            yield svcs


def scope_cases(ctx):
    out = []
    ks = [2] if ctx.quick else [2, 3]
    for k in ks:
        seen = set()
        for svcs in graphs(k, True):
            key = json.dumps(svcs, sort_keys=True)
            if key in seen:
                continue
            seen.add(key)
            for sc in itertools.product(SCOPES, repeat=k):
                cfg = {"meta": {"pkg": "gen", "imports": {"fx": gen.FX}}, "services": json.loads(key)}
                for n, x in zip(sorted(cfg["services"]), sc):
                    if x:
                        cfg["services"][n]["scope"] = x
                out.append(cfg)
    if not ctx.quick:
        out = out[::3]
    # decorators on the tag with a contextual dependency
    for sc in itertools.product(SCOPES, repeat=3):
        cfg = {"meta": {"pkg": "gen", "imports": {"fx": gen.FX}},
               "services": {"a": {"constructor": "fx.NewA", "arguments": ["a"], "tags": ["t"]}, "b": {"constructor": "fx.NewA", "arguments": ["b"]}, "c": {"constructor": "fx.NewA", "arguments": ["c", "@a"]}},
               "decorators": [{"tag": "t", "decorator": "fx.Dec1", "arguments": ["@b"]}]}
        for n, x in zip("abc", sc):
            if x:
                cfg["services"][n]["scope"] = x
        out.append(cfg)
    return out


def own_serials(desc, name, acc=None):
    """serial numbers of the objects built for service `name` (fixture objects whose first argument is the name)"""
    acc = acc if acc is not None else []
    if isinstance(desc, dict):
        if desc.get("k") == "obj" and desc.get("args", {}).get("v") and desc["args"]["v"][0].get("v") == name and desc.get("ctor", "").endswith(".NewA"):
            acc.append(desc["serial"])
        # a decorated service: the decorator's result (tag, service id, …) is the instance
        if desc.get("k") == "obj" and desc.get("ctor", "").endswith(".Dec1") and len(desc.get("args", {}).get("v", [])) > 1 and desc["args"]["v"][1].get("v") == name:
            acc.append(desc["serial"])
        for v in desc.values():
            own_serials(v, name, acc)
    elif isinstance(desc, list):
        for v in desc:
            own_serials(v, name, acc)
    return acc


def history_cfg(rng):
    k = rng.randint(2, 4)
    names = ["s%d" % i for i in range(k)]
    svcs = {}
    for i, n in enumerate(names):
        args = [n] + ["@" + m for m in names[:i] if rng.random() < 0.5]
        if i > 0 and rng.random() < 0.3:
            args.append("@" + rng.choice(names[:i]))      # a second injection of the same dependency
        s = {"constructor": "fx.NewA", "arguments": args}
        if rng.random() < 0.6:
            s["getter"] = "Get" + n.upper()
            if rng.random() < 0.7:
                s["must_getter"] = True
        sc = rng.choice(SCOPES)
        if sc:
            s["scope"] = sc
        svcs[n] = s
    cfg = {"meta": {"pkg": "gen", "imports": {"fx": gen.FX}}, "services": svcs}
    if rng.random() < 0.4:
        # a service with no arguments, calls or fields of its own whose only dependency comes through a decorator of its tag
        svcs["rq"] = {"constructor": "fx.NewA", "arguments": ["rq"], "scope": rng.choice(["contextual", "contextual", None])}
        if svcs["rq"]["scope"] is None:
            del svcs["rq"]["scope"]
        svcs["h"] = {"constructor": "fx.NewC", "tags": ["dt"], "getter": "GetH"}
        cfg["decorators"] = [{"tag": "dt", "decorator": "fx.Dec1", "arguments": ["@rq"]}]
    if rng.random() < 0.5:
        # services created from a VALUE expression are evaluated per construction as well: with a non-shared scope every
        # context / Get sees a fresh object, whose call log therefore shows exactly its own call
        svcs["vv"] = {"value": "&fx.Obj{}", "scope": rng.choice(["contextual", "non_shared"]), "calls": [["Call1", ["v"]]], "fields": {"F1": "f"}}
    gen._repair_scopes(cfg)
    return cfg


def resolved(cfg, n):
    s = cfg["services"][n]
    if s.get("scope"):
        return s["scope"]
    clo = gen.dep_closure(cfg)
    return "contextual" if any(cfg["services"][d].get("scope") == "contextual" for d in clo[n]) else "shared"


def getter_methods(cfg):
    """generated getter method -> (service, uses a context)"""
    out = {}
    dm = cfg.get("meta", {}).get("default_must_getter", False)
    for n, s in cfg["services"].items():
        g = s.get("getter")
        if not g or s.get("todo"):
            continue
        out[g] = (n, False)
        out[g + "InContext"] = (n, True)
        if s.get("must_getter", dm):
            out["Must" + g] = (n, False)
            out["Must" + g + "InContext"] = (n, True)
    return out


def norm_op(cfg, op):
    """a getter call is a Get / GetInContext of its service"""
    if op[0] == "call":
        n, inctx = getter_methods(cfg).get(op[1], (None, False))
        if n is None:
            return op
        return ["getctx", op[2], n] if inctx else ["get", n]
    return op


def judge_history(cfg, ops, results):
    """instance identity, judged directly from the probe's descriptions"""
    shared = {}
    perctx = {}
    ops = [norm_op(cfg, o) for o in ops]
    for idx, (op, r) in enumerate(zip(ops, results)):
        if op[0] not in ("get", "getctx") or "ok" not in r:
            continue
        key = ("tree", idx) if op[0] == "get" else ("ctx", op[1])
        for n in cfg["services"]:
            ser = own_serials(r["ok"], n)
            if not ser:
                continue
            sc = resolved(cfg, n)
            if sc == "shared":
                for x in ser:
                    if shared.setdefault(n, x) != x:
                        return "shared service %r has instances #%d and #%d in one container (op %d %r)" % (n, shared[n], x, idx, op)
            elif sc == "contextual":
                d = perctx.setdefault(n, {})
                for x in ser:
                    if d.setdefault(key, x) != x:
                        return "contextual service %r has two instances (#%d, #%d) within one call tree/context %r" % (n, d[key], x, key)
                for k2, x2 in d.items():
                    if k2 != key and x2 in ser:
                        return "contextual service %r instance #%d is shared between %r and %r" % (n, x2, k2, key)
            else:
                # non_shared: occurrences that are distinct objects in the tree must have distinct serials per injection:
                pass
    # value-created services with a non-shared scope: a fresh object per context / Get (exactly one own call in its log)
    if "vv" in cfg["services"]:
        seen_ctx = {}
        for idx, (op, r) in enumerate(zip(ops, results)):
            if op[0] in ("get", "getctx") and op[-1] == "vv" and "ok" in r:
                n_ = len(r["ok"].get("log", []))
                if n_ != 1:
                    return "value-created service 'vv' (%s): the object returned by op %d %r carries %d calls — the value expression is not evaluated per construction" % (cfg["services"]["vv"]["scope"], idx, op, n_)
    # non_shared: a fresh instance for every Get
    for n in cfg["services"]:
        if resolved(cfg, n) == "non_shared" and n != "vv":       # vv is anonymous (serial 0): judged by its call log above
            tops = [r["ok"]["serial"] for op, r in zip(ops, results) if op[0] in ("get", "getctx") and op[-1] == n and "ok" in r]
            if len(set(tops)) != len(tops):
                return "non_shared service %r returned the same instance for two Gets: %r" % (n, tops)
    return None


def run(ctx, nhist=None):
    violations, corr_fail, nontriv = [], [], set()
    dist = {"scope_cases": 0, "rejected_for_scope": 0, "histories": 0, "contextual_resolved": 0}
    # 1. the build-time rule
    for cfg in scope_cases(ctx):
        a, b, d = corr.compile_pair(ctx, corr.files_of(cfg))
        if "panic" in a:
            violations.append({"sig": "panic", "what": a["panic"], "files": corr.files_of(cfg)}); continue
        for x in d[:1]:
            if len(corr_fail) < 10:
                corr_fail.append({"op": "compile:" + x[0], "files": corr.files_of(cfg), "impl": x[1], "model": x[2]})
        if a.get("errs"):
            continue
        dist["scope_cases"] += 1
        got = sorted(tuple(re.findall(r'"([^"]+)"', l)[:2]) for l in a["scope"])
        want = expected_pairs(cfg)
        if got != want:
            violations.append({"sig": "scope-rule", "what": "scope diagnostics name %r, the documented rule gives %r" % (got, want), "files": corr.files_of(cfg)})
        if want:
            dist["rejected_for_scope"] += 1
            nontriv.add(core.canon(want) + core.canon(sorted((n, s.get("scope")) for n, s in cfg["services"].items())))
    # 1b. unrestricted configurations: value/type-only services with calls/fields/tags, services without arguments, decorators, cycles
    for _ in range(600 if ctx.quick else 8000):
        cfg = gen.gen_config_wild(ctx.rng)
        a, b, d = corr.compile_pair(ctx, corr.files_of(cfg))
        if "panic" in a or a.get("errs") or "decodeErr" in a:
            continue
        for x in d[:1]:
            if len(corr_fail) < 10:
                corr_fail.append({"op": "compile:" + x[0], "files": corr.files_of(cfg), "impl": x[1], "model": x[2]})
        dist["scope_cases"] += 1
        got = sorted(tuple(re.findall(r'"([^"]+)"', l)[:2]) for l in a["scope"])
        want = expected_pairs(cfg)
        if got != want:
            violations.append({"sig": "scope-rule", "what": "scope diagnostics name %r, the documented rule gives %r" % (got, want), "files": corr.files_of(cfg)})
        if want:
            dist["rejected_for_scope"] += 1
            nontriv.add(core.canon(want) + core.canon(sorted((n, s.get("scope")) for n, s in cfg["services"].items())))
    # 2. run-time identity on histories
    nhist = nhist or (30 if ctx.quick else 1000)
    items = []
    for i in range(nhist):
        cfg = history_cfg(ctx.rng)
        names = list(cfg["services"])
        ops = [["newctx", "c1"], ["newctx", "c2"]]
        gm = getter_methods(cfg)
        for _ in range(ctx.rng.randint(3, 8)):
            n = ctx.rng.choice(names)
            ops.append(ctx.rng.choice([["get", n], ["getctx", "c1", n], ["getctx", "c2", n], ["getctx", "c1", n]]))
            # the generated getters are Gets too: G / MustG without a context, GInContext / MustGInContext with theirs
            if gm and ctx.rng.random() < 0.6:
                m = ctx.rng.choice(sorted(gm))
                ops.append(["call", m, ctx.rng.choice(["c1", "c2"])] if gm[m][1] else ["call", m])
        items.append((cfg, ops))
    out, err = behave.run_batch(ctx, items, tag="c05")
    if err:
        violations.append({"sig": "probe-build", "what": err})
    for (cfg, ops), rec in zip(items, out):
        if not rec["accepted"]:
            if "Scope" not in rec["cli_out"]:
                violations.append({"sig": "history-config-rejected", "what": rec["cli_out"][-300:], "files": rec["files"]})
            continue
        if rec["impl"] is None:
            violations.append({"sig": "probe-crash", "what": "%r" % (rec.get("impl_crash"),), "files": rec["files"]}); continue
        dist["histories"] += 1
        dist["contextual_resolved"] += any(resolved(cfg, n) == "contextual" and not cfg["services"][n].get("scope") for n in cfg["services"])
        if rec["model"] is not None:
            d = behave.compare_script(rec["impl"], rec["model"])
            for x in d[:1]:
                if len(corr_fail) < 10:
                    corr_fail.append({"op": "rt:history", "files": rec["files"], "history": ops, "at": x[0], "impl": x[1], "model": x[2]})
        e = judge_history(cfg, ops, rec["impl"])
        if e:
            violations.append({"sig": "scope-identity", "what": e, "files": rec["files"], "history": ops})
    return {"evaluations": dist["scope_cases"] + dist["histories"], "distinct_nontrivial": len(nontriv), "programs": dist["histories"],
            "rule": "all dependency graphs over 2 (thorough: 3) services incl. a tag edge x all 4^k assignments of {unset, shared, contextual, non_shared} + a decorator constellation (build-time rule); %d random configurations x random Get/GetInContext histories over two contexts (run-time identity); distinct = distinct rejected (pairs, assignment)" % nhist,
            "samples": [corr.files_of(items[0][0])[0][:400], items[0][1]], "distribution": dist, "violations": violations, "corr_fail": corr_fail}


def search(ctx):
    return run(ctx, nhist=150)


def replay(ctx, payload):
    cfg = json.loads(payload["files"][0])
    a = ctx.impl.ask({"op": "compile", "files": payload["files"], "version": ""})
    v = []
    if not a.get("errs"):
        got = sorted(tuple(re.findall(r'"([^"]+)"', l)[:2]) for l in a["scope"])
        if got != expected_pairs(cfg):
            v.append({"sig": "scope-rule", "what": "%r vs %r" % (got, expected_pairs(cfg)), "files": payload["files"]})
    return {"evaluations": 1, "distinct_nontrivial": 1, "violations": v, "samples": payload["files"]}
