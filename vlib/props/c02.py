"""C02 — the generated container builds each service exactly as declared."""
import json
from vlib import core, gen, behave, spec

LEVEL = "proof"
TEXT = ("Compile side proved in Lean for all inputs: the wired first-match chain classifies every argument form (resolve_classifies, chain order pinned to the "
        "regenerated shipped wiring), resolvers hand the declared value on unchanged and arguments keep their order (args_order_preserved), todo services "
        "short-circuit, scope keywords map one-to-one. Run-time side: an executable Lean model of the pinned runtime over the fixture universe "
        "(Model/Runtime.lean) runs the same script as the probe linked with the generated package; whole object graphs (constructor symbol, arguments in "
        "order, fields, call log, wither/decorator chains) must coincide, and the probe's graphs are also judged by an independent documentation-level "
        "oracle. The runtime library itself is modelled, not verified. Also proved: fields are assigned in sorted name order, calls keep order, names and wither flags, every call receives its declared arguments (fields_sorted_by_name, calls_order_preserved, call_args_preserved, service_parts), and over the emission model of the constructor template (Model/Emit.lean): creation, then fields, then calls, then tags/scope, then registration (emit_block_shape), every service — live or todo — is registered under its name (every_service_registered), a value service is a closure evaluated per construction, never a pre-built instance (value_is_evaluated_per_construction); the emission model is tied by re-parsing (go/ast) every generated constructor of the run.")
TECHNIQUE = "Lean 4 theorems over the compiler model (order preservation, first-match classification) + executable runtime model vs compiled generated code (probe) on random/pairwise configurations"
LEAN_PROPS = ["C02"]
TRUSTED = ["gontainer-helpers/v3 (container, caller, setter, copier) is modelled by Model/Runtime.lean and tied by level B only",
           "templates: emitted SetConstructor/SetField/AppendCall/AppendWither order is validated by executing the generated code, not proved"]
ASSUMPTIONS = ["fixture constructors accept any arguments (variadic any)"]


def fixed_cases():
    fx = {"pkg": "gen", "imports": {"fx": gen.FX}}
    return [
        {"meta": dict(fx), "parameters": {"p": "x", "n": 5}, "services": {
            "dep": {"constructor": "fx.NewA"},
            "a": {"constructor": "fx.NewA", "arguments": [1, "two", 3.5, True, None, "@dep", "!value fx.Global", "$gontainer", "%p%", "a%n%b", "%%"],
                  "fields": {"F2": "@dep", "F1": "%n%"},
                  "calls": [["Call1", ["c1"]], ["With1", ["w1"], True], ["Call2", ["c2", "@dep"]], ["With2", [], True], ["Call1", []]]}}},
        {"meta": dict(fx), "services": {"t": {"todo": True}, "f": {"constructor": "fx.NewFail"}, "u1": {"constructor": "fx.NewA", "arguments": ["@t"]},
                                        "u2": {"constructor": "fx.NewA", "arguments": ["@f"]}, "ok": {"constructor": "fx.NewB", "arguments": [2**63]}}},
        {"meta": dict(fx), "services": {"v1": {"value": "fx.Global"}, "v2": {"value": "&fx.GlobalVal"}, "v3": {"value": "fx.Obj{}"}, "v4": {"value": "&fx.Obj{}"},
                                        "t1": {"type": "*fx.Obj"}, "t2": {"type": "fx.Obj"}, "c": {"constructor": "fx.NewA", "arguments": ["@v1", "@v2", "@v3", "@v4", "@t1", "@t2"]}}},
        # a service that is nothing but a declared type is the zero value of that type — for a pointer type the nil pointer, which
        # can take neither a field nor a dependant's trust: it is never replaced by a fresh object
        {"meta": dict(fx), "services": {"t3": {"type": "*fx.Obj", "fields": {"F1": 1}},
                                        "t6": {"type": "*fx.Obj"}, "d3": {"constructor": "fx.NewA", "arguments": ["@t3"]}, "d6": {"constructor": "fx.NewA", "arguments": ["@t6"]}}},
        # literals that PRINT alike but differ in YAML type, in every position and across services and parameters:
        # each must keep its own type and value (no sharing between equal-looking arguments)
        {"meta": dict(fx), "parameters": {"pi": 10, "ps": "10", "pb": True, "pbs": "true", "pn": None, "pns": "<nil>", "pf": 1.5, "pfs": "1.5"},
         "services": {
            "a": {"constructor": "fx.NewA", "arguments": [8080, "8080", "8080", 8080, True, "true", 1.5, "1.5", None, "<nil>", "nil"]},
            "b": {"constructor": "fx.NewB", "arguments": ["10", 10], "fields": {"F1": "true", "F2": True}, "calls": [["Call1", [3]], ["With1", ["3"], True], ["Call2", ["%pi%", "%ps%", "%pb%", "%pbs%"]]]},
            "c": {"constructor": "fx.NewC", "arguments": ["%pn%", "%pns%", "%pf%", "%pfs%", 10, "10"]},
            # numbers that are equal as numbers but differ in YAML type (int / float / exponent form)
            "d": {"constructor": "fx.NewA", "arguments": [3, 3.0, 7.0, 7, 1000, 1e3, 0, 0.0], "fields": {"F1": 5.0, "F2": 5}, "calls": [["Call1", [2.0]], ["Call2", [2]]]}},
         "decorators": []},
        # a placeholder stays a placeholder when a later file re-opens the service without repeating `todo`
        {"meta": dict(fx), "services": {"t": {"todo": True, "constructor": "fx.NewA", "arguments": ["draft"], "tags": ["x"]},
                                        "u": {"constructor": "fx.NewA", "arguments": ["@t"]}, "v": {"constructor": "fx.NewA", "scope": "non_shared", "tags": ["y"]}},
         "__files__": [{"meta": dict(fx), "services": {"t": {"todo": True, "constructor": "fx.NewA", "arguments": ["draft"]}, "v": {"constructor": "fx.NewA", "scope": "non_shared"}}},
                       {"services": {"t": {"tags": ["x"]}, "u": {"constructor": "fx.NewA", "arguments": ["@t"]}, "v": {"tags": ["y"]}}}]},
        # a call repeated word for word is executed every time it is declared — also when the repetitions come from different files
        {"meta": dict(fx), "services": {"r": {"constructor": "fx.NewA", "calls": [["Call1", [1]], ["With1", ["w"], True], ["Call1", [10]], ["Call1", [1]], ["With1", ["w"], True], ["Call1", [1]]]},
                                        "q": {"constructor": "fx.NewB", "arguments": [7], "calls": [["Call2", []], ["Call2", []]]}},
         "__files__": [{"meta": dict(fx), "services": {"r": {"constructor": "fx.NewA", "calls": [["Call1", [1]], ["With1", ["w"], True]]}, "q": {"constructor": "fx.NewB", "arguments": [7], "calls": [["Call2", []]]}}},
                       {"services": {"r": {"calls": [["Call1", [10]], ["Call1", [1]], ["With1", ["w"], True]]}, "q": {"calls": [["Call2", []]]}}},
                       {"services": {"r": {"calls": [["Call1", [1]]]}}}]},
    ]


def run(ctx, n=None):
    n = n or (40 if ctx.quick else 1500)
    # recorded finding D15: the float literal -0.0 is exported as `float64(-0)`, which Go evaluates to +0
    negzero = {"meta": {"pkg": "gen", "imports": {"fx": gen.FX}}, "services": {"nz": {"constructor": "fx.NewA", "arguments": [-0.0]}}}
    cfgs = fixed_cases() + [negzero] + [gen.gen_config(ctx.rng) for _ in range(n)]
    items = []
    for cfg in cfgs:
        ops = [["get", s] for s in cfg["services"]]
        items.append((cfg, ops))
    out, err = behave.run_batch(ctx, items, tag="c02")
    violations, corr_fail, nontriv = [], [], set()
    dist = {"accepted": 0, "services": 0, "get_errors": 0, "with_calls": 0, "with_withers": 0, "with_fields": 0, "with_decorators": 0}
    if err:
        violations.append({"sig": "probe-build", "what": err})
    for (cfg, ops), rec in zip(items, out):
        if not rec["accepted"]:
            continue
        dist["accepted"] += 1
        if rec["impl"] is None:
            violations.append({"sig": "probe-crash", "what": "probe produced no result: %r" % (rec.get("impl_crash"),), "files": rec["files"]})
            continue
        if cfg is negzero:
            r0 = rec["impl"][0].get("ok", {})
            a0 = (r0.get("args", {}).get("v") or [{}])[0]
            if a0.get("k") == "float64" and a0.get("v") == "0":
                violations.append({"sig": "D15:negative-zero-literal", "what": "the literal -0.0 is injected as +0 (generated code `float64(-0)` is the constant 0)", "files": rec["files"]})
            elif not (a0.get("k") == "float64" and a0.get("v") == "-0"):
                violations.append({"sig": "built-not-as-declared", "what": "literal -0.0 injected as %r" % (a0,), "files": rec["files"]})
            continue
        if rec.get("emit_diff") and len(corr_fail) < 10:
            corr_fail.append({"op": "emit", "files": rec["files"], "impl": rec["emit_diff"].get("impl"), "model": rec["emit_diff"].get("model"), "at": rec["emit_diff"].get("at")})
        dist["constructors_reparsed"] = dist.get("constructors_reparsed", 0) + ("emit_diff" in rec)
        d = behave.compare_script(rec["impl"], rec["model"]) if rec["model"] is not None else []
        for x in d[:1]:
            if len(corr_fail) < 10:
                corr_fail.append({"op": "rt:get", "files": rec["files"], "at": ops[x[0]] if isinstance(x[0], int) else x[0], "impl": x[1], "model": x[2]})
        for (op, name), r in zip(ops, rec["impl"]):
            s = cfg["services"][name]
            dist["services"] += 1
            dist["with_calls"] += bool(s.get("calls"))
            dist["with_withers"] += any(len(c) > 2 and c[2] for c in s.get("calls", []))
            dist["with_fields"] += bool(s.get("fields"))
            dist["with_decorators"] += any(dc["tag"] in [t for t, _ in spec.tags_of(s)] for dc in cfg.get("decorators", []))
            fails = spec.service_can_fail(cfg, name)
            if "err" in r or "panic" in r:
                dist["get_errors"] += 1
                if not fails:
                    violations.append({"sig": "get-unexpected-error", "what": "Get(%r) fails although nothing in its definition can: %s" % (name, r.get("err", r.get("panic"))[:300]), "files": rec["files"]})
                continue
            if fails:
                violations.append({"sig": "get-masks-error", "what": "Get(%r) returns an object although a todo service / failing constructor / failing pattern is needed: %r" % (name, r["ok"].get("ctor")), "files": rec["files"]})
                continue
            try:
                deferred = []
                spec.check_service(cfg, name, r["ok"], deferred)
                spec.check_deferred(cfg, deferred)
            except spec.Mismatch as e:
                violations.append({"sig": "built-not-as-declared", "what": str(e), "files": rec["files"]})
            nontriv.add(json.dumps(s, sort_keys=True, default=str))
    return {"evaluations": dist["services"], "distinct_nontrivial": len(nontriv), "programs": dist["accepted"],
            "rule": "fixed cases covering every argument form/position + seeded random configurations (creation method x argument form x fields x calls/withers x receiver kind x scope x getter); Get of every service through the probe; distinct = distinct service definitions successfully built and checked",
            "samples": [rec["files"][0][:500] for rec in out[:3]], "distribution": dist, "violations": violations, "corr_fail": corr_fail}


def search(ctx):
    return run(ctx, n=150)


def replay(ctx, payload):
    cfg = json.loads(payload["files"][0])
    items = [(cfg, [["get", s] for s in cfg["services"]])]
    saved = gen.gen_config
    try:
        gen.gen_config = lambda rng: cfg
        globals()["fixed_cases"] = lambda: []
        return run(ctx, n=1)
    finally:
        gen.gen_config = saved
