"""C19 — self-hosting fixpoint."""
import json, os, re, shutil, subprocess, tempfile
from vlib import core, gen, corr

LEVEL = "proof"
TEXT = ("A single-instance property: the decisive evidence is the computation — the tool built from the tree regenerates internal/gontainer/gontainer.go from its own "
        "YAML and the result is compared byte for byte (version comment excluded), then a copy of the tree is rebuilt with the regenerated file and regenerates "
        "again (2 generations quick, 4 thorough). Lean adds: fixpoint_stable (one reproducing generation implies all later ones), shipped_wiring/verbose_steps "
        "(the wiring read from the checked-in file has the resolver/factory/step/rule order the YAML declares and every other theorem assumes), and the model "
        "compiles the repository's own configuration to the same Output as the real compiler. yaml_declares_wiring: the wiring read from the checked-in gontainer.go (go/ast) equals, service by service (constructor, dependency arguments in order, tags, decorators), the wiring declared by the YAML files as decoded and merged by the real code — both tables regenerated, equality kernel-checked. Regeneration writes over an existing longer copy of the file, as `make self-compile` does.")
TECHNIQUE = "computation (regenerate + byte diff over generations) + Lean 4 theorems over the wiring table regenerated from the checked-in file + model-vs-implementation compile of the self configuration"
LEAN_PROPS = ["C19"]
TRUSTED = ["go build of the scratch copy", "byte equality is computed, not proved"]
DETERMINISTIC = True   # no random generation: further thorough rounds would repeat the same cases
ASSUMPTIONS = []

SELF = ["internal/gontainer/gontainer.yaml", "internal/gontainer/gontainer_*.yaml"]


def strip(b):
    return re.sub(rb"(?m)^// gontainer version: .*$", b"// gontainer version: -", b)


def regen(binary, repo, out):
    p = subprocess.run([binary, "build", "-q", "-i", SELF[0], "-i", SELF[1], "-o", out], cwd=repo, stdout=subprocess.PIPE, stderr=subprocess.STDOUT, text=True, timeout=120)
    return p.returncode, p.stdout


def run(ctx):
    gens = 2 if ctx.quick else 4
    violations, corr_fail = [], []
    tmp = tempfile.mkdtemp(prefix="verif-c19-")
    dist = {"generations": 0, "bytes": 0}
    try:
        checked = open(os.path.join(core.REPO, "internal/gontainer/gontainer.go"), "rb").read()
        out1 = os.path.join(tmp, "gen1.go")
        # like `make self-compile`, regenerate OVER an existing copy of the checked-in file (made longer, so that a
        # write that does not replace the file leaves a visible tail)
        open(out1, "wb").write(checked + b"\n// stale tail of the previous file\n" * 200)
        rc, so = regen(os.path.join(core.CACHE, "gontainer"), core.REPO, out1)
        if rc != 0:
            violations.append({"sig": "self-config-rejected", "what": "the tool rejects its own configuration: " + so[-600:]})
        else:
            g1 = open(out1, "rb").read()
            dist["generations"] = 1
            dist["bytes"] = len(g1)
            if strip(g1) != strip(checked):
                import difflib
                d = list(difflib.unified_diff(strip(checked).decode().splitlines(), strip(g1).decode().splitlines(), "checked-in", "regenerated", lineterm="", n=1))
                violations.append({"sig": "stale-generated-file", "what": "regenerating internal/gontainer/gontainer.go from its YAML does not reproduce the checked-in file", "diff": d[:60]})
            # further generations in a scratch copy of the tree
            cur = g1
            work = os.path.join(tmp, "repo")
            subprocess.run(["rsync", "-a", "--exclude", ".git", core.REPO + "/", work + "/"], check=True)
            for g in range(2, gens + 1):
                open(os.path.join(work, "internal/gontainer/gontainer.go"), "wb").write(cur)
                b = os.path.join(tmp, "tool%d" % g)
                rc, so = core.sh(["go", "build", "-o", b, "."], cwd=work, env=core.GOENV)
                if rc != 0:
                    violations.append({"sig": "regenerated-tool-does-not-build", "what": so[-600:]}); break
                outg = os.path.join(tmp, "gen%d.go" % g)
                open(outg, "wb").write(cur + b"\n// stale tail of the previous file\n" * 200)
                rc, so = regen(b, work, outg)
                if rc != 0:
                    violations.append({"sig": "regenerated-tool-fails", "what": so[-600:]}); break
                nxt = open(outg, "rb").read()
                dist["generations"] = g
                if strip(nxt) != strip(cur):
                    violations.append({"sig": "generation-not-stable", "what": "generation %d differs from generation %d" % (g, g - 1)}); break
                cur = nxt
        # model vs implementation on the self configuration
        files = [open(os.path.join(core.REPO, "internal/gontainer", f)).read() for f in sorted(os.listdir(os.path.join(core.REPO, "internal/gontainer"))) if f.endswith(".yaml") and f != "gontainer.yaml"]
        files = [open(os.path.join(core.REPO, "internal/gontainer/gontainer.yaml")).read()] + files
        a, b, d = corr.compile_pair(ctx, files)
        for x in d[:2]:
            corr_fail.append({"op": "compile:" + x[0], "files": ["<self configuration>"], "impl": x[1], "model": x[2]})
        if a.get("errs") or a.get("scope") or a.get("cycles") or a.get("params") or a.get("services"):
            violations.append({"sig": "self-config-invalid", "what": "own configuration has diagnostics: %r" % ([a.get(k) for k in ("errs", "scope", "cycles", "params", "services")],)})
    finally:
        shutil.rmtree(tmp, ignore_errors=True)
    return {"evaluations": dist["generations"] + 1, "distinct_nontrivial": max(2, dist["generations"]),
            "rule": "the repository's own configuration; generations build -> regenerate -> rebuild -> regenerate (%d); plus model-vs-implementation compile of the self configuration; distinct = generations compared" % gens,
            "samples": [{"inputs": SELF, "bytes": dist["bytes"], "generations": dist["generations"]}], "distribution": dist,
            "violations": violations, "corr_fail": corr_fail, "exhaustive": True}


def replay(ctx, payload):
    return run(ctx)
