"""C09 — multi-file merge semantics and split invariance."""
import copy, json
from vlib import core, gen, runsc, corr

LEVEL = "proof"
TEXT = ("files_read_in_documented_order / read_order_spelled_out: for every world (whatever Glob, Clean and reading return) the input a run compiles is the left fold of merge over the files in documented order — the patterns in the order of the -i options, within one pattern the cleaned matches in byte-wise ascending order (a permutation of the matches, pairwise ordered); an unreadable file contributes nothing. "
        "merge_assoc, merge_empty_left/right, the per-attribute rules (scalars: later wins; mappings: key-wise union, later wins; arguments: later non-empty replaces; "
        "calls/tags/decorators: concatenation in file order; services merged key-wise) and split invariance (any key partition of a mapping, attribute-level splits of a "
        "service with list attributes cut into prefix/suffix, decorators cut into prefix/suffix) are Lean theorems for ALL inputs; equivalent inputs are "
        "indistinguishable to the sorted-key consumers (equiv_sorted_services). The model's merge is compared with input.Merge on random documents and splits; "
        "associativity/identity are also evaluated on the implementation; split vs unsplit configurations must give byte-identical output through the real command, "
        "with file names chosen so that glob order and lexical order of cleaned paths differ.")
TECHNIQUE = "Lean 4 algebraic theorems about the merge model (associativity, identity, split invariance) + model-vs-implementation correspondence + byte comparison of split/unsplit builds"
LEAN_PROPS = ["C09"]
TRUSTED = ["yaml.v3 decoding of each document", "filepath.Glob/Clean are parameters of the runner model"]
ASSUMPTIONS = ["Go nil vs empty map/slice is not observable downstream"]


def norm_input(j):
    return core.canon(j)


def run(ctx, n=None):
    n = n or (150 if ctx.quick else 3000)
    violations, corr_fail, nontriv = [], [], set()
    dist = {"merge_cases": 0, "assoc_cases": 0, "split_builds": 0, "override_pairs": 0, "order_cases": 0}
    # 1. model vs implementation on merges of arbitrary documents, associativity and identity on the implementation
    for i in range(n):
        docs = [gen.gen_config(ctx.rng) for _ in range(3)] if i % 2 else gen.split_config(ctx.rng, gen.gen_config(ctx.rng), 3)
        ys = [gen.yaml_doc(d) for d in docs]
        left = ctx.impl.ask({"op": "mergetree", "tree": [[ys[0], ys[1]], ys[2]]})
        right = ctx.impl.ask({"op": "mergetree", "tree": [ys[0], [ys[1], ys[2]]]})
        ide = ctx.impl.ask({"op": "mergetree", "tree": ["{}", [ys[0], "{}"]]})
        one = ctx.impl.ask({"op": "mergetree", "tree": [ys[0]]})
        dist["assoc_cases"] += 1
        for r in (left, right, ide, one):
            if "panic" in r:
                violations.append({"sig": "panic", "what": r["panic"], "files": ys})
        if "ok" in left and "ok" in right and norm_input(left["ok"]) != norm_input(right["ok"]):
            violations.append({"sig": "merge-not-associative", "what": "merge(merge(a,b),c) differs from merge(a,merge(b,c))", "files": ys, "observed": [left["ok"], right["ok"]]})
        if "ok" in ide and "ok" in one and norm_input(ide["ok"]) != norm_input(one["ok"]):
            violations.append({"sig": "empty-not-identity", "what": "merging with the empty file changes the input", "files": ys[:1], "observed": [ide["ok"], one["ok"]]})
        if ctx.have_model and "ok" in left:
            decs = [ctx.impl.ask({"op": "decode", "yaml": y}) for y in ys]
            if all("ok" in d for d in decs):
                m = ctx.model.ask({"op": "merge", "inputs": [d["ok"] for d in decs]})
                dist["merge_cases"] += 1
                if norm_input(m.get("ok")) != norm_input(left["ok"]) and len(corr_fail) < 10:
                    corr_fail.append({"op": "merge", "files": ys, "impl": left["ok"], "model": m.get("ok")})
                nontriv.add(norm_input(left["ok"])[:2000])
    # 2. overriding pairs on every attribute (later file wins / replaces / appends)
    base = {"meta": {"pkg": "gen", "container_type": "T1", "container_constructor": "New1", "default_must_getter": False, "imports": {"fx": gen.FX, "al": "x/y"}, "functions": {"f": "fx.Fn1"}},
            "parameters": {"p": 1, "q": "a"}, "services": {"s": {"constructor": "fx.NewA", "arguments": [1, 2], "getter": "GetS", "must_getter": False, "type": "*fx.Obj",
                                                               "calls": [["Call1", [1]]], "fields": {"F1": 1}, "tags": ["t1"], "scope": "shared"}},
            "decorators": [{"tag": "t1", "decorator": "fx.Dec1", "arguments": []}]}
    # the placeholder flag is a scalar like the others: an explicit value in the later file wins, in both directions
    base["services"]["t_on"] = {"todo": True}
    base["services"]["t_off"] = {"todo": False, "constructor": "fx.NewA"}
    over = {"meta": {"pkg": "gen2", "container_type": "T2", "container_constructor": "New2", "default_must_getter": True, "imports": {"al": "z/w", "nw": "n/w"}, "functions": {"f": "fx.FnInt", "g": "fx.Fn1"}},
            "parameters": {"p": 2, "r": None}, "services": {"s": {"constructor": "fx.NewB", "arguments": [9], "getter": "GetS2", "must_getter": True, "type": "*fx.Obj",
                                                               "calls": [["Call2", [2]]], "fields": {"F1": 2, "F2": 3}, "tags": ["t2"], "scope": "contextual"},
                                                         "s2": {"value": "fx.Global"}},
            "decorators": [{"tag": "t2", "decorator": "fx.Dec2", "arguments": [1]}]}
    over["services"]["t_on"] = {"todo": False, "constructor": "fx.NewC"}
    over["services"]["t_off"] = {"todo": True}
    want = {"meta": {"pkg": "gen2", "container_type": "T2", "container_constructor": "New2", "default_must_getter": True, "imports": {"fx": gen.FX, "al": "z/w", "nw": "n/w"}, "functions": {"f": "fx.FnInt", "g": "fx.Fn1"}},
            "parameters": {"p": 2, "q": "a", "r": None}, "services": {"s": {"constructor": "fx.NewB", "arguments": [9], "getter": "GetS2", "must_getter": True, "type": "*fx.Obj",
                                                                         "calls": [["Call1", [1]], ["Call2", [2]]], "fields": {"F1": 2, "F2": 3}, "tags": ["t1", "t2"], "scope": "contextual"},
                                                                   "s2": {"value": "fx.Global"}},
            "decorators": [{"tag": "t1", "decorator": "fx.Dec1", "arguments": []}, {"tag": "t2", "decorator": "fx.Dec2", "arguments": [1]}]}
    want["services"]["t_on"] = {"todo": False, "constructor": "fx.NewC"}
    want["services"]["t_off"] = {"todo": True, "constructor": "fx.NewA"}
    got = ctx.impl.ask({"op": "mergetree", "tree": [gen.yaml_doc(base), gen.yaml_doc(over)]})
    exp = ctx.impl.ask({"op": "mergetree", "tree": [gen.yaml_doc(want)]})
    if ctx.have_model and "ok" in got:
        decs = [ctx.impl.ask({"op": "decode", "yaml": gen.yaml_doc(y_)}) for y_ in (base, over)]
        m_ = ctx.model.ask({"op": "merge", "inputs": [d_["ok"] for d_ in decs]})
        if norm_input(m_.get("ok")) != norm_input(got["ok"]) and len(corr_fail) < 10:
            corr_fail.append({"op": "merge", "files": [gen.yaml_doc(base), gen.yaml_doc(over)], "impl": got["ok"], "model": m_.get("ok")})
    dist["override_pairs"] += 1
    if norm_input(got.get("ok")) != norm_input(exp.get("ok")):
        violations.append({"sig": "merge-rules", "what": "merging two files that override every attribute does not follow the documented per-attribute rules", "files": [gen.yaml_doc(base), gen.yaml_doc(over)], "observed": got.get("ok"), "expected": exp.get("ok")})
    no_args = copy.deepcopy(over); no_args["services"]["s"]["arguments"] = []
    got2 = ctx.impl.ask({"op": "mergetree", "tree": [gen.yaml_doc(base), gen.yaml_doc(no_args)]})
    if "ok" in got2:
        svc = dict((k, v) for k, v in got2["ok"]["services"])["s"]
        if [a["v"] for a in svc["args"]] != ["1", "2"]:
            violations.append({"sig": "merge-rules", "what": "empty later arguments must keep the earlier ones, got %r" % svc["args"], "files": [gen.yaml_doc(base), gen.yaml_doc(no_args)]})
    # 3. split invariance through the real command: bytes of -o
    m = 12 if ctx.quick else 150
    for i in range(m):
        cfg = gen.gen_config(ctx.rng)
        cfg.setdefault("meta", {})["pkg"] = "gen"
        k = ctx.rng.randint(2, 5)
        parts = gen.split_config(ctx.rng, cfg, k)
        single = runsc.run_scenario(ctx, {"name": "single", "files": {"cfg/all.yaml": gen.yaml_doc(cfg)}, "patterns": ["cfg/all.yaml"], "out": "out/gen.go", "flags": {}}, with_model=False)
        # files spread over two patterns; names make glob order differ from lexical order of the cleaned paths ("a" vs "a-b")
        dirs = ["a", "a-b", "a.c", "b", "B", "Z_", "_y"]      # byte-wise order: upper case before "_" before lower case
        names = {}
        order = []
        for j, p in enumerate(parts):
            rel = "cfg/%s/p%02d.yaml" % (dirs[j % len(dirs)], j)
            names[rel] = gen.yaml_doc(p)
        # the merge order the documented rule implies: pattern order, then lexical order of cleaned paths
        pat = ["cfg/*/*.yaml"]
        ordered = sorted(names)
        # reassign contents so that documented read order == split order
        files = {rel: gen.yaml_doc(p) for rel, p in zip(ordered, parts)}
        # the empty file is the identity of merging, through the real read path too: an empty file, a file holding only a
        # comment, an explicit empty document / empty mapping — first, in the middle and last in read order
        empties = ["", "# nothing here yet\n", "---\n", "{}\n", "\n\n"]
        files["cfg/%s/%s.yaml" % (dirs[i % len(dirs)], ["000", "p00x", "zzz"][i % 3])] = empties[i % len(empties)]
        if i % 2:
            files["cfg/b/zzzz.yaml"] = empties[(i + 2) % len(empties)]
        multi = runsc.run_scenario(ctx, {"name": "split", "files": files, "patterns": pat, "out": "out/gen.go", "flags": {}}, with_model=(i < 4))
        dist["split_builds"] += 1
        a, b = single["cli"], multi["cli"]
        for d in multi["diffs"][:1]:
            if len(corr_fail) < 10:
                corr_fail.append({"op": "run:" + d[0], "files": files, "impl": d[1], "model": d[2]})
        if a["exit"] != b["exit"] or (a["exit"] == 0 and a["after"] != b["after"]):
            violations.append({"sig": "split-changes-output", "what": "a configuration split into %d files (read in documented order) builds differently: exit %d vs %d" % (k, a["exit"], b["exit"]),
                               "files": [gen.yaml_doc(cfg)] + [files[r] for r in sorted(files)], "observed": b["stdout"][-400:]})
    # 4. documented file order: pattern order first, cleaned lexical order inside a pattern
    for (fa, fb, pats, winner) in [
        ("cfg/a/x.yaml", "cfg/a-b/x.yaml", ["cfg/*/x.yaml"], "a"),          # lexical: cfg/a-b/x.yaml < cfg/a/x.yaml, so `a` is read last and wins
        ("cfg/1.yaml", "cfg/2.yaml", ["cfg/2.yaml", "cfg/1.yaml"], "a"),      # pattern order beats names: 1.yaml read last
        ("cfg/1.yaml", "cfg/2.yaml", ["cfg/*.yaml"], "b"),
        ("cfg/app.yaml", "cfg/Logging.yaml", ["cfg/*.yaml"], "a"),              # byte-wise: "L" < "a" — not case-insensitive
        ("cfg/Zeta.yaml", "cfg/_base.yaml", ["cfg/*.yaml"], "b"),               # "Z" < "_"
        ("cfg/x10.yaml", "cfg/x9.yaml", ["cfg/*.yaml"], "b"),                   # not a numeric order: "x10" < "x9"
        ("cfg/\u00e9.yaml", "cfg/z.yaml", ["cfg/*.yaml"], "a"),                  # bytes of UTF-8, not collation: "z" < "é"
        # a pattern is one -i value, whatever characters the file name contains (comma, blank, equals sign, semicolon)
        ("cfg/base.yaml", "cfg/prod,eu.yaml", ["cfg/base.yaml", "cfg/prod,eu.yaml"], "b"),
        ("cfg/prod,eu.yaml", "cfg/base.yaml", ["cfg/prod,eu.yaml", "cfg/base.yaml"], "b"),
        ("cfg/base.yaml", "cfg/over ride.yaml", ["cfg/base.yaml", "cfg/over ride.yaml"], "b"),
        ("cfg/base.yaml", "cfg/k=v;x.yaml", ["cfg/base.yaml", "cfg/k=v;x.yaml"], "b"),
    ]:
        files = {fa: gen.yaml_doc({"meta": {"pkg": "gen"}, "parameters": {"who": "a"}}), fb: gen.yaml_doc({"parameters": {"who": "b"}})}
        r = runsc.run_scenario(ctx, {"name": "order", "files": files, "patterns": pats, "out": "out/gen.go", "flags": {}}, with_model=True)
        dist["order_cases"] += 1
        for d in r["diffs"][:1]:
            if len(corr_fail) < 10:
                corr_fail.append({"op": "run:" + d[0], "files": files, "impl": d[1], "model": d[2]})
        txt = r["cli"]["text"] or ""
        if ('return "%s", nil' % winner) not in txt:
            violations.append({"sig": "file-order", "what": "files %s/%s with patterns %r: the later file in documented order (%s) must win" % (fa, fb, pats, winner), "files": [files[fa], files[fb]], "patterns": pats})
    return {"evaluations": dist["assoc_cases"] * 4 + dist["split_builds"] * 2 + dist["order_cases"] + 2, "distinct_nontrivial": len(nontriv),
            "rule": "random document triples and generated 3-way splits (merge correspondence, associativity and identity on the implementation); an overriding pair touching every attribute; split-vs-unsplit builds through the real command (2-5 files plus empty / comment-only / empty-document files at the start, middle and end of the read order, directories a / a-b / a.c / b so that glob order differs from cleaned lexical order); explicit file-order cases; distinct = distinct merged inputs",
            "samples": [{"docs": 3}], "distribution": dist, "violations": violations, "corr_fail": corr_fail}


def search(ctx):
    return run(ctx, n=600)


def replay(ctx, payload):
    return run(ctx, n=30)
