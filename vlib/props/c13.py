"""C13 — getter API contract of the generated container."""
import itertools, json, re
from vlib import core, gen, behave, levelb, corr

LEVEL = "proof"
TEXT = ("must_getter_table, getter_error_iff, no_getter_no_methods, method_set, meta_defaults, default_type and reserved_is_container_api (the reserved set = the runtime "
        "container's reflected method set + the embedded field, regenerated) are Lean theorems for every (getter, must_getter, default_must_getter, meta) combination. "
        "The full truth table getter x type form x must_getter x default_must_getter x meta names is generated, built, compiled and inspected by reflection in the probe "
        "(exact method set and signatures), every getter and must-getter is called (panics recovered) and compared with Get(name); collisions (equal getters, getters "
        "equal to any method/field of the embedded container, Must-prefix, InContext-suffix) must be rejected naming the service. methods_never_collide: for every accepted input the names G, GInContext, MustG, MustGInContext of all live getters (forms regenerated from the getter template) are pairwise distinct and disjoint from the runtime container's method table — a statement about all getter strings. Getter calls run over the runtime model too (op call): per-context identity of InContext getters, conversion to a declared type that is convertible but not assignable.")
TECHNIQUE = "Lean 4 theorems (case analysis over the getter options, decide over regenerated API tables) + exhaustive truth-table build, reflection of the method set and calls in the probe"
LEAN_PROPS = ["C13"]
TRUSTED = ["copier.Copy conversion to the declared type is the runtime's; observed per call"]
DETERMINISTIC = True   # no random generation: further thorough rounds would repeat the same cases
ASSUMPTIONS = []

CONTAINER_API = ["AddDecorator", "CircularDeps", "Get", "GetInContext", "GetParam", "GetTaggedBy", "GetTaggedByInContext", "HotSwap", "IsTaggedBy", "OverrideParam", "OverrideService", "Root"]
TYPES = [(None, "interface {}", "fx.NewA"), ("*fx.Obj", "*fx.Obj", "fx.NewA"), ("fx.Obj", "fx.Obj", "fx.NewVal"), ('*"%s".Obj' % gen.FX, "*fx.Obj", "fx.NewA")]


def table():
    out = []
    for getter, (ty, rty, ctor), mg, dmg, meta in itertools.product([None, "GetS", "Db"], TYPES, [None, True, False], [None, True, False], [False, True]):
        s = {"constructor": ctor, "arguments": ["x"]}
        if getter:
            s["getter"] = getter
        if ty:
            s["type"] = ty
        if mg is not None:
            s["must_getter"] = mg
        m = {"imports": {"fx": gen.FX}}
        if dmg is not None:
            m["default_must_getter"] = dmg
        if meta:
            m.update({"pkg": "myPkg_2", "container_type": "MyC", "container_constructor": "Build"})
        cfg = {"meta": m, "services": {"s": s, "other": {"constructor": "fx.NewC", "getter": "Other", "scope": "non_shared"}, "bad": {"constructor": "fx.NewFail", "getter": "Bad"},
                                       # a contextual service: the InContext getters must use THEIR context, the plain ones none
                                       "cx": {"constructor": "fx.NewA", "arguments": ["ctx"], "getter": "Cx", "must_getter": True, "scope": "contextual"}}}
        out.append((cfg, getter, rty, mg, dmg, meta))
    return out


CX_OPS = [["getctx", "c1", "cx"], ["call", "CxInContext", "c1"], ["call", "MustCxInContext", "c1"], ["newctx", "c2"], ["call", "MustCxInContext", "c2"],
          ["call", "CxInContext", "c2"], ["getctx", "c2", "cx"], ["call", "Cx"], ["call", "MustCx"], ["call", "MustCxInContext", "c1"]]


def expected_methods(cfg):
    dmg = cfg["meta"].get("default_must_getter", False)
    want = {n: None for n in CONTAINER_API}
    for name, s in cfg["services"].items():
        g = s.get("getter")
        if not g:
            continue
        t = s.get("type")
        rt = "interface {}" if t is None else re.sub(r'"[^"]*/([^"/]+)"', r"\1", t)
        must = s.get("must_getter", dmg)
        want[g] = ([], [rt, "error"])
        want[g + "InContext"] = (["context.Context"], [rt, "error"])
        if must:
            want["Must" + g] = ([], [rt])
            want["Must" + g + "InContext"] = (["context.Context"], [rt])
    return want


def run(ctx):
    tab = table()
    violations, corr_fail, nontriv = [], [], set()
    dist = {"accepted": 0, "rejected_explicit_must_without_getter": 0, "must_methods": 0, "collisions_checked": 0, "defaults_checked": 0, "compiled_cells": 0}
    # the complete truth table at the compile level (model vs implementation vs the documented rule) ...
    for cfg, getter, rty, mg, dmg, meta in tab:
        a, b, d = corr.compile_pair(ctx, [gen.yaml_doc(cfg)])
        dist["compiled_cells"] += 1
        for x in d[:1]:
            if len(corr_fail) < 10:
                corr_fail.append({"op": "compile:" + x[0], "files": [gen.yaml_doc(cfg)], "impl": x[1], "model": x[2]})
        should_reject = getter is None and mg is True
        if bool(a.get("errs")) != should_reject:
            violations.append({"sig": "must-getter-without-getter", "what": "getter=%r must_getter=%r default=%r: %s, expected %s" % (getter, mg, dmg, "rejected %r" % a.get("errs") if a.get("errs") else "accepted", "rejected" if should_reject else "accepted"), "files": [gen.yaml_doc(cfg)]})
        elif not a.get("errs"):
            s_out = next(s_ for s_ in a["output"]["services"] if s_["name"] == "s")
            want_must = bool(getter) and (mg if mg is not None else bool(dmg))
            if s_out["mustGetter"] != want_must or s_out["getter"] != (getter or ""):
                violations.append({"sig": "must-getter-table", "what": "getter=%r must_getter=%r default_must_getter=%r compiles to getter=%r mustGetter=%r, documented: mustGetter=%r" % (getter, mg, dmg, s_out["getter"], s_out["mustGetter"], want_must), "files": [gen.yaml_doc(cfg)]})
    # every subset of the three configurable names: each one is the configured name or ITS documented default, independently
    for sub in itertools.product([False, True], repeat=3):
        mt = {"imports": {"fx": gen.FX}}
        if sub[0]:
            mt["pkg"] = "myPkg_2"
        if sub[1]:
            mt["container_type"] = "Registry"
        if sub[2]:
            mt["container_constructor"] = "Build"
        cfg = {"meta": mt, "services": {"s": {"constructor": "fx.NewA"}}}
        a, b, d = corr.compile_pair(ctx, [gen.yaml_doc(cfg)])
        dist["compiled_cells"] += 1
        for x in d[:1]:
            if len(corr_fail) < 10:
                corr_fail.append({"op": "compile:" + x[0], "files": [gen.yaml_doc(cfg)], "impl": x[1], "model": x[2]})
        om = (a.get("output") or {}).get("meta") or {}
        want = {"pkg": "myPkg_2" if sub[0] else "main", "containerType": "Registry" if sub[1] else "Gontainer", "containerConstructor": "Build" if sub[2] else "NewGontainer"}
        got = {k: om.get(k) for k in want}
        if got != want:
            violations.append({"sig": "meta-names", "what": "meta names %r compile to %r; configured names or the documented defaults main / Gontainer / NewGontainer would be %r" % ({k: v for k, v in mt.items() if k != "imports"}, got, want), "files": [gen.yaml_doc(cfg)]})
    # ... and a third of it (per seed) built, compiled and inspected in the probe
    if ctx.quick:
        tab = [t for i, t in enumerate(tab) if i % 3 == ctx.seed % 3]
    items = []
    for cfg, getter, rty, mg, dmg, meta in tab:
        ops = [["methods"], ["newctx", "c1"]]
        for name, s in cfg["services"].items():
            g = s.get("getter")
            if g and name != "cx":
                ops += [["get", name], ["call", g], ["call", g + "InContext", "c1"], ["call", "Must" + g], ["call", "Must" + g + "InContext", "c1"]]
        ops += CX_OPS
        items.append((cfg, ops))
    out, err = behave.run_batch(ctx, items, tag="c13")
    if err:
        violations.append({"sig": "probe-build", "what": err})
    for (cfg, getter, rty, mg, dmg, meta), (_, ops), rec in zip(tab, items, out):
        should_reject = getter is None and mg is True
        if should_reject != (not rec["accepted"]):
            violations.append({"sig": "must-getter-without-getter", "what": "getter=%r must_getter=%r: %s, expected %s" % (getter, mg, "accepted" if rec["accepted"] else "rejected", "rejected" if should_reject else "accepted"), "files": rec["files"], "observed": rec["cli_out"][-300:]})
            continue
        if should_reject:
            dist["rejected_explicit_must_without_getter"] += 1
            continue
        dist["accepted"] += 1
        if rec["impl"] is None:
            violations.append({"sig": "probe-crash", "what": "%r" % (rec.get("impl_crash"),), "files": rec["files"]}); continue
        # package / type / constructor names
        src = open(rec["files"] and __import__("os").path.join(ctx.scratch(), "lb_c13", rec["name"], "gen.go")).read()
        pk = cfg["meta"].get("pkg", "gen")
        ct = cfg["meta"].get("container_type", "Gontainer")
        cc = cfg["meta"].get("container_constructor", "NewGontainer")
        dist["defaults_checked"] += not meta
        if not re.search(r"^package %s$" % pk, src, re.M) or not re.search(r"^type %s struct" % ct, src, re.M) or not re.search(r"^func %s\(\) \(rootGontainer \*%s\)" % (cc, ct), src, re.M):
            violations.append({"sig": "meta-names", "what": "package/type/constructor names are not the configured ones or the documented defaults (%s/%s/%s)" % (pk, ct, cc), "files": rec["files"]})
        res = dict()
        meths = rec["impl"][0].get("ok")
        want = expected_methods(cfg)
        got = {m["name"]: (m.get("in") or [], m.get("out") or []) for m in meths}
        if set(got) != set(want):
            violations.append({"sig": "method-set", "what": "method set differs: extra %r missing %r" % (sorted(set(got) - set(want)), sorted(set(want) - set(got))), "files": rec["files"]})
        for n, sig in want.items():
            if sig is not None and n in got and (list(got[n][0]), list(got[n][1])) != (sig[0], sig[1]):
                violations.append({"sig": "method-signature", "what": "%s has signature %r, expected %r" % (n, got[n], sig), "files": rec["files"]})
        dist["must_methods"] += sum(1 for n in want if n.startswith("Must"))
        nontriv.add(json.dumps(sorted((n, str(s)) for n, s in want.items() if s)))
        # the whole script against the runtime model (object identity up to consistent renaming), from op 1 on
        if rec.get("model") is not None:
            for x in behave.compare_script(rec["impl"][1:], rec["model"][1:])[:3]:
                if len(corr_fail) < 10:
                    corr_fail.append({"op": "rt:call", "script_op": ops[x[0] + 1] if isinstance(x[0], int) else x[0], "impl": x[1], "model": x[2], "files": rec["files"]})
        # contextual service: one instance per context for the InContext forms, a fresh one for every context-free call
        cxr = rec["impl"][len(ops) - len(CX_OPS):]
        ser = [r.get("ok", {}).get("serial") if isinstance(r.get("ok"), dict) else None for r in cxr]
        if any("ok" not in r for k, r in enumerate(cxr) if k != 3):
            violations.append({"sig": "getter-fails", "what": "getter calls on the contextual service fail: %r" % (cxr,), "files": rec["files"]})
        else:
            c1, c2, free = {ser[0], ser[1], ser[2], ser[9]}, {ser[4], ser[5], ser[6]}, [ser[7], ser[8]]
            if len(c1) != 1 or len(c2) != 1 or c1 == c2 or free[0] == free[1] or set(free) & (c1 | c2):
                violations.append({"sig": "getter-context", "what": "contextual service through getters: context c1 saw instances %r, c2 %r, context-free calls %r — expected one per context, distinct, and fresh ones without context" % (sorted(c1), sorted(c2), free), "files": rec["files"]})
        # calls
        i = 2
        for name, s in cfg["services"].items():
            g = s.get("getter")
            if not g or name == "cx":
                continue
            rget, rg, rgc, rm, rmc = rec["impl"][i:i + 5]
            i += 5
            must = s.get("must_getter", cfg["meta"].get("default_must_getter", False))
            if name == "bad":
                if "err" not in rg or "err" not in rgc:
                    violations.append({"sig": "getter-masks-error", "what": "getter of a failing service returns %r" % (rg,), "files": rec["files"]})
                if must and ("panic" not in rm or "panic" not in rmc):
                    violations.append({"sig": "must-getter-no-panic", "what": "must-getter of a failing service does not panic: %r" % (rm,), "files": rec["files"]})
                continue
            strip = lambda r: core.canon(levelb.canon_serials(json.loads(re.sub(r'"serial": \d+', '"serial": 1', json.dumps(r.get("ok"))))))
            for label, r in (("getter", rg), ("getter-in-context", rgc)) + ((("must", rm), ("must-in-context", rmc)) if must else ()):
                if "ok" not in r:
                    violations.append({"sig": "getter-fails", "what": "%s of %r: %r" % (label, name, r), "files": rec["files"]}); continue
                a, b = json.loads(strip(r)), json.loads(strip(rget))
                if s.get("type") == "fx.Obj":
                    pass  # value-typed: Get returns the value too
                if a != b:
                    violations.append({"sig": "getter-not-get", "what": "%s of %r returns %r, Get(name) returns %r" % (label, name, a, b), "files": rec["files"]})
            if not must and ("nomethod" not in rm or "nomethod" not in rmc):
                violations.append({"sig": "unexpected-must-method", "what": "Must%s exists although must_getter is off" % g, "files": rec["files"]})
            # shared service: the getter returns the very same object as Get
            if name == "s" and "ok" in rg and "ok" in rget and rget["ok"].get("ptr"):
                if rg["ok"].get("serial") != rget["ok"].get("serial"):
                    violations.append({"sig": "getter-not-get", "what": "getter of a shared service returns another instance than Get", "files": rec["files"]})
    # conversion to the declared type: an object that is convertible but not assignable to T (int64 -> time.Duration)
    # comes back as T from all four getter forms, with the same value
    ccfg = {"meta": {"pkg": "gen", "imports": {"fx": gen.FX}}, "services": {
        "dur": {"constructor": "fx.NewI64", "type": "time.Duration", "getter": "GetDur", "must_getter": True},
        "durc": {"constructor": "fx.NewI64", "type": "time.Duration", "getter": "GetDurC", "must_getter": True, "scope": "contextual"}}}
    cops = [["newctx", "c1"], ["get", "dur"]]
    for g in ("GetDur", "GetDurC"):
        cops += [["call", g], ["call", g + "InContext", "c1"], ["call", "Must" + g], ["call", "Must" + g + "InContext", "c1"]]
    cout, cerr = behave.run_batch(ctx, [(ccfg, cops)], tag="c13c", split=False)
    if cerr or not cout or not cout[0]["accepted"] or cout[0]["impl"] is None:
        violations.append({"sig": "getter-conversion", "what": "configuration with a convertible getter type does not build/run: %s" % (cerr or (cout and cout[0]["cli_out"][-300:]),), "files": cout[0]["files"] if cout else []})
    else:
        dist["conversion_calls"] = 0
        for o, r in zip(cops[2:], cout[0]["impl"][2:]):
            dist["conversion_calls"] += 1
            ok = r.get("ok") or {}
            if ok.get("k") != "time.Duration" or ok.get("v") != "1.5s":
                violations.append({"sig": "getter-conversion", "what": "%s on a service whose object (int64) must be converted to the declared type time.Duration returns %r" % (o[1], r), "files": cout[0]["files"]})
    # types of the package the container is generated into (no package part, or `"."`), by pointer and by value: the getter's T is
    # the declared one — `*T` stays a pointer
    lcfg = {"meta": {"pkg": "gen", "imports": {"fx": gen.FX}}, "services": {
        "lp": {"constructor": "NewA", "arguments": ["lp"], "type": "*Obj", "getter": "GetLp", "must_getter": True},
        "lq": {"constructor": '".".NewA', "arguments": ["lq"], "type": '*".".Obj', "getter": "GetLq"},
        "lv": {"constructor": "NewVal", "arguments": ["lv"], "type": "Obj", "getter": "GetLv", "must_getter": True},
        "lx": {"value": "&Obj{}", "type": "*Obj", "getter": "GetLx"},
        "ly": {"value": "Obj{}", "type": '".".Obj', "getter": "GetLy"},
        # no type: T is interface{} whatever the value spells (a struct literal, a pointer to one, a variable)
        "la": {"value": "&Obj{}", "getter": "GetLa"}, "lb": {"value": "Obj{}", "getter": "GetLb"},
        "lc": {"value": "&fx.Obj{}", "getter": "GetLc"}, "ld": {"value": "fx.Obj{}", "getter": "GetLd"},
        "le": {"value": "&fx.GlobalVal", "getter": "GetLe"}, "lf": {"value": "fx.Global", "getter": "GetLf"}}}
    lwant = {"GetLp": "*fx.Obj", "GetLq": "*fx.Obj", "GetLv": "fx.Obj", "GetLx": "*fx.Obj", "GetLy": "fx.Obj",
             "GetLa": "interface {}", "GetLb": "interface {}", "GetLc": "interface {}", "GetLd": "interface {}", "GetLe": "interface {}", "GetLf": "interface {}"}
    lops = [["methods"], ["newctx", "c1"]] + [["call", g] for g in lwant] + [["call", g + "InContext", "c1"] for g in lwant] + [["call", "MustGetLp"], ["call", "MustGetLv"]]
    lout, lerr = behave.run_batch(ctx, [(lcfg, lops)], tag="c13l", local=True, split=False)
    if lerr or not lout or not lout[0]["accepted"] or lout[0]["impl"] is None:
        violations.append({"sig": "local-types", "what": "configuration with getter types of the generated package itself does not build/run: %s" % (lerr or (lout and (lout[0]["cli_out"][-300:] or lout[0].get("impl_crash"))),), "files": lout[0]["files"] if lout else []})
    else:
        dist["local_type_methods"] = 0
        got = {m["name"]: (m.get("in") or [], m.get("out") or []) for m in (lout[0]["impl"][0].get("ok") or [])}
        for g, t in lwant.items():
            for nm, sig in ((g, ([], [t, "error"])), (g + "InContext", (["context.Context"], [t, "error"]))) + (((("Must" + g), ([], [t])), ("Must" + g + "InContext", (["context.Context"], [t]))) if g in ("GetLp", "GetLv") else ()):
                dist["local_type_methods"] += 1
                if nm not in got or (list(got[nm][0]), list(got[nm][1])) != (sig[0], sig[1]):
                    violations.append({"sig": "method-signature", "what": "%s (type of the generated package itself, declared %r) has signature %r, expected %r" % (nm, lcfg["services"]["l" + g[-1].lower()].get("type"), got.get(nm), sig), "files": lout[0]["files"]})
        for o, r in zip(lops[2:], lout[0]["impl"][2:]):
            if "ok" not in r:
                violations.append({"sig": "getter-fails", "what": "%r on a service typed with the generated package's own type: %r" % (o, r), "files": lout[0]["files"]})
        if lout[0].get("model") is not None:
            for x in behave.compare_script(lout[0]["impl"][1:], lout[0]["model"][1:])[:2]:
                if len(corr_fail) < 10:
                    corr_fail.append({"op": "rt:call", "script_op": lops[x[0] + 1] if isinstance(x[0], int) else x[0], "impl": x[1], "model": x[2], "files": lout[0]["files"]})
    # collisions must be rejected, naming the service
    coll = [("Container", None)] + [(m, None) for m in CONTAINER_API] + [("MustX", None), ("XInContext", None), ("Same", "Same"),
            # the prefix and the suffix are plain string tests: whatever follows "Must" / precedes "InContext"
            ("Mustang", None), ("Must", None), ("Must_x", None), ("Must1", None), ("Mustard", "ard"), ("InContext", None), ("xInContext", None), ("X_InContext", None), ("X1InContext", None)]
    for g1, g2 in coll:
        cfg = {"meta": {"imports": {"fx": gen.FX}}, "services": {"svc1": {"constructor": "fx.NewA", "getter": g1}, "svc2": {"constructor": "fx.NewA", **({"getter": g2} if g2 else {})}}}
        a = ctx.impl.ask({"op": "compile", "files": [gen.yaml_doc(cfg)], "version": ""})
        dist["collisions_checked"] += 1
        errs = a.get("errs") or []
        if not errs or not any("svc1" in e or "svc2" in e for e in errs):
            violations.append({"sig": "getter-collision-accepted", "what": "getter %r (and %r) must be rejected naming the service, got %r" % (g1, g2, errs), "files": [gen.yaml_doc(cfg)]})
        if ctx.have_model and "input" in a:
            b = ctx.model.ask({"op": "compile", "input": a["input"], "version": ""})
            if b.get("errs") != errs and len(corr_fail) < 10:
                corr_fail.append({"op": "compile:errs", "files": [gen.yaml_doc(cfg)], "impl": errs, "model": b.get("errs")})
    return {"evaluations": len(tab) + len(coll), "distinct_nontrivial": len(nontriv), "programs": dist["accepted"],
            "rule": "truth table getter in {unset,GetS,Db} x type form in {unset,*T,T,quoted path} x must_getter in {unset,t,f} x default_must_getter in {unset,t,f} x meta names set/unset (%s), plus the collision list; distinct = distinct expected getter-method sets" % ("one third per seed" if ctx.quick else "complete"),
            "samples": [rec["files"][0][:400] for rec in out[:2]], "distribution": dist, "violations": violations, "corr_fail": corr_fail, "exhaustive": not ctx.quick}


def replay(ctx, payload):
    return run(ctx)
