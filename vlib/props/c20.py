"""C20 — generated container is safe under concurrent use (partial)."""
import json, os, re, shutil
from vlib import core, gen, behave, levelb, spec
from vlib.props import c05

LEVEL = "other"
EXPLANATION = ("The transition system is tied to the source of the runtime library the repository's go.mod pins: the statements of (*Container).get and (*Container).getParam are regenerated from the module cache on every run (Generated/Library.lean) and lib_get_protocol / lib_getParam_protocol / lib_get_caches / lib_get_stages show that the statements the transitions stand for occur there exactly once and in the order a thread passes them (Lock, deferred Unlock registered before the deferred store so that the store runs inside the critical section, cache look-up with return on hit, store only without error, then constructor, fields, calls, decorators). The lock/cache protocol is also modelled for ALL services and caches at once (one mutex per service id, cache 0 = container-wide, cache c+1 = bag of context c, a global allocation counter; Model/RuntimeConcMulti.lean): multi_reachable_inv, at_most_once_each (every shared service at most once, every contextual service at most once per context, whatever other threads do elsewhere), instances_never_shared (two different (cache, service) pairs never hold the same instance) for unboundedly many threads and arbitrary interleavings. Partial proof + search. Proved in Lean: helpers_stateless (regenerated template facts: one embedded field, no package-level variable, helpers are methods on the "
               "container) and, over the lock/cache protocol of get as a transition system with unboundedly many threads and arbitrary interleavings, reachable_inv / at_most_once "
               "(a shared service, a parameter, or a contextual service within one bag is successfully constructed at most once), cached_then_hit and cache_monotone. The per-id "
               "mutex enters by its contract (one holder). NOT provable in this family: data-race freedom in the Go memory-model sense, the runtime library's real lock "
               "implementation, the scheduler. For those the check only SEARCHES: the behavioural generator's configurations are run through a probe built with -race in which many "
               "goroutines call Get / GetParam / GetTaggedBy / getters on one container at once (randomised start), and the counters the model predicts are checked: one instance "
               "per shared service, one evaluation per parameter function, distinct instances across contexts, no race report.")
TEXT = EXPLANATION
TECHNIQUE = "Lean 4 invariant proof over a labelled transition system of the lock/cache protocol (unbounded threads/steps) + regenerated template statelessness facts; concurrent probe under the race detector as the search"
LEAN_PROPS = ["C20"]
TRUSTED = ["sync.Mutex mutual exclusion (contract of the per-id lock)", "Go race detector (search only)", "gontainer-helpers locking code is not modelled beyond the protocol; that the protocol IS the code's statement order is regenerated and proved (lib_get_protocol), that Go's defer order and sync.Mutex behave as documented is assumed"]
ASSUMPTIONS = ["at most once counts successful constructions: the runtime deliberately does not cache a failing constructor"]


def conc_cfg(rng):
    cfg = c05.history_cfg(rng)
    # al / al2: parameters that are nothing but another parameter — one evaluation of the function whichever name is asked first
    cfg["parameters"] = {"fp": "%myfn(1)%", "lit": "x", "cat": "a%fp%b", "al": "%fp%", "al2": "%al%"}
    for k in range(8):
        cfg["parameters"]["m%d" % k] = "<m%d|%%lit%%|%d-%%lit%%>" % (k, k)
    cfg["meta"]["functions"] = {"myfn": "fx.Fn1"}
    names = list(cfg["services"])
    cfg["services"][[x for x in names if x not in ("h", "vv")][-1]]["arguments"].append("%cat%")
    cfg["services"][names[0]]["tags"] = ["t"]
    cfg["services"][names[0]]["getter"] = "GetFirst"
    cfg["services"][names[0]]["type"] = "*fx.Obj"
    # repeated concurrent constructions with concatenated arguments
    cfg["services"]["ns"] = {"constructor": "fx.NewC", "arguments": ["ns", "x%lit%y%lit%z", "%m0%-%m1%"], "scope": "non_shared"}
    # services created from a VALUE expression are evaluated per construction too: a contextual / non_shared one must be a
    # fresh object (its call log shows exactly its own call) in every context / Get
    cfg["services"]["vctx"] = {"value": "&fx.Obj{}", "scope": "contextual", "calls": [["Call1", ["v"]]], "fields": {"F1": "f"}}
    cfg["services"]["vns"] = {"value": "&fx.Obj{}", "scope": "non_shared", "calls": [["Call1", ["v"]]]}
    return cfg


def run(ctx, n=None, par=None):
    n = n or (12 if ctx.quick else 150)
    par = par or (16 if ctx.quick else 64)
    items = []
    import copy
    for i in range(n):
        cfg = conc_cfg(ctx.rng)
        # a contextual service whose scope is declared in the first file while a later file re-opens it (adds a tag): still contextual
        cfg["services"]["mf"] = {"constructor": "fx.NewA", "arguments": ["mf"], "scope": "contextual", "tags": ["mft"]}
        if i % 2 == 0:
            f1 = copy.deepcopy(cfg)
            del f1["services"]["mf"]["tags"]
            cfg["__files__"] = [f1, {"services": {"mf": {"tags": ["mft"]}}}]
        names = [x for x in cfg["services"] if x not in ("vctx", "vns", "ns", "vv", "mf")] + ["mf"]
        ops = [["counters"], ["newctx", "c1"], ["newctx", "c2"], ["newctx", "c3"]]
        for nm in names + ["ns"]:
            ops.append(["par", par, ["get", nm]])
        # every service whose resolved scope is contextual: many goroutines in each of two contexts
        for nm in names:
            if c05.resolved(cfg, nm) == "contextual" and nm != names[-1]:
                ops += [["par", par, ["getctx", "c1", nm]], ["par", par, ["getctx", "c2", nm]]]
        ops += [["parmix", max(2, par // 4), [["getctx", "c1", "vctx"], ["getctx", "c2", "vctx"], ["getctx", "c3", "vctx"], ["get", "vns"], ["get", "vctx"]]]]
        ops += [["parmix", max(2, par // 8), [["param", "m%d" % k] for k in range(8)] + [["get", "ns"]]],
                ["parmix", max(2, par // 4), [["param", "al2"], ["param", "fp"], ["param", "al"]]],
                ["par", par, ["param", "fp"]], ["par", par, ["param", "cat"]], ["par", par, ["tagged", "t"]], ["par", par, ["call", "GetFirst"]],
                ["par", par, ["getctx", "c1", names[-1]]], ["par", par, ["getctx", "c2", names[-1]]], ["counters"]]
        items.append((cfg, ops))
    out, err = behave.run_batch(ctx, items, race=True, tag="c20")
    violations, nontriv = [], set()
    # a contextual service must not become reachable from a shared one by ANY path — also through the decorator of a tag a
    # dependency-free shared service carries: such configurations are refused at build time (otherwise the first context's
    # instance would be cached in the shared service and handed to every other context)
    fxm = {"pkg": "gen", "imports": {"fx": gen.FX}}
    for k, bad in enumerate([
            {"meta": fxm, "services": {"repo": {"constructor": "fx.NewA", "scope": "shared", "tags": ["t"]}, "tx": {"constructor": "fx.NewA", "scope": "contextual"}},
             "decorators": [{"tag": "t", "decorator": "fx.Dec1", "arguments": ["@tx"]}]},
            {"meta": fxm, "services": {"repo": {"value": "&fx.Obj{}", "scope": "shared", "tags": [{"name": "t", "priority": 3}]}, "tx": {"constructor": "fx.NewA", "scope": "contextual"},
                                       "mid": {"constructor": "fx.NewA", "arguments": ["@tx"]}},
             "decorators": [{"tag": "t", "decorator": "fx.Dec1", "arguments": ["!tagged u"]}, {"tag": "u", "decorator": "fx.Dec1"}],
             "__extra__": {"mid": {"tags": ["u"]}}},
            # … nor through a dependency list in which a placeholder (or several) stands before the contextual service
            {"meta": fxm, "services": {"repo": {"constructor": "fx.NewA", "scope": "shared", "arguments": ["@clock", "@tx"], "fields": {"F1": "@aaa"}},
                                       "clock": {"todo": True}, "aaa": {"todo": True, "scope": "shared"}, "tx": {"constructor": "fx.NewA", "scope": "contextual"}}},
            {"meta": fxm, "services": {"repo": {"constructor": "fx.NewA", "scope": "shared", "arguments": ["@mid"]}, "mid": {"constructor": "fx.NewA", "arguments": ["@a_later", "@zz"]},
                                       "a_later": {"todo": True}, "zz": {"constructor": "fx.NewA", "scope": "contextual"}}}]):
        extra = bad.pop("__extra__", {})
        for nm, add in extra.items():
            bad["services"][nm].update(add)
        a = ctx.impl.ask({"op": "compile", "files": [gen.yaml_doc(bad)], "version": ""})
        if not (a.get("scope") or a.get("errs")):
            violations.append({"sig": "contextual-reachable-from-shared-accepted", "what": "a shared service that reaches a contextual one through the decorator of a tag it carries is accepted: its first context's instance would be shared by all contexts", "files": [gen.yaml_doc(bad)]})
    dist = {"containers": 0, "parallel_ops": 0, "goroutines": 0, "shared_checked": 0, "contextual_checked": 0}
    if err:
        violations.append({"sig": "probe-build", "what": err})
    if out and "DATA RACE" in (out[0].get("probe_stderr") or ""):
        violations.append({"sig": "data-race", "what": "the race detector reports: " + out[0]["probe_stderr"][-2500:], "files": [r["files"][0] for r in out[:3]]})
    for (cfg, ops), rec in zip(items, out):
        if not rec["accepted"]:
            continue
        if rec["impl"] is None:
            rc, se = rec.get("impl_crash", (None, ""))
            sig = "data-race" if "DATA RACE" in (se or "") else "probe-crash"
            violations.append({"sig": sig, "what": "concurrent probe failed (rc=%r): %s" % (rc, (se or "")[-1500:]), "files": rec["files"]}); continue
        dist["containers"] += 1
        res = rec["impl"]
        c0 = res[0]["ok"].get("probe/fx.Fn1", 0)
        c1 = res[-1]["ok"].get("probe/fx.Fn1", 0)
        if c1 - c0 != 1:
            violations.append({"sig": "param-evaluated-more-than-once", "what": "parameter function evaluated %d times under %d concurrent GetParam/Get" % (c1 - c0, par), "files": rec["files"]})
        shared_serial = {}
        ctx_serials = {}
        for op, r in zip(ops, res):
            if op[0] == "parmix":
                dist["parallel_ops"] += 1
                rs = r.get("par", [])
                inner_ops = op[2]
                dist["goroutines"] += len(rs)
                for i, x in enumerate(rs):
                    o = inner_ops[i % len(inner_ops)]
                    if "panic" in x or "err" in x:
                        violations.append({"sig": "concurrent-error", "what": "%r under concurrency: %r" % (o, x), "files": rec["files"]})
                    elif o[0] == "param" and not o[1].startswith("m"):
                        pass  # fp / al / al2: judged by the evaluation counter below
                    elif o[0] == "param":
                        k = int(o[1][1:])
                        want = "<m%d|x|%d-x>" % (k, k)
                        if x.get("ok", {}).get("v") != want:
                            violations.append({"sig": "concurrent-wrong-value", "what": "GetParam(%s) under concurrency returned %r, expected %r" % (o[1], x.get("ok"), want), "files": rec["files"]})
                    elif o[-1] in ("vctx", "vns"):
                        lg = x.get("ok", {}).get("log", [])
                        if len(lg) != 1:
                            violations.append({"sig": "value-service-instance-reused", "what": "%r under concurrency returned an object whose call log has %d entries (a fresh instance has exactly its own call): the value expression is not evaluated per construction" % (o, len(lg)), "files": rec["files"]})
                    elif o == ["get", "ns"]:
                        a = x.get("ok", {}).get("args", {}).get("v", [])
                        if len(a) < 3 or a[1].get("v") != "xxyxz" or a[2].get("v") != "<m0|x|0-x>-<m1|x|1-x>":
                            violations.append({"sig": "concurrent-wrong-value", "what": "Get(ns) under concurrency built with arguments %r" % (a,), "files": rec["files"]})
                continue
            if op[0] != "par":
                continue
            dist["parallel_ops"] += 1
            dist["goroutines"] += op[1]
            inner = op[2]
            rs = r.get("par", [])
            for x in rs:
                if "panic" in x or ("err" in x and not spec.service_can_fail(cfg, inner[-1]) and inner[0] in ("get", "getctx")):
                    violations.append({"sig": "concurrent-error", "what": "%r under concurrency: %r" % (inner, x), "files": rec["files"]})
            if inner[0] in ("get", "getctx", "call"):
                target = inner[-1] if inner[0] != "call" else list(cfg["services"])[0]
                for nm in cfg["services"]:
                    sc = c05.resolved(cfg, nm)
                    sers = set()
                    for x in rs:
                        if "ok" in x:
                            sers |= set(c05.own_serials(x["ok"], nm))
                    if not sers:
                        continue
                    if sc == "shared":
                        dist["shared_checked"] += 1
                        allser = shared_serial.setdefault(nm, set())
                        allser |= sers
                        if len(allser) > 1:
                            violations.append({"sig": "shared-constructed-twice", "what": "shared service %r has %d instances after concurrent gets: %r" % (nm, len(allser), sorted(allser)), "files": rec["files"]})
                    elif sc == "contextual" and inner[0] == "getctx":
                        dist["contextual_checked"] += 1
                        d = ctx_serials.setdefault(nm, {})
                        d.setdefault(inner[1], set()).update(sers)
                        if len(d[inner[1]]) > 1:
                            violations.append({"sig": "contextual-twice-in-context", "what": "contextual service %r has %d instances within context %s" % (nm, len(d[inner[1]]), inner[1]), "files": rec["files"]})
                        for other, ss in d.items():
                            if other != inner[1] and ss & d[inner[1]]:
                                violations.append({"sig": "contextual-shared-between-contexts", "what": "contextual service %r: contexts %s and %s share instance %r" % (nm, other, inner[1], sorted(ss & d[inner[1]])), "files": rec["files"]})
        nontriv.add(rec["files"][0])
    return {"evaluations": dist["parallel_ops"], "distinct_nontrivial": len(nontriv), "programs": dist["containers"],
            "explanation": EXPLANATION,
            "rule": "%d random configurations (scopes, shared parameters with a counted function, tags, a getter); per container %d goroutines released together on every service (Get), parameter (GetParam), tag (GetTaggedBy), getter and on two contexts (GetInContext); probe built with -race; distinct = containers" % (n, par),
            "samples": [rec["files"][0][:400] for rec in out[:2]], "distribution": dist, "violations": violations, "corr_fail": []}


def search(ctx):
    return run(ctx, n=40, par=64)


def replay(ctx, payload):
    return run(ctx, n=6, par=64)
