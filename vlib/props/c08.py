"""C08 — output and diagnostics are deterministic and key-order independent."""
import hashlib, json, os, random, shutil
from vlib import core, gen, runsc
from vlib.props import c10, c06

LEVEL = "proof"
TEXT = ("Every `range` over a map in the tool (typed inventory regenerated with go/types: Generated.mapRangeSites) is modelled with the map's bindings in arbitrary "
        "order and proved invariant under all permutations (perm_invariant_keys/iterate/mergeMap/imports/decorateImport/processed/scope_table), sites_covered "
        "(decide) makes a new raw range an undischarged obligation, no_ambient_inputs pins the complete list of os/time/rand/runtime/filepath calls, and "
        "key_order_params/services/meta/validate show compilation and validation see only the sorted traversal. Tied by running each configuration (valid, and "
        "invalid with >= 2 simultaneous defects of every class) N times in fresh processes, in different directories and environments, and under key permutations "
        "of every mapping, comparing hashes of stdout and of the -o file. The site inventories are classified from the typed syntax tree (a map range that only stores under the range key, or only collects into a slice that is sorted afterwards; sorts by their ordering, whichever library function performs them), so behaviour-preserving restructuring keeps the facts while a raw range over a map or a non-plain comparator is a new fact.")
TECHNIQUE = "Lean 4 permutation-invariance theorems per map-range site (List.Perm) + regenerated typed site inventory (decide) + repeated fresh-process runs and key-permutation runs with hash comparison"
LEAN_PROPS = ["C08"]
TRUSTED = ["the go/types inventory tool tools/sites", "determinism of the dependencies (yaml.v3, gofmt, goimports, gonum cycle enumeration + the runtime's sorting of cycles) is observed, not proved"]
ASSUMPTIONS = ["stdout is not a terminal (colour off)"]


def multi_defect_configs():
    out = {}
    out["meta2"] = {"meta": {"imports": {"a b": "x y", "c d": "z w", "ok": "p/q"}, "functions": {"1f": "no good", "2g": "also bad", "h h": "x."}}}
    out["params-services"] = {"parameters": {"bad name": 1, "other bad": [1], "x": "%nope%", "y": "%nope2%"},
                              "services": {"a a": {"constructor": "1"}, "b b": {"value": "?"}, "c": {}, "d": {"getter": "MustX", "constructor": "N"}}}
    out["missing-many"] = {"services": {n: {"constructor": "NewA", "arguments": ["@ghost.%s" % n, "%%ghost.%s%%" % n]} for n in ("a", "b", "c", "d")},
                           "decorators": [{"tag": "t", "decorator": "Dec", "arguments": ["@gd", "%gp%"]}] * 2}
    out["cycles"] = {"parameters": {"p": "%q%", "q": "%p%", "r": "%s%", "s": "%r%"},
                     "services": {"a": {"constructor": "N", "arguments": ["@b"]}, "b": {"constructor": "N", "arguments": ["@a", "@c"]}, "c": {"constructor": "N", "arguments": ["@b"]},
                                  "x": {"constructor": "N", "arguments": ["@x"]}, "t1": {"constructor": "N", "tags": ["t"], "arguments": ["!tagged t"]}}}
    out["scopes"] = {"services": {n: {"constructor": "N", "arguments": ["@ctx1", "@ctx2"], "scope": "shared"} for n in ("a", "b", "c")}}
    out["scopes"]["services"].update({"ctx1": {"constructor": "N", "scope": "contextual"}, "ctx2": {"constructor": "N", "scope": "contextual"}})
    out["tokens"] = {"parameters": {"a": "%f(1)%", "b": "%g(2)%", "c": "%%%", "d": "%1x%"}}
    # keys that are equal up to case / prefixes of each other: a coarser sort comparator would tie them
    out["case-keys"] = {"meta": {"pkg": "gen", "imports": {"fx": "probe/fx", "FX": "probe/fx2/pkg", "Fx": "probe/deep/fx"}, "functions": {"fn": "fx.Fn1", "Fn": "fx.FnInt", "FN": "fx.Fn1"}},
                        "parameters": {"host": 1, "Host": 2, "HOST": 3, "hosT": "%host%%Host%", "a": "x", "A": "y", "a.b": 1, "a-b": 2, "a_b": 3},
                        "services": {n: {"constructor": "fx.NewA", "arguments": [n], "fields": {"F1": 1, "F2": 2}, "tags": ["t", "T"], "getter": "Get" + n.replace(".", "").replace("-", "").replace("_", "U")}
                                     for n in ("db", "DB", "Db", "dB", "a.b", "a-b", "a_b", "ab")}}
    out["case-keys-invalid"] = {"parameters": {"Port": [1], "port": [2], "PORT": [3], "x y": 1, "X Y": 2},
                                "services": {"svc": {"constructor": "1x"}, "SVC": {"constructor": "2x"}, "Svc": {"constructor": "3x"}}}
    out["aliases"] = {"meta": {"pkg": "gen", "imports": {"exp": "exp1/my", "exp1": "other/p", "ex": "e/x", "a": "x/y", "a.b": "std"}},
                      "services": {"s1": {"constructor": "exp1/ossuary/pkg.New"}, "s2": {"constructor": "exp/os.New"}, "s3": {"constructor": "a.b/c.New"}, "s4": {"value": "ex/v.V"}, "s5": {"type": "*exp12/t.T"}}}
    # chains: the target of one alias starts with a segment that is itself an alias (an expansion applied again would depend on
    # the iteration order of the alias table) — six independent chains, each referenced
    ch = {}
    for k in range(6):
        ch["c%d" % k] = "d%d/x" % k
        ch["d%d" % k] = "far/away%d" % k
    out["alias-chains"] = {"meta": {"pkg": "gen", "imports": ch},
                           "services": dict({"s%d" % k: {"constructor": "c%d/sub.New" % k} for k in range(6)}, **{"t%d" % k: {"value": "d%d/v.V" % k} for k in range(6)})}
    return out


def shuffle_keys(rng, obj):
    if isinstance(obj, dict):
        ks = list(obj)
        rng.shuffle(ks)
        return {k: shuffle_keys(rng, obj[k]) for k in ks}
    if isinstance(obj, list):
        return [shuffle_keys(rng, x) for x in obj]
    return obj


def observe(sc, root, env=None):
    runsc.setup_dir(root, sc)
    args = []
    for p in sc["patterns"]:
        args += ["-i", p]
    args += ["-o", sc["out"]] + runsc.flags_args(sc.get("flags", {}))
    rc, so, se = core.cli(["build"] + args, cwd=root, env=env)
    st = runsc.out_state(root, sc["out"])
    return (rc, hashlib.sha256(so.encode()).hexdigest()[:16], st), so


def run(ctx, runs=None):
    runs = runs or (8 if ctx.quick else 40)
    nrand = 20 if ctx.quick else 400
    cfgs = dict(multi_defect_configs())
    for k, v in c10.defect_configs().items():
        cfgs["c10-" + k] = v
    for i in range(nrand):
        c = gen.gen_config(ctx.rng)
        if i % 3 == 0:
            c = c06.mutate(ctx.rng, c)
        c.setdefault("meta", {})["pkg"] = "gen"
        cfgs["rand%03d" % i] = c
    violations, nontriv = [], set()
    dist = {"configs": 0, "runs": 0, "permutation_runs": 0, "invalid_multi_defect": 0, "valid": 0, "mapkeys_cases": 0}
    corr_fail = []
    # sorted-key helper: model vs implementation on key sets with case collisions and prefix relations, each asked 3 times
    pool = ["a", "A", "ab", "aB", "Ab", "AB", "a.b", "a-b", "a_b", "b", "B", "host", "Host", "HOST", "é", "É", "z", "Z", "", "a0", "a/"]
    for _ in range(300 if ctx.quick else 5000):
        ks = ctx.rng.sample(pool, ctx.rng.randint(0, 8))
        req = {"op": "mapkeys", "keys": ks}
        outs = [ctx.impl.ask(req) for _ in range(3)]
        dist["mapkeys_cases"] += 1
        if len({core.canon(o) for o in outs}) > 1:
            violations.append({"sig": "nondeterministic-key-order", "what": "maps.Keys returns different orders for the same key set %r: %r" % (ks, [o.get("ok") for o in outs]), "scenario": {"name": "mapkeys", "keys": ks}})
            break
        if ctx.have_model:
            m = ctx.model.ask(req)
            if core.canon(m.get("ok")) != core.canon(outs[0].get("ok")) and len(corr_fail) < 5:
                corr_fail.append({"op": "mapkeys", "req": req, "impl": outs[0], "model": m})
    base = ctx.scratch()
    for name, cfg in cfgs.items():
        dist["configs"] += 1
        sc = {"name": name, "files": {"cfg/a.yaml": gen.yaml_doc(cfg)}, "patterns": ["cfg/a.yaml"], "out": "out/gen.go", "flags": {}}
        if name == "c10-valid":
            sc["files"]["cfg/b.yaml"] = "{}"
            sc["files"]["cfg/c.yaml"] = "{}"
            sc["patterns"] = ["cfg/*.yaml", "cfg/b.yaml", "cfg/c.yaml", "cfg/a.yaml"]   # three files matched twice
        first, firsttext = None, ""
        for r in range(runs):
            root = os.path.join(base, "d%d" % (r % 3), "w")          # different working directories
            env = {"HOME": "/nonexistent%d" % r, "TERM": ["dumb", "xterm-256color", ""][r % 3], "LANG": ["C", "en_US.UTF-8"][r % 2], "GONTAINER_X": str(r), "TZ": ["UTC", "Asia/Tokyo"][r % 2]}
            o, text = observe(sc, root, env)
            dist["runs"] += 1
            if first is None:
                first, firsttext = o, text
                dist["valid" if o[0] == 0 else "invalid_multi_defect"] += 1
            elif o != first:
                kind = "matches-more-than-one" if "matches more than one" in text else ("meta" if "meta:" in text else "other")
                violations.append({"sig": "nondeterministic-report:" + kind if o[1] != first[1] else "nondeterministic-output",
                                   "what": "run %d of the same inputs differs from run 0 (exit/stdout-hash/output-hash %r vs %r)" % (r, o, first), "scenario": sc,
                                   "observed": [firsttext[-600:], text[-600:]]})
                break
        # key permutations: generated file must not change
        if first and first[0] == 0:
            nontriv.add(name)
            for k in range(4 if ctx.quick else 24):
                p = shuffle_keys(ctx.rng, cfg)
                sc2 = dict(sc, files=dict(sc["files"], **{"cfg/a.yaml": gen.yaml_doc(p)}))
                o, text = observe(sc2, os.path.join(base, "perm", "w"))
                dist["permutation_runs"] += 1
                if (o[0], o[2]) != (first[0], first[2]):
                    violations.append({"sig": "key-order-changes-output", "what": "reordering YAML mapping keys changes the generated file", "scenario": sc2, "original": sc["files"]["cfg/a.yaml"]})
                    break
    return {"evaluations": dist["runs"] + dist["permutation_runs"], "distinct_nontrivial": len(nontriv) + dist["invalid_multi_defect"],
            "rule": "multi-defect configurations of every class + the C10 defect classes + seeded random (mutated) configurations; each run %d times in fresh processes with varying cwd and environment (sha256 of stdout and -o compared); accepted ones additionally under random key permutations of all mappings; distinct = configurations" % runs,
            "samples": [{"name": n, "cfg": gen.yaml_doc(c)[:300]} for n, c in list(cfgs.items())[:3]], "distribution": dist, "violations": violations, "corr_fail": corr_fail}


def search(ctx):
    return run(ctx, runs=30)


def replay(ctx, payload):
    sc = payload["scenario"]
    base = ctx.scratch()
    seen = set()
    for r in range(40):
        o, _ = observe(sc, os.path.join(base, "rp%d" % (r % 3), "w"))
        seen.add(o)
    v = [{"sig": payload.get("sig", "nondeterministic"), "what": "%d distinct observations in 40 runs" % len(seen), "scenario": sc}] if len(seen) > 1 else []
    return {"evaluations": 40, "distinct_nontrivial": 2, "violations": v, "samples": [sc["name"]]}
