"""C06 — dangling parameter/service references are detected, exactly."""
import copy, json, re
from vlib import core, gen, corr

LEVEL = "proof"
TEXT = ("compiled_service_refs_declared / compiled_param_refs_declared: for every program that runs what Compile.compile returned and that the existence validators accept, the names the runtime looks up for the references written in the configuration (svcByName for an @service argument of a service or decorator, the parameter table for every %reference% the runtime tokeniser finds) are declared — the look-ups whose failure is the run-time error `does not exist` succeed. "
        "`validateParamsExist o = [] <-> every (referrer, name) in paramRefs o is declared` (and the same for services), the count of diagnostics = count of dangling "
        "occurrences, todo services are declared and refer to nothing: Lean theorems for every compiled configuration, with paramRefs enumerating parameters, "
        "service arguments/calls/fields and decorator arguments. Tied by running model and implementation on generated configurations in which references are "
        "removed/renamed in every position, singly and combined; the implementation's verdict is also judged by an independent reference walker in Python. pattern_deps_all_refs: the recorded parameter dependencies of a compiled pattern are exactly the references among its tokens, in any position. The run-time consequence is exercised: accepted containers are built and asked for every service, parameter and tag — no answer may say 'does not exist'.")
TECHNIQUE = "Lean 4 theorems (list/filter reasoning over the compiled output) + model-vs-implementation correspondence on reference mutations in every position"
LEAN_PROPS = ["C06"]
TRUSTED = ["resolver DependsOn* lists vs what the emitted code dereferences: compared structurally in `compile` correspondence (code strings and dependency lists)"]
ASSUMPTIONS = ["references inside a todo service are inert (DESIGN §8)"]


def refs_of_value(v):
    """(params, services) referenced by one argument value, per the documented argument forms"""
    if not isinstance(v, str):
        return [], []
    if v.startswith("@"):
        return [], [v[1:]]
    if v.startswith("!value") or v.startswith("!tagged") or v == "$gontainer":
        return [], []
    ps = []
    parts = v.split("%")
    for i in range(1, len(parts), 2):
        t = parts[i]
        if t and re.fullmatch(r"[A-Za-z]((\.|-|_)?[A-Za-z0-9])*", t):
            ps.append(t)
    return ps, []


def expected_missing(cfg):
    params = cfg.get("parameters", {})
    services = cfg.get("services", {})
    mp, ms = [], []
    for n, v in params.items():
        for p in refs_of_value(v)[0]:
            if p not in params:
                mp.append(("%" + n + "%", p))
    for n, s in services.items():
        if s.get("todo"):
            continue
        for a in gen._all_args(s):
            ps, ss = refs_of_value(a)
            mp += [("@" + n, p) for p in ps if p not in params]
            ms += [(n, x) for x in ss if x not in services]
    for i, d in enumerate(cfg.get("decorators", [])):
        for a in d.get("arguments", []):
            ps, ss = refs_of_value(a)
            mp += [("decorator(#%d" % i, p) for p in ps if p not in params]
            ms += [("decorator(#%d" % i, x) for x in ss if x not in services]
    return mp, ms


def mutate(rng, cfg):
    """remove or rename declarations so that references dangle; add references in every position"""
    cfg = copy.deepcopy(cfg)
    cfg.setdefault("parameters", {})
    svcs = cfg.setdefault("services", {})
    live = [n for n, s in svcs.items() if not s.get("todo")]
    k = rng.randint(1, 3)
    for _ in range(k):
        r = rng.random()
        if r < 0.25 and cfg["parameters"]:
            del cfg["parameters"][rng.choice(list(cfg["parameters"]))]
        elif r < 0.4 and len(svcs) > 1:
            del svcs[rng.choice(list(svcs))]
            live = [n for n, s in svcs.items() if not s.get("todo")]
        elif live:
            ref = rng.choice(["%ghost%", "@ghost", "a%ghost.p%b", "%%%ghost2%", "%%ghost%%", "@phantom", "%p%%ghost%"])
            if rng.random() < 0.35:
                # a name that IS declared — in the other namespace: a parameter is not a service and a service is not a parameter
                cross = ["@" + q for q in cfg["parameters"] if q not in svcs] + ["%" + q + "%" for q in svcs if q not in cfg["parameters"]]
                if cross:
                    ref = rng.choice(cross)
            pos = rng.choice(["arg", "call", "field", "dec", "param"])
            s = svcs[rng.choice(live)]
            if pos == "arg" and "constructor" in s:
                s.setdefault("arguments", []).append(ref)
            elif pos == "call" and "constructor" in s and "NewVal" not in s["constructor"]:
                s.setdefault("calls", []).append(["Call1", [ref]])
            elif pos == "field" and "constructor" in s and "NewVal" not in s["constructor"]:
                s.setdefault("fields", {})["F1"] = ref
            elif pos == "dec":
                cfg.setdefault("decorators", []).append({"tag": "t", "decorator": "fx.Dec1", "arguments": [ref]})
            elif not ref.startswith("@"):
                cfg["parameters"]["m%d" % rng.randint(0, 3)] = ref
    return cfg


def gen_q(s):
    return '"' + s + '"'


def judge(cfg, a):
    if a.get("errs"):
        return None
    mp, ms = expected_missing(cfg)
    gp = a.get("params", [])
    gs = a.get("services", [])
    if len(gp) != len(mp):
        return "missing-parameter diagnostics %r, expected one per dangling reference %r" % (gp, mp)
    if len(gs) != len(ms):
        return "missing-service diagnostics %r, expected one per dangling reference %r" % (gs, ms)
    for (ref, name) in mp:
        if not any(gen_q(name) in l and ref in l.replace('\\"', '"') for l in gp):
            return "dangling parameter %r referenced from %r is not reported naming both: %r" % (name, ref, gp)
    for (ref, name) in ms:
        if not any(gen_q(name) in l and ref in l for l in gs):
            return "dangling service %r referenced from %r is not reported naming both: %r" % (name, ref, gs)
    return None


def run(ctx, n=None):
    n = n or (400 if ctx.quick else 6000)
    fixed = [
        {"services": {"a": {"constructor": "fx.NewA", "tags": ["t"]}}, "decorators": [{"tag": "t", "decorator": "fx.Dec1", "arguments": ["%missing%"]}]},
        {"services": {"a": {"constructor": "fx.NewA", "tags": ["t"]}}, "decorators": [{"tag": "t", "decorator": "fx.Dec1", "arguments": ["@missing"]}]},
        {"parameters": {"x": "%todo()%"}, "services": {"w": {"todo": True}, "a": {"constructor": "fx.NewA", "arguments": ["@w", "%x%"]}}},
        {"parameters": {"x": "%%y%%", "z": "%y%"}},
        {"services": {"a": {"constructor": "fx.NewA", "calls": [["Call1", ["@b"]]], "fields": {"F1": "%p%"}}}},
        {"services": {"a": {"todo": True, "arguments": ["@nothing", "%nothing%"]}}},
        # parameters and services are separate namespaces
        {"parameters": {"mailer": "smtp"}, "services": {"clock": {"constructor": "fx.NewA"}, "a": {"constructor": "fx.NewA", "arguments": ["@mailer", "%clock%", "%mailer%", "@clock"]}}},
        {"parameters": {"p": "%clock%"}, "services": {"clock": {"constructor": "fx.NewA", "tags": ["t"]}}, "decorators": [{"tag": "t", "decorator": "fx.Dec1", "arguments": ["%clock%", "@p"]}]},
    ]
    cases = fixed + [mutate(ctx.rng, gen.gen_config(ctx.rng)) if i % 5 else gen.gen_config(ctx.rng) for i in range(n)]
    cases += [gen.gen_config_wild(ctx.rng) for _ in range(n)]
    violations, corr_fail, nontriv = [], [], set()
    dist = {"accepted": 0, "missing_params": 0, "missing_services": 0, "in_decorator": 0, "rejected_earlier": 0}
    for cfg in cases:
        cfg.setdefault("meta", {}).setdefault("imports", {"fx": gen.FX})
        a, b, d = corr.compile_pair(ctx, corr.files_of(cfg))
        if "panic" in a:
            violations.append({"sig": "panic", "what": a["panic"], "files": corr.files_of(cfg)}); continue
        for x in d[:1]:
            if len(corr_fail) < 10:
                corr_fail.append({"op": "compile:" + x[0], "files": corr.files_of(cfg), "impl": x[1], "model": x[2]})
        if a.get("decodeErr") or a.get("errs"):
            dist["rejected_earlier"] += 1
            continue
        e = judge(cfg, a)
        if e:
            violations.append({"sig": "existence:" + ("decorator" if "decorator(#" in e else "service-or-param"), "what": e, "files": corr.files_of(cfg), "observed": {"params": a["params"], "services": a["services"]}})
        dist["missing_params"] += bool(a["params"])
        dist["missing_services"] += bool(a["services"])
        dist["in_decorator"] += any("decorator(#" in l for l in a["params"] + a["services"])
        dist["accepted"] += not (a["params"] or a["services"])
        if a["params"] or a["services"]:
            nontriv.add(core.canon([sorted(a["params"]), sorted(a["services"])]))
    # the rule does not depend on the output mode: with --stub (and without any ignore flag) the same dangling references
    # are rejected with the same diagnostics
    import os, shutil
    sd = os.path.join(ctx.scratch(), "c06stub")
    os.makedirs(sd, exist_ok=True)
    dist["stub_mode_cases"] = 0
    for k, cfg in enumerate(fixed[:2] + [mutate(ctx.rng, gen.gen_config(ctx.rng)) for _ in range(4 if ctx.quick else 40)]):
        cfg.setdefault("meta", {}).setdefault("imports", {"fx": gen.FX})
        fn = os.path.join(sd, "c%d.yaml" % k)
        open(fn, "w").write(gen.yaml_doc(cfg))
        outs = []
        for fl in ([], ["--stub"]):
            rc, so, se = core.cli(["build", "-i", fn, "-o", os.path.join(sd, "o%d%s.go" % (k, "s" if fl else ""))] + fl, cwd=sd)
            lines = sorted(l.split(". ", 1)[-1] for l in so.splitlines() if "does not exist" in l)
            outs.append((rc, lines))
        dist["stub_mode_cases"] += 1
        if outs[0] != outs[1]:
            violations.append({"sig": "existence:stub-mode", "what": "normal mode: exit %d, %r; --stub: exit %d, %r — the existence rule must not depend on the output mode" % (outs[0][0], outs[0][1][:3], outs[1][0], outs[1][1][:3]), "files": [gen.yaml_doc(cfg)]})
    shutil.rmtree(sd, ignore_errors=True)
    # the consequence at run time: an accepted container never answers "does not exist" for anything the configuration
    # declares or references (todo parameters/services answer with THEIR error), whatever is asked first
    from vlib import behave
    nb = 10 if ctx.quick else 120
    items = [({"meta": {"pkg": "gen", "imports": {"fx": gen.FX}}, "parameters": {"x": "%todo()%", "y": "a%x%"},
               "services": {"w": {"todo": True}, "w2": {"todo": True, "type": "*fx.Obj", "tags": ["t"]}, "a": {"constructor": "fx.NewA", "arguments": ["@w", "%x%", "!tagged t"]},
                            "b": {"constructor": "fx.NewA", "fields": {"F1": "@w2"}, "calls": [["Call1", ["%y%"]]]}}}, None)]
    items += [(gen.gen_config(ctx.rng), None) for _ in range(nb)]
    items = [(c, [["get", s_] for s_ in c["services"]] + [["param", p_] for p_ in c.get("parameters", {})] + [["tagged", "t"], ["tagged", "nosuchtag"]]) for c, _ in items]
    out, err = behave.run_batch(ctx, items, tag="c06")
    dist["containers_run"] = 0
    if err:
        violations.append({"sig": "probe-build", "what": err})
    for (cfg, ops), rec in zip(items, out):
        if not rec["accepted"] or rec["impl"] is None:
            continue
        dist["containers_run"] += 1
        if rec["model"] is not None:
            for x in behave.compare_script(rec["impl"], rec["model"])[:1]:
                if len(corr_fail) < 10:
                    corr_fail.append({"op": "rt:get", "files": rec["files"], "at": ops[x[0]] if isinstance(x[0], int) else x[0], "impl": x[1], "model": x[2]})
        for o, r in zip(ops, rec["impl"]):
            if "does not exist" in (r.get("err") or "") and "environment variable" not in r["err"]:
                violations.append({"sig": "existence:runtime", "what": "accepted container answers %r with %r: a declared/referenced name does not exist at run time" % (o, r["err"][:200]), "files": rec["files"]})
    return {"evaluations": len(cases) + dist["containers_run"], "distinct_nontrivial": len(nontriv), "programs": dist["containers_run"],
            "rule": "generated configurations with declarations removed/renamed and dangling references added in every position (parameter chunk, constructor argument, call argument, field, decorator argument; multi-chunk, after %%); non-trivial = distinct non-empty diagnostic sets",
            "samples": [corr.files_of(c)[0][:600] for c in cases[:2] + cases[len(fixed):len(fixed) + 2]], "distribution": dist,
            "violations": violations, "corr_fail": corr_fail}


def search(ctx):
    return run(ctx, n=3000)


def replay(ctx, payload):
    a = ctx.impl.ask({"op": "compile", "files": payload["files"], "version": ""})
    v = []
    try:
        cfg = json.loads(payload["files"][0])
    except Exception:
        cfg = None
    if cfg is not None and not a.get("errs"):
        e = judge(cfg, a)
        if e:
            v.append({"sig": payload.get("sig", "existence"), "what": e, "files": payload["files"]})
    return {"evaluations": 1, "distinct_nontrivial": 1, "violations": v, "samples": payload["files"]}
