"""C15 — todo placeholders and run-time overrides."""
import itertools, json
from vlib import core, gen, behave, spec

LEVEL = "proof"
TEXT = ("Over the runtime model (Lean): the todo function always fails with its message or `parameter todo`, a todo service fails with `service todo` until overridden, "
        "an overridden parameter/service is what every later Get/GetParam receives, a fresh container has evaluated no provider and a cached parameter is not "
        "evaluated again (todo_param_errors, todo_service_errors, override_*_visible, params_lazy, param_cached, param_first_use); todo definitions count as declared "
        "(C06). The model is tied to the generated code by running ALL histories over {GetParam, Get, OverrideParam, OverrideService} up to a bounded length on "
        "small configurations with every subset of definitions marked todo, with invocation counters in the fixtures; key clauses are also judged directly. Whole histories of GetParam: param_evaluated_at_most_once (a cached value is never replaced, its provider never runs again, only providers of uncached parameters run), getParam_frame (services, overrides, heap untouched), cached_param_answers.")
TECHNIQUE = "Lean 4 theorems over the runtime model (cache/override lemmas) + exhaustive bounded histories: runtime model vs compiled generated code (probe)"
LEAN_PROPS = ["C15"]
TRUSTED = ["gontainer-helpers/v3 caching and override semantics are modelled (Model/Runtime.lean), tied by level B"]
ASSUMPTIONS = []


def base_cfg(todo_p, todo_q, todo_s, msg):
    params = {"p": ("%todo(" + (json.dumps(msg) if msg else "") + ")%") if todo_p else "pv",
              "q": "%todo()%" if todo_q else "q-%p%",
              "c": "%myfn(1)%"}
    # a todo service stays a placeholder whatever else it declares (a draft constructor, a value, type/getter/tags)
    # … including references to parameters and services nobody declares, and to a dependant of its own (no cycle: a
    # placeholder has no dependencies)
    forms = [{"todo": True}, {"todo": True, "constructor": "fx.NewA", "arguments": ["draft", "%undeclared%", "@nosuch", "@u", "!tagged t"], "fields": {"F1": "@u"},
                              "calls": [["Call1", ["%nope%"]]]}, {"todo": True, "value": "fx.GlobalVal"},
             {"todo": True, "type": "*fx.Obj", "getter": "GetS", "tags": ["t"], "constructor": "fx.NewA"}]
    svcs = {"s": forms[2 * todo_p + todo_q] if todo_s else {"constructor": "fx.NewA", "arguments": ["s"]},
            # the dependant has a typed getter: a dependency that is still a placeholder surfaces as the error from every getter form
            "u": {"constructor": "fx.NewB", "arguments": ["@s", "%q%"], "type": "*fx.Obj", "getter": "GetU", "must_getter": True},
            "n": {"constructor": "fx.NewC", "arguments": ["%p%", "%c%"], "scope": "non_shared"}}
    if todo_s:
        # a second placeholder next to the first (each gets its own stub); nothing depends on it
        svcs["s2"] = {"todo": True}
    # a parameter may be NAMED like a built-in function: `%todo%` is a reference to it, `%todo()%` a call of the function
    params["todo"] = '%todo("set me")%' if todo_p else "plain-todo"
    params["reftodo"] = "%todo%"
    # a message may contain anything a Go string literal can: parentheses, commas
    params["pp"] = '%todo("ask ops (see wiki/secrets, section 2)")%' if (todo_p or todo_q) else "plain"
    # a parameter that is nothing but another parameter: it must follow an override of its target as long as it was not evaluated
    params["al"] = "%p%"
    return {"meta": {"pkg": "gen", "imports": {"fx": gen.FX}, "functions": {"myfn": "fx.Fn1"}}, "parameters": params, "services": svcs}


OPS = [["param", "reftodo"], ["ovparam", "todo", {"k": "str", "v": "T2"}], ["param", "p"], ["param", "q"], ["param", "c"], ["param", "pp"], ["param", "al"], ["get", "s"], ["get", "u"], ["get", "n"],
       ["call", "GetUInContext", "c1"], ["call", "MustGetU"],
       ["ovparam", "p", {"k": "str", "v": "P2"}], ["ovparam", "q", {"k": "int", "v": 7}], ["ovservice", "s", {"k": "obj", "v": "S2"}]]


def run(ctx, maxlen=None):
    maxlen = maxlen or (3 if ctx.quick else 4)
    cfgs = []
    for tp, tq, ts in itertools.product([False, True], repeat=3):
        cfgs.append(base_cfg(tp, tq, ts, "fill me in" if tp and ts else None))
    hist = []
    for L in range(1, maxlen + 1):
        hist += [list(h) for h in itertools.product(range(len(OPS)), repeat=L)]
    if ctx.quick:
        ctx.rng.shuffle(hist)
        hist = hist[:90]
    # each configuration gets one script per history; a fresh container per script
    items = []
    for cfg in cfgs:
        for h in hist:
            ops = [["counters"], ["newctx", "c1"]] + [OPS[i] for i in h] + [["counters"]]
            items.append((cfg, ops))
    # one package per configuration is enough: group scripts by configuration
    out, err, groups = run_grouped(ctx, cfgs, [[(["counters"]), ] for _ in cfgs], items)
    violations, corr_fail, nontriv = [], [], set()
    dist = {"histories": 0, "with_override": 0, "todo_errors_seen": 0, "lazy_checked": 0}
    if err:
        violations.append({"sig": "probe-build", "what": err})
    for (cfg, ops), impl, model, files in out:
        dist["histories"] += 1
        dist["with_override"] += any(o[0].startswith("ov") for o in ops)
        if impl is None:
            violations.append({"sig": "probe-crash", "what": "no result", "files": files}); continue
        # counters ops are probe-only: drop them for the model comparison
        ia = [r for o, r in zip(ops, impl) if o[0] != "counters"]
        oa = [o for o in ops if o[0] != "counters"]
        if model is not None:
            d = behave.compare_script(ia, model)
            for x in d[:1]:
                if len(corr_fail) < 10:
                    corr_fail.append({"op": "rt:history", "files": files, "history": oa, "at": x[0], "impl": x[1], "model": x[2]})
        # direct oracle
        ovp, ovs, al_done, u_built, rt_done = {}, False, False, False, False
        c0 = impl[0]["ok"].get("probe/fx.Fn1", 0)
        c1 = impl[-1]["ok"].get("probe/fx.Fn1", 0)
        uses_c = sum(1 for o in oa if o in (["param", "c"], ["get", "n"]))
        dist["lazy_checked"] += 1
        if (c1 - c0) != (1 if uses_c else 0):
            violations.append({"sig": "param-not-lazy-or-not-once", "what": "provider of parameter c evaluated %d times in a history that needs it %s" % (c1 - c0, "at least once" if uses_c else "never"), "files": files, "history": oa})
        for o, r in zip(oa, ia):
            if o[0] == "ovparam":
                ovp[o[1]] = o[2]["v"]
            elif o[0] == "ovservice":
                ovs = True
            elif o[0] == "param" and o[1] == "reftodo":
                # a reference to the parameter NAMED todo: follows its override as long as it has not been evaluated successfully
                if "todo" in ovp and not rt_done:
                    if r.get("ok", {}).get("v") != ovp["todo"]:
                        violations.append({"sig": "override-not-visible", "what": "GetParam(reftodo) (reftodo is %%todo%%, a reference to the parameter named todo) after OverrideParam(todo) returns %r" % (r,), "files": files, "history": oa})
                elif "todo" not in ovp and str(cfg["parameters"]["todo"]).startswith("%todo("):
                    if "err" not in r or "set me" not in r["err"]:
                        violations.append({"sig": "todo-param-no-error", "what": "GetParam(reftodo) whose target is a todo parameter with the message 'set me': %r" % (r,), "files": files, "history": oa})
                rt_done = rt_done or "ok" in r
            elif o[0] == "param" and o[1] == "al":
                # the alias of p: once p is overridden and the alias has not been evaluated successfully before, it is the override
                if "p" in ovp and not al_done:
                    if r.get("ok", {}).get("v") != ovp["p"]:
                        violations.append({"sig": "override-not-visible", "what": "GetParam(al) (al is %%p%%) after OverrideParam(p) returns %r, not the overriding value" % (r,), "files": files, "history": oa})
                elif "p" not in ovp and isinstance(cfg["parameters"]["p"], str) and cfg["parameters"]["p"].startswith("%todo("):
                    if "err" not in r:
                        violations.append({"sig": "todo-param-no-error", "what": "GetParam(al) whose target p is a todo parameter: %r" % (r,), "files": files, "history": oa})
                al_done = al_done or "ok" in r
            elif o[0] == "param":
                raw = cfg["parameters"][o[1]]
                if o[1] in ovp:
                    if r.get("ok", {}).get("v") != (str(ovp[o[1]]) if isinstance(ovp[o[1]], int) else ovp[o[1]]):
                        violations.append({"sig": "override-not-visible", "what": "GetParam(%s) after OverrideParam returns %r" % (o[1], r), "files": files, "history": oa})
                elif isinstance(raw, str) and raw.startswith("%todo("):
                    dist["todo_errors_seen"] += 1
                    want = json.loads(raw[6:-2]) if raw[6:-2] else "parameter todo"
                    if "err" not in r or want not in r["err"]:
                        violations.append({"sig": "todo-param-no-error", "what": "GetParam(%s) of a todo parameter: %r, expected the error %r" % (o[1], r, want), "files": files, "history": oa})
            elif o[0] == "call" or o == ["get", "u"]:
                # u needs s and q (q needs p): while one of them is a placeholder nobody has overridden, every way of asking for u fails
                praw = cfg["parameters"]
                p_todo = str(praw["p"]).startswith("%todo(") and "p" not in ovp
                q_todo = "q" not in ovp and (str(praw["q"]).startswith("%todo(") or p_todo)
                s_todo = cfg["services"]["s"].get("todo") and not ovs
                if (s_todo or q_todo) and not u_built and "ok" in r:
                    violations.append({"sig": "todo-dependency-no-error", "what": "%r while a dependency of u is still a placeholder (s todo: %s, q todo: %s) returns %r instead of an error" % (o, bool(s_todo), bool(q_todo), r), "files": files, "history": oa})
                u_built = u_built or "ok" in r
            elif o == ["get", "s"] and cfg["services"]["s"].get("todo"):
                if not ovs:
                    dist["todo_errors_seen"] += 1
                    if "err" not in r or "service todo" not in r["err"]:
                        violations.append({"sig": "todo-service-no-error", "what": "Get(s) of a todo service: %r" % (r,), "files": files, "history": oa})
                elif "err" in r:
                    violations.append({"sig": "override-not-visible", "what": "Get(s) after OverrideService still fails: %r" % (r,), "files": files, "history": oa})
        nontriv.add(json.dumps(oa) + files[0][:0] + str(sorted(k for k, v in cfg["parameters"].items() if "todo" in str(v))) + str(bool(cfg["services"]["s"].get("todo"))))
    env_histories(ctx, violations, corr_fail, dist)
    # a placeholder counts as declared for its dependants in every respect — also with the scope it declares: a shared service
    # that depends on a contextual placeholder is refused like one that depends on a contextual live service
    for dep_scope, top_scope, via, want_err in (("contextual", "shared", False, True), ("contextual", "shared", True, True), ("contextual", None, False, False),
                                                ("shared", "shared", False, False), (None, "shared", False, False)):
        svcs = {"session": {"todo": True}, "server": {"constructor": "fx.NewA", "arguments": ["@mid" if via else "@session"]}}
        if via:
            svcs["mid"] = {"constructor": "fx.NewA", "arguments": ["@session"]}
        if dep_scope:
            svcs["session"]["scope"] = dep_scope
        if top_scope:
            svcs["server"]["scope"] = top_scope
        y = gen.yaml_doc({"meta": {"pkg": "gen", "imports": {"fx": gen.FX}}, "services": svcs})
        a = ctx.impl.ask({"op": "compile", "files": [y], "version": ""})
        got = bool(a.get("scope"))
        dist["todo_scope_cases"] = dist.get("todo_scope_cases", 0) + 1
        if got != want_err or a.get("errs") or a.get("services"):
            violations.append({"sig": "todo-scope-not-counted", "what": "placeholder declared %s, dependant declared %s%s: scope rule reports %r (other diagnostics %r), expected %s" % (
                dep_scope, top_scope, " through a default-scoped service" if via else "", a.get("scope"), (a.get("errs") or a.get("services")), "a scope error" if want_err else "none"), "files": [y]})
        if ctx.have_model and "input" in a:
            b = ctx.model.ask({"op": "compile", "input": a["input"], "version": ""})
            if b.get("scope") != a.get("scope") and len(corr_fail) < 10:
                corr_fail.append({"op": "compile:scope", "files": [y], "impl": a.get("scope"), "model": b.get("scope")})
    return {"evaluations": dist["histories"] + dist.get("env_histories", 0), "distinct_nontrivial": len(nontriv), "programs": len(cfgs) + 1,
            "rule": "8 configurations (every subset of {p, q, s} marked todo) x histories over {GetParam p/q/c, Get s/u/n, OverrideParam p/q, OverrideService s} up to length %d (%s); fresh container per history; distinct = distinct (todo subset, history)" % (maxlen, "sampled" if ctx.quick else "exhaustive"),
            "samples": [{"history": o[0][1][1:-1], "todo": [k for k, v in o[0][0]["parameters"].items() if "todo" in str(v)]} for o in out[:3]],
            "distribution": dist, "violations": violations, "corr_fail": corr_fail, "exhaustive": not ctx.quick}


ENV_CFG = {"meta": {"pkg": "gen", "imports": {"fx": gen.FX}},
           "parameters": {"e": '%env("VERIF_LATE")%', "ed": '%env("VERIF_LATE", "dflt")%', "ei": '%envInt("VERIF_LATE", 3)%', "mix": 'a-%env("VERIF_LATE", "d")%'},
           "services": {"s": {"constructor": "fx.NewA", "arguments": ["%ed%"]}}}
ENV_OPS = [["setenv", "VERIF_LATE", "first"], ["setenv", "VERIF_LATE", "17"], ["unsetenv", "VERIF_LATE"],
           ["param", "e"], ["param", "ed"], ["param", "ei"], ["param", "mix"], ["get", "s"]]


def env_histories(ctx, violations, corr_fail, dist):
    """parameters are evaluated on first use, not when the container is made: the environment a %env()% parameter sees is the one
    at its first evaluation, and from then on the cached value"""
    L = 3 if ctx.quick else 4
    hist = [list(h) for h in itertools.product(range(len(ENV_OPS)), repeat=L)]
    if ctx.quick:
        ctx.rng.shuffle(hist)
        hist = hist[:150]
    items = [(ENV_CFG, [["unsetenv", "VERIF_LATE"]] + [ENV_OPS[i] for i in h] + [["unsetenv", "VERIF_LATE"]]) for h in hist]
    out, err, _ = run_grouped(ctx, [ENV_CFG], None, items, tag="lb_c15e")
    if err:
        violations.append({"sig": "probe-build", "what": err}); return
    for (cfg, ops), impl, model, files in out:
        dist["env_histories"] = dist.get("env_histories", 0) + 1
        if impl is None:
            violations.append({"sig": "probe-crash", "what": "no result", "files": files}); continue
        if model is not None:
            for x in behave.compare_script(impl, model)[:1]:
                if len(corr_fail) < 10:
                    corr_fail.append({"op": "rt:env-history", "files": files, "history": ops, "at": x[0], "impl": x[1], "model": x[2]})
        env, cache = None, {}
        for o, r in zip(ops, impl):
            if o[0] == "setenv":
                env = o[2]
            elif o[0] == "unsetenv":
                env = None
            elif o[0] == "get":
                # s is made from %ed%: its first construction is a first use of ed
                cache.setdefault("ed", ("ok", "dflt" if env is None else env))
            elif o[0] == "param":
                n = o[1]
                seen = n in cache
                if n in cache:
                    want = cache[n]
                else:
                    if n == "e":
                        want = ("err",) if env is None else ("ok", env)
                    elif n == "ed":
                        want = ("ok", "dflt" if env is None else env)
                    elif n == "mix":
                        want = ("ok", "a-" + ("d" if env is None else env))
                    else:
                        want = ("ok", "3") if env is None else (("ok", env) if env.isdigit() else ("err",))
                    if want[0] == "ok":
                        cache[n] = want
                got = ("ok", str(r["ok"].get("v"))) if "ok" in r else ("err",)
                if got != want:
                    violations.append({"sig": "param-not-lazy-or-not-once", "what": "GetParam(%s) with VERIF_LATE=%r at this point%s returns %r; evaluated on first use and cached from then on it is %r" % (n, env, " (evaluated before: %r)" % (cache.get(n),) if seen else "", r, want), "files": files, "history": ops})


def run_grouped(ctx, cfgs, _unused, items, tag="lb_c15"):
    """generate one package per configuration, run every (cfg, ops) script against it"""
    import os, shutil
    from vlib import levelb
    root = os.path.join(ctx.scratch(), tag)
    shutil.rmtree(root, ignore_errors=True)
    mod = levelb.Module(root)
    names, inputs = {}, {}
    pkgs = []
    for i, cfg in enumerate(cfgs):
        name = "h%03d" % i
        files = [gen.yaml_doc(cfg)]
        sdef = cfg["services"]["s"]
        if sdef.get("todo") and len(sdef) == 1:
            # an explicit `todo: false` definition in the first file, switched to a placeholder by a later file
            c1 = json.loads(json.dumps(cfg)); c1["services"]["s"] = {"todo": False, "constructor": "fx.NewA", "arguments": ["live"]}
            files = [gen.yaml_doc(c1), gen.yaml_doc({"services": {"s": {"todo": True}}})]
        elif sdef.get("todo") and len(sdef) > 1:
            # the placeholder flag in the first file, the rest of the draft in a later one that does not repeat it
            c1 = json.loads(json.dumps(cfg)); c1["services"]["s"] = {"todo": True}
            c2 = {"services": {"s": {k: v for k, v in sdef.items() if k != "todo"}}}
            files = [gen.yaml_doc(c1), gen.yaml_doc(c2)]
        rc, so, path = mod.gen_pkg(name, files, env=behave.ENV)
        if rc != 0:
            return [], "todo configuration rejected by the CLI: " + so[-500:] + files[0], None
        names[id(cfg)] = (name, files)
        pkgs.append((name, "NewGontainer"))
        a = ctx.impl.ask({"op": "compile", "files": files, "version": ""})
        inputs[id(cfg)] = a.get("input")
    ok, bout, exe = levelb.build_probe(mod, pkgs)
    if not ok:
        return [], "probe does not build: " + bout[-2000:], None
    scripts = [{"c": names[id(cfg)][0], "ops": ops} for cfg, ops in items]
    res, rc, err = levelb.run_probe(exe, scripts, env=behave.ENV, timeout=900)
    out = []
    mreqs = []
    for (cfg, ops), r in zip(items, res + [None] * (len(items) - len(res))):
        mops = [o for o in ops if o[0] != "counters"]
        mreqs.append({"op": "rt", "input": inputs[id(cfg)], "version": "", "env": [[k, v] for k, v in behave.ENV.items()], "ops": mops})
    mres = ctx.model.ask_many(mreqs) if getattr(ctx, "have_model", True) else [None] * len(items)
    for (cfg, ops), r, m in zip(items, res + [None] * (len(items) - len(res)), mres):
        out.append(((cfg, ops), r.get("results") if r else None, m.get("results") if m else None, names[id(cfg)][1]))
    return out, None, None


def search(ctx):
    return run(ctx, maxlen=3)


def replay(ctx, payload):
    return run(ctx, maxlen=2)
