"""C14 — package references resolve to exactly the package the alias table denotes."""
import itertools, json, os, re
from vlib import core, gen, behave, spec, corr

LEVEL = "proof"
TEXT = ("Whole-segment matching and independence of Go's map iteration order (resolve_order_independent, resolve_hit, resolve_miss), "
        "one import per resolved path (alias_memo, alias_fresh) and the quoting/dot rules are Lean theorems over the import-table model; "
        "the model is run against imports.go on alias tables with aliases that are string prefixes of each other, of referenced paths and of "
        "standard packages, and the implementation's answers are additionally judged by an independent resolver written from the documentation. local_names_distinct / import_block_distinct / same_name_iff_same_package: in every reachable import table paths and local names are one-to-one (the hex sequence number is injective and never contains the separator). Level B: every documented spelling (alias, alias/sub-path, full path, quoted or not, the dot form) in every position (constructor, value, &value, struct, type, !value, decorator, function, referenced-but-unused type) over six fixture packages with identical self-identifying symbols; the import block is parsed and must list exactly the used packages.")
TECHNIQUE = "Lean 4 theorems (permutation invariance of a first-match lookup, memoisation) + model-vs-implementation correspondence on alias/op sequences"
LEAN_PROPS = ["C14"]
TRUSTED = ["goimports pruning of unused imports is observed (C01), not modelled"]
ASSUMPTIONS = ["aliases are validated against YamlToken before they reach the table (no '/' in an alias)"]

ALIASES = ["exp", "exp1", "ex", "os", "fmt", "a", "a.b", "a-b", "pkg", "github.com"]
PATHS = ["exp1/my", "my/os", "x/y", "github.com/u/r", "probe/fx", "a/b/c", "std"]
SUBS = ["", "/os", "/ossuary/pkg", "/a.b", "/x-y/z_1", "/v2"]


def resolve_seg(tbl, ref):
    seg = ref.split("/")[0]
    for a, p in tbl:
        if a == seg:
            return p + ref[len(a):]
    return ref


def gen_case(rng):
    n = rng.randint(0, 4)
    als = rng.sample(ALIASES, n)
    tbl = [[a, rng.choice(PATHS)] for a in als]
    seq = []
    for _ in range(rng.randint(1, 6)):
        r = rng.random()
        if r < 0.45 and tbl:
            seq.append(rng.choice(tbl)[0] + rng.choice(SUBS))
        elif r < 0.7:
            seq.append(rng.choice(ALIASES) + rng.choice(["1", "x", "-y", ".z", ""]) + rng.choice(SUBS))
        elif r < 0.9:
            seq.append(rng.choice(PATHS) + rng.choice(SUBS))
        else:
            seq.append(rng.choice(["fmt", "os", "errors", "context", "github.com/gontainer/gontainer-helpers/v3/container"]))
    return {"op": "alias", "prefixes": tbl, "seq": seq}


def oracle(req, a):
    tbl = [tuple(x) for x in req["prefixes"]]
    exp = [resolve_seg(tbl, r) for r in req["seq"]]
    names = a["names"]
    imps = {p: n for n, p in a["imports"]}
    for r, e, n in zip(req["seq"], exp, names):
        if imps.get(e) != n:
            return "reference %r must resolve to %r (whole path segments only); import table has %r for name %r" % (r, e, [p for p, m in imps.items() if m == n], n)
    if sorted(imps) != sorted(set(exp)):
        return "import table %r is not exactly the set of resolved paths %r" % (sorted(imps), sorted(set(exp)))
    for (r1, e1, n1), (r2, e2, n2) in itertools.combinations(zip(req["seq"], exp, names), 2):
        if (e1 == e2) != (n1 == n2):
            return "paths %r/%r names %r/%r: same package must share one local name, different packages must not" % (e1, e2, n1, n2)
    if [p for _, p in a["imports"]] != sorted(p for _, p in a["imports"]):
        return "imports are not sorted by path"
    for n in names:
        if not re.fullmatch(r"i[0-9a-f]+_[A-Za-z0-9_]*", n):
            return "local name %r is not a legal identifier of the documented form" % n
    return None


# ---- references in every position, over fixture packages that export identical, self-identifying symbols ----
FIXTURES = ["probe/fx", "probe/fx2/pkg", "probe/exp1/os", "probe/deep/fx", "probe/x-y/v2", "probe/a.b/fx", "probe/gopkg/yaml.v3"]
TABLES = [
    # aliases that are proper string prefixes of the template's own imports (o/os, fm/fmt, github/github.com, contex/context)
    # must leave those alone; aliases EQUAL to a template import are the recorded finding D10 (C01) and are not used here
    {"fx": "probe/fx", "deep": "probe/deep", "exp": "probe/exp1", "exp1": "probe/fx2", "p": "probe", "o": "probe/exp1/os", "pro": "probe/fx2", "x-y": "probe/x-y", "a.b": "probe/a.b/fx", "github": "probe/fx", "gp": "probe/gopkg", "Store": "probe/fx2/pkg", "V2": "probe/x-y"},
    {"fx": "probe/deep/fx", "f": "probe/fx", "a.b": "probe/a.b", "v2": "probe/x-y/v2", "fm": "probe/fx2/pkg", "probe": "probe/exp1", "contex": "probe/fx", "strcon": "probe/fx"},
    {},
]
TEMPLATE_PATHS = {"context", "errors", "fmt", "os", "reflect", "strconv"}


def spellings(path, tbl):
    """every way the documentation allows to write a reference to package `path` under alias table `tbl`"""
    out = []
    first = path.split("/")[0]
    if first not in tbl:                  # a full path whose first segment is an alias would be rewritten
        out += [path, '"%s"' % path]
    for a, p in tbl.items():
        if path == p:
            out += [a, '"%s"' % a]
        elif path.startswith(p + "/"):
            out += [a + path[len(p):], '"%s"' % (a + path[len(p):])]
    return out


def position_cfg(rng, tbl, local, fixed=None):
    """one configuration: 6-10 services, each naming a package (by a random spelling) in one position"""
    svcs, decs, fns, params, used = {}, [], {}, {}, set()
    expect = {}
    cands = [(pth, sp) for pth in FIXTURES for sp in spellings(pth, tbl)]
    if local:
        cands += [("", '"."')] * 6
    rng.shuffle(cands)
    kinds = ["ctor", "value", "ptrvalue", "struct", "type", "valuearg", "decorator", "function", "typeonly"]
    if fixed is not None:
        cands = list(fixed)
    for k, (pth, sp) in enumerate(cands if fixed is not None else cands[: rng.randint(7, 11)]):
        kind = kinds[k % len(kinds)] if k < len(kinds) else rng.choice(kinds)
        n = "s%02d" % k
        if kind != "typeonly":
            used.add(pth)
        if kind == "typeonly":
            # a type without a getter is emitted nowhere: its package is referenced by the configuration but NOT used
            # by the generated code, so it must not be in the import block
            svcs[n] = {"constructor": spellings("probe/fx", tbl)[0] + ".NewA", "arguments": [k], "type": "*" + sp + ".Obj"}
            used.add("probe/fx")
        elif kind == "ctor":
            svcs[n] = {"constructor": sp + ".NewA", "arguments": [k]}
        elif kind == "value":
            svcs[n] = {"value": sp + ".Global"}
        elif kind == "ptrvalue":
            svcs[n] = {"value": "&" + sp + ".GlobalVal"}
        elif kind == "struct":
            svcs[n] = {"value": sp + ".Obj{}"}
            used.discard(pth) if False else None
        elif kind == "type":
            svcs[n] = {"constructor": sp + ".NewA", "type": "*" + sp + ".Obj", "getter": "Get" + n.upper()}
        elif kind == "valuearg":
            svcs[n] = {"constructor": "%s.NewC" % sp, "arguments": ["!value " + sp + ".Global", "!value &" + sp + ".GlobalVal"]}
        elif kind == "decorator":
            svcs[n] = {"constructor": sp + ".NewA", "tags": ["t%d" % k]}
            decs.append({"tag": "t%d" % k, "decorator": sp + ".Dec1", "arguments": ["!value " + sp + ".Global"]})
        else:
            fns["f%d" % k] = sp + ".Fn1"
            params["p%d" % k] = "%%f%d(1)%%" % k
            svcs[n] = {"constructor": sp + ".NewB", "arguments": ["%%p%d%%" % k]}
            expect["p%d" % k] = spec.lab(pth, "Fn1")
    if rng.random() < 0.7:
        svcs["zz_later"] = {"todo": True}        # rendered by a template branch of its own
    cfg = {"meta": {"pkg": "gen", "imports": dict(tbl)}, "services": svcs}
    if fns:
        cfg["meta"]["functions"] = fns
        cfg["parameters"] = params
    if decs:
        cfg["decorators"] = decs
    return cfg, used, expect


def import_block(src):
    m = re.search(r"^import \((.*?)^\)", src, re.S | re.M)
    # (local name or "" for an import spec without one, path)
    return [(a, b) for a, b in re.findall(r'^\s*([\w.]*)\s*"([^"]+)"', m.group(1), re.M)] if m else []


def level_b(ctx):
    n = 9 if ctx.quick else 90
    items, metas = [], []
    for i in range(n):
        tbl = TABLES[i % len(TABLES)]
        cfg, used, expect = position_cfg(ctx.rng, tbl, local=(i % 2 == 0))
        ops = [["counters"]] + [["param", p] for p in sorted(cfg.get("parameters", {}))] + [["get", s_] for s_ in cfg["services"] if not cfg["services"][s_].get("todo")] + [["counters"]]
        items.append((cfg, ops))
        metas.append((used, expect))
    # package paths whose LAST element contains a dot (gopkg.in/yaml.v3 style) and aliases with dots, by every spelling, each in
    # every position kind (the spellings are rotated against the kinds)
    dotted = [(pth, sp) for pth in ("probe/gopkg/yaml.v3", "probe/a.b/fx") for sp in spellings(pth, TABLES[0])]
    # … and aliases that start with an upper-case letter (an alias is an alias whatever it looks like)
    dotted += [(pth, sp) for pth in ("probe/fx2/pkg", "probe/x-y/v2") for sp in spellings(pth, TABLES[0]) if sp.strip('"')[:1].isupper()]
    for rot in range(len(dotted) if ctx.quick else 2 * len(dotted)):
        fixed = [dotted[(j + rot) % len(dotted)] for j in range(9)]
        cfg, used, expect = position_cfg(ctx.rng, TABLES[0], False, fixed=fixed)
        ops = [["counters"]] + [["param", p] for p in sorted(cfg.get("parameters", {}))] + [["get", s_] for s_ in cfg["services"] if not cfg["services"][s_].get("todo")] + [["counters"]]
        items.append((cfg, ops))
        metas.append((used, expect))
    # the generated package itself, written `"."`, in every position kind (constructor, value, &value, struct, type, !value,
    # decorator, function of a parameter, unused type)
    for tbl in TABLES[:2]:
        cfg, used, expect = position_cfg(ctx.rng, tbl, True, fixed=[("", '"."')] * 9)
        ops = [["counters"]] + [["param", p] for p in sorted(cfg.get("parameters", {}))] + [["get", s_] for s_ in cfg["services"] if not cfg["services"][s_].get("todo")] + [["counters"]]
        items.append((cfg, ops))
        metas.append((used, expect))
    # the alias table is the MERGED one: a later file re-pointing an alias wins for every reference, in whichever file
    m0 = {"pkg": "gen"}
    mf = {"meta": dict(m0, imports={"st": "probe/fx2/pkg", "k": "probe/deep"}),
          "services": {"a": {"constructor": "st.NewA", "arguments": [1]}, "b": {"value": "&st.GlobalVal"}, "c": {"constructor": "k/fx.NewB", "type": "*k/fx.Obj", "getter": "GetC"}},
          "__files__": [{"meta": dict(m0, imports={"st": "probe/fx", "k": "probe"}), "services": {"a": {"constructor": "st.NewA", "arguments": [1]}}},
                        {"meta": {"imports": {"st": "probe/fx2/pkg", "k": "probe/deep"}}, "services": {"b": {"value": "&st.GlobalVal"}, "c": {"constructor": "k/fx.NewB", "type": "*k/fx.Obj", "getter": "GetC"}}}]}
    items.append((mf, [["counters"]] + [["get", s_] for s_ in mf["services"]] + [["counters"]]))
    metas.append(({"probe/fx2/pkg", "probe/deep/fx"}, {}))
    out, err = behave.run_batch(ctx, items, tag="c14", local=True)
    violations, corr_fail = [], []
    dist = {"containers": 0, "references_checked": 0, "local_package_refs": 0, "import_blocks_checked": 0}
    if err:
        return [{"sig": "probe-build", "what": err, "files": [f for r in out for f in r["files"]][:3]}], [], dist
    for (cfg, ops), (used, expect), rec in zip(items, metas, out):
        if not rec["accepted"]:
            violations.append({"sig": "valid-references-rejected", "what": rec["cli_out"][-500:], "files": rec["files"]}); continue
        dist["containers"] += 1
        if rec["impl"] is None:
            violations.append({"sig": "probe-crash", "what": "%r" % (rec.get("impl_crash"),), "files": rec["files"]}); continue
        # level A/B correspondence with the model (counters are probe-only)
        keep = [k for k, o in enumerate(ops) if o[0] != "counters"]
        if rec.get("model") is not None:
            mi = [rec["model"][k] for k in keep]
            for x in behave.compare_script([rec["impl"][k] for k in keep], mi)[:2]:
                if len(corr_fail) < 10:
                    corr_fail.append({"op": "rt:reference", "script_op": ops[keep[x[0]]] if isinstance(x[0], int) else x[0], "impl": x[1], "model": x[2], "files": rec["files"]})
        # every service was made by the symbol of exactly the denoted package
        for (op, r) in zip(ops, rec["impl"]):
            if op[0] != "get":
                continue
            if "ok" not in r:
                violations.append({"sig": "reference-fails", "what": "Get(%s): %r" % (op[1], r), "files": rec["files"]}); continue
            dist["references_checked"] += 1
            try:
                deferred = []
                spec.check_service(cfg, op[1], r["ok"], deferred)
                spec.check_deferred(cfg, deferred)
            except spec.Mismatch as e:
                violations.append({"sig": "reference-wrong-package", "what": str(e), "files": rec["files"]})
        # parameter functions: the invocation counter of exactly the denoted package's Fn1 moved
        c0, c1 = rec["impl"][0].get("ok", {}), rec["impl"][-1].get("ok", {})
        moved = {k for k in c1 if k.endswith("Fn1") and c1[k] != c0.get(k, 0)}
        if moved != set(expect.values()):
            violations.append({"sig": "reference-wrong-package", "what": "parameter functions: counters moved for %r, the configuration names %r" % (sorted(moved), sorted(set(expect.values()))), "files": rec["files"]})
        dist["local_package_refs"] += "" in used
        # the import block lists exactly the packages the generated code uses, one local name per package
        src = open(os.path.join(ctx.scratch(), "lb_c14", rec["name"], "gen.go")).read()
        blk = import_block(src)
        user = sorted(p for _, p in blk if p not in TEMPLATE_PATHS and not p.startswith("github.com/gontainer/"))
        want = sorted(p for p in used if p)
        dist["import_blocks_checked"] += 1
        if user != want:
            violations.append({"sig": "import-block", "what": "import block lists %r, the generated code uses %r" % (user, want), "files": rec["files"]})
        names = [n_ for n_, _ in blk]
        if any(not re.fullmatch(r"i[0-9a-f]+_\w*", n_) for n_ in names):
            violations.append({"sig": "import-block", "what": "an import spec does not carry a local name of the alias table's form: %r" % (blk,), "files": rec["files"]})
        if len(set(names)) != len(names) or len({p for _, p in blk}) != len(blk):
            violations.append({"sig": "import-block", "what": "local names / paths are not one-to-one: %r" % (blk,), "files": rec["files"]})
    return violations, corr_fail, dist


def run(ctx, n=None):
    n = n or (4000 if ctx.quick else 60000)
    fixed = [
        {"op": "alias", "prefixes": [["exp", "exp1/my"]], "seq": ["exp1/ossuary/pkg", "exp/os", "exp"]},
        {"op": "alias", "prefixes": [["exp", "a"], ["exp1", "b"]], "seq": ["exp1/x", "exp/x", "exp12/x"]},
        {"op": "alias", "prefixes": [["a", "x/y"], ["a.b", "std"]], "seq": ["a.b/c", "a/c", "a.b", "a"]},
        {"op": "alias", "prefixes": [], "seq": ["p/%d" % i for i in range(40)]},
        {"op": "alias", "prefixes": [], "seq": ["a/x-y", "b/x_y", "c/x.y", "x-y"]},
    ]
    reqs = fixed + [gen_case(ctx.rng) for _ in range(n)]
    # each request 3 times on the implementation: a fresh table each time draws fresh map orders
    ri = ctx.impl.ask_many(reqs)
    ri2 = ctx.impl.ask_many(reqs)
    ri3 = ctx.impl.ask_many(reqs)
    rm = ctx.model.ask_many(reqs) if ctx.have_model else [None] * len(reqs)
    corr_fail, violations, nontriv = [], [], set()
    dist = {"alias_is_string_prefix_of_ref": 0, "hit": 0, "miss": 0, "two_aliases_match_prefix": 0}
    for req, a, a2, a3, b in zip(reqs, ri, ri2, ri3, rm):
        if "panic" in a:
            violations.append({"sig": "panic", "what": a["panic"], "input": req}); continue
        if core.canon(a) != core.canon(a2) or core.canon(a) != core.canon(a3):
            violations.append({"sig": "alias-order-dependent", "what": "the same alias table and references give different results in different runs (map iteration order)", "input": req, "observed": [a, a2, a3]})
        e = oracle(req, a)
        if e:
            violations.append({"sig": "alias-resolution", "what": e, "input": req, "observed": a})
        if b is not None and core.canon(a) != core.canon(b) and len(corr_fail) < 10:
            corr_fail.append({"op": "alias", "req": req, "impl": a, "model": b})
        tbl = req["prefixes"]
        pre = [(al, r) for al, _ in tbl for r in req["seq"] if r.startswith(al) and r.split("/")[0] != al]
        if pre:
            dist["alias_is_string_prefix_of_ref"] += 1
            nontriv.add(core.canon(req))
        dist["hit"] += any(r.split("/")[0] == al for al, _ in tbl for r in req["seq"])
        dist["two_aliases_match_prefix"] += any(sum(r.startswith(al) for al, _ in tbl) > 1 for r in req["seq"])
    bv, bc, bd = level_b(ctx)
    violations += bv
    corr_fail += bc
    dist.update(bd)
    return {"evaluations": len(reqs) * 3 + bd["references_checked"], "distinct_nontrivial": len(nontriv), "programs": bd["containers"],
            "rule": "level B: configurations naming 6 fixture packages (identical self-identifying symbols; equal last elements, '-' and '.' in elements) and the generated package itself (\".\") by every documented spelling (alias, alias/sub-path, full path, each quoted or not) in constructor, value, &value, struct, type, !value argument, decorator and function position, under 3 alias tables; executed in the probe, import block parsed. Level A: alias tables (0-4 aliases from a pool with string-prefix relations) x reference sequences (alias, alias/sub, look-alike, full path, template imports); each run 3x on the implementation and once on the model; non-trivial = some alias is a proper string prefix of a reference's first segment",
            "samples": reqs[:3] + reqs[len(fixed):len(fixed) + 2], "distribution": dist, "violations": violations, "corr_fail": corr_fail}


def search(ctx):
    return run(ctx, n=20000)


def replay(ctx, payload):
    req = payload["input"]
    outs = [ctx.impl.ask(req) for _ in range(20)]
    v = []
    for a in outs:
        e = oracle(req, a)
        if e:
            v.append({"sig": "alias-resolution", "what": e, "input": req, "observed": a}); break
    if len({core.canon(a) for a in outs}) > 1:
        v.append({"sig": "alias-order-dependent", "what": "results differ between runs", "input": req})
    return {"evaluations": 20, "distinct_nontrivial": 1, "violations": v, "samples": [req]}
