"""C14 — package references resolve to exactly the package the alias table denotes."""
import itertools, re
from vlib import core, gen

LEVEL = "proof"
TEXT = ("Whole-segment matching and independence of Go's map iteration order (resolve_order_independent, resolve_hit, resolve_miss), "
        "one import per resolved path (alias_memo, alias_fresh) and the quoting/dot rules are Lean theorems over the import-table model; "
        "the model is run against imports.go on alias tables with aliases that are string prefixes of each other, of referenced paths and of "
        "standard packages, and the implementation's answers are additionally judged by an independent resolver written from the documentation.")
TECHNIQUE = "Lean 4 theorems (permutation invariance of a first-match lookup, memoisation) + model-vs-implementation correspondence on alias/op sequences"
LEAN_PROPS = ["C14"]
TRUSTED = ["goimports pruning of unused imports is observed (C01), not modelled"]
ASSUMPTIONS = ["aliases are validated against YamlToken before they reach the table (no '/' in an alias)"]

ALIASES = ["exp", "exp1", "ex", "os", "fmt", "a", "a.b", "a-b", "pkg", "github.com"]
PATHS = ["exp1/my", "my/os", "x/y", "github.com/u/r", "probe/fx", "a/b/c", "std"]
SUBS = ["", "/os", "/ossuary/pkg", "/a.b", "/x-y/z_1", "/v2"]


def resolve_seg(tbl, ref):
    seg = ref.split("/")[0]
    for a, p in tbl:
        if a == seg:
            return p + ref[len(a):]
    return ref


def gen_case(rng):
    n = rng.randint(0, 4)
    als = rng.sample(ALIASES, n)
    tbl = [[a, rng.choice(PATHS)] for a in als]
    seq = []
    for _ in range(rng.randint(1, 6)):
        r = rng.random()
        if r < 0.45 and tbl:
            seq.append(rng.choice(tbl)[0] + rng.choice(SUBS))
        elif r < 0.7:
            seq.append(rng.choice(ALIASES) + rng.choice(["1", "x", "-y", ".z", ""]) + rng.choice(SUBS))
        elif r < 0.9:
            seq.append(rng.choice(PATHS) + rng.choice(SUBS))
        else:
            seq.append(rng.choice(["fmt", "os", "errors", "context", "github.com/gontainer/gontainer-helpers/v3/container"]))
    return {"op": "alias", "prefixes": tbl, "seq": seq}


def oracle(req, a):
    tbl = [tuple(x) for x in req["prefixes"]]
    exp = [resolve_seg(tbl, r) for r in req["seq"]]
    names = a["names"]
    imps = {p: n for n, p in a["imports"]}
    for r, e, n in zip(req["seq"], exp, names):
        if imps.get(e) != n:
            return "reference %r must resolve to %r (whole path segments only); import table has %r for name %r" % (r, e, [p for p, m in imps.items() if m == n], n)
    if sorted(imps) != sorted(set(exp)):
        return "import table %r is not exactly the set of resolved paths %r" % (sorted(imps), sorted(set(exp)))
    for (r1, e1, n1), (r2, e2, n2) in itertools.combinations(zip(req["seq"], exp, names), 2):
        if (e1 == e2) != (n1 == n2):
            return "paths %r/%r names %r/%r: same package must share one local name, different packages must not" % (e1, e2, n1, n2)
    if [p for _, p in a["imports"]] != sorted(p for _, p in a["imports"]):
        return "imports are not sorted by path"
    for n in names:
        if not re.fullmatch(r"i[0-9a-f]+_[A-Za-z0-9_]*", n):
            return "local name %r is not a legal identifier of the documented form" % n
    return None


def run(ctx, n=None):
    n = n or (4000 if ctx.quick else 60000)
    fixed = [
        {"op": "alias", "prefixes": [["exp", "exp1/my"]], "seq": ["exp1/ossuary/pkg", "exp/os", "exp"]},
        {"op": "alias", "prefixes": [["exp", "a"], ["exp1", "b"]], "seq": ["exp1/x", "exp/x", "exp12/x"]},
        {"op": "alias", "prefixes": [["a", "x/y"], ["a.b", "std"]], "seq": ["a.b/c", "a/c", "a.b", "a"]},
        {"op": "alias", "prefixes": [], "seq": ["p/%d" % i for i in range(40)]},
        {"op": "alias", "prefixes": [], "seq": ["a/x-y", "b/x_y", "c/x.y", "x-y"]},
    ]
    reqs = fixed + [gen_case(ctx.rng) for _ in range(n)]
    # each request 3 times on the implementation: a fresh table each time draws fresh map orders
    ri = ctx.impl.ask_many(reqs)
    ri2 = ctx.impl.ask_many(reqs)
    ri3 = ctx.impl.ask_many(reqs)
    rm = ctx.model.ask_many(reqs) if ctx.have_model else [None] * len(reqs)
    corr_fail, violations, nontriv = [], [], set()
    dist = {"alias_is_string_prefix_of_ref": 0, "hit": 0, "miss": 0, "two_aliases_match_prefix": 0}
    for req, a, a2, a3, b in zip(reqs, ri, ri2, ri3, rm):
        if "panic" in a:
            violations.append({"sig": "panic", "what": a["panic"], "input": req}); continue
        if core.canon(a) != core.canon(a2) or core.canon(a) != core.canon(a3):
            violations.append({"sig": "alias-order-dependent", "what": "the same alias table and references give different results in different runs (map iteration order)", "input": req, "observed": [a, a2, a3]})
        e = oracle(req, a)
        if e:
            violations.append({"sig": "alias-resolution", "what": e, "input": req, "observed": a})
        if b is not None and core.canon(a) != core.canon(b) and len(corr_fail) < 10:
            corr_fail.append({"op": "alias", "req": req, "impl": a, "model": b})
        tbl = req["prefixes"]
        pre = [(al, r) for al, _ in tbl for r in req["seq"] if r.startswith(al) and r.split("/")[0] != al]
        if pre:
            dist["alias_is_string_prefix_of_ref"] += 1
            nontriv.add(core.canon(req))
        dist["hit"] += any(r.split("/")[0] == al for al, _ in tbl for r in req["seq"])
        dist["two_aliases_match_prefix"] += any(sum(r.startswith(al) for al, _ in tbl) > 1 for r in req["seq"])
    return {"evaluations": len(reqs) * 3, "distinct_nontrivial": len(nontriv),
            "rule": "alias tables (0-4 aliases from a pool with string-prefix relations) x reference sequences (alias, alias/sub, look-alike, full path, template imports); each run 3x on the implementation and once on the model; non-trivial = some alias is a proper string prefix of a reference's first segment",
            "samples": reqs[:3] + reqs[len(fixed):len(fixed) + 2], "distribution": dist, "violations": violations, "corr_fail": corr_fail}


def search(ctx):
    return run(ctx, n=20000)


def replay(ctx, payload):
    req = payload["input"]
    outs = [ctx.impl.ask(req) for _ in range(20)]
    v = []
    for a in outs:
        e = oracle(req, a)
        if e:
            v.append({"sig": "alias-resolution", "what": e, "input": req, "observed": a}); break
    if len({core.canon(a) for a in outs}) > 1:
        v.append({"sig": "alias-order-dependent", "what": "results differ between runs", "input": req})
    return {"evaluations": 20, "distinct_nontrivial": 1, "violations": v, "samples": [req]}
