"""C01 — accepted configurations yield Go that compiles (translation validation + structural theorems)."""
import json, os, re, shutil
from vlib import core, gen, corr, levelb

LEVEL = "translation_validation"
TEXT = "Every output produced in the run (special combinations + random configurations, normal and --stub, 1..4 files) is gofmt-checked, type-checked by the Go toolchain against the pinned runtime and initialised in a probe; the structural reasons an output could fail to compile (emitted runtime API exists, every scope has a setter, getter error path is typed, reserved getters cover the container's own API) are Lean theorems over facts regenerated from the templates and the runtime. The Go type checker's verdict itself cannot be a theorem, hence translation validation."
TECHNIQUE = 'translation validation of every generated program (go vet + init run) + Lean theorems (decide) over regenerated template/runtime API tables'
LEAN_PROPS = ["C01"]
TRUSTED = ["Go type checker (go vet / go build), gofmt, package init(): observed per generated program, not proved",
           "fixture universe tools/probe/fx.go.txt supplies every referenced symbol"]
ASSUMPTIONS = ["configured identifiers are distinct legal Go identifiers (generator avoids keywords and predeclared names)"]
EXPLANATION = ""

PROBE = """package main

import (
	"fmt"
%s
)

func main() {
%s
	fmt.Println("probe-ok")
}
"""


def force_pkg(cfg, i):
    cfg = json.loads(json.dumps(cfg, default=lambda o: o.__dict__)) if False else cfg
    cfg.setdefault("meta", {})
    if cfg["meta"].get("pkg", "main") == "main" and i % 4 != 0:
        cfg["meta"]["pkg"] = "gen"
    return cfg


def special_cases():
    """the combinations the property names explicitly"""
    fx = {"imports": {"fx": gen.FX}, "pkg": "gen"}
    out = []
    for sc in ("shared", "contextual", "non_shared"):
        out.append({"meta": dict(fx), "services": {"a": {"constructor": "fx.NewA", "scope": sc}}})
    out.append({"meta": dict(fx), "services": {"a": {"constructor": "fx.NewVal", "type": "fx.Obj", "getter": "GetA"}}})
    out.append({"meta": dict(fx), "services": {"a": {"value": "fx.GlobalVal", "type": "fx.Obj", "getter": "GetA", "must_getter": True}}})
    out.append({"meta": dict(fx), "parameters": {"big": 2**63, "neg": -5, "f": 1.5, "n": None, "b": True, "s": "x\"y\\z\n"},
                "services": {"a": {"constructor": "fx.NewA", "arguments": ["%big%", "%neg%", "%f%", "%n%", "%b%", "%s%", 2**64 - 1, -1.25]}}})
    out.append({"meta": {"imports": {"fx": gen.FX, "x": gen.FX2}, "pkg": "gen"},
                "services": {"a": {"constructor": "fx.NewA"}, "b": {"constructor": "x.NewA", "arguments": ["@a"]},
                             "c": {"constructor": '"%s".NewA' % gen.FX2, "type": '*"%s".Obj' % gen.FX2, "getter": "C"}}})
    out.append({"meta": {"imports": {"fx": gen.FX}, "pkg": "fx"}, "services": {"a": {"constructor": "fx.NewA"}}})
    # a package the configuration references but the generated code never uses: a type without a getter (emitted nowhere),
    # in both modes; and must-getters by default (the stub's init() asserts the same interface)
    out.append({"meta": {"imports": {"fx": gen.FX, "x": gen.FX2}, "pkg": "gen"}, "services": {"a": {"constructor": "fx.NewA", "type": "*x.Obj"}}})
    out.append({"meta": {"imports": {"fx": gen.FX, "x": gen.FX2}, "pkg": "gen", "default_must_getter": True},
                "services": {"a": {"constructor": "fx.NewA", "type": "*fx.Obj", "getter": "GetA"}, "b": {"value": "x.GlobalVal", "getter": "GetB", "must_getter": True}}})
    # equal getters on two services; getter named like the embedded field / a runtime method
    out.append({"meta": dict(fx), "services": {"a": {"constructor": "fx.NewA", "getter": "GetX"}, "b": {"constructor": "fx.NewA", "getter": "GetX"}}})
    out.append({"meta": dict(fx), "services": {"a": {"constructor": "fx.NewA", "getter": "Container"}}})
    out.append({"meta": dict(fx), "services": {"a": {"constructor": "fx.NewA", "getter": "GetParam"}}})
    # non-finite and huge floats
    for lit in (".inf", "-.inf", ".nan", "1e200", "1e400"):
        out.append({"meta": dict(fx), "parameters": {"x": gen.Raw(lit)}, "services": {"a": {"constructor": "fx.NewA", "arguments": [gen.Raw(lit)]}}})
    # user aliases that are prefixes of the template's own imports
    for al, path in (("os", gen.FX), ("fmt", gen.FX), ("github.com", gen.FX), ("errors", gen.FX), ("context", gen.FX)):
        out.append({"meta": {"imports": {"fx": gen.FX, al: path}, "pkg": "gen"}, "parameters": {"e": '%env("X", "d")%'},
                    "services": {"a": {"constructor": "fx.NewA", "getter": "GetA"}, "t": {"todo": True}}})
    # identifiers the templates declare themselves: helper methods of the container type (from the regenerated symbolic
    # rendering), template-local names, Go's special function names, a generated import alias — at every configurable position
    S = {"type": "*int"}
    for nm in template_helper_methods() + ["_", "_x"]:
        out.append({"meta": dict(fx), "services": {"s": dict(S, getter=nm)}})
        out.append({"meta": dict(fx, container_type=nm), "services": {"s": dict(S)}})
        out.append({"meta": dict(fx, container_constructor=nm), "services": {"s": dict(S)}})
    for nm in TEMPLATE_LOCALS + ["c", "s", "result", "err", "ctx", "r", "dependencyService", "newService", "getParam", "Container"]:
        out.append({"meta": dict(fx, container_type=nm), "services": {"s": dict(S, getter="G", must_getter=True)}, "parameters": {"p": "%env(\"X\", \"d\")%"}})
        out.append({"meta": dict(fx, container_constructor=nm), "services": {"s": dict(S, getter="G", must_getter=True)}, "parameters": {"p": "x%p2%", "p2": 1}})
        out.append({"meta": dict(fx), "services": {"s": dict(S, getter=nm)}})
    out.append({"meta": {"pkg": "main", "container_constructor": "main"}, "services": {"s": dict(S)}})
    # an alias followed by a sub-path in which the alias text occurs again: only the first segment is the alias
    out.append({"meta": {"pkg": "gen", "imports": {"fx": "probe/deep", "o": "probe/exp1", "x": "probe", "v": "probe/x-y"}},
                "services": {"a": {"constructor": "fx/fx.NewA"}, "b": {"constructor": "o/os.NewA", "type": "*o/os.Obj", "getter": "GetB"},
                             "c": {"value": "x/x-y/v2.Global"}, "d": {"constructor": "x/fx.NewA", "arguments": ["!value v/v2.Global"]}},
                "decorators": [{"tag": "t", "decorator": "fx/fx.Dec1", "arguments": ["!value &o/os.GlobalVal"]}]})
    # the generated package itself, written `"."`, where a package may stand: constructor, type, value, decorator, !value, function
    out.append({"__local__": True, "meta": {"pkg": "gen", "functions": {"lf": '".".Fn1'}}, "parameters": {"lp": "%lf(1)%"},
                "services": {"a": {"constructor": '".".NewA', "type": '*".".Obj', "getter": "GetA", "tags": ["t"]}, "b": {"value": '&".".Obj{}'},
                             "c": {"constructor": "NewB", "arguments": ['!value ".".Global', "%lp%"]}, "d": {"type": '".".Obj', "getter": "GetD"}},
                "decorators": [{"tag": "t", "decorator": '".".Dec1', "arguments": ['!value &".".GlobalVal']}]})
    # getters that collide only through the derived names: `ang` with its must-getter next to `Mustang`, `X` next to `XInContext`
    out.append({"meta": dict(fx), "services": {"a": {"constructor": "fx.NewA", "getter": "ang", "must_getter": True}, "b": {"constructor": "fx.NewA", "getter": "Mustang"}}})
    out.append({"meta": dict(fx, default_must_getter=True), "services": {"a": {"constructor": "fx.NewA", "getter": "Go"}, "b": {"constructor": "fx.NewA", "getter": "GoInContext"},
                                                                     "c": {"constructor": "fx.NewA", "getter": "MustGo"}}})
    # todo services carrying what the validator would refuse on a real one (it skips todo services): a getter equal to another
    # service's getter / must-getter, a runtime method name, a helper name, a type and a value nobody can render
    for g in ["MustGetDB", "GetDB", "Root", "Get", "GetParam", "Container"] + template_helper_methods()[:3]:
        out.append({"meta": dict(fx), "services": {"db": {"constructor": "fx.NewA", "type": "*fx.Obj", "getter": "GetDB", "must_getter": True},
                                                   "t": {"todo": True, "getter": g, "type": "*fx.Obj"}}})
        out.append({"meta": dict(fx, default_must_getter=True), "services": {"t": {"todo": True, "getter": g, "must_getter": True}, "u": {"todo": True, "getter": g}}})
    return out


def template_pkg_cases():
    """configurations that themselves use the packages the templates import for their own purposes (context, reflect, errors,
    fmt, os, strconv, the runtime's container package) — in positions that are emitted in normal mode only, next to getters whose
    signatures need `context` in both modes"""
    fx = {"imports": {"fx": gen.FX}, "pkg": "gen"}
    cpkg = "github.com/gontainer/gontainer-helpers/v3/container"
    out = []
    for ctor, args in (("context.Background", []), ("reflect.TypeOf", [1]), ("errors.New", ["boom"]), ("fmt.Sprint", ["a", 1]), ("os.Getpid", []),
                       ("strconv.Itoa", [5]), ('"%s".New' % cpkg, [])):
        out.append({"meta": dict(fx), "services": {"u": {"constructor": ctor, "arguments": args}, "g": {"constructor": "fx.NewA", "type": "*fx.Obj", "getter": "GetG", "must_getter": True}}})
    out.append({"meta": dict(fx, functions={"pid": "os.Getpid", "bg": "context.Background"}), "parameters": {"p": "%pid()%", "q": "x%bg()%"},
                "services": {"g": {"constructor": "fx.NewA", "getter": "GetG"}, "v": {"value": "context.Canceled"}, "w": {"value": "os.Args"}}})
    # arguments of a parameter function are verbatim Go code (docs/PARAMETERS.md): standard-library packages they name by their
    # plain name are imported by the formatter
    out.append({"meta": dict(fx), "parameters": {"tmp": '%env("VERIF_TMPDIR", os.TempDir())%', "max": '%envInt("VERIF_MAX", math.MaxInt16)%',
                                                 "both": 'dir=%env("VERIF_TMPDIR", filepath.Join(os.TempDir(), "x"))%'},
                "services": {"g": {"constructor": "fx.NewA", "arguments": ["%tmp%", "%max%"], "getter": "GetG"}}})
    out.append({"meta": dict(fx), "services": {"c": {"constructor": "context.Background", "type": "context.Context", "getter": "Ctx", "must_getter": True},
                                               "k": {"constructor": '"%s".New' % cpkg, "type": '*"%s".Container' % cpkg, "getter": "Inner"}}})
    return out


TEMPLATE_LOCALS = ["init", "rootGontainer", "interface_", "i0_container", "i1_context"]


def template_helper_methods():
    src = open(os.path.join(core.LEAN, "GontainerModel", "Generated", "Stub.lean")).read()
    return sorted(set(re.findall(r"func \(c \*⟦\$containerType⟧\) (_\w+)\(", src)))


TEMPLATE_IMPORTS = ["context", "errors", "fmt", "os", "reflect", "strconv", "github.com/gontainer/gontainer-helpers/v3"]


def classify(msgs, files):
    """a specific signature: error class + the input feature that triggers it"""
    txt = " ".join(msgs)
    y = "\n".join(files)
    if re.search(r"undefined: (Inf|NaN)|constant overflow|cannot use .* \(untyped float constant", txt) and re.search(r"\.inf|\.nan|\d[eE]\+?\d{3}", y, re.I):
        return "D9:nonfinite-or-huge-float-literal"
    for m in re.finditer(r'"imports": \{([^}]*)\}', y):
        for a in re.findall(r'"([^"]+)": "', m.group(1)):
            if any(t == a or t.startswith(a + "/") for t in TEMPLATE_IMPORTS):
                return "D10:user-alias-prefix-of-template-import"
    for m in re.finditer(r'"(container_type|container_constructor)": "([^"]+)"', y):
        nm = m.group(2)
        if nm in ("init", "rootGontainer", "interface_") or re.fullmatch(r"i[0-9a-f]+_\w+", nm) or (nm == "main" and '"pkg": "main"' in y):
            return "D14:meta-name-collides-with-template-identifier"
    msg = re.sub(r"g\d+s?/gen(_stub)?\.go:\d+:\d+", "gen.go", msgs[0])
    msg = re.sub(r"probe/g\d+s?", "probe/gN", msg)
    return "typecheck:" + re.sub(r"[^A-Za-z.: ]+", "", msg)[:80]


def run(ctx, n=None):
    n = n or (40 if ctx.quick else 400)
    root = ctx.scratch()
    mod = levelb.Module(root)
    cases = special_cases() + template_pkg_cases() + [gen.gen_config(ctx.rng) for _ in range(n)]
    accepted = []
    violations, corr_fail = [], []
    dist = {"accepted": 0, "rejected": 0, "stub": 0, "explicit_scope": 0, "value_getter": 0, "main_pkg": 0, "multi_file": 0}
    seen = set()
    for i, cfg in enumerate(cases):
        cfg = force_pkg(cfg, i)
        local = cfg.pop("__local__", False)
        nfiles = 1 if i % 3 else ctx.rng.randint(2, 4)
        files = [gen.yaml_doc(f) for f in (gen.split_config(ctx.rng, cfg, nfiles) if nfiles > 1 else [cfg])]
        dist["multi_file"] += nfiles > 1
        if ctx.have_model:
            a, b, d = corr.compile_pair(ctx, files)
            for x in d[:1]:
                if len(corr_fail) < 10:
                    corr_fail.append({"op": "compile:" + x[0], "files": files, "impl": x[1], "model": x[2]})
        for mode in ("normal", "stub"):
            name = "g%03d%s" % (i, "s" if mode == "stub" else "")
            rc, out, path = mod.gen_pkg(name, files, flags=["--stub"] if mode == "stub" else [], env={"VERIF_A": "a"})
            if rc != 0:
                dist["rejected"] += 1
                shutil.rmtree(os.path.join(root, name), ignore_errors=True)
                continue
            dist["accepted"] += 1
            dist["stub"] += mode == "stub"
            src = open(path).read()
            pkg = re.search(r"^package (\w+)", src, re.M).group(1)
            dist["main_pkg"] += pkg == "main"
            if local:
                mod.add_local(name, pkg)
            if pkg == "main":
                mod.write(name + "/zz_main.go", ("//go:build gontainerstub\n\n" if mode == "stub" else "") + "package main\n\nfunc main() {}\n")
            yamltxt = "\n".join(files)
            dist["explicit_scope"] += '"scope"' in yamltxt
            dist["value_getter"] += bool(re.search(r'"type": "(fx|other)\.Obj"', yamltxt))
            accepted.append((name, mode, pkg, files))
            seen.add(re.sub(r'"[^"]*"', '"_"', yamltxt))
    # gofmt stability
    rc, out = core.sh(["gofmt", "-l", root], env=core.GOENV)
    unstable = [l for l in out.splitlines() if re.search(r"/g\d{3}s?/gen(_stub)?\.go$", l)]
    for u in unstable:
        name = os.path.basename(os.path.dirname(u))
        files = next(f for (n_, m, p, f) in accepted if n_ == name)
        violations.append({"sig": "gofmt-unstable", "what": "generated file is not gofmt-stable", "files": files, "flags": [m for (n_, m, p, f) in accepted if n_ == name]})
    # type check: normal packages, then stubs with the tag
    bad = {}
    from concurrent.futures import ThreadPoolExecutor
    for tags, sel in (([], [a for a in accepted if a[1] == "normal"]), (["-tags", "gontainerstub"], [a for a in accepted if a[1] == "stub"])):
        if not sel:
            continue
        rc, out = mod.go(["vet"] + tags + ["./" + a[0] for a in sel])
        if rc != 0:
            # attribute: vet every package on its own
            def one(a):
                rc1, o1 = mod.go(["vet"] + tags + ["./" + a[0]])
                return a[0], rc1, o1
            with ThreadPoolExecutor(8) as ex:
                for name, rc1, o1 in ex.map(one, sel):
                    if rc1 != 0:
                        msgs = re.findall(r"^\S+\.go:\d+:\d+: (.*)$", o1, re.M) or [o1.strip()[-300:]]
                        bad[name] = msgs
    for name, msgs in bad.items():
        acc = next((a for a in accepted if a[0] == name), None)
        sig = classify(msgs, acc[3] if acc else [])
        violations.append({"sig": sig, "what": "build exits 0 but the generated file does not type-check: " + "; ".join(msgs[:3]),
                           "files": acc[3] if acc else [], "flags": ["--stub"] if acc and acc[1] == "stub" else [], "observed": msgs[:5]})
    # init() of every importable package: the normal ones, then the stubs (built with the stub tag)
    for mode, tags in (("normal", []), ("stub", ["-tags", "gontainerstub"])):
        imp = [a for a in accepted if a[1] == mode and a[2] != "main" and a[0] not in bad]
        if not imp:
            continue
        hdr = "//go:build gontainerstub\n\n" if mode == "stub" else "//go:build !gontainerstub\n\n"
        mod.write("probemain_%s/main.go" % mode, hdr + PROBE % ("\n".join('\t_ "probe/%s"' % a[0] for a in imp), ""))
        rc, out = mod.go(["run"] + tags + ["./probemain_%s" % mode])
        if rc != 0 or "probe-ok" not in out:
            # attribute to one package
            culprit = None
            for a in imp:
                mod.write("probemain_one/main.go", hdr + PROBE % ('\t_ "probe/%s"' % a[0], ""))
                rc1, o1 = mod.go(["run"] + tags + ["./probemain_one"])
                if rc1 != 0 or "probe-ok" not in o1:
                    culprit = (a, o1)
                    break
            a, o1 = culprit if culprit else (imp[0], out)
            violations.append({"sig": "init-panic", "what": "package initialisation of the generated %s code fails: %s" % (mode, o1[-500:]), "files": a[3], "flags": ["--stub"] if mode == "stub" else []})
    return {
        "evaluations": len(cases) * 2, "distinct_nontrivial": len(seen), "programs": len(accepted),
        "disagreements_checked": len(accepted),
        "rule": "special combinations named by the property + seeded random configurations over the fixture universe, each in normal and --stub mode, 1..4 files; every accepted output is gofmt-checked, type-checked (go vet, stubs with -tags gontainerstub) and its init() executed; distinct = distinct configuration shapes (string literals erased)",
        "samples": [{"files": a[3], "mode": a[1]} for a in accepted[:3]],
        "distribution": dist, "violations": violations, "corr_fail": corr_fail,
    }


def search(ctx):
    return run(ctx, n=150)


def replay(ctx, payload):
    root = ctx.scratch()
    mod = levelb.Module(root)
    rc, out, path = mod.gen_pkg("g000", payload["files"], flags=payload.get("flags", []))
    v = []
    if rc == 0:
        src = open(path).read()
        if re.search(r"^package main", src, re.M):
            mod.write("g000/zz_main.go", "package main\n\nfunc main() {}\n")
        rc2, out2 = mod.go(["vet"] + (["-tags", "gontainerstub"] if "--stub" in payload.get("flags", []) else []) + ["./g000"])
        if rc2 != 0:
            v.append({"sig": payload.get("sig", "typecheck"), "what": out2[-800:], "files": payload["files"]})
    return {"evaluations": 1, "distinct_nontrivial": 1, "programs": 1, "violations": v, "samples": [payload["files"]]}
