"""C04 — tagged collections and decorators are applied as documented."""
import json
from vlib import core, gen, behave, spec

LEVEL = "proof"
TEXT = ("tagged_exact / tagged_mem / tagged_sorted (the list GetTaggedBy builds is a permutation of the carriers, ordered by priority descending then name "
        "ascending — proved with the comparator's transitivity and totality), decorators_in_declaration_order (sublist of the decorator list), "
        "decorator_order_compiled + decorator_order_across_files (compilation and merging keep file order), tags_copied: Lean theorems for all "
        "configurations. The runtime model and the generated code are run on tag/decorator constellations (negative, equal, large priorities; several "
        "decorators per tag; several tags per service; 1-3 files) and compared; the probe's slices and decorator chains are also judged by an independent oracle.")
TECHNIQUE = "Lean 4 theorems (sortedness/permutation of the tagged order, sublist order of decorators, fold invariants of the compiler) + runtime model vs compiled generated code (probe)"
LEAN_PROPS = ["C04"]
TRUSTED = ["gontainer-helpers/v3 getTaggedBy/decorateService are modelled (Model/Runtime.lean), tied by level B"]
ASSUMPTIONS = []


def tag_cfg(rng):
    n = rng.randint(2, 6)
    names = rng.sample(gen.SVC_NAMES, n)
    tags = rng.sample(gen.TAG_NAMES, rng.randint(1, 3))
    svcs = {}
    for nm in names:
        s = {"constructor": "fx.NewA", "arguments": [nm]}
        if rng.random() < 0.3:
            # a service made from a value carries tags and receives decorators like any other
            s = {"value": "&fx.Obj{}"}
        ts = rng.sample(tags, rng.randint(0 if "constructor" in s else 1, len(tags)))
        if ts:
            s["tags"] = [t if rng.random() < 0.3 else gen.tag_obj(rng, t, rng.choice([0, 1, -1, 5, 5, 5, 100, -100, 2**31, -2**31])) for t in ts]
        if rng.random() < 0.3:
            s["calls"] = [["Call1", ["c"]]] + ([["With1", [], True]] if rng.random() < 0.5 else [])
        svcs[nm] = s
    base = "zbase"
    svcs[base] = {"constructor": "fx.NewC"}
    svcs["consumer"] = {"constructor": "fx.NewB", "arguments": ["!tagged " + t for t in tags]}
    decs = []
    for _ in range(rng.randint(0, 4)):
        decs.append({"tag": rng.choice(tags), "decorator": "fx.Dec%d" % rng.randint(1, 2),
                     "arguments": [rng.choice([1, "x", "@" + base, "!value fx.ID", "%p%"]) for _ in range(rng.randint(0, 2))]})
    cfg = {"meta": {"pkg": "gen", "imports": {"fx": gen.FX}}, "parameters": {"p": "pv"}, "services": svcs}
    if decs:
        cfg["decorators"] = decs
    return cfg, tags


def run(ctx, n=None):
    n = n or (40 if ctx.quick else 1500)
    items, metas = [], []
    for i in range(n):
        cfg, tags = tag_cfg(ctx.rng)
        ops = [["tagged", t] for t in tags] + [["get", s] for s in cfg["services"]] + [["tagged", "no-such-tag"]]
        if i % 3 == 0:
            files = gen.split_config(ctx.rng, cfg, ctx.rng.randint(2, 3))
            items.append((files, ops))
        else:
            items.append((cfg, ops))
        metas.append((cfg, tags))
    out, err = behave.run_batch(ctx, items, tag="c04")
    violations, corr_fail, nontriv = [], [], set()
    dist = {"accepted": 0, "slices": 0, "equal_priorities": 0, "negative_priorities": 0, "decorated": 0, "multi_file": 0}
    if err:
        violations.append({"sig": "probe-build", "what": err})
    for (cfg, tags), (src, ops), rec in zip(metas, items, out):
        if not rec["accepted"]:
            violations.append({"sig": "valid-config-rejected", "what": "generated tag/decorator configuration rejected: " + rec["cli_out"][-400:], "files": rec["files"]})
            continue
        dist["accepted"] += 1
        dist["multi_file"] += not isinstance(src, dict)
        if rec["impl"] is None:
            violations.append({"sig": "probe-crash", "what": "%r" % (rec.get("impl_crash"),), "files": rec["files"]}); continue
        d = behave.compare_script(rec["impl"], rec["model"]) if rec["model"] is not None else []
        for x in d[:1]:
            if len(corr_fail) < 10:
                corr_fail.append({"op": "rt:tagged", "files": rec["files"], "at": ops[x[0]] if isinstance(x[0], int) else x[0], "impl": x[1], "model": x[2]})
        for op, r in zip(ops, rec["impl"]):
            if "err" in r or "panic" in r:
                violations.append({"sig": "unexpected-error", "what": "%r fails: %s" % (op, r.get("err", r.get("panic"))[:300]), "files": rec["files"]}); continue
            try:
                if op[0] == "tagged":
                    dist["slices"] += 1
                    carriers = [(nm, dict(spec.tags_of(s))[op[1]]) for nm, s in cfg["services"].items() if op[1] in dict(spec.tags_of(s))]
                    prs = [p for _, p in carriers]
                    dist["equal_priorities"] += len(set(prs)) < len(prs)
                    dist["negative_priorities"] += any(p < 0 for p in prs)
                    deferred = [("tagged", op[1], r["ok"])]
                    spec.check_deferred(cfg, deferred)
                    if len(carriers) > 1:
                        nontriv.add(json.dumps(sorted(carriers)))
                else:
                    deferred = []
                    spec.check_service(cfg, op[1], r["ok"], deferred)
                    spec.check_deferred(cfg, deferred)
                    if any(dc["tag"] in dict(spec.tags_of(cfg["services"][op[1]])) for dc in cfg.get("decorators", [])):
                        dist["decorated"] += 1
            except spec.Mismatch as e:
                violations.append({"sig": "tagged-or-decorator-order", "what": str(e), "files": rec["files"]})
    return {"evaluations": dist["slices"] + dist["decorated"], "distinct_nontrivial": len(nontriv), "programs": dist["accepted"],
            "rule": "random tag/decorator constellations (2-6 tagged services, priorities incl. negative/equal/large, 0-4 decorators with every argument form, 1-3 files); GetTaggedBy for every tag and Get for every service through the probe; distinct = distinct multi-carrier (name, priority) sets",
            "samples": [rec["files"][0][:500] for rec in out[:3]], "distribution": dist, "violations": violations, "corr_fail": corr_fail}


def search(ctx):
    return run(ctx, n=150)


def replay(ctx, payload):
    return run(ctx, n=20)
