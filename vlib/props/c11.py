"""C11 — input grammar: accept exactly the documented language, report every violation."""
import itertools, json, re
from vlib import core, gen, corr

LEVEL = "proof"
TEXT = ("matcher_exact (the derivative matcher decides the language of ANY expression, for all strings), goToken_language and yamlToken_language (the regenerated "
        "patterns of every name position accept exactly the readable hand-written recognisers — all strings, no length bound), name_positions, validate_sections "
        "(no masking between sections), params_exact + params_report_all, getter_rules, creation_rules, todo_exempt are Lean theorems; every regenerated pattern is "
        "pinned (rfl) to the term the model runs. For the composite forms (import, type, value, constructor, function, !value/!tagged/@ arguments) the language "
        "equality with the hand-written recognisers is established by exhaustive comparison on all strings up to a length bound over a position-specific alphabet "
        "— that part is a test, labelled as such — which also validates the translator and the Re semantics against RE2 (match AND capture groups). Validation "
        "as a whole is compared model-vs-implementation on mutated valid forms, wrong YAML node kinds in every position and k-subsets of simultaneous defects, "
        "and each injected defect must be named in the diagnostics. The custom YAML unmarshalers are modelled too (Model/Decode.lean): tag_shapes, call_shapes, scope_keywords (keyword table regenerated from input_scope.go) and shapes_roundtrip are theorems, tied by decoding generated node trees on both sides; getters_unique: an accepted input has pairwise distinct live getters. The composite expressions are theorems too: for every string the regenerated import, function/constructor (validator and compiler copies), type, value, decorator-tag and @service / !tagged / !value expressions accept exactly the documented form (import_language, goFunc_language, serviceType_language, serviceValue_language, decoratorTag_language, argument_languages).")
TECHNIQUE = "Lean 4 theorems (Brzozowski-derivative matcher correctness, language = recogniser for the name grammars, exactness of validators) + exhaustive bounded string comparison (RE2 vs model vs hand-written recognisers) + defect-subset correspondence"
LEAN_PROPS = ["C11", "Pins"]
TRUSTED = ["regexp (RE2) agrees with Re.Lang / leftmost-first captures on the extracted patterns: checked on every enumerated string", "the composite forms (import, Go function, service type, service value, decorator tag, argument forms) are language theorems over ALL strings; the bounded enumeration is what ties Re.accepts to the real RE2 engine"]
ASSUMPTIONS = ["documented grammar = docs/*.md + regex/consts.go at the pinned commit (DESIGN §8)"]

ALPHA = ["a", "B", "1", ".", "-", "_", "/", '"', "*", "&", "{", "}", " ", "@", "!"]
LET = "A-Za-z"


def is_go_token(s):
    return bool(s) and s[0].isascii() and s[0].isalpha() and all(c.isascii() and (c.isalnum() or c == "_") for c in s[1:])


def is_yaml_token(s):
    if not s or not (s[0].isascii() and s[0].isalpha()):
        return False
    prev_sep = False
    for c in s[1:]:
        if c.isascii() and c.isalnum():
            prev_sep = False
        elif c in ".-_":
            if prev_sep:
                return False
            prev_sep = True
        else:
            return False
    return not prev_sep


def is_base_import(s):
    if not s or not (s[0].isascii() and s[0].isalpha()):
        return False
    prev_slash = False
    for c in s[1:]:
        if c == "/":
            if prev_slash:
                return False
            prev_slash = True
        elif c.isascii() and (c.isalnum() or c in "._-"):
            prev_slash = False
        else:
            return False
    return not prev_slash


def is_import(s):
    return is_base_import(s) or (len(s) >= 2 and s[0] == '"' and s[-1] == '"' and is_base_import(s[1:-1])) or s == '"."'


def split_import_sym(s):
    """all ways to read s as [import.]rest"""
    yield None, s
    for i, c in enumerate(s):
        if c == "." and is_import(s[:i]):
            yield s[:i], s[i + 1:]


def is_go_func(s):
    return any(is_go_token(r) for _, r in split_import_sym(s))


def is_service_type(s):
    if s.startswith("*"):
        s = s[1:]
    return is_go_func(s)


def is_dotted(s):
    return bool(s) and all(is_go_token(p) for p in s.split("."))


def is_service_value(s):
    if s.startswith("&"):
        s = s[1:]
    for _, r in split_import_sym(s):
        if is_dotted(r):
            return True
        if r.endswith("{}") and is_go_token(r[:-2]):
            return True
    return False


RECOGNISERS = {
    "input_regexServiceName": is_yaml_token, "input_regexServiceGetter": is_go_token, "input_regexMetaImport": is_import,
    "input_regexMetaGoFn": is_go_func, "input_regexServiceType": is_service_type, "input_regexServiceValue": is_service_value,
    "input_regexDecoratorsTag": lambda s: s == "*" or is_yaml_token(s),
    "resolver_serviceRegex": lambda s: s.startswith("@") and is_yaml_token(s[1:]),
    "resolver_taggedRegex": lambda s: bool(re.fullmatch(r"!tagged[\t\n\f\r ]+(.*)", s, re.S)) and is_yaml_token(re.fullmatch(r"!tagged[\t\n\f\r ]+(.*)", s, re.S).group(1)),
    "resolver_valueRegex": lambda s: bool(re.fullmatch(r"!value[\t\n\f\r ]+(.*)", s, re.S)) and is_service_value(re.fullmatch(r"!value[\t\n\f\r ]+(.*)", s, re.S).group(1)),
    "token_regexSimpleFn": lambda s: "(" in s and s.endswith(")") and is_go_token(s[:s.index("(")]) and "\n" not in s,
    "resolver_servicePrefixRegex": lambda s: s.startswith("@"),
}
SAME_AS = {"input_regexParamName": "input_regexServiceName", "input_regexServiceTag": "input_regexServiceName", "input_regexMetaImportAlias": "input_regexServiceName",
           "token_regexTokenRef": "input_regexServiceName", "input_regexpMetaPkg": "input_regexServiceGetter", "input_regexpMetaContainerType": "input_regexServiceGetter",
           "input_regexpMetaContainerConstructor": "input_regexServiceGetter", "input_regexMetaFn": "input_regexServiceGetter", "input_regexServiceCallName": "input_regexServiceGetter",
           "input_regexServiceFieldName": "input_regexServiceGetter", "input_regexServiceConstructor": "input_regexMetaGoFn", "input_regexDecoratorMethod": "input_regexMetaGoFn",
           "compiler_regexDecoratorMethod": "input_regexMetaGoFn", "compiler_regexMetaGoFn": "input_regexMetaGoFn", "compiler_regexServiceConstructor": "input_regexMetaGoFn",
           "compiler_regexServiceType": "input_regexServiceType", "syntax_regexServiceValue": "input_regexServiceValue"}

DOC_EXAMPLES = {  # forms listed in docs/SERVICES.md / docs/META.md must be accepted
    "input_regexServiceValue": ["Value", "&Value", "my/import.Value", '"my/import".GlobalVar.Field', '&"my/import".GlobalVar.Field', "MyStruct{}", "&MyStruct{}", "my/import.MyStruct{}", "&my/import.MyStruct{}"],
    "input_regexServiceType": ["*my/import/path.Type", "Type", '*"my/import".T', '".".T'],
    "input_regexMetaGoFn": ["os.Getenv", "NewDB", '"github.com/spf13/viper".New', "myImport/pkgCopy.MakeTracedHttpClient"],
    "input_regexMetaImport": ["github.com/spf13/viper", '"my/long/path"', '"."'],
    "input_regexServiceName": ["db", "my.service-1_x"],
    "resolver_taggedRegex": ["!tagged http.handler", "!tagged  t"], "resolver_valueRegex": ["!value pkg.Var", "!value &my/import.MyStruct{}"], "resolver_serviceRegex": ["@logger"],
}


def strings(L, alpha):
    for k in range(L + 1):
        for t in itertools.product(alpha, repeat=k):
            yield "".join(t)


def seeded_forms(rng, n):
    """longer strings built from the documented forms and mutated by one edit"""
    parts = ["a", "B1", "x_y", "my", "pkg", "v2", "a.b", "a-b", "github.com", "T", "New", '"', ".", "/", "*", "&", "{}", "{", "}", " ", "-", "_", "@", "!tagged ", "!value ", "1", "é", "(", ")", "\n", "\t"]
    out = []
    bases = [x for l in DOC_EXAMPLES.values() for x in l]
    for _ in range(n):
        if rng.random() < 0.5:
            s = rng.choice(bases)
            i = rng.randrange(len(s) + 1)
            r = rng.random()
            s = s[:i] + rng.choice(parts) + s[i:] if r < 0.4 else (s[:i] + s[i + 1:] if r < 0.7 else s[:i] + rng.choice(parts) + s[i + 1:])
        else:
            s = "".join(rng.choice(parts) for _ in range(rng.randint(1, 6)))
        out.append(s)
    return out


def defect_positions():
    """(label, key path mentioned in diagnostics, mutation applied to a valid configuration)"""
    def setp(path, val):
        def f(cfg):
            d = cfg
            for k in path[:-1]:
                d = d.setdefault(k, {} if not isinstance(k, int) else None)
            d[path[-1]] = val
        return f
    return [
        ("meta.pkg", "pkg", setp(["meta", "pkg"], "1bad")),
        ("meta.container_type", "container_type", setp(["meta", "container_type"], "a-b")),
        ("meta.container_constructor", "container_constructor", setp(["meta", "container_constructor"], "New X")),
        ("meta.imports alias", "invalid alias", setp(["meta", "imports", "bad alias"], "x/y")),
        ("meta.imports path", "invalid import", setp(["meta", "imports", "okal"], "x y")),
        ("meta.functions name", "invalid function", setp(["meta", "functions", "1f"], "fx.Fn1")),
        ("meta.functions gofn", "invalid go function", setp(["meta", "functions", "g"], "fx.")),
        # re-defining a built-in function name is allowed, with a valid Go function; an invalid one is a violation like any other
        ("meta.functions builtin todo", "invalid go function", setp(["meta", "functions", "todo"], 'errors.New("todo")')),
        ("meta.functions builtin env", "invalid go function", setp(["meta", "functions", "env"], "os.Get env")),
        ("meta.functions builtin envInt", "invalid go function", setp(["meta", "functions", "envInt"], "1x")),
        ("param name", '"bad name"', setp(["parameters", "bad name"], 1)),
        ("param value", '"lst"', setp(["parameters", "lst"], [1, 2])),
        ("service name", '"bad svc"', setp(["services", "bad svc"], {"constructor": "fx.NewA"})),
        ("service none", "missing constructor or value or type", setp(["services", "empty"], {})),
        ("service ctor+value", "cannot define constructor and value together", setp(["services", "both"], {"constructor": "fx.NewA", "value": "fx.Global"})),
        ("service args w/o ctor", "arguments are not empty", setp(["services", "argsonly"], {"value": "fx.Global", "arguments": [1]})),
        ("service constructor", "constructor: invalid", setp(["services", "a", "constructor"], "fx.New X")),
        ("service getter reserved", "is reserved", setp(["services", "a", "getter"], "GetParam")),
        ("service getter must", 'prefix "Must"', setp(["services", "b", "getter"], "MustGo")),
        ("service getter suffix", 'suffix "InContext"', setp(["services", "c", "getter"], "GoInContext")),
        ("service getter = embedded field", "is reserved", setp(["services", "v", "getter"], "Container")),
        ("service getter duplicate", "is already used by", lambda cfg: (cfg["services"].setdefault("dup1", {"constructor": "fx.NewA"}).update({"getter": "SameGetter"}),
                                                                       cfg["services"].setdefault("dup2", {"constructor": "fx.NewA"}).update({"getter": "SameGetter"}))),
        ("service type", "type: invalid", setp(["services", "a", "type"], "**T")),
        ("service value", "value: invalid", setp(["services", "v", "value"], "&&x")),
        ("service arg type", "arg 0: unsupported type", setp(["services", "b", "arguments"], [[1]])),
        ("service call name", "method: invalid", setp(["services", "b", "calls"], [["bad-name", []]])),
        ("service call arg", "unsupported type", setp(["services", "c", "calls"], [["Call1", [{"x": 1}]]])),
        ("service field name", '"bad-f"', setp(["services", "b", "fields"], {"bad-f": 1})),
        ("service tag name", "tags: ", setp(["services", "c", "tags"], ["bad tag"])),
        ("service tag dup", "duplicate", setp(["services", "b", "tags"], ["t", "t"])),
        ("decorator tag", "tag: invalid", setp(["decorators"], [{"tag": "bad tag", "decorator": "fx.Dec1"}])),
        # a placeholder is exempt from the rules about its CONTENT, not from the rule about its name
        ("todo service name", '"bad todo"', setp(["services", "bad todo"], {"todo": True})),
        ("todo service name + draft", '"legacy mailer"', setp(["services", "legacy mailer"], {"todo": True, "constructor": "New X", "getter": "1x"})),
        # twins: the same kind of violation with the same offending text in two entries — each one is reported, naming its own key
        ("import alias twin 1 (same path)", 'invalid alias "tw 1"', setp(["meta", "imports", "tw 1"], "tw/in")),
        ("import alias twin 2 (same path)", 'invalid alias "tw 2"', setp(["meta", "imports", "tw 2"], "tw/in")),
        ("import alias after a valid one with the same path", 'invalid alias "zfx 2"', setp(["meta", "imports", "zfx 2"], gen.FX)),
        ("constructor twin 1", '"tw1": constructor: invalid', setp(["services", "tw1"], {"constructor": "New X"})),
        ("constructor twin 2", '"tw2": constructor: invalid', setp(["services", "tw2"], {"constructor": "New X"})),
        ("call shapes: name only / name + empty list", 'calls: 1: method: invalid "Set Up"', setp(["services", "tw3"], {"value": "fx.Global", "calls": [["Set Up"], ["Set Up", []], ["Ok"]]})),
        ("call name only", '"tw4": calls: 0: method: invalid', setp(["services", "tw4"], {"value": "fx.Global", "calls": [["Set Up"]]})),
        ("param twin 1", '"tw p1"', setp(["parameters", "tw p1"], [1])),
        ("param twin 2", '"tw p2"', setp(["parameters", "tw p2"], [1])),
    ]


def base_cfg():
    # parameters are plain values: strings that would be argument forms in a service (`@x`, `!value x`, `!tagged x`, `$gontainer`) are text
    return {"meta": {"imports": {"fx": gen.FX}}, "parameters": {"p": 1, "twitter": "@gontainer", "rule": "!value of the rule", "tg": "!tagged x", "g": "$gontainer"},
            "services": {"a": {"constructor": "fx.NewA"}, "b": {"constructor": "fx.NewB"}, "c": {"constructor": "fx.NewC"}, "v": {"value": "fx.Global"}}}


def run(ctx):
    L = 3 if ctx.quick else 4
    violations, corr_fail, nontriv = [], [], set()
    dist = {"strings": 0, "accepted": 0, "patterns": 0, "defect_sets": 0, "node_kind_cases": 0}
    strs = list(strings(L, ALPHA)) + seeded_forms(ctx.rng, 4000 if ctx.quick else 60000)
    for names in DOC_EXAMPLES.values():
        strs += names
    dist["strings"] = len(strs)
    for name, rec in RECOGNISERS.items():
        dist["patterns"] += 1
        reqs = [{"op": "re", "name": name, "s": s} for s in strs]
        ri = ctx.impl.ask_many(reqs)
        rm = ctx.model.ask_many(reqs) if ctx.have_model else [None] * len(reqs)
        for s, a, b in zip(strs, ri, rm):
            want = rec(s)
            if a.get("match") != want:
                violations.append({"sig": "grammar:" + name, "what": "position %s: %r is %s but the documented form says %s" % (name, s, "accepted" if a.get("match") else "rejected", "accept" if want else "reject"), "input": {"name": name, "s": s}})
                if len(violations) > 40:
                    break
            if b is not None:
                same = a.get("match") == b.get("match") and (not a.get("match") or b.get("prefixOnly") or core.canon(a.get("groups")) == core.canon(b.get("groups")))
                if not same and len(corr_fail) < 10:
                    corr_fail.append({"op": "re:" + name, "req": {"s": s}, "impl": a, "model": b})
            if a.get("match"):
                dist["accepted"] += 1
                nontriv.add((name, s))
        for ex in DOC_EXAMPLES.get(name, []):
            a = ctx.impl.ask({"op": "re", "name": name, "s": ex})
            if not a.get("match"):
                violations.append({"sig": "documented-form-rejected", "what": "documented form %r is rejected at %s" % (ex, name), "input": {"name": name, "s": ex}})
    # regexes that must be the same pattern as a checked one
    for n, m in SAME_AS.items():
        sample = strs[:: max(1, len(strs) // 3000)]
        ra = ctx.impl.ask_many([{"op": "re", "name": n, "s": s} for s in sample])
        rb = ctx.impl.ask_many([{"op": "re", "name": m, "s": s} for s in sample])
        for s, a, b in zip(sample, ra, rb):
            if a.get("match") != b.get("match"):
                violations.append({"sig": "grammar:" + n, "what": "%s and %s must accept the same language; differ on %r" % (n, m, s), "input": {"name": n, "s": s}})
                break
    # validation as a whole: k-subsets of simultaneous defects, every one must be named
    defects = defect_positions()
    subsets = [[]] + [[d] for d in defects]      # the empty set: the grammatical base configuration is accepted as it is
    for k in (2, 3, 5):
        for _ in range(20 if ctx.quick else 200):
            subsets.append(ctx.rng.sample(defects, k))
    subsets.append(defects)
    for sub in subsets:
        cfg = base_cfg()
        for _, _, f in sub:
            f(cfg)
        a, b, d = corr.compile_pair(ctx, [gen.yaml_doc(cfg)])
        dist["defect_sets"] += 1
        if "panic" in a:
            violations.append({"sig": "panic", "what": a["panic"], "files": [gen.yaml_doc(cfg)]}); continue
        for x in d[:1]:
            if len(corr_fail) < 10:
                corr_fail.append({"op": "compile:" + x[0], "files": [gen.yaml_doc(cfg)], "impl": x[1], "model": x[2]})
        errs = a.get("errs") or []
        text = "\n".join(errs)
        if not sub and errs:
            violations.append({"sig": "grammatical-config-rejected", "what": "a configuration that uses only documented forms is rejected: %r" % errs[:4], "files": [gen.yaml_doc(cfg)]})
        for label, key, _ in sub:
            if key not in text:
                violations.append({"sig": "defect-not-reported", "what": "defect %r (expected mention of %s) is not reported among %r" % (label, key, errs[:8]), "files": [gen.yaml_doc(cfg)]})
        if not all(e.startswith("compiler.StepValidateInput: ") for e in errs):
            violations.append({"sig": "defect-wrong-stage", "what": "grammar defects reported outside input validation: %r" % errs[:4], "files": [gen.yaml_doc(cfg)]})
    # todo services are exempt from attribute checks
    cfg = base_cfg()
    cfg["services"]["t"] = {"todo": True, "constructor": "not valid!", "getter": "MustX", "arguments": [[1]]}
    a, b, d = corr.compile_pair(ctx, [gen.yaml_doc(cfg)])
    if a.get("errs"):
        violations.append({"sig": "todo-not-exempt", "what": "attributes of a todo service are validated: %r" % a["errs"], "files": [gen.yaml_doc(cfg)]})
    # … in particular a todo service's getter claims nothing: the same getter on a live service (either sort order), on two todo
    # services, and a todo service full of garbage next to ONE real defect (exactly that one is reported)
    todo_cases = [
        ("todo-after-live", {"a": {"constructor": "N", "getter": "GetS"}, "t": {"todo": True, "getter": "GetS"}}, 0),
        ("todo-before-live", {"z": {"constructor": "N", "getter": "GetS"}, "t": {"todo": True, "getter": "GetS"}}, 0),
        ("two-todos", {"t1": {"todo": True, "getter": "GetS"}, "t2": {"todo": True, "getter": "GetS"}}, 0),
        ("todo-then-real-duplicate", {"a": {"constructor": "N", "getter": "GetS"}, "b": {"constructor": "N", "getter": "GetS"}, "t": {"todo": True, "getter": "GetS"}}, 1),
        ("todo-garbage-plus-one-defect", {"a": {"constructor": "N", "getter": "1bad"}, "t": {"todo": True, "getter": "Must X", "constructor": "??", "type": "[", "value": "(", "tags": ["x", "x"], "fields": {"1": [1]}}}, 1),
    ]
    for label, svcs, nerr in todo_cases:
        cfg = {"services": svcs}
        a, b, d = corr.compile_pair(ctx, [gen.yaml_doc(cfg)])
        dist["defect_sets"] += 1
        for x in d[:1]:
            if len(corr_fail) < 10:
                corr_fail.append({"op": "compile:" + x[0], "files": [gen.yaml_doc(cfg)], "impl": x[1], "model": x[2]})
        errs = a.get("errs") or []
        if len(errs) != nerr:
            violations.append({"sig": "todo-not-exempt", "what": "%s: expected %d diagnostic(s), got %r" % (label, nerr, errs), "files": [gen.yaml_doc(cfg)]})
    # the verdict on a string depends on the POSITION it stands in, not on the string: the same text accepted in a permissive
    # position (tag, parameter or service name, value/type form) earlier in the run must still be rejected in a strict one
    reuse = [
        ("tag-then-method", "audit.log", {"a": {"constructor": "N", "tags": ["audit.log"]}, "b": {"constructor": "N", "calls": [["audit.log", []]]}}, None),
        ("tag-then-field", "x-y", {"a": {"constructor": "N", "tags": ["x-y"]}, "b": {"constructor": "N", "fields": {"x-y": 1}}}, None),
        ("tag-then-getter", "a.b", {"a": {"constructor": "N", "tags": ["a.b"]}, "b": {"constructor": "N", "getter": "a.b"}}, None),
        ("service-name-then-constructor", "my-svc", {"my-svc": {"constructor": "N"}, "z": {"constructor": "my-svc"}}, None),
        ("value-then-constructor", "&pkg.V", {"a": {"value": "&pkg.V"}, "b": {"constructor": "&pkg.V"}}, None),
        ("type-then-getter", "*pkg.T", {"a": {"constructor": "N", "type": "*pkg.T"}, "b": {"constructor": "N", "getter": "*pkg.T"}}, None),
        ("param-name-then-pkg", "p.q", {"a": {"constructor": "N"}}, {"pkg": "p.q"}),
        ("method-then-tag (strict first, permissive later)", "Ok1", {"a": {"constructor": "N", "calls": [["Ok1", []]]}, "b": {"constructor": "N", "tags": ["Ok1"]}}, "accept"),
    ]
    for label, text, svcs, extra in reuse:
        cfg = {"services": svcs}
        if isinstance(extra, dict):
            cfg["meta"] = extra
            cfg["parameters"] = {text: 1}
        a, b, d = corr.compile_pair(ctx, [gen.yaml_doc(cfg)])
        dist["defect_sets"] += 1
        for x in d[:1]:
            if len(corr_fail) < 10:
                corr_fail.append({"op": "compile:" + x[0], "files": [gen.yaml_doc(cfg)], "impl": x[1], "model": x[2]})
        errs = a.get("errs") or []
        if extra == "accept":
            if errs:
                violations.append({"sig": "position-independent-verdict", "what": "%s: %r is valid in both positions but %r is reported" % (label, text, errs), "files": [gen.yaml_doc(cfg)]})
        elif not errs:
            violations.append({"sig": "position-independent-verdict", "what": "%s: %r is valid in the first position only, yet the configuration is accepted" % (label, text), "files": [gen.yaml_doc(cfg)]})
    # the rules judge the MERGED configuration: the same tag given to a service by two files is a duplicate (whatever the
    # priorities), and it is reported next to an independent violation of another file
    mf = [gen.yaml_doc({"services": {"a": {"constructor": "N", "tags": ["h"]}}}),
          gen.yaml_doc({"services": {"a": {"tags": [{"name": "h", "priority": 5}]}}, "parameters": {"bad name": 1}})]
    a, b, d = corr.compile_pair(ctx, mf)
    dist["defect_sets"] += 1
    for x in d[:1]:
        if len(corr_fail) < 10:
            corr_fail.append({"op": "compile:" + x[0], "files": mf, "impl": x[1], "model": x[2]})
    text = "\n".join(a.get("errs") or [])
    for key in ('duplicate "h"', "bad name"):
        if key not in text:
            violations.append({"sig": "defect-not-reported", "what": "two files: expected a diagnostic mentioning %s among %r" % (key, a.get("errs")), "files": mf})
    # the custom unmarshalers (tag, call, scope shapes) against their model, on generated node trees
    dv, dc, dn = decode_shapes(ctx)
    violations += dv
    corr_fail += dc
    dist["decode_nodes"] = dn
    # wrong YAML node kinds (decode stage) and Go keywords: recorded findings D11 / D12
    kinds = [("scope", "services: {a: {constructor: N, scope: bogus}, 'bad name': {constructor: N}}"), ("call", "services: {a: {constructor: N, calls: [5]}, 'bad name': {constructor: N}}"),
             ("tag", "services: {a: {constructor: N, tags: [[1]]}, 'bad name': {constructor: N}}"), ("version", "version: [1]\nservices: {'bad name': {constructor: N}}")]
    for label, y in kinds:
        a = ctx.impl.ask({"op": "compile", "files": [y], "version": ""})
        dist["node_kind_cases"] += 1
        if "decodeErr" in a:
            violations.append({"sig": "D11:decode-stage-error-masks-others", "what": "a malformed %s aborts decoding: the other violation (service name 'bad name') is not reported and the key is not named: %s" % (label, a["decodeErr"][:200]), "files": [y]})
    for kw in ("func", "type", "go", "var"):
        cfg = base_cfg()
        cfg["services"]["a"]["getter"] = kw
        a = ctx.impl.ask({"op": "compile", "files": [gen.yaml_doc(cfg)], "version": ""})
        if not a.get("errs"):
            violations.append({"sig": "D12:go-keyword-accepted-as-identifier", "what": "Go keyword %r is accepted as getter (matches GoToken); the build fails later in gofmt without naming the key" % kw, "files": [gen.yaml_doc(cfg)]})
    return {"evaluations": dist["strings"] * dist["patterns"] + dist["defect_sets"], "distinct_nontrivial": len(nontriv),
            "rule": "all strings of length <= %d over %r + mutated documented forms, at each of %d distinct patterns (match + capture groups: RE2 vs model vs hand-written recogniser); k-subsets (1,2,3,5,all) of %d injected defect positions; wrong YAML node kinds; non-trivial = accepted (pattern, string) pairs" % (L, "".join(ALPHA), dist["patterns"], len(defects)),
            "samples": [{"name": "input_regexServiceValue", "s": "&a.B{}"}, {"defects": [d[0] for d in subsets[40]]}], "distribution": dist,
            "violations": violations, "corr_fail": corr_fail, "exhaustive": False}


def tagged(v):
    """a python value as the node protocol of the model"""
    if v is None:
        return {"t": "null"}
    if isinstance(v, bool):
        return {"t": "bool", "v": v}
    if isinstance(v, int):
        return {"t": "int" if v < 2**63 else "uint", "v": str(v)}
    if isinstance(v, float):
        from vlib import spec
        return {"t": "float", "v": spec.fmt_float(v)}
    if isinstance(v, str):
        return {"t": "str", "v": v}
    if isinstance(v, list):
        return {"t": "list", "v": [tagged(x) for x in v]}
    return {"t": "dict", "v": [[k, tagged(x)] for k, x in v.items()]}


def rand_node(rng, depth=0):
    r = rng.random()
    scal = [None, True, False, 0, 5, -3, 2**63, 1.5, "", "x", "shared", "contextual", "non_shared", "Shared", "name", "priority", "non-shared", " shared"]
    if depth >= 2 or r < 0.45:
        return rng.choice(scal)
    if r < 0.75:
        return [rand_node(rng, depth + 1) for _ in range(rng.randint(0, 4))]
    keys = rng.sample(["name", "priority", "Name", "x", "tag"], rng.randint(0, 3))
    return {k: rand_node(rng, depth + 1) for k in keys}


def decode_shapes(ctx):
    """tag / call / scope shapes: documented forms must be stored as documented, everything else rejected with the
    unmarshaler's own message; model and implementation must agree on every generated node"""
    n = 1500 if ctx.quick else 20000
    fixed = [("tag", "t"), ("tag", {"name": "t"}), ("tag", {"name": "t", "priority": 7}), ("tag", {"name": "t", "priority": -2}), ("tag", {"priority": 1}),
             ("tag", {"name": 5}), ("tag", {"name": "t", "priority": "1"}), ("tag", {"name": "t", "priority": 1.0}), ("tag", {"name": "t", "priority": 2**63}), ("tag", 5), ("tag", ["t"]), ("tag", None),
             ("call", ["M"]), ("call", ["M", []]), ("call", ["M", [1, "a", None, [1], {"k": 1}]]), ("call", ["M", [], True]), ("call", ["M", [], False]), ("call", []),
             ("call", ["M", [], True, 1]), ("call", [1]), ("call", ["M", "x"]), ("call", ["M", {"a": 1}]), ("call", ["M", [], "true"]), ("call", ["M", [], 1]), ("call", "M"), ("call", {"m": 1}),
             ("scope", "shared"), ("scope", "contextual"), ("scope", "non_shared"), ("scope", "Shared"), ("scope", ""), ("scope", None),
             # what Scope.String() prints for values that are no scope, numbers as text, keywords with blanks, the constants' names
             ("scope", "invalid (0)"), ("scope", "invalid (4)"), ("scope", "invalid (-1)"), ("scope", "0"), ("scope", "1"), ("scope", " shared"), ("scope", "shared "),
             ("scope", "default"), ("scope", "ScopeShared"), ("scope", "non-shared"), ("scope", "nonshared"), ("scope", "SHARED"), ("scope", 5), ("scope", True), ("scope", ["shared"]), ("scope", {"a": 1})]
    cases = fixed + [(ctx.rng.choice(["tag", "call", "scope"]), rand_node(ctx.rng)) for _ in range(n)]
    reqs_i = [{"op": "decodeNode", "kind": k, "yaml": json.dumps(v)} for k, v in cases]
    reqs_m = [{"op": "decodeNode", "kind": k, "node": tagged(v)} for k, v in cases]
    ri = ctx.impl.ask_many(reqs_i)
    rm = ctx.model.ask_many(reqs_m) if ctx.have_model else [None] * len(cases)
    violations, corr_fail = [], []
    for (k, v), a, b in zip(cases, ri, rm):
        if "panic" in a:
            violations.append({"sig": "panic", "what": "unmarshaler of %s panics on %r: %s" % (k, v, a["panic"]), "input": {"kind": k, "node": v}}); continue
        # documentation-level judgement of the documented forms
        want = None
        if v is None:
            want = True   # a null node is not handed to the unmarshaler: the zero value stays (validation then judges it)
        elif k == "tag":
            want = isinstance(v, str) or (isinstance(v, dict) and isinstance(v.get("name"), str) and ("priority" not in v or (isinstance(v["priority"], int) and not isinstance(v["priority"], bool) and v["priority"] < 2**63)))
        elif k == "call":
            want = isinstance(v, list) and 1 <= len(v) <= 3 and isinstance(v[0], str) and (len(v) < 2 or isinstance(v[1], list)) and (len(v) < 3 or isinstance(v[2], bool))
        elif k == "scope":
            want = v in ("shared", "contextual", "non_shared") and isinstance(v, str)
        if ("ok" in a) != bool(want):
            violations.append({"sig": "shape:" + k, "what": "%s node %r is %s, documented shapes say %s" % (k, v, "stored as %r" % (a.get("ok"),) if "ok" in a else "rejected (%s)" % a.get("err", "")[:80], "store" if want else "reject"), "input": {"kind": k, "node": v}})
        if b is not None:
            if "ok" in b:
                same = core.canon(a.get("ok")) == core.canon(b["ok"])
            elif b.get("err") == "yaml":
                same = a.get("err", "").startswith("yaml:")
            else:
                same = a.get("err") == b.get("err")
            if not same and len(corr_fail) < 10:
                corr_fail.append({"op": "decodeNode:" + k, "req": {"node": v}, "impl": a, "model": b})
    return violations, corr_fail, len(cases)


def replay(ctx, payload):
    v = []
    if "input" in payload:
        i = payload["input"]
        a = ctx.impl.ask({"op": "re", "name": i["name"], "s": i["s"]})
        rec = RECOGNISERS.get(i["name"]) or RECOGNISERS.get(SAME_AS.get(i["name"], ""))
        if rec and a.get("match") != rec(i["s"]):
            v.append({"sig": payload.get("sig", "grammar"), "what": "still differs", "input": i})
    return {"evaluations": 1, "distinct_nontrivial": 1, "violations": v, "samples": [payload.get("input")]}
