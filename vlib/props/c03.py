"""C03 — parameter and %pattern% evaluation."""
import json, re
from vlib import core, gen, behave, spec

LEVEL = "proof"
TEXT = "The chunker's acceptance criterion (even number of %), losslessness and chunk shape are theorems for all strings (induction over the character list); the factory order and token regexes are pinned to facts regenerated from the shipped wiring; model and implementation are run on every string up to a length bound plus random Unicode and must agree on chunks, tokens, emitted code and %+q quoting. literal_roundtrip (reading the emitted Go literal back yields the original string, for every string) and literal_ascii (%+q output is pure ASCII) are theorems over the quoting model, whose inverse direction is tied to strconv.Unquote; escape_roundtrip covers every string whose % are doubled. token_classification: the first-match chain is the documented decision list (registered function, %%, reference, unknown function, malformed token, text); build_rejects_exactly: a balanced pattern is accepted iff no chunk is an unknown-function or malformed token; env / envInt / todo semantics as theorems."
TECHNIQUE = 'Lean 4 induction proofs over the chunker model + exhaustive bounded/random model-vs-implementation correspondence'
LEAN_PROPS = ["C03"]
TRUSTED = ["runtime helpers of body.go.tpl (_concatenateChunks, _getEnv, …) and exporter.CastToString are modelled (Model/Token.evalTokens)"]
ASSUMPTIONS = ["yaml.v3 yields valid UTF-8 strings", "Go's %+q agrees with GoQuote.quote (checked on every string of this run)"]


def oracle_chunks(s, r):
    """the property, evaluated on the implementation's answer alone"""
    even = s.count("%") % 2 == 0
    if ("ok" in r) != even:
        return "chunker accepts iff the number of %% is even: s=%r answer=%r" % (s, r)
    if "ok" in r:
        cs = r["ok"]
        if "".join(cs) != s:
            return "chunks do not concatenate to the pattern: s=%r chunks=%r" % (s, cs)
        if s != "":
            for c in cs:
                lit = c != "" and "%" not in c
                tok = len(c) >= 2 and c[0] == "%" and c[-1] == "%" and "%" not in c[1:-1]
                if not (lit or tok):
                    return "chunk %r of %r is neither a literal nor a %%…%% token" % (c, s)
    return None


def oracle_tokens(s, r):
    """token classification on the implementation's answer (documented grammar, hand-written here)"""
    import re
    if "ok" not in r:
        # a pattern whose every token is well-formed must be accepted
        if s.count("%") % 2 == 0:
            parts = s.split("%")
            toks = [p for p in parts[1::2]]
            if all(t == "" or re.fullmatch(r"[A-Za-z]((\.|-|_)?[A-Za-z0-9])*", t) or re.fullmatch(r"(env|envInt|todo)\((.*)\)", t) for t in toks):
                return "pattern %r consists of well-formed tokens only but is rejected: %r" % (s, r.get("errs"))
        return None
    for t in r["ok"]:
        c = t["raw"]
        if c == "%%":
            want = "str"
        elif len(c) >= 2 and c[0] == "%" and c[-1] == "%":
            inner = c[1:-1]
            if re.fullmatch(r"[A-Za-z]((\.|-|_)?[A-Za-z0-9])*", inner):
                want = "ref"
            elif re.fullmatch(r"(env|envInt|todo)\((.*)\)", inner):
                want = "fn"
            else:
                return "token %r accepted although it is neither a reference nor a registered function" % c
        else:
            want = "str"
        if t["kind"] != want:
            return "chunk %r classified %s, expected %s" % (c, t["kind"], want)
        if want == "ref" and t["dependsOn"] != [c[1:-1]]:
            return "reference %r depends on %r" % (c, t["dependsOn"])
    return None


def run(ctx):
    L = 4 if ctx.quick else 5
    cases = list(gen.strings_upto(gen.ALPHA_PATTERN, L))
    nrand = 3000 if ctx.quick else 40000
    cases += [gen.rand_unicode(ctx.rng) for _ in range(nrand)]
    # structured patterns: well-formed tokens with non-ASCII content, repeated references, function calls with arbitrary argument text
    inner = ["é", "Grüß Gott", "Łódź", "𝄞", "a b", "x,y", "(", ")", "()", "\"q\"", "1", "", "później – potem", "a\tb"]
    seps = [", ", ", ", ",", ",\n", "\n, ", ",\r\n  "]      # a line break between the parentheses: `.` does not match it, the token is malformed
    for _ in range(1500 if ctx.quick else 20000):
        r = ctx.rng.random()
        if r < 0.4:
            tok = "%" + ctx.rng.choice(["env", "envInt", "todo", "nofn", "Env", "env2"]) + "(" + ctx.rng.choice(["", "", "", "\n", " \n "]) + ctx.rng.choice(seps).join(json.dumps(ctx.rng.choice(inner), ensure_ascii=False) for _ in range(ctx.rng.randint(0, 2))) + ctx.rng.choice(["", "", "", "\n"]) + ")%"
        elif r < 0.6:
            tok = "%" + ctx.rng.choice(["p", "my.param", "a-b_c", "é", "p.", "1p", "p p"]) + "%"
        else:
            tok = gen.wild_pattern(ctx.rng, ["p", "q.r"])
        cases.append(ctx.rng.choice(["", "x", "é "]) + tok + ctx.rng.choice(["", "%%", " y", tok]))
    reqs = []
    fns = [["env", "", "getEnv"], ["envInt", "", "getEnvInt"], ["todo", "", "paramTodo"]]
    for s in cases:
        reqs.append({"op": "chunks", "s": s})
        reqs.append({"op": "tokenize", "s": s, "functions": fns})
        reqs.append({"op": "quote", "s": s})
    ri = ctx.impl.ask_many(reqs)
    rm = ctx.model.ask_many(reqs) if ctx.have_model else [None] * len(reqs)
    corr_fail, violations = [], []
    nontrivial = set()
    dist = {"accepted": 0, "rejected_unbalanced": 0, "rejected_token": 0, "multi_chunk": 0, "with_fn": 0, "with_ref": 0}
    for req, a, b in zip(reqs, ri, rm):
        if "panic" in a:
            violations.append({"sig": "panic:" + req["op"], "what": "panic in " + req["op"], "input": req, "observed": a})
            continue
        if b is not None and core.canon(a) != core.canon({k: v for k, v in b.items() if k in a or k in ("ok", "err", "errs", "code", "imports")}):
            if len(corr_fail) < 20:
                corr_fail.append({"op": req["op"], "req": req, "impl": a, "model": b})
        s = req["s"]
        if req["op"] == "chunks":
            e = oracle_chunks(s, a)
            if e:
                violations.append({"sig": "chunks", "what": e, "input": req, "observed": a})
            if "%" in s:
                nontrivial.add(s)
            if "ok" in a:
                dist["accepted"] += 1
                if len(a["ok"]) > 1:
                    dist["multi_chunk"] += 1
            else:
                dist["rejected_unbalanced"] += 1
        elif req["op"] == "tokenize":
            e = oracle_tokens(s, a)
            if e:
                violations.append({"sig": "tokens", "what": e, "input": req, "observed": a})
            if "ok" in a:
                ks = [t["kind"] for t in a["ok"]]
                dist["with_fn"] += "fn" in ks
                dist["with_ref"] += "ref" in ks
            elif s.count("%") % 2 == 0:
                dist["rejected_token"] += 1
    # the inverse direction (`literal_roundtrip`): the model's reading of a Go literal agrees with strconv.Unquote
    # wherever the model gives a value (it covers the escapes %+q produces plus upper-case hex, not octal)
    lits = [a["ok"] for req, a in zip(reqs, ri) if req["op"] == "quote" and "ok" in a]
    lits = lits[:: max(1, len(lits) // (4000 if ctx.quick else 40000))]
    muts = []
    for q in lits[:: 3]:
        m = q
        r = ctx.rng.random()
        if r < 0.3:
            m = re.sub(r"\\([xuU])([0-9a-f]+)", lambda mm: "\\" + mm.group(1) + mm.group(2).upper(), q)
        elif r < 0.6 and len(q) > 2:
            k = ctx.rng.randrange(1, len(q) - 1)
            m = q[:k] + ctx.rng.choice(["\\", "\\x4", "\\ud800", "\\U00110000", "\\101", "\"", "\\'", "\\u00e9", "\n", "\t"]) + q[k:]
        elif r < 0.8:
            m = q[:-1]
        muts.append(m)
    ureqs = [{"op": "unquote", "s": q} for q in lits + muts]
    ui = ctx.impl.ask_many(ureqs)
    um = ctx.model.ask_many(ureqs) if ctx.have_model else [None] * len(ureqs)
    dist.update({"unquote_checked": len(ureqs), "unquote_model_value": 0, "unquote_model_narrower": 0, "unquote_both_reject": 0})
    for req, a, b in zip(ureqs, ui, um):
        if b is None:
            continue
        if "ok" in b:
            dist["unquote_model_value"] += 1
            if a.get("ok") != b["ok"] and len(corr_fail) < 20:
                corr_fail.append({"op": "unquote", "req": req, "impl": a, "model": b})
        elif "ok" in a:
            dist["unquote_model_narrower"] += 1
        else:
            dist["unquote_both_reject"] += 1
    # every literal the real exporter produced must read back (model side) as the original string
    origs = [req["s"] for req, a in zip(reqs, ri) if req["op"] == "quote" and "ok" in a]
    origs = origs[:: max(1, len(origs) // (4000 if ctx.quick else 40000))]
    for s0, b in zip(origs, um[:len(lits)]):
        if b is not None and b.get("ok") != s0 and len(corr_fail) < 20:
            corr_fail.append({"op": "unquote∘quote", "req": {"s": s0}, "model": b})
    # level B: one generated container with many parameters; every GetParam result (type and value) and
    # error is compared with the runtime model and judged by the documentation-level evaluator
    lb = level_b(ctx)
    violations += lb["violations"]
    corr_fail += lb["corr_fail"]
    dist.update(lb["dist"])
    return {
        "evaluations": len(reqs) + len(ureqs) + lb["dist"]["getparam_checked"], "distinct_nontrivial": len(nontrivial), "programs": lb["dist"]["containers"],
        "rule": "all strings of length <= %d over %s plus %d seeded random Unicode strings; ops chunks/tokenize/quote on each; non-trivial = pattern contains at least one %%" % (L, "".join(gen.ALPHA_PATTERN), nrand),
        "samples": [{"op": "tokenize", "s": s} for s in cases[2000:2003]] + [{"op": "chunks", "s": cases[-1]}],
        "distribution": dist, "corr_fail": corr_fail, "violations": violations,
        "exhaustive": False,
    }


def pattern_strings(ctx, n):
    """patterns mixing literals, %%, references to every literal type and function calls"""
    rng = ctx.rng
    lits = ["", "x", "a b", "é𝄞", "q\"uote", "back\\slash", "nl\nline", "tab\t", "\x00ctl\x7f", "{}[]", "50%% off", "%%", "%%%%", "a%%b%%c", "  ", "'", "`", "$gontainer-not", "@not-a-service", "!valueless"]
    refs = ["%i%", "%u%", "%f%", "%bt%", "%nl%", "%s%", "%empty%", "%uni%"]
    fns = ['%env("VERIF_A")%', '%env("VERIF_MISSING", "dflt")%', '%envInt("VERIF_N")%', '%envInt("VERIF_MISSING", 5)%', '%env("VERIF_MISSING")%', '%envInt("VERIF_A")%', '%todo()%', '%todo("later")%',
           # a variable that is SET to the empty string exists: no default, no "does not exist"
           # user functions with typed parameters: literal arguments are converted (int -> uint / float64 / time.Duration, string -> named string)
           '%fu(3, 2)%', '%fd(1500, "warn")%', 'x%fu(7, 1)%y',
           '%env("VERIF_E")%', '%env("VERIF_E", "dflt")%', '%envInt("VERIF_E")%', '%envInt("VERIF_E", 5)%', '%envInt("VERIF_NEG")%', '%envInt("VERIF_NEG", 1)%',
           # decimal only: a leading zero is not octal, a 0x prefix is not a number (and a default does not rescue a value that is set)
           '%envInt("VERIF_OCT")%', '%envInt("VERIF_HEX")%', '%envInt("VERIF_HEX", 3)%', 'n=%envInt("VERIF_OCT")%']
    out = list(lits) + refs + fns
    for _ in range(n):
        k = rng.randint(1, 4)
        out.append("".join(rng.choice(rng.choice([lits, refs, refs, fns])) for _ in range(k)))
    # escaping: every % doubled must evaluate to the original string
    for _ in range(n // 2):
        raw = gen.rand_unicode(rng, 10)
        out.append(raw.replace("%", "%%"))
    return out


def level_b(ctx):
    n = 150 if ctx.quick else 3000
    pats = pattern_strings(ctx, n)
    params = {"i": -5, "u": 2**63 + 1, "f": 1.25, "bt": True, "nl": None, "s": "str", "empty": "", "uni": "é𝄞\n",
              # look-alikes: equal printed form, different YAML type — each keeps its own type
              "ten_i": 10, "ten_s": "10", "t_b": True, "t_s": "true", "n_s": "<nil>", "f_s": "1.25", "ten_i2": 10,
              "three_i": 3, "three_f": 3.0, "k_f": 1e3, "k_i": 1000, "z_f": 0.0, "z_i": 0}
    names = []
    for k, p in enumerate(pats):
        params["x%d" % k] = p
        names.append("x%d" % k)
    cfg = {"meta": {"pkg": "gen", "imports": {"fx": gen.FX}, "functions": {"fu": "fx.FnU", "fd": "fx.FnD"}}, "parameters": params,
           "services": {"holder": {"constructor": "fx.NewA", "arguments": ["%x0%"]}}}
    ops = [["param", nm] for nm in list(params)]
    # the registered function is the LAST registration of its name: a user function may replace a built-in, a later file
    # may replace an earlier file's registration
    fmeta = {"pkg": "gen", "imports": {"fx": gen.FX}}
    cfg2 = {"meta": dict(fmeta, functions={"env": "fx.Fn1", "shout": "fx.FnInt"}),
            "parameters": {"e": '%env("VERIF_A")%', "s": "%shout(1, 2)%", "m": 'x%env("NOPE")%y%shout()%', "i": '%envInt("VERIF_N")%'},
            "services": {"holder": {"constructor": "fx.NewA", "arguments": ["%e%"]}},
            "__files__": [{"meta": dict(fmeta, functions={"shout": "fx.Fn1"}), "parameters": {"e": '%env("VERIF_A")%', "s": "%shout(1, 2)%"}},
                          {"meta": {"functions": {"shout": "fx.FnInt", "env": "fx.Fn1"}}, "parameters": {"m": 'x%env("NOPE")%y%shout()%', "i": '%envInt("VERIF_N")%'},
                           "services": {"holder": {"constructor": "fx.NewA", "arguments": ["%e%"]}}}]}
    ops2 = [["param", nm] for nm in cfg2["parameters"]]
    out2, err2 = behave.run_batch(ctx, [(cfg2, ops2)], tag="c03f", split=False)
    out, err = behave.run_batch(ctx, [(cfg, ops)], tag="c03")
    violations, corr_fail = [], []
    dist = {"containers": 0, "getparam_checked": 0, "getparam_errors": 0, "escaped_roundtrips": 0}
    if err:
        return {"violations": [{"sig": "probe-build", "what": err}], "corr_fail": [], "dist": dist}
    fviol, fcorr = [], []
    if err2 or not out2 or not out2[0]["accepted"] or out2[0]["impl"] is None:
        fviol.append({"sig": "function-registration", "what": "configuration re-registering functions does not build/run: %s" % (err2 or (out2 and out2[0]["cli_out"][-300:]),), "files": out2[0]["files"] if out2 else []})
    else:
        r2 = out2[0]
        if r2["model"] is not None:
            for x in behave.compare_script(r2["impl"], r2["model"])[:2]:
                fcorr.append({"op": "rt:param", "param": ops2[x[0]][1] if isinstance(x[0], int) else x[0], "impl": x[1], "model": x[2], "files": r2["files"]})
        for (op, nm), r in zip(ops2, r2["impl"]):
            want = spec.eval_param(cfg2, nm)
            if want[0] == "ok" and ("ok" not in r or not spec.prim_matches(want[1], r["ok"])):
                fviol.append({"sig": "function-registration", "what": "GetParam(%s) for %r returns %r; the function registered LAST under that name gives %r" % (nm, cfg2["parameters"][nm], r, want[1]), "files": r2["files"]})
    rec = out[0]
    if not rec["accepted"]:
        return {"violations": [{"sig": "valid-patterns-rejected", "what": rec["cli_out"][-600:], "files": rec["files"]}], "corr_fail": [], "dist": dist}
    dist["containers"] = 1
    if rec["impl"] is None:
        return {"violations": [{"sig": "probe-crash", "what": "%r" % (rec.get("impl_crash"),)}], "corr_fail": [], "dist": dist}
    if rec["model"] is not None:
        for x in behave.compare_script(rec["impl"], rec["model"])[:5]:
            corr_fail.append({"op": "rt:param", "param": ops[x[0]][1] if isinstance(x[0], int) else x[0], "pattern": params.get(ops[x[0]][1]) if isinstance(x[0], int) else None, "impl": x[1], "model": x[2]})
    for (op, nm), r in zip(ops, rec["impl"]):
        dist["getparam_checked"] += 1
        want = spec.eval_param(cfg, nm)
        raw = params[nm]
        if want[0] == "err":
            dist["getparam_errors"] += 1
            if "err" not in r:
                violations.append({"sig": "getparam-masks-error", "what": "GetParam(%s) for %r returns %r but the documented evaluation fails" % (nm, raw, r), "pattern": raw})
            elif isinstance(raw, str) and "%" in raw and not any(tok in r["err"] for tok in [t for t in raw.split("%")[1::2] if t]) and "todo" not in raw:
                violations.append({"sig": "error-does-not-name-token", "what": "error of GetParam(%s) does not name the failing token of %r: %s" % (nm, raw, r["err"]), "pattern": raw})
        else:
            if "ok" not in r:
                violations.append({"sig": "getparam-unexpected-error", "what": "GetParam(%s) for %r fails: %r" % (nm, raw, r), "pattern": raw})
            elif not spec.prim_matches(want[1], r["ok"]):
                violations.append({"sig": "getparam-value", "what": "GetParam(%s) for %r returns %r, documented value %r" % (nm, raw, r["ok"], want[1]), "pattern": raw})
            if isinstance(raw, str) and raw.replace("%%", "").count("%") == 0 and "%%" in raw:
                dist["escaped_roundtrips"] += 1
    return {"violations": violations + fviol, "corr_fail": corr_fail + fcorr, "dist": dist}


def replay(ctx, payload):
    req = payload["input"]
    a = ctx.impl.ask(req)
    e = oracle_chunks(req["s"], a) if req["op"] == "chunks" else oracle_tokens(req["s"], a)
    v = [{"sig": payload.get("sig", "replay"), "what": e, "input": req, "observed": a}] if e else []
    return {"evaluations": 1, "distinct_nontrivial": 1, "violations": v, "samples": [req]}
