"""C03 — parameter and %pattern% evaluation."""
from vlib import core, gen

LEVEL = "proof"
TEXT = "The chunker's acceptance criterion (even number of %), losslessness and chunk shape are theorems for all strings (induction over the character list); the factory order and token regexes are pinned to facts regenerated from the shipped wiring; model and implementation are run on every string up to a length bound plus random Unicode and must agree on chunks, tokens, emitted code and %+q quoting."
TECHNIQUE = 'Lean 4 induction proofs over the chunker model + exhaustive bounded/random model-vs-implementation correspondence'
LEAN_PROPS = ["C03"]
TRUSTED = ["runtime helpers of body.go.tpl (_concatenateChunks, _getEnv, …) and exporter.CastToString are modelled (Model/Token.evalTokens)"]
ASSUMPTIONS = ["yaml.v3 yields valid UTF-8 strings", "Go's %+q agrees with GoQuote.quote (checked on every string of this run)"]


def oracle_chunks(s, r):
    """the property, evaluated on the implementation's answer alone"""
    even = s.count("%") % 2 == 0
    if ("ok" in r) != even:
        return "chunker accepts iff the number of %% is even: s=%r answer=%r" % (s, r)
    if "ok" in r:
        cs = r["ok"]
        if "".join(cs) != s:
            return "chunks do not concatenate to the pattern: s=%r chunks=%r" % (s, cs)
        if s != "":
            for c in cs:
                lit = c != "" and "%" not in c
                tok = len(c) >= 2 and c[0] == "%" and c[-1] == "%" and "%" not in c[1:-1]
                if not (lit or tok):
                    return "chunk %r of %r is neither a literal nor a %%…%% token" % (c, s)
    return None


def oracle_tokens(s, r):
    """token classification on the implementation's answer (documented grammar, hand-written here)"""
    import re
    if "ok" not in r:
        return None
    for t in r["ok"]:
        c = t["raw"]
        if c == "%%":
            want = "str"
        elif len(c) >= 2 and c[0] == "%" and c[-1] == "%":
            inner = c[1:-1]
            if re.fullmatch(r"[A-Za-z]((\.|-|_)?[A-Za-z0-9])*", inner):
                want = "ref"
            else:
                return "token %r accepted although it is neither a reference nor a registered function" % c if t["kind"] != "fn" else None
        else:
            want = "str"
        if t["kind"] != want:
            return "chunk %r classified %s, expected %s" % (c, t["kind"], want)
        if want == "ref" and t["dependsOn"] != [c[1:-1]]:
            return "reference %r depends on %r" % (c, t["dependsOn"])
    return None


def run(ctx):
    L = 4 if ctx.quick else 5
    cases = list(gen.strings_upto(gen.ALPHA_PATTERN, L))
    nrand = 3000 if ctx.quick else 40000
    cases += [gen.rand_unicode(ctx.rng) for _ in range(nrand)]
    reqs = []
    fns = [["env", "", "getEnv"], ["envInt", "", "getEnvInt"], ["todo", "", "paramTodo"]]
    for s in cases:
        reqs.append({"op": "chunks", "s": s})
        reqs.append({"op": "tokenize", "s": s, "functions": fns})
        reqs.append({"op": "quote", "s": s})
    ri = ctx.impl.ask_many(reqs)
    rm = ctx.model.ask_many(reqs) if ctx.have_model else [None] * len(reqs)
    corr_fail, violations = [], []
    nontrivial = set()
    dist = {"accepted": 0, "rejected_unbalanced": 0, "rejected_token": 0, "multi_chunk": 0, "with_fn": 0, "with_ref": 0}
    for req, a, b in zip(reqs, ri, rm):
        if "panic" in a:
            violations.append({"sig": "panic:" + req["op"], "what": "panic in " + req["op"], "input": req, "observed": a})
            continue
        if b is not None and core.canon(a) != core.canon({k: v for k, v in b.items() if k in a or k in ("ok", "err", "errs", "code", "imports")}):
            if len(corr_fail) < 20:
                corr_fail.append({"op": req["op"], "req": req, "impl": a, "model": b})
        s = req["s"]
        if req["op"] == "chunks":
            e = oracle_chunks(s, a)
            if e:
                violations.append({"sig": "chunks", "what": e, "input": req, "observed": a})
            if "%" in s:
                nontrivial.add(s)
            if "ok" in a:
                dist["accepted"] += 1
                if len(a["ok"]) > 1:
                    dist["multi_chunk"] += 1
            else:
                dist["rejected_unbalanced"] += 1
        elif req["op"] == "tokenize":
            e = oracle_tokens(s, a)
            if e:
                violations.append({"sig": "tokens", "what": e, "input": req, "observed": a})
            if "ok" in a:
                ks = [t["kind"] for t in a["ok"]]
                dist["with_fn"] += "fn" in ks
                dist["with_ref"] += "ref" in ks
            elif s.count("%") % 2 == 0:
                dist["rejected_token"] += 1
    return {
        "evaluations": len(reqs), "distinct_nontrivial": len(nontrivial),
        "rule": "all strings of length <= %d over %s plus %d seeded random Unicode strings; ops chunks/tokenize/quote on each; non-trivial = pattern contains at least one %%" % (L, "".join(gen.ALPHA_PATTERN), nrand),
        "samples": [{"op": "tokenize", "s": s} for s in cases[2000:2003]] + [{"op": "chunks", "s": cases[-1]}],
        "distribution": dist, "corr_fail": corr_fail, "violations": violations,
        "exhaustive": False,
    }


def replay(ctx, payload):
    req = payload["input"]
    a = ctx.impl.ask(req)
    e = oracle_chunks(req["s"], a) if req["op"] == "chunks" else oracle_tokens(req["s"], a)
    v = [{"sig": payload.get("sig", "replay"), "what": e, "input": req, "observed": a}] if e else []
    return {"evaluations": 1, "distinct_nontrivial": 1, "violations": v, "samples": [req]}
