"""C07 — dependency cycles are detected, exactly."""
import itertools, json
from vlib import core, gen, corr, behave, spec

LEVEL = "proof"
TEXT = ("reach_exact (reachability in the dependency graph is computed exactly: soundness by induction over the expansion, completeness from the closure certificate), "
        "cyclic_exact, cycles_accept_iff (accepted iff no node reaches itself, given the external cycle enumeration meets CyclesSpec), reported_cycle_is_cycle and "
        "edges_exact are Lean theorems over all finite graphs / compiled configurations. gonum's enumeration is not modelled: CyclesSpec (every reported line is a closed "
        "walk of the model graph; lines cover every node on a cycle; empty iff acyclic) is checked on every case of the run. Exhaustive small configurations over the "
        "edge kinds {@service, !tagged, decorator-on-tag, %param%} plus random sparse graphs; the implementation's verdict is also judged by an independent "
        "cycle finder over the documented dependency relation; accepted containers are asked for CircularDeps() and every parameter in the probe. graph_faithful: for all compiled configurations and resources a, b: a path a -> b exists in the built graph (with its auxiliary tag/decorate/decorator nodes) iff a transitively depends on b in the documented relation; cyclic_documented: rejected for cycles iff some service or parameter transitively depends on itself; reach_always_answers: |V| expansion rounds always close, so no theorem carries a totality hypothesis. param_eval_terminates: for parameters compiled by compileParams and an acyclic compiled graph the result and state of getParam are the same for every recursion budget from 2*|V|+3 on (rank from acyclicity: rank_lt_of_path, ranked_of_acyclic; references recorded: compiled_params_recorded); param_eval_terminates_partial is the rank-hypothesis form it is derived from. Dead decorators (tag *, a tag nobody carries, a tag equal to a service name) are enumerated exhaustively over small configurations.")
TECHNIQUE = "Lean 4 theorems on graph reachability (induction + closure certificate) + exhaustive small-graph and random correspondence, CyclesSpec checked per case, independent Python cycle oracle"
LEAN_PROPS = ["C07"]
TRUSTED = ["gonum topo.DirectedCyclesIn (external): assumed to satisfy CyclesSpec, checked per case", "the documented dependency relation itself (ConfigDep) is a definition: graph_faithful proves the built graph equal to it, the Python oracle written from the documentation judges the implementation against it per case"]
ASSUMPTIONS = ["moderate number of cycles (dense graphs blow up gonum's enumeration; generators cap sizes)"]


def doc_cyclic(cfg):
    """resources lying on a cycle of the documented dependency relation"""
    services = cfg.get("services", {})
    params = cfg.get("parameters", {})
    decs = cfg.get("decorators", [])
    edges = {}
    def direct(args):
        out = []
        for a in args:
            if isinstance(a, str):
                if a.startswith("@"):
                    out.append(("s", a[1:]))
                elif a.startswith("!tagged"):
                    t = a.split()[-1]
                    out += [("s", n) for n, s in services.items() if not s.get("todo") and t in dict(spec.tags_of(s))]
                elif not a.startswith("!value") and a != "$gontainer":
                    ps, _ = __import__("vlib.props.c06", fromlist=["x"]).refs_of_value(a)
                    out += [("p", p) for p in ps]
        return out
    for n, s in services.items():
        e = []
        if not s.get("todo"):
            e += direct(gen._all_args(s))
            for t, _ in spec.tags_of(s):
                for d in decs:
                    if d.get("tag") == t:
                        e += direct(d.get("arguments", []))
        edges[("s", n)] = e
    for n, v in params.items():
        edges[("p", n)] = direct([v]) if isinstance(v, str) else []
    on = set()
    for start in edges:
        seen, todo = set(), list(edges[start])
        while todo:
            x = todo.pop()
            if x in seen:
                continue
            seen.add(x)
            todo += edges.get(x, [])
        if start in seen:
            on.add(start)
    return on


def small_configs(k, ntags, with_dec):
    names = ["s%d" % i for i in range(k)]
    tags = ["t%d" % i for i in range(ntags)]
    dep_opts = ["@" + n for n in names] + ["!tagged " + t for t in tags]
    for deps in itertools.product(*[range(2 ** len(dep_opts))] * k):
        for carry in itertools.product(*[range(2 ** ntags)] * k):
            for dmask in (range(2 ** k) if with_dec else [None]):
                svcs = {}
                for i, n in enumerate(names):
                    s = {"constructor": "fx.NewA", "arguments": [o for j, o in enumerate(dep_opts) if deps[i] >> j & 1]}
                    ts = [t for j, t in enumerate(tags) if carry[i] >> j & 1]
                    if ts:
                        s["tags"] = ts
                    svcs[n] = s
                cfg = {"services": svcs}
                if dmask is not None:
                    cfg["decorators"] = [{"tag": tags[0], "decorator": "fx.Dec1", "arguments": ["@" + n for j, n in enumerate(names) if dmask >> j & 1]}]
                yield cfg


def dead_decorator_configs():
    """decorators nobody is decorated by (the legal tag "*", a tag no service carries, a tag equal to a service name): their
    arguments are edges of nothing"""
    names = ["s0", "s1"]
    for tag in ("*", "nobody", "s0"):
        for deps in itertools.product(range(4), repeat=2):
            for carry in range(4):
                for dargs in (["@s0"], ["@s1"], ["!tagged t0"], ["@s0", "!tagged t0", "%p%"]):
                    svcs = {}
                    for i, n in enumerate(names):
                        svcs[n] = {"constructor": "fx.NewA", "arguments": ["@" + m for j, m in enumerate(names) if deps[i] >> j & 1 and j > i]}
                        if carry >> i & 1:
                            svcs[n]["tags"] = ["t0"]
                    yield {"parameters": {"p": 1}, "services": svcs, "decorators": [{"tag": tag, "decorator": "fx.Dec1", "arguments": dargs}]}


def concat_name_configs():
    """service (and parameter, tag) names chosen so that different (from, to) pairs concatenate to the same text: edges are
    pairs, not strings"""
    fxs = lambda args: {"constructor": "fx.NewA", "arguments": args}
    yield {"services": {"user": fxs(["@repocache"]), "repocache": fxs([]), "userrepo": fxs(["@cache"]), "cache": fxs(["@userrepo"])}}
    yield {"services": {"a": fxs(["@bc"]), "bc": fxs([]), "ab": fxs(["@c"]), "c": fxs(["@ab"])}}
    yield {"services": {"ab": fxs(["@c"]), "c": fxs([]), "a": fxs(["@bc"]), "bc": fxs(["@a"])}}
    yield {"services": {"a": fxs(["!tagged bc"]), "x": dict(fxs([]), tags=["bc"]), "ab": fxs(["!tagged c"]), "y": dict(fxs(["@ab"]), tags=["c"])}}
    yield {"parameters": {"a": "%bc%", "bc": "1", "ab": "%c%", "c": "%ab%"}, "services": {"s": fxs(["%a%"])}}
    yield {"services": {"user": fxs(["@repocache"]), "repocache": fxs([]), "userrepo": fxs(["@cache"]), "cache": fxs([])}}


def param_configs():
    names = ["p0", "p1", "p2"]
    for masks in itertools.product(range(8), repeat=3):
        ps = {}
        for i, n in enumerate(names):
            refs = [m for j, m in enumerate(names) if masks[i] >> j & 1]
            ps[n] = "".join("%" + r + "%" for r in refs) if refs else "lit"
        yield {"parameters": ps, "services": {"a": {"constructor": "fx.NewA", "arguments": ["%p0%"]}}}


def random_graph(rng):
    k = rng.randint(3, 7)
    names = rng.sample(gen.SVC_NAMES, k)
    tags = rng.sample(gen.TAG_NAMES, 2)
    svcs = {}
    for n in names:
        s = {"constructor": "fx.NewA", "arguments": []}
        for _ in range(rng.choice([0, 0, 1, 1, 2])):
            s["arguments"].append(rng.choice(["@" + rng.choice(names), "!tagged " + rng.choice(tags), "%" + rng.choice(["p", "q", "r"]) + "%"]))
        if rng.random() < 0.3:
            s["tags"] = [rng.choice(tags)]
        if rng.random() < 0.2:
            s["fields"] = {"F1": "@" + rng.choice(names)}
        if rng.random() < 0.2:
            s["calls"] = [["Call1", ["@" + rng.choice(names)]]]
        svcs[n] = s
    cfg = {"parameters": {"p": rng.choice(["x", "%q%", "%r%"]), "q": rng.choice(["y", "%r%", "%p%", "a%q%"]), "r": rng.choice(["z", "%p%"])}, "services": svcs}
    if rng.random() < 0.5:
        cfg["decorators"] = [{"tag": rng.choice(tags + tags + ["*", rng.choice(names)]), "decorator": "fx.Dec1", "arguments": [rng.choice(["@" + rng.choice(names), "!tagged " + rng.choice(tags), "%p%"])]} for _ in range(rng.randint(1, 2))]
    return cfg


def run(ctx, nrand=None):
    cases = []
    if ctx.quick:
        cases += list(small_configs(2, 1, True))
        cases += list(itertools.islice(param_configs(), 0, 512, 3))
        cases += list(dead_decorator_configs()) + list(concat_name_configs())
        nrand = nrand or 1500
    else:
        cases += list(small_configs(2, 1, True)) + list(small_configs(2, 2, False)) + list(param_configs())
        cases += list(itertools.islice(small_configs(3, 1, True), 0, None, 7)) + list(dead_decorator_configs()) + list(concat_name_configs())
        nrand = nrand or 20000
    cases += [random_graph(ctx.rng) for _ in range(nrand)]
    cases += [gen.gen_config_wild(ctx.rng) for _ in range(nrand // 2)]
    violations, corr_fail, nontriv = [], [], set()
    dist = {"cyclic": 0, "acyclic": 0, "self_loops": 0, "through_tag": 0, "through_decorator": 0, "param_cycles": 0, "rejected_earlier": 0}
    accepted = []
    for cfg in cases:
        cfg.setdefault("meta", {"pkg": "gen", "imports": {"fx": gen.FX}})
        a, b, d = corr.compile_pair(ctx, corr.files_of(cfg))
        if "panic" in a:
            violations.append({"sig": "panic", "what": a["panic"], "files": corr.files_of(cfg)}); continue
        if a.get("errs") or "decodeErr" in a:
            dist["rejected_earlier"] += 1
            continue
        for x in d[:1]:
            if len(corr_fail) < 10:
                corr_fail.append({"op": "compile:" + x[0], "files": corr.files_of(cfg), "impl": x[1], "model": x[2]})
        on = doc_cyclic(cfg)
        lines = a["cycles"]
        if bool(on) != bool(lines):
            violations.append({"sig": "cycle-verdict", "what": "documented dependency relation is %s but the build reports %r" % ("cyclic on %r" % sorted(on) if on else "acyclic", lines), "files": corr.files_of(cfg)})
        elif on:
            covered = set()
            for l in corr.parse_cycles(lines):
                for nd in l:
                    if nd.startswith("service("):
                        covered.add(("s", nd[8:-1]))
                    elif nd.startswith("param("):
                        covered.add(("p", nd[6:-1]))
            if not on <= covered:
                violations.append({"sig": "cycle-not-shown", "what": "elements %r lie on a cycle but no reported line goes through them: %r" % (sorted(on - covered), lines), "files": corr.files_of(cfg)})
            if not covered <= on:
                violations.append({"sig": "cycle-spurious", "what": "reported lines mention %r which lie on no cycle" % (sorted(covered - on),), "files": corr.files_of(cfg)})
        dist["cyclic" if on else "acyclic"] += 1
        dist["self_loops"] += any(" -> ".join([x, x]) in " ".join(lines) for x in ["@" + n for n in cfg["services"]])
        dist["through_tag"] += any("!tagged" in l for l in lines)
        dist["through_decorator"] += any("decorator(" in l for l in lines)
        dist["param_cycles"] += any(k == "p" for k, _ in on)
        if on:
            nontriv.add(core.canon(sorted(lines)))
        elif not (a["scope"] or a["params"] or a["services"]) and len(accepted) < (25 if ctx.quick else 300):
            accepted.append(cfg)
    # accepted containers: CircularDeps() is nil and every parameter evaluates (terminates)
    if accepted:
        items = [(cfg, [["circular"]] + [["param", p] for p in cfg.get("parameters", {})]) for cfg in accepted]
        out, err = behave.run_batch(ctx, items, tag="c07")
        if err:
            violations.append({"sig": "probe-build", "what": err})
        for rec in out:
            if rec["accepted"] and rec["impl"]:
                if "ok" not in rec["impl"][0]:
                    violations.append({"sig": "runtime-circular", "what": "accepted container reports circular dependencies: %r" % (rec["impl"][0],), "files": rec["files"]})
    return {"evaluations": len(cases), "distinct_nontrivial": len(nontriv),
            "rule": "every configuration with 2 services, 1 tag, 1 decorator over the edge kinds {@service (incl. self), !tagged, decorator-on-tag}, parameter reference graphs over 3 parameters, (thorough: also 2 tags, 3-service slice,) plus %d random sparse graphs with fields/calls/decorators/params; CyclesSpec and the Python oracle evaluated on each; distinct = distinct reported cycle sets" % nrand,
            "samples": [corr.files_of(c)[0][:300] for c in cases[1000:1002] + cases[-2:]], "distribution": dist, "violations": violations, "corr_fail": corr_fail,
            "programs": len(accepted)}


def search(ctx):
    return run(ctx, nrand=5000)


def replay(ctx, payload):
    cfg = json.loads(payload["files"][0])
    saved = globals()["small_configs"]
    a = ctx.impl.ask({"op": "compile", "files": payload["files"], "version": ""})
    on = doc_cyclic(cfg)
    v = []
    if not a.get("errs") and bool(on) != bool(a.get("cycles")):
        v.append({"sig": "cycle-verdict", "what": "cyclic elements %r, reported %r" % (sorted(on), a.get("cycles")), "files": payload["files"]})
    return {"evaluations": 1, "distinct_nontrivial": 1, "violations": v, "samples": payload["files"]}
