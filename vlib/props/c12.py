"""C12 — total on arbitrary input: no panic, no hang (partial)."""
import json, os, random, time
from vlib import core, gen, runsc
from vlib.props import c10, c06

LEVEL = "other"
EXPLANATION = ("Partial proof + search. Panic-capable constructs are classified by recognisable guards (index by the key of a range over the same slice or into a slice made with that length, sort callback, constant index or slice bound under a length check — also through short-circuit evaluation and string emptiness —, an index found by a search in the same slice and known non-negative, an unsigned index under a bound check, SubexpIndex of a declared group into a non-nil submatch, slices past a checked prefix or a strings index, comma-ok assertion, Must* calls that only run before main() or belong to the tool's own container); only the unclassifiable ones are listed, by function and construct with numbered locals, and must be among the reviewed ones (inclusion: a construct that disappears is no obligation); recursion is a cycle of the static call graph. Proved in Lean: the complete typed inventory of panic-capable constructs (index, slice, unchecked type assertion, explicit panic, Must* call, "
               "strings.Repeat) and of loops in /repo's own code, regenerated with go/types on every run, is covered by the recognised classes and the reviewed list (panic_sites_discharged, loops_bounded, "
               "self_calls_reviewed: decide), the guards of the non-obvious ones hold in the model (toExpr_guard, goCode_guard, verbose_services_are_steps, repeat_count_nonneg, "
               "step_names_pinned) and the model's command ends with exit 0 or 1 (run_total). NOT provable in this family: panics and hangs inside yaml.v3, cobra, gofmt/goimports, "
               "gonum's cycle enumeration and the runtime library. For those the check only SEARCHES: schema-aware type confusions in every position, deep nesting, long names, "
               "anchors/aliases/tags, structural stress through the CLI under a timeout (cycles of every kind with references into them from every position, explicit scopes over dangling references and placeholders, 40-layer diamonds, 1500-long chains), file-system cases (dangling links, link loops, output paths of 20-250 characters), mutated bytes from a corpus of valid and invalid configurations, arbitrary glob patterns and flag combinations, run in-process (panics recovered "
               "and reported) and through the CLI binary under a timeout, each judged against exit status in {0,1} and the output-file contract of C10.")
TEXT = EXPLANATION
TECHNIQUE = "Lean 4 theorems (decide) over a regenerated typed inventory of panic/loop sites + guards in the model; differential mutation fuzzing of the in-process command and the CLI under a timeout as the search"
LEAN_PROPS = ["C12"]
TRUSTED = ["tools/sites (go/types inventory)", "libraries are not modelled: yaml.v3, cobra, go/format, x/tools/imports, gonum, gontainer-helpers"]
ASSUMPTIONS = ["inputs of bounded size whose dependency graph has a moderate number of cycles (the property's own carve-out)"]

CONFUSIONS = ["null", "~", "1", "-1", "1.5", "true", "''", "'x'", "[]", "[1]", "[[1]]", "{}", "{a: 1}", "{1: 2}", "[{a: [1]}]", "!!binary aGVsbG8=", "!!str 1", "!!int '1'", "&a x", "*a", "2001-12-14",
              "0x10", "1e400", ".inf", ".nan", "'%'", "'%%%'", "'%a(%'", "'@'", "'!tagged'", "'!value '", "'$gontainer'", "? a", "- 1", "'" + "a" * 5000 + "'", "[" * 40 + "]" * 40, "{a: " * 30 + "1" + "}" * 30]
POSITIONS = ["version", "meta", "meta.pkg", "meta.container_type", "meta.container_constructor", "meta.default_must_getter", "meta.imports", "meta.imports.x", "meta.functions", "meta.functions.f",
             "parameters", "parameters.p", "services", "services.s", "services.s.getter", "services.s.must_getter", "services.s.type", "services.s.value", "services.s.constructor",
             "services.s.arguments", "services.s.arguments.0", "services.s.calls", "services.s.calls.0", "services.s.calls.0.0", "services.s.calls.0.1", "services.s.calls.0.2",
             "services.s.fields", "services.s.fields.F", "services.s.tags", "services.s.tags.0", "services.s.tags.0.name", "services.s.tags.0.priority", "services.s.scope", "services.s.todo",
             "decorators", "decorators.0", "decorators.0.tag", "decorators.0.decorator", "decorators.0.arguments", "decorators.0.arguments.0"]


def skeleton(pos, val):
    """a YAML document that is valid except that `val` sits at position `pos`"""
    base = {"version": None, "meta": {"pkg": "gen", "imports": {"x": "a/b"}, "functions": {"f": "x.F"}}, "parameters": {"p": 1},
            "services": {"s": {"constructor": "x.New", "arguments": [1], "calls": [["M", [1], False]], "fields": {"F": 1}, "tags": [{"name": "t", "priority": 1}], "getter": "G", "type": "*x.T"}},
            "decorators": [{"tag": "t", "decorator": "x.D", "arguments": [1]}]}
    del base["version"]
    path = pos.split(".")
    d = base
    for k in path[:-1]:
        k = int(k) if k.isdigit() else k
        if isinstance(d, dict):
            d = d.setdefault(k, {})
        else:
            d = d[k]
    last = path[-1]
    last = int(last) if last.isdigit() else last
    marker = "@@VAL@@"
    if isinstance(d, list):
        if last < len(d):
            d[last] = marker
        else:
            d.append(marker)
    else:
        d[last] = marker
    return gen.yaml_doc(base).replace('"' + marker + '"', val)


def mutate_bytes(rng, b):
    b = bytearray(b)
    for _ in range(rng.randint(1, 6)):
        r = rng.random()
        if not b:
            b += bytes([rng.randrange(256)])
        elif r < 0.3:
            b[rng.randrange(len(b))] = rng.randrange(256)
        elif r < 0.5:
            i = rng.randrange(len(b)); del b[i:i + rng.randint(1, 8)]
        elif r < 0.7:
            i = rng.randrange(len(b)); b[i:i] = rng.choice([b"%", b"%%", b"@", b"!tagged ", b"[", b"]", b"{", b"}", b":", b"- ", b"\n", b"  ", b"&a ", b"*a", b"\x00", b"\xff", b"'", b'"'])
        elif r < 0.85:
            i = rng.randrange(len(b)); j = rng.randrange(len(b)); b[i:i] = b[j:j + rng.randint(1, 30)]
        else:
            i = rng.randrange(len(b)); b[i:i] = b[i:i + 10] * rng.randint(2, 50)
    return bytes(b)


def run(ctx, budget=None):
    budget = budget or (25 if ctx.quick else 600)
    violations, nontriv = [], set()
    dist = {"type_confusions": 0, "mutations": 0, "glob_patterns": 0, "cli_runs": 0, "exit0": 0, "exit1": 0, "decode_errors": 0}
    root = os.path.join(ctx.scratch(), "fz")

    def one(files, patterns, flags, label, cli=False):
        sc = {"name": label, "files": files, "patterns": patterns, "out": "out/gen.go", "pre": ctx.rng.choice(["absent", "present"]), "flags": flags}
        runsc.setup_dir(root, sc)
        ctx.impl.ask({"op": "chdir", "dir": root})
        before = runsc.out_state(root, sc["out"])
        args = []
        for p in patterns:
            args += ["-i", p]
        args += ["-o", sc["out"]] + runsc.flags_args(flags)
        t0 = time.time()
        try:
            ip = ctx.impl.ask({"op": "build", "version": ctx.rng.choice(["", "1.2.3", "0.1.0"]), "buildInfo": "fz", "args": args})
        except RuntimeError as e:
            ctx.restart_impl()
            violations.append({"sig": "crash:in-process", "what": "the command killed the process (fatal error / stack overflow?): %s" % e, "scenario": dump(sc)})
            return
        dt = time.time() - t0
        after = runsc.out_state(root, sc["out"])
        if "panic" in ip:
            violations.append({"sig": "panic:" + ip["panic"][:60], "what": "panic: %s\n%s" % (ip["panic"], ip.get("stack", "")[:1500]), "scenario": dump(sc)})
            return
        if dt > core.patience(20):
            violations.append({"sig": "slow", "what": "in-process command took %.1fs" % dt, "scenario": dump(sc)})
        if ip["exit"] not in (0, 1):
            violations.append({"sig": "exit", "what": "exit %r" % ip["exit"], "scenario": dump(sc)})
        if ip["exit"] != 0 and after != before:
            violations.append({"sig": "failure-touched-output", "what": "failing run changed the -o path", "scenario": dump(sc)})
        if ip["exit"] == 0 and (after == before or not after.startswith("file:")):
            violations.append({"sig": "exit0-without-output", "what": "exit 0 without writing the output", "scenario": dump(sc)})
        dist["exit0" if ip["exit"] == 0 else "exit1"] += 1
        dist["decode_errors"] += any("parsing yaml" in e for e in ip.get("errs", []))
        nontriv.add((ip["exit"], tuple(sorted({e.split(":")[0] + ":" + (e.split(":")[1] if ":" in e else "") for e in ip.get("errs", [])}))))
        if cli:
            runsc.setup_dir(root, sc)
            rc, so, se = core.cli(["build"] + args, cwd=root, timeout=30)
            dist["cli_runs"] += 1
            if rc not in (0, 1):
                violations.append({"sig": "cli-exit-%s" % rc, "what": "CLI exit %r stderr %r" % (rc, se[-800:]), "scenario": dump(sc)})

    def dump(sc):
        return {k: (v if k != "files" else {n: (c if isinstance(c, str) else c.decode("latin-1")) for n, c in v.items()}) for k, v in sc.items()}

    # 0. structural stress, through the CLI only (a hang must hit the timeout, a fatal error must not take the driver down):
    # cycles of every kind with references INTO them from every position, deep diamonds (exponentially many paths), long chains
    def stress_cases():
        fx = {"meta": {"pkg": "gen", "imports": {"fx": gen.FX}}}
        for cyc in ({"a": "%b%", "b": "%a%"}, {"a": "%a%"}, {"a": "x%b%", "b": "%c%y", "c": "%a%"}, {"a": "%b%", "b": "%a%", "lead": "pre-%a%", "lead2": "%lead%"}):
            ref = "%lead2%" if "lead2" in cyc else "%a%"
            yield "param-cycle+service-arg", dict(fx, parameters=cyc, services={"s": {"constructor": "fx.NewA", "arguments": [ref, ref]}})
            yield "param-cycle+field+call", dict(fx, parameters=cyc, services={"s": {"constructor": "fx.NewA", "fields": {"F1": ref}, "calls": [["Call1", [ref]]]}})
            yield "param-cycle+decorator-arg", dict(fx, parameters=cyc, services={"s": {"constructor": "fx.NewA", "tags": ["t"]}},
                                                    decorators=[{"tag": "t", "decorator": "fx.Dec1", "arguments": [ref]}])
            yield "param-cycle+missing", dict(fx, parameters=dict(cyc, z="%nope%%a%"), services={"s": {"constructor": "fx.NewA", "arguments": ["%z%", "@nope"]}})
        # every validation rule runs on the same output: an explicit scope together with references that lead nowhere or round in circles
        for sc in ("shared", "contextual", "non_shared"):
            yield "scope+dangling", dict(fx, services={"top": {"constructor": "fx.NewA", "scope": sc, "arguments": ["@mid", "@nosuch"]},
                                                      "mid": {"constructor": "fx.NewA", "arguments": ["@nosuch2", "!tagged nobody", "%nope%"], "fields": {"F1": "@ghost"}, "calls": [["Call1", ["@ghost2"]]]},
                                                      "ctx": {"constructor": "fx.NewA", "scope": "contextual", "tags": ["t"]}},
                                       decorators=[{"tag": "t", "decorator": "fx.Dec1", "arguments": ["@nosuch3", "@top"]}, {"tag": "nobody", "decorator": "fx.Dec1", "arguments": ["@top"]}])
            yield "scope+cycle", dict(fx, services={"top": {"constructor": "fx.NewA", "scope": sc, "arguments": ["@a"]}, "a": {"constructor": "fx.NewA", "arguments": ["@b"]},
                                                    "b": {"constructor": "fx.NewA", "arguments": ["@a", "@top", "@missing"], "scope": "contextual"}})
            yield "scope+todo", dict(fx, services={"top": {"constructor": "fx.NewA", "scope": sc, "arguments": ["@later", "@later2"]}, "later": {"todo": True, "scope": "contextual", "arguments": ["@nosuch"]},
                                                   "later2": {"todo": True}})
        yield "service-cycle+tag+decorator", dict(fx, services={"a": {"constructor": "fx.NewA", "arguments": ["!tagged t"], "tags": ["u"]}, "b": {"constructor": "fx.NewA", "tags": ["t"], "arguments": ["@c"]},
                                                                 "c": {"constructor": "fx.NewA", "arguments": ["@a"]}}, decorators=[{"tag": "u", "decorator": "fx.Dec1", "arguments": ["@b"]}])
        for top_scope, bottom_scope in (("shared", None), ("shared", "contextual"), (None, "contextual"), ("contextual", None), (None, None)):
            for layers in (12, 40):
                svcs = {}
                for l in range(layers):
                    for k in (0, 1):
                        svcs["n%02d_%d" % (l, k)] = {"constructor": "fx.NewA", "arguments": (["@n%02d_0" % (l + 1), "@n%02d_1" % (l + 1)] if l + 1 < layers else [])}
                svcs["top"] = {"constructor": "fx.NewA", "arguments": ["@n00_0", "@n00_1"]}
                if top_scope:
                    svcs["top"]["scope"] = top_scope
                if bottom_scope:
                    svcs["n%02d_0" % (layers - 1)]["scope"] = bottom_scope
                yield "diamond-%d-%s-%s" % (layers, top_scope, bottom_scope), dict(fx, services=svcs)
        n = 1500
        yield "service-chain", dict(fx, services={"s%04d" % k: {"constructor": "fx.NewA", "arguments": (["@s%04d" % (k + 1)] if k + 1 < n else [])} for k in range(n)})
        yield "param-chain", dict(fx, parameters={"p%04d" % k: ("%%p%04d%%" % (k + 1) if k + 1 < n else "end") for k in range(n)}, services={"s": {"constructor": "fx.NewA", "arguments": ["%p0000%"]}})
        yield "param-chain-into-cycle", dict(fx, parameters=dict({"p%04d" % k: "%%p%04d%%" % (k + 1) for k in range(300)}, p0300="%p0000%"), services={"s": {"constructor": "fx.NewA", "arguments": ["%p0150%"]}})

    for label, cfg in stress_cases():
        sc = {"name": "stress:" + label, "files": {"cfg/a.yaml": gen.yaml_doc(cfg)}, "patterns": ["cfg/a.yaml"], "out": "out/gen.go", "pre": "absent", "flags": {}}
        for fl in ([], ["--ignore-missing-params", "--ignore-missing-services"]):
            runsc.setup_dir(root, sc)
            t0 = time.time()
            rc, so, se = core.cli(["build", "-i", "cfg/a.yaml", "-o", "out/gen.go"] + fl, cwd=root, timeout=40)
            dist["cli_runs"] += 1
            dist["stress_cases"] = dist.get("stress_cases", 0) + 1
            if rc == -9:
                violations.append({"sig": "hang", "what": "the command did not finish within 40 s (stretched by the machine's load) on %s (%d services, %d bytes)" % (label, len(cfg.get("services", {})), len(sc["files"]["cfg/a.yaml"])), "scenario": dict(dump(sc), cli_flags=fl)})
            elif rc not in (0, 1):
                violations.append({"sig": "cli-exit-%s" % rc, "what": "CLI exit %r on %s: stderr %r" % (rc, label, se[:600]), "scenario": dict(dump(sc), cli_flags=fl)})
            nontriv.add((rc, "stress", label.split("-")[0]))

    # 0b. the file system around the command: patterns matching entries that cannot be read (dangling symbolic link, link loop,
    # directory, unreadable file) and output paths of every length (the report prints the path), through the CLI
    v = gen.yaml_doc({"meta": {"pkg": "gen", "imports": {"fx": gen.FX}}, "services": {"a": {"constructor": "fx.NewA"}}})
    fs_cases = []
    for link in ("dangling", "loop", "dir", "ok"):
        fs_cases.append(("symlink-" + link, {"cfg/a.yaml": v}, ["cfg/*.yaml"], "out/gen.go", link))
    for n in (20, 43, 44, 45, 46, 60, 61, 120, 250):
        stem = "out/" + "d" * max(1, n - len("out//gen.go")) + "/gen.go"
        fs_cases.append(("long-output-%d" % n, {"cfg/a.yaml": v}, ["cfg/a.yaml"], stem, None))
    fs_cases.append(("long-output-unicode", {"cfg/a.yaml": v}, ["cfg/a.yaml"], "out/" + "\u00e9\u4e16" * 30 + "/gen.go", None))
    fs_cases.append(("long-input-name", {"cfg/" + "i" * 120 + ".yaml": v}, ["cfg/*.yaml"], "out/gen.go", None))
    for label, files, pats, outp, link in fs_cases:
        sc = {"name": "fs:" + label, "files": files, "patterns": pats, "out": outp, "pre": "absent", "flags": {}}
        for quiet in ([], ["--quiet"]):
            runsc.setup_dir(root, sc)
            os.makedirs(os.path.join(root, os.path.dirname(outp)), exist_ok=True)
            if link == "dangling":
                os.symlink("nowhere.yaml", os.path.join(root, "cfg/b.yaml"))
            elif link == "loop":
                os.symlink("c.yaml", os.path.join(root, "cfg/b.yaml")); os.symlink("b.yaml", os.path.join(root, "cfg/c.yaml"))
            elif link == "dir":
                os.makedirs(os.path.join(root, "cfg/sub")); os.symlink("sub", os.path.join(root, "cfg/b.yaml"))
            elif link == "ok":
                os.symlink("a.yaml", os.path.join(root, "cfg/b.yaml"))
            args = ["build"] + [x for p_ in pats for x in ("-i", p_)] + ["-o", outp] + quiet
            rc, so, se = core.cli(args, cwd=root, timeout=40)
            dist["cli_runs"] += 1
            dist["fs_cases"] = dist.get("fs_cases", 0) + 1
            wrote = os.path.isfile(os.path.join(root, outp))
            if rc == -9:
                violations.append({"sig": "hang", "what": "the command did not finish on %s" % label, "scenario": dict(dump(sc), cli_flags=quiet)})
            elif rc not in (0, 1):
                violations.append({"sig": "cli-exit-%s" % rc, "what": "CLI exit %r on %s: stderr %r" % (rc, label, se[:600]), "scenario": dict(dump(sc), cli_flags=quiet, link=link)})
            elif (rc == 0) != wrote:
                violations.append({"sig": "exit0-without-output" if rc == 0 else "failure-touched-output", "what": "%s: exit %d, output written: %s" % (label, rc, wrote), "scenario": dict(dump(sc), cli_flags=quiet, link=link)})
            nontriv.add((rc, "fs", label.split("-")[0]))

    # 1. schema-aware type confusions in every position
    t_end = time.time() + budget * 0.45
    combos = [(p, v) for p in POSITIONS for v in CONFUSIONS]
    ctx.rng.shuffle(combos)
    for k, (pos, val) in enumerate(combos):
        if time.time() > t_end and ctx.quick:
            break
        one({"cfg/a.yaml": skeleton(pos, val)}, ["cfg/a.yaml"], {}, "confusion:%s=%s" % (pos, val[:20]), cli=(k % 40 == 0))
        dist["type_confusions"] += 1
    # 2. byte mutations of a corpus
    corpus = [gen.yaml_doc(c).encode() for c in list(c10.defect_configs().values())] + [gen.yaml_doc(gen.gen_config(ctx.rng)).encode() for _ in range(20)]
    corpus += [open(os.path.join(core.REPO, "internal/gontainer", f), "rb").read() for f in os.listdir(os.path.join(core.REPO, "internal/gontainer")) if f.endswith(".yaml")]
    corpus += [open(os.path.join(core.REPO, "internal/cmd/testdata", f), "rb").read() for f in os.listdir(os.path.join(core.REPO, "internal/cmd/testdata")) if f.endswith(".yaml")]
    t_end = time.time() + budget * 0.45
    k = 0
    while time.time() < t_end:
        b = mutate_bytes(ctx.rng, ctx.rng.choice(corpus))
        flags = ctx.rng.choice([{}, {"stub": True}, {"quiet": True}, {"ignoreParams": True, "ignoreServices": True}])
        one({"cfg/a.yaml": b, "cfg/b.yaml": ctx.rng.choice(corpus)}, ctx.rng.choice([["cfg/a.yaml"], ["cfg/*.yaml"], ["cfg/a.yaml", "cfg/b.yaml"]]), flags, "mutation", cli=(k % 50 == 0))
        dist["mutations"] += 1
        k += 1
    # 3. arbitrary glob patterns
    for pat in ["", "[", "[]", "[a-", "\\", "cfg/[", "**", "cfg/**/*.yaml", "cfg/{a,b}.yaml", "cfg/?.yaml", "/", ".", "..", "cfg", "cfg/", "cfg/a.yaml/", "~", "cfg/\x00.yaml", "cfg/" + "a" * 300, "*" * 50]:
        one({"cfg/a.yaml": corpus[0]}, [pat, "cfg/a.yaml"] if ctx.rng.random() < 0.5 else [pat], {}, "glob:" + pat[:20])
        dist["glob_patterns"] += 1
    return {"evaluations": dist["type_confusions"] + dist["mutations"] + dist["glob_patterns"], "distinct_nontrivial": len(nontriv),
            "rule": "type confusions: %d YAML values (scalar/sequence/mapping/null/anchor/alias/tag/deep/long) x %d schema positions; byte mutations of a corpus of valid+invalid configurations for the rest of the %ds budget; 20 pathological glob patterns; all in-process with panics recovered, a sample through the CLI under a timeout; distinct = distinct (exit, diagnostic class set)" % (len(CONFUSIONS), len(POSITIONS), budget),
            "samples": [{"pos": "services.s.calls.0", "val": "{a: 1}"}, {"glob": "cfg/["}], "distribution": dist, "violations": violations, "corr_fail": []}


def search(ctx):
    return run(ctx, budget=120)


def replay(ctx, payload):
    sc = payload["scenario"]
    files = {n: (c if n.endswith("") and isinstance(c, str) else c) for n, c in sc["files"].items()}
    root = os.path.join(ctx.scratch(), "fzr")
    runsc.setup_dir(root, dict(sc, files={n: c.encode("latin-1") if payload.get("sig", "").startswith("panic") and not c.isascii() else c for n, c in files.items()}))
    ctx.impl.ask({"op": "chdir", "dir": root})
    args = []
    for p in sc["patterns"]:
        args += ["-i", p]
    args += ["-o", sc["out"]] + runsc.flags_args(sc.get("flags", {}))
    ip = ctx.impl.ask({"op": "build", "version": "", "buildInfo": "fz", "args": args})
    v = [{"sig": payload.get("sig"), "what": ip.get("panic"), "scenario": sc}] if "panic" in ip else []
    return {"evaluations": 1, "distinct_nontrivial": 1, "violations": v, "samples": [sc["name"]]}
