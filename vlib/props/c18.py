"""C18 — version compatibility gate."""
import os, re, subprocess
from vlib import core, gen

LEVEL = "proof"
TEXT = ("The gate's truth table (major 0: same major.minor; major >= 1: same major and minor not greater; patch/prerelease/build never matter; "
        "no version or non-semver build skips the check; a leading v is a parse error) is proved for ALL parsed versions with unbounded numbers; "
        "the parser model of x/mod/semver and the validator are run against the real YAML path + validator on a grid of (B, V) pairs, and the "
        "implementation's verdicts are judged by an independent table written from docs/VERSION.md. main.go's handling of the linker-provided version is covered: linker_v_stripped / linker_gate (a leading v is dropped whenever the rest is a semantic version, whatever suffix it carries) over normalizeBuild; the real buildVersion()/buildInfo() of package main (built with a probe file through -overlay) are run against normalizeBuild on a grid of several hundred to thousands of linker spellings; pin_main_handed (main() hands bv.GitVersion to the command); and the CLI linked with -X main.version=… run end to end.")
TECHNIQUE = "Lean 4 theorems over the version-gate model (case analysis, omega) + model-vs-implementation correspondence on a (B,V) grid"
LEAN_PROPS = ["C18"]
TRUSTED = ["golang.org/x/mod/semver is modelled (Model/Semver.parse), tied by the correspondence run"]
DETERMINISTIC = True   # no random generation: further thorough rounds would repeat the same cases
ASSUMPTIONS = []


MAJORS = [0, 1, 2, 3, 10]
MINORS = [0, 1, 2, 3, 9, 10, 12, 20, 100]


def versions(full=True):
    out = []
    for ma in MAJORS:
        for mi in MINORS:
            for pa in ((0, 7) if full else (3,)):
                base = "%d.%d.%d" % (ma, mi, pa)
                out += [base, base + "-alpha.1", base + "+build.5", base + "-rc.1+b"] if full else [base, base + "-rc.1+b"]
    return out


MALFORMED_V = ["v1.0.0", "1", "1.2", "01.2.3", "1.02.3", "1.2.3-", "1.2.3-01", "1.2.3+", "x", "", "1.2.3.4", "1.2.3-a..b", " 1.2.3", "1.2.3 ", "10.20.30", "1.2.3-0", "1.2.3-00", "1.2.3-0a"]
NON_SEMVER_B = ["devel", "dev-main", "", "(devel)", "v1.2.3", "1.2", "1"]


def py_parse(v):
    m = re.fullmatch(r"(0|[1-9]\d*)(?:\.(0|[1-9]\d*)(?:\.(0|[1-9]\d*)(-[0-9A-Za-z.-]+)?(\+[0-9A-Za-z.-]+)?)?)?", v)
    if not m:
        return None
    if (m.group(4) or m.group(5)) and m.group(3) is None:
        return None
    for part, num in ((m.group(4), True), (m.group(5), False)):
        if part:
            for ident in part[1:].split("."):
                if ident == "" or (num and re.fullmatch(r"\d+", ident) and len(ident) > 1 and ident[0] == "0"):
                    return None
    return int(m.group(1)), int(m.group(2) or 0)


def expected_accept(b, v):
    pb, pv = py_parse(b), py_parse(v)
    if pb is None:
        return True
    if pb[0] == 0:
        return pv[0] == 0 and pv[1] == pb[1]
    return pv[0] == pb[0] and pv[1] <= pb[1]


LINKER_VERSIONS = ["v1.4.2+build5", "v0.4.1", "1.4.2", "dev", "v1.4.2-rc.1+build5", "v0.4.1+20240101", "v2.0.0-alpha", "", "v1.04.2"]
E2E_CONFS = [None, "1.4.0", "1.5.0", "2.0.0", "0.4.0", "0.5.0", "1.10.0", "1.4.9-x+y"]


def normalize_linker(l):
    """main.go as documented: one leading v is dropped iff the rest is a semantic version"""
    return l[1:] if l.startswith("v") and py_parse(l[1:]) is not None else l


def e2e(ctx):
    """the whole path: the CLI linked with -X main.version=<linker version>, run on configurations declaring V"""
    d = ctx.scratch()
    violations, corr_fail, n = [], [], 0
    linkers = LINKER_VERSIONS[:4] if ctx.quick else LINKER_VERSIONS
    mreqs = []
    for k, l in enumerate(linkers):
        exe = os.path.join(d, "g%d" % k)
        p = subprocess.run(["go", "build", "-ldflags", "-X main.version=" + l, "-o", exe, "."], cwd=core.REPO, env=core.GOENV,
                           stdout=subprocess.PIPE, stderr=subprocess.STDOUT, text=True)
        if p.returncode != 0:
            violations.append({"sig": "e2e-build", "what": "CLI does not link with -X main.version=%s: %s" % (l, p.stdout[-300:])})
            continue
        b = normalize_linker(l)
        for j, v in enumerate(E2E_CONFS):
            f = os.path.join(d, "c%d_%d.yaml" % (k, j))
            open(f, "w").write(("version: %s\n" % gen.yaml_str(v) if v is not None else "") + "parameters: {p: 1}\n")
            out = os.path.join(d, "o%d_%d.go" % (k, j))
            q = subprocess.run([exe, "build", "-i", f, "-o", out], cwd=d, env=dict(os.environ, NO_COLOR="1"), stdout=subprocess.PIPE, stderr=subprocess.STDOUT, text=True, timeout=60)
            acc = q.returncode == 0
            want = True if v is None else expected_accept(b, v)
            n += 1
            if acc != want:
                violations.append({"sig": "gate-e2e", "what": "CLI linked with version %r, configuration version %r: %s but the documented rule (build %r) says %s" % (
                    l, v, "accepted" if acc else "rejected", b, "accept" if want else "reject"), "input": {"linker": l, "version": v}, "observed": q.stdout[-400:]})
            mreqs.append(({"op": "linkerVersion", "linker": l, "given": v}, acc))
    if ctx.have_model and mreqs:
        rm = ctx.model.ask_many([m for m, _ in mreqs])
        for (m, acc), r in zip(mreqs, rm):
            if (not r.get("errs")) != acc and len(corr_fail) < 10:
                corr_fail.append({"op": "linkerVersion", "req": m, "impl": {"accepted": acc}, "model": r})
    return violations, corr_fail, n


def main_probe(ctx):
    """main.go's own handling of the linker values, run for real: the package main of /repo is built with one extra file (overlay,
    build tag verif) that feeds linker values to buildVersion()/buildInfo() and prints the results; compared with the model's
    normalizeBuild and judged by the documented rule, on a grid of spellings far larger than the CLIs the e2e part links"""
    import json
    ov = os.path.join(core.CACHE, "overlay-main.json")
    json.dump({"Replace": {os.path.join(core.REPO, "zz_verif_mainprobe.go"): os.path.join(core.VERIF, "tools", "mainprobe", "zz_verif_mainprobe.go.txt")}}, open(ov, "w"))
    exe = os.path.join(core.CACHE, "mainprobe")
    p = subprocess.run(["go", "build", "-tags", "verif", "-overlay", ov, "-o", exe, "."], cwd=core.REPO, env=core.GOENV, stdout=subprocess.PIPE, stderr=subprocess.STDOUT, text=True)
    if p.returncode != 0:
        raise core.TieBroken("mainprobe-build", p.stdout[-800:])
    cores = ["1.4.2", "0.4.1", "1.4", "1", "01.2.3", "1.02.3", "1.2.3-rc.1", "1.2.3+b5", "1.2.3-rc.1+b5", "1.2.3-01", "1.2.3-", "1.2.3+", "dev", "", "1.2.3.4",
             "(devel)", "10.20.30", "1.2.3-a..b", "1.2.3 ", " 1.2.3", "1.2.3-0a", "v1.2.3", "1.x.3", "1.2.3-\u00e9"]
    rng = ctx.rng
    for _ in range(60 if ctx.quick else 2000):
        c = "%d.%d.%d" % (rng.randint(0, 30), rng.randint(0, 30), rng.randint(0, 30))
        c += rng.choice(["", "", "-rc.%d" % rng.randint(0, 9), "+b%d" % rng.randint(0, 9), "-0%d" % rng.randint(0, 9), "-a+b.c", "+", ".7"])
        cores.append(c)
    linkers = [pre + c for c in cores for pre in ("", "v", "vv", "V", "v ")]
    others = [{"Commit": "", "Dirty": "", "Date": "", "BuiltBy": ""}, {"Commit": "abc123", "Dirty": "true", "Date": "2024-01-01", "BuiltBy": "me"},
              {"Commit": "abc123", "Dirty": "false", "Date": "", "BuiltBy": ""}, {"Commit": "", "Dirty": "maybe", "Date": "d", "BuiltBy": ""}]
    others += [{"Commit": "unknown", "Dirty": "true", "Date": "unknown", "BuiltBy": "x"}, {"Commit": "c", "Dirty": "TRUE", "Date": "unknown", "BuiltBy": ""}]
    # the first request carries no linker value at all: its answer is what the Go build info provides (the defaults)
    reqs = [{"Version": "", "Commit": "", "Dirty": "", "Date": "", "BuiltBy": ""}]
    reqs += [dict(others[k % len(others)], Version=l) for k, l in enumerate(linkers)]
    q = subprocess.run([exe], input="".join(json.dumps(r) + "\n" for r in reqs), env=dict(os.environ, VERIF_MAIN_PROBE="1"), stdout=subprocess.PIPE, stderr=subprocess.PIPE, text=True, timeout=300)
    outs = [json.loads(l) for l in q.stdout.splitlines() if l.strip()]
    violations, corr_fail = [], []
    if q.returncode != 0 or len(outs) != len(reqs):
        violations.append({"sig": "main-probe", "what": "probe of package main failed: exit %d, %d of %d answers: %s" % (q.returncode, len(outs), len(reqs), q.stderr[-300:])})
        return violations, corr_fail, 0, 0
    defaults = {k: outs[0][k] for k in ("gitVersion", "gitCommit", "treeState", "buildDate", "builtBy")}
    rm = ctx.model.ask_many([dict(r, op="mainInfo", defaults=defaults) for r in reqs]) if ctx.have_model else [None] * len(reqs)
    stripped = 0
    for r, o, m in zip(reqs[1:], outs[1:], rm[1:]):
        l = r["Version"]
        want = normalize_linker(l) if l != "" else outs[0]["gitVersion"]
        stripped += want != l and l != ""
        if o["gitVersion"] != want:
            violations.append({"sig": "linker-normalisation", "what": "linker version %r becomes %r; documented: one leading v is dropped iff the rest is a semantic version: %r" % (l, o["gitVersion"], want), "input": {"linker": l}})
        if m is not None and {k: m.get(k) for k in o} != o and len(corr_fail) < 10:
            corr_fail.append({"op": "mainInfo", "req": r, "impl": o, "model": m})
        # the header line starts with the version whatever else the linker provides
        if not o["buildInfo"].startswith(o["gitVersion"]):
            violations.append({"sig": "linker-normalisation", "what": "build info %r does not start with the version %r" % (o["buildInfo"], o["gitVersion"]), "input": r})
    return violations, corr_fail, len(reqs), stripped


def multi_file(ctx):
    """the version of a configuration read from several files is the merged one (the last file that declares one), every file's
    version is parsed (a non-semver one is a parse error wherever the file stands in the read order), and the gate judges the
    merged version; whole command in-process with a build version, compared with the runner model and judged directly"""
    from vlib import runsc
    valid = "parameters: {p: 1}\n"
    def ver(v):
        return "version: %s\n" % gen.yaml_str(v) + valid
    cases = [
        ("bad-version-first-of-glob", {"cfg/10.yaml": ver("v1.4.0"), "cfg/20.yaml": valid}, ["cfg/*.yaml"], "1.4.2", False),
        ("bad-version-middle-of-glob", {"cfg/10.yaml": valid, "cfg/20.yaml": ver("1.4.0.0"), "cfg/30.yaml": ver("1.4.0")}, ["cfg/*.yaml"], "1.4.2", False),
        ("bad-version-last-of-glob", {"cfg/10.yaml": valid, "cfg/20.yaml": ver("v1.4.0")}, ["cfg/*.yaml"], "1.4.2", False),
        ("bad-version-first-pattern", {"cfg/10.yaml": ver("x"), "cfg/20.yaml": valid}, ["cfg/10.yaml", "cfg/20.yaml"], "1.4.2", False),
        ("version-only-in-first-file-rejected", {"cfg/10.yaml": ver("2.0.0"), "cfg/20.yaml": valid}, ["cfg/*.yaml"], "1.4.2", False),
        ("version-only-in-first-file-accepted", {"cfg/10.yaml": ver("1.3.0"), "cfg/20.yaml": valid}, ["cfg/*.yaml"], "1.4.2", True),
        ("later-file-wins-accept", {"cfg/10.yaml": ver("2.0.0"), "cfg/20.yaml": ver("1.4.0")}, ["cfg/*.yaml"], "1.4.2", True),
        ("later-file-wins-reject", {"cfg/10.yaml": ver("1.4.0"), "cfg/20.yaml": ver("2.0.0")}, ["cfg/*.yaml"], "1.4.2", False),
        ("later-pattern-wins-reject", {"cfg/10.yaml": ver("2.0.0"), "cfg/20.yaml": ver("1.4.0")}, ["cfg/20.yaml", "cfg/10.yaml"], "1.4.2", False),
        ("prerelease-build-lower-minor", {"cfg/10.yaml": ver("1.2.0")}, ["cfg/10.yaml"], "1.3.0-rc.1", True),
        ("prerelease-build-lower-minor-2-files", {"cfg/10.yaml": ver("1.9.0"), "cfg/20.yaml": ver("1.2.0-beta+x")}, ["cfg/*.yaml"], "1.3.0-rc.1+b5", True),
        ("devel-build-skips-gate-not-parse", {"cfg/10.yaml": ver("v9"), "cfg/20.yaml": valid}, ["cfg/*.yaml"], "devel", False),
        ("devel-build-skips-gate", {"cfg/10.yaml": ver("9.9.9"), "cfg/20.yaml": valid}, ["cfg/*.yaml"], "devel", True),
    ]
    violations, corr_fail = [], []
    for name, files, pats, build, want in cases:
        sc = {"name": name, "files": files, "patterns": pats, "out": "out/gen.go", "pre": "absent", "flags": {"quiet": True}, "version": build}
        r = runsc.run_scenario(ctx, sc)
        ip = r.get("inproc") or {}
        if "panic" in ip:
            violations.append({"sig": "panic", "what": ip["panic"], "input": {"build": build, "case": name}}); continue
        acc = ip.get("exit") == 0
        if acc != want:
            violations.append({"sig": "gate-multi-file", "what": "%s: build %r, files %r under %r: %s, expected %s (%s)" % (
                name, build, files, pats, "accepted" if acc else "rejected", "accept" if want else "reject", (ip.get("errs") or [""])[0][:200]), "input": {"build": build, "case": name}})
        for d in r["diffs"][:1]:
            if len(corr_fail) < 10:
                corr_fail.append({"op": "run:" + d[0], "scenario": sc, "impl": d[1], "model": d[2]})
    return violations, corr_fail, len(cases)


def run(ctx):
    vs = versions(full=not ctx.quick)
    # stride 3 over [release, prerelease+build, release, …]: builds of both forms in every tier
    builds = vs[::3] + NON_SEMVER_B
    confs = vs if ctx.quick else vs[::2]
    reqs, meta = [], []
    for b in builds:
        for v in confs:
            reqs.append({"op": "version", "build": b, "yaml": "version: %s\n" % gen.yaml_str(v)})
            meta.append((b, v, "grid"))
        reqs.append({"op": "version", "build": b, "yaml": "parameters: {}\n"})
        meta.append((b, None, "none"))
    for v in MALFORMED_V:
        reqs.append({"op": "version", "build": "1.2.3", "yaml": "version: %s\n" % gen.yaml_str(v)})
        meta.append(("1.2.3", v, "malformed"))
    for raw in ("1.2", "1", "true", "[1,2]", "{a: 1}", "1.2.3"):
        reqs.append({"op": "version", "build": "1.2.3", "yaml": "version: %s\n" % raw})
        meta.append(("1.2.3", raw, "rawnode"))
    ri = ctx.impl.ask_many(reqs)
    violations, corr_fail, nontriv = [], [], set()
    dist = {"accepted": 0, "rejected": 0, "decode_error": 0, "skipped_build": 0}
    mreqs = []
    for (b, v, kind), a in zip(meta, ri):
        if "panic" in a:
            violations.append({"sig": "panic", "what": a["panic"], "input": {"build": b, "version": v}}); continue
        if kind == "grid" or kind == "none":
            if "decodeErr" in a:
                violations.append({"sig": "valid-version-rejected-by-yaml", "what": "valid version %r is a parse error: %s" % (v, a["decodeErr"]), "input": {"build": b, "version": v}})
                continue
            acc = not a["errs"]
            want = True if v is None else expected_accept(b, v)
            dist["accepted" if acc else "rejected"] += 1
            dist["skipped_build"] += py_parse(b) is None
            if acc != want:
                violations.append({"sig": "gate-table", "what": "build %r, configuration version %r: %s but the documented rule says %s" % (
                    b, v, "accepted" if acc else "rejected " + str(a["errs"]), "accept" if want else "reject"), "input": {"build": b, "version": v}, "observed": a})
            if v is not None and py_parse(b) is not None:
                nontriv.add((py_parse(b), py_parse(v)))
            mreqs.append(({"op": "version", "build": b, "given": v}, a))
        else:
            dist["decode_error"] += "decodeErr" in a
            valid = kind == "malformed" and py_parse(v) is not None
            if kind == "rawnode":
                valid = False  # non-string YAML nodes (1.2 is a float, 1 an int, …); "1.2.3" plain is a string
                if v == "1.2.3":
                    valid = True
            if ("decodeErr" in a) == valid:
                violations.append({"sig": "version-parse", "what": "version node %r: %s, expected %s" % (v, "parse error" if "decodeErr" in a else "stored", "stored" if valid else "parse error"), "input": {"build": b, "version": v, "kind": kind}, "observed": a})
            if kind == "malformed":
                mreqs.append(({"op": "decodeVersion", "s": v}, a))
    if ctx.have_model:
        rm = ctx.model.ask_many([m for m, _ in mreqs])
        for (m, a), r in zip(mreqs, rm):
            if m["op"] == "version":
                same = a["errs"] == r.get("errs")
            else:
                same = ("decodeErr" in a) == ("err" in r)
            if not same and len(corr_fail) < 10:
                corr_fail.append({"op": m["op"], "req": m, "impl": a, "model": r})
    ev, ec, en = e2e(ctx)
    violations += ev
    corr_fail += ec
    dist["e2e_linked_binaries_x_configs"] = en
    mv, mc, mn = multi_file(ctx)
    violations += mv
    corr_fail += mc
    dist["multi_file_cases"] = mn
    pv, pc, pn, pstripped = main_probe(ctx)
    violations += pv
    corr_fail += pc
    dist["main_go_linker_values"] = pn
    dist["main_go_leading_v_dropped"] = pstripped
    return {"evaluations": len(reqs) + en + pn, "distinct_nontrivial": len(nontriv),
            "rule": "grid majors {0,1,2,3,10} x minors {0,1,2,3,9,10,12,20,100} x patches x {release, prerelease, +build, both} for build and configuration, plus non-semver builds, absent version, malformed version strings and non-string YAML nodes; non-trivial = distinct ((B.major,B.minor),(V.major,V.minor)) pairs with both valid",
            "samples": [reqs[0], reqs[len(reqs) // 2], reqs[-1]], "distribution": dist, "violations": violations, "corr_fail": corr_fail,
            "exhaustive": not ctx.quick}


def replay(ctx, payload):
    i = payload["input"]
    if "case" in i:
        vs, _, n = multi_file(ctx)
        return {"evaluations": n, "distinct_nontrivial": n, "violations": vs, "samples": [i]}
    if "linker" in i:
        vs, _, n = e2e(ctx)
        vs += main_probe(ctx)[0]
        return {"evaluations": n, "distinct_nontrivial": n, "violations": vs, "samples": [i]}
    y = "version: %s\n" % gen.yaml_str(i["version"]) if i.get("version") is not None else "parameters: {}\n"
    a = ctx.impl.ask({"op": "version", "build": i["build"], "yaml": y})
    v = []
    if "errs" in a and i.get("version") is not None and py_parse(i["version"]) is not None:
        if (not a["errs"]) != expected_accept(i["build"], i["version"]):
            v.append({"sig": "gate-table", "what": "verdict differs from the documented rule", "input": i, "observed": a})
    return {"evaluations": 1, "distinct_nontrivial": 1, "violations": v, "samples": [i]}
