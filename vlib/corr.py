"""Correspondence helpers shared by the properties that go through `compile`."""
import re
from vlib import core, gen


def pretty_to_node(p):
    if p.startswith("@"):
        return "service(%s)" % p[1:]
    if p.startswith("!tagged "):
        return "tag(%s)" % p[len("!tagged "):]
    if p.startswith("decorate(!tagged "):
        return "decorate(%s)" % p[len("decorate(!tagged "):-1]
    if p.startswith("decorator(#"):
        return p
    if p.startswith("%") and p.endswith("%"):
        return "param(%s)" % p[1:-1]
    return p


def parse_cycles(lines):
    out = []
    for l in lines:
        l = l[len("output.ValidateCircularDeps: "):] if l.startswith("output.ValidateCircularDeps: ") else l
        out.append([pretty_to_node(x) for x in l.split(" -> ")])
    return out


def compile_pair(ctx, files, version=""):
    """run impl compile + model compile on the same merged input; returns (impl, model, diffs)"""
    a = ctx.impl.ask({"op": "compile", "files": files, "version": version})
    if "panic" in a or "decodeErr" in a or not ctx.have_model:
        return a, None, []
    b = ctx.model.ask({"op": "compile", "input": a["input"], "version": version})
    diffs = []
    if a["errs"] != b.get("errs"):
        diffs.append(("errs", a["errs"], b.get("errs")))
    elif not a["errs"]:
        for k in ("output", "imports", "scope", "params", "services"):
            if core.canon(a.get(k)) != core.canon(b.get(k)):
                diffs.append((k, a.get(k), b.get(k)))
        if bool(a["cycles"]) != bool(b.get("cyclic")):
            diffs.append(("cyclic", a["cycles"], b.get("cyclic")))
        if not b.get("reachOk", True):
            diffs.append(("reachOk", None, False))
        if a["cycles"]:
            cyc = parse_cycles(a["cycles"])
            c = ctx.model.ask({"op": "cyclecheck", "input": a["input"], "version": version, "cycles": cyc})
            if not all(c.get("valid", [False])):
                diffs.append(("cycle-lines-are-cycles", a["cycles"], c))
            covered = {n for cy in cyc for n in cy}
            on = set(b.get("onCycle", []))
            if not on <= covered:
                diffs.append(("cycle-cover", sorted(covered), sorted(on)))
    return a, b, diffs


def files_of(cfg_or_files):
    if isinstance(cfg_or_files, dict):
        return [gen.yaml_doc(cfg_or_files)]
    return [gen.yaml_doc(f) for f in cfg_or_files]
